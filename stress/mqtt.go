package main

// A minimal MQTT client-side codec (3.1.1, and the few v5 forms the probes need), written
// from the OASIS text; independent of pkg/packets.

import (
	"bufio"
	"errors"
	"fmt"
	"io"
)

const (
	tCONNECT     = 1
	tCONNACK     = 2
	tPUBLISH     = 3
	tPUBACK      = 4
	tPUBREC      = 5
	tPUBREL      = 6
	tPUBCOMP     = 7
	tSUBSCRIBE   = 8
	tSUBACK      = 9
	tUNSUBSCRIBE = 10
	tUNSUBACK    = 11
	tPINGREQ     = 12
	tPINGRESP    = 13
	tDISCONNECT  = 14
)

type pkt struct {
	typ   byte
	flags byte
	body  []byte
}

func encLen(n int) []byte {
	var b []byte
	for {
		d := byte(n % 128)
		n /= 128
		if n > 0 {
			d |= 0x80
		}
		b = append(b, d)
		if n == 0 {
			return b
		}
	}
}

func frame(typ, flags byte, body []byte) []byte {
	out := []byte{typ<<4 | flags}
	out = append(out, encLen(len(body))...)
	return append(out, body...)
}

func str(s string) []byte { return append([]byte{byte(len(s) >> 8), byte(len(s))}, s...) }

func connectPacket(v5 bool, id string, clean bool, keepAlive uint16) []byte {
	var b []byte
	b = append(b, str("MQTT")...)
	flags := byte(0)
	if clean {
		flags |= 0x02
	}
	if v5 {
		b = append(b, 5, flags, byte(keepAlive>>8), byte(keepAlive), 0 /* no properties */)
	} else {
		b = append(b, 4, flags, byte(keepAlive>>8), byte(keepAlive))
	}
	b = append(b, str(id)...)
	return frame(tCONNECT, 0, b)
}

func subscribePacket(v5 bool, pid uint16, topic string, qos byte) []byte {
	b := []byte{byte(pid >> 8), byte(pid)}
	if v5 {
		b = append(b, 0)
	}
	b = append(b, str(topic)...)
	b = append(b, qos)
	return frame(tSUBSCRIBE, 2, b)
}

func unsubscribePacket(pid uint16, topic string) []byte {
	b := []byte{byte(pid >> 8), byte(pid)}
	b = append(b, str(topic)...)
	return frame(tUNSUBSCRIBE, 2, b)
}

func publishPacket(v5 bool, pid uint16, topic string, qos byte, retain bool, payload []byte) []byte {
	b := str(topic)
	if qos > 0 {
		b = append(b, byte(pid>>8), byte(pid))
	}
	if v5 {
		b = append(b, 0)
	}
	b = append(b, payload...)
	fl := qos << 1
	if retain {
		fl |= 1
	}
	return frame(tPUBLISH, fl, b)
}

func ackPacket(typ byte, pid uint16) []byte {
	fl := byte(0)
	if typ == tPUBREL {
		fl = 2
	}
	return frame(typ, fl, []byte{byte(pid >> 8), byte(pid)})
}

func pingreqPacket() []byte    { return frame(tPINGREQ, 0, nil) }
func disconnectPacket() []byte { return frame(tDISCONNECT, 0, nil) }

func readPkt(r *bufio.Reader) (*pkt, error) {
	h, err := r.ReadByte()
	if err != nil {
		return nil, err
	}
	n, mult := 0, 1
	for i := 0; ; i++ {
		d, err := r.ReadByte()
		if err != nil {
			return nil, err
		}
		n += int(d&0x7f) * mult
		mult *= 128
		if d&0x80 == 0 {
			break
		}
		if i >= 3 {
			return nil, errors.New("bad remaining length")
		}
	}
	body := make([]byte, n)
	if _, err := io.ReadFull(r, body); err != nil {
		return nil, err
	}
	return &pkt{typ: h >> 4, flags: h & 0x0f, body: body}, nil
}

// publish fields of an incoming PUBLISH (v3.1.1 layout; v5 only adds properties before the payload)
func (p *pkt) publishInfo() (qos byte, pid uint16, err error) {
	if p.typ != tPUBLISH {
		return 0, 0, fmt.Errorf("not a publish")
	}
	qos = (p.flags >> 1) & 3
	if len(p.body) < 2 {
		return 0, 0, fmt.Errorf("short publish")
	}
	tl := int(p.body[0])<<8 | int(p.body[1])
	if len(p.body) < 2+tl {
		return 0, 0, fmt.Errorf("short publish")
	}
	if qos > 0 {
		if len(p.body) < 4+tl {
			return 0, 0, fmt.Errorf("short publish")
		}
		pid = uint16(p.body[2+tl])<<8 | uint16(p.body[3+tl])
	}
	return qos, pid, nil
}

func (p *pkt) pid() uint16 {
	if len(p.body) < 2 {
		return 0
	}
	return uint16(p.body[0])<<8 | uint16(p.body[1])
}
