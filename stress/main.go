// Command stress: concurrency stress and targeted probes for property C15 of the gmqtt
// verification (see README.md).
//
//	stress -seed S -rounds N -clients K -seconds T [-watchdog W] [-probe name] [-report file]
//
// Output (stdout, last line):
//
//	STRESS ok seed=.. mode=.. rounds=.. clients=.. sessions=.. requests=.. maxlatency_ms=.. stop_ms=..
//	STRESS FAIL kind=race|panic|watchdog|leak|stop seed=.. mode=.. detail=...
//
// The program runs itself as a child process (the real work) and scans the child's stderr for
// race-detector reports and runtime panics; a race report is a FAIL kind=race even when the run
// itself completed.
package main

import (
	"bytes"
	"flag"
	"fmt"
	"os"
	"os/exec"
	"strings"
	"time"
)

var (
	flagSeed     = flag.Int64("seed", 1, "seed of every random choice")
	flagRounds   = flag.Int("rounds", 20, "sessions per client goroutine (upper bound)")
	flagClients  = flag.Int("clients", 8, "concurrent client goroutines")
	flagSeconds  = flag.Int("seconds", 5, "duration of the traffic phase (upper bound)")
	flagWatchdog = flag.Duration("watchdog", 5*time.Second, "bound on every request, on every API call and on Stop")
	flagProbe    = flag.String("probe", "", "run one targeted probe instead of the random stress: "+strings.Join(probeNames(), "|"))
	flagReport   = flag.String("report", "", "write the captured output of the child process to this file")
	flagIDPool   = flag.Int("idpool", 0, "number of distinct client ids (default 2*clients): smaller = more CONNECTs with one id at a time")
	flagPersist  = flag.Bool("persist", true, "half of the sessions use clean session = 0 (false: every session is clean)")
	flagMode     = flag.String("delivery", "onlyonce", "mqtt.delivery_mode of the broker (onlyonce|overlap)")
)

func main() {
	flag.Parse()
	if os.Getenv("VERIF_STRESS_CHILD") == "1" {
		os.Exit(child())
	}
	os.Exit(parent())
}

func modeName() string {
	if *flagProbe != "" {
		return "probe:" + *flagProbe
	}
	return "stress"
}

func parent() int {
	exe, err := os.Executable()
	if err != nil {
		fmt.Printf("STRESS FAIL kind=panic seed=%d mode=%s detail=cannot find own executable: %v\n", *flagSeed, modeName(), err)
		return 1
	}
	cmd := exec.Command(exe, os.Args[1:]...)
	// halt_on_error=0: collect every report; exitcode=66 is the default for "races were reported"
	cmd.Env = append(os.Environ(), "VERIF_STRESS_CHILD=1", "GORACE=halt_on_error=0")
	var out, errb bytes.Buffer
	cmd.Stdout, cmd.Stderr = &out, &errb
	hard := time.Duration(*flagSeconds)*time.Second + 12**flagWatchdog + 60*time.Second
	done := make(chan error, 1)
	if err := cmd.Start(); err != nil {
		fmt.Printf("STRESS FAIL kind=panic seed=%d mode=%s detail=cannot start child: %v\n", *flagSeed, modeName(), err)
		return 1
	}
	go func() { done <- cmd.Wait() }()
	var werr error
	killed := false
	select {
	case werr = <-done:
	case <-time.After(hard):
		_ = cmd.Process.Kill()
		werr = <-done
		killed = true
	}
	stdout, stderr := out.String(), errb.String()
	if *flagReport != "" {
		_ = os.WriteFile(*flagReport, []byte(fmt.Sprintf("args: %s\n--- stdout ---\n%s\n--- stderr ---\n%s\n", strings.Join(os.Args[1:], " "), stdout, stderr)), 0o644)
	}
	line := ""
	for _, l := range strings.Split(stdout, "\n") {
		if strings.HasPrefix(l, "STRESS ") {
			line = l
		}
	}
	first := func(s string, marker string) string {
		i := strings.Index(s, marker)
		if i < 0 {
			return ""
		}
		rest := s[i:]
		ls := strings.Split(rest, "\n")
		if len(ls) > 12 {
			ls = ls[:12]
		}
		return strings.Join(ls, " | ")
	}
	switch {
	case strings.Contains(stderr, "WARNING: DATA RACE"):
		n := strings.Count(stderr, "WARNING: DATA RACE")
		fmt.Printf("STRESS FAIL kind=race seed=%d mode=%s detail=%d race report(s); first: %s\n", *flagSeed, modeName(), n, first(stderr, "WARNING: DATA RACE"))
		return 1
	case strings.Contains(stderr, "fatal error:") || strings.Contains(stderr, "\npanic:") || strings.HasPrefix(stderr, "panic:"):
		m := "panic:"
		if strings.Contains(stderr, "fatal error:") {
			m = "fatal error:"
		}
		fmt.Printf("STRESS FAIL kind=panic seed=%d mode=%s detail=%s\n", *flagSeed, modeName(), first(stderr, m))
		return 1
	case killed:
		fmt.Printf("STRESS FAIL kind=watchdog seed=%d mode=%s detail=child process did not finish within %s (killed); last output: %s\n", *flagSeed, modeName(), hard, lastLine(stdout))
		return 1
	case line == "":
		fmt.Printf("STRESS FAIL kind=panic seed=%d mode=%s detail=child ended (%v) without a result line; stderr: %s\n", *flagSeed, modeName(), werr, lastLine(stderr))
		return 1
	}
	fmt.Println(line)
	if strings.HasPrefix(line, "STRESS ok") {
		return 0
	}
	return 1
}

func lastLine(s string) string {
	ls := strings.Split(strings.TrimSpace(s), "\n")
	if len(ls) == 0 {
		return ""
	}
	return ls[len(ls)-1]
}

func child() int {
	var f *failure
	var okLine string
	if *flagProbe != "" {
		p, ok := probes[*flagProbe]
		if !ok {
			fmt.Printf("STRESS FAIL kind=panic seed=%d mode=%s detail=unknown probe (have %s)\n", *flagSeed, modeName(), strings.Join(probeNames(), ","))
			return 2
		}
		okLine, f = p()
	} else {
		okLine, f = runStress()
	}
	if f != nil {
		fmt.Printf("STRESS FAIL kind=%s seed=%d mode=%s detail=%s\n", f.kind, *flagSeed, modeName(), strings.ReplaceAll(f.detail, "\n", " | "))
		return 1
	}
	fmt.Printf("STRESS ok seed=%d mode=%s %s\n", *flagSeed, modeName(), okLine)
	return 0
}
