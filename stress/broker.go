package main

import (
	"context"
	"fmt"
	"net"
	"runtime"
	"sort"
	"strings"
	"sync"
	"sync/atomic"
	"time"

	"github.com/DrmagicE/gmqtt/config"
	_ "github.com/DrmagicE/gmqtt/persistence"
	"github.com/DrmagicE/gmqtt/server"
	_ "github.com/DrmagicE/gmqtt/topicalias/fifo"
)

type failure struct{ kind, detail string }

func failf(kind, format string, args ...interface{}) *failure {
	return &failure{kind, fmt.Sprintf(format, args...)}
}

// a plugin that counts what the property talks about
type stressPlugin struct {
	load, unload, onStop, connected, closed int64
	// acceptGate: when set, the OnAccept hook reports the accepted connection on acceptSeen and
	// waits until acceptRelease is closed (probe stop-vs-inflight-accept: a slow OnAccept hook)
	acceptGate    int32
	acceptSeen    chan struct{}
	acceptRelease chan struct{}
	// closedDelay (ns): when set, the OnClosed hook sleeps that long (probe stop-waits-teardown: a slow
	// tear-down); closedBegin/closedEnd count the OnClosed calls begun / returned; pendingAtStop is the
	// number of OnClosed calls still running when OnStop fired
	closedDelay, closedBegin, closedEnd, pendingAtStop int64
}

func (p *stressPlugin) Load(server.Server) error { atomic.AddInt64(&p.load, 1); return nil }
func (p *stressPlugin) Unload() error            { atomic.AddInt64(&p.unload, 1); return nil }
func (p *stressPlugin) Name() string             { return "verifstress" }
func (p *stressPlugin) HookWrapper() server.HookWrapper {
	return server.HookWrapper{
		OnStopWrapper: func(pre server.OnStop) server.OnStop {
			return func(ctx context.Context) {
				atomic.AddInt64(&p.onStop, 1)
				atomic.StoreInt64(&p.pendingAtStop, atomic.LoadInt64(&p.closedBegin)-atomic.LoadInt64(&p.closedEnd))
				pre(ctx)
			}
		},
		OnAcceptWrapper: func(pre server.OnAccept) server.OnAccept {
			return func(ctx context.Context, conn net.Conn) bool {
				if atomic.CompareAndSwapInt32(&p.acceptGate, 1, 2) {
					close(p.acceptSeen)
					<-p.acceptRelease
				}
				return pre(ctx, conn)
			}
		},
		OnConnectedWrapper: func(pre server.OnConnected) server.OnConnected {
			return func(ctx context.Context, c server.Client) { atomic.AddInt64(&p.connected, 1); pre(ctx, c) }
		},
		OnClosedWrapper: func(pre server.OnClosed) server.OnClosed {
			return func(ctx context.Context, c server.Client, err error) {
				atomic.AddInt64(&p.closed, 1)
				atomic.AddInt64(&p.closedBegin, 1)
				if d := atomic.LoadInt64(&p.closedDelay); d > 0 {
					time.Sleep(time.Duration(d))
				}
				pre(ctx, c, err)
				atomic.AddInt64(&p.closedEnd, 1)
			}
		},
	}
}

type runner interface {
	server.Server
	Run() error
}

type broker struct {
	ln     net.Listener
	addr   string
	srv    runner
	plg    *stressPlugin
	runErr chan error
}

func startBroker(mod func(c *config.Config)) (*broker, *failure) {
	return startBrokerWith(mod, nil)
}

// startBrokerWith: `wrap` may replace the listener the broker is given (probe stop-vs-late-connect)
func startBrokerWith(mod func(c *config.Config), wrap func(net.Listener) net.Listener) (*broker, *failure) {
	ln, err := net.Listen("tcp", "127.0.0.1:0")
	if err != nil {
		return nil, failf("panic", "listen: %v", err)
	}
	addr := ln.Addr().String()
	if wrap != nil {
		ln = wrap(ln)
	}
	cfg := config.DefaultConfig()
	cfg.API = config.API{}
	cfg.Listeners = nil
	if mod != nil {
		mod(&cfg)
	}
	plg := &stressPlugin{acceptSeen: make(chan struct{}), acceptRelease: make(chan struct{})}
	srv := server.New(server.WithTCPListener(ln), server.WithConfig(cfg), server.WithPlugin(plg))
	b := &broker{ln: ln, addr: addr, srv: srv, plg: plg, runErr: make(chan error, 1)}
	go func() { b.runErr <- srv.Run() }()
	// wait until the broker answers a CONNECT (Init done, accept loop running)
	deadline := time.Now().Add(10 * time.Second)
	for {
		c, err := dialClient(b.addr, "bootstrap", false, true, 0, 3*time.Second)
		if err == nil {
			c.closeAbrupt()
			break
		}
		select {
		case e := <-b.runErr:
			return nil, failf("panic", "server.Run returned early: %v", e)
		default:
		}
		if time.Now().After(deadline) {
			return nil, failf("watchdog", "broker did not accept a CONNECT within 10s after start: %v", err)
		}
		time.Sleep(20 * time.Millisecond)
	}
	return b, nil
}

// stopBroker calls Stop from `callers` goroutines at once and checks what C15 says about it.
func (b *broker) stopBroker(callers int, bound time.Duration) (time.Duration, *failure) {
	t0 := time.Now()
	errs := make(chan error, callers)
	var wg sync.WaitGroup
	for i := 0; i < callers; i++ {
		wg.Add(1)
		go func() {
			defer wg.Done()
			ctx, cancel := context.WithTimeout(context.Background(), bound)
			defer cancel()
			errs <- b.srv.Stop(ctx)
		}()
	}
	done := make(chan struct{})
	go func() { wg.Wait(); close(done) }()
	select {
	case <-done:
	case <-time.After(bound + 2*time.Second):
		return time.Since(t0), failf("stop", "Stop did not return within %s (context timeout %s)", bound+2*time.Second, bound)
	}
	el := time.Since(t0)
	for i := 0; i < callers; i++ {
		if e := <-errs; e != nil {
			return el, failf("stop", "Stop returned %v after %s (unload=%d onstop=%d)", e, el.Round(time.Millisecond), atomic.LoadInt64(&b.plg.unload), atomic.LoadInt64(&b.plg.onStop))
		}
	}
	select {
	case <-b.runErr:
	case <-time.After(2 * time.Second):
		return el, failf("stop", "server.Run did not return within 2s after Stop")
	}
	if u, o := atomic.LoadInt64(&b.plg.unload), atomic.LoadInt64(&b.plg.onStop); u != 1 || o != 1 {
		return el, failf("stop", "after Stop: plugin Unload ran %d times, OnStop %d times (want 1, 1)", u, o)
	}
	if c, err := net.DialTimeout("tcp", b.addr, 500*time.Millisecond); err == nil {
		c.Close()
		return el, failf("stop", "listener %s still accepts connections after Stop", b.addr)
	}
	return el, nil
}

// brokerGoroutines: goroutines whose stack mentions the broker's packages
func brokerGoroutines() []string {
	buf := make([]byte, 1<<20)
	for {
		n := runtime.Stack(buf, true)
		if n < len(buf) {
			buf = buf[:n]
			break
		}
		buf = make([]byte, 2*len(buf))
	}
	var out []string
	for _, g := range strings.Split(string(buf), "\n\n") {
		if strings.Contains(g, "gmqtt/server.") || strings.Contains(g, "gmqtt/persistence") {
			out = append(out, g)
		}
	}
	return out
}

// leakCheck: after Stop no goroutine of the broker may remain (retries for `grace`)
func leakCheck(grace time.Duration) *failure {
	deadline := time.Now().Add(grace)
	var gs []string
	for {
		gs = brokerGoroutines()
		if len(gs) == 0 {
			return nil
		}
		if time.Now().After(deadline) {
			break
		}
		time.Sleep(50 * time.Millisecond)
	}
	return failf("leak", "%d broker goroutine(s) alive %s after Stop returned; first: %s", len(gs), grace, summarizeStack(gs[0]))
}

func summarizeStack(g string) string {
	var fr []string
	for _, l := range strings.Split(g, "\n") {
		l = strings.TrimSpace(l)
		if strings.HasPrefix(l, "goroutine ") {
			fr = append(fr, l)
			continue
		}
		if strings.HasPrefix(l, "/") || l == "" {
			continue
		}
		if i := strings.LastIndex(l, "("); i > 0 {
			l = l[:i]
		}
		fr = append(fr, l)
		if len(fr) > 7 {
			break
		}
	}
	return strings.Join(fr, " <- ")
}

// goroutineHistogram: where the broker's goroutines are (innermost broker frame -> count)
func goroutineHistogram() string {
	h := map[string]int{}
	for _, g := range brokerGoroutines() {
		where := "?"
		for _, l := range strings.Split(g, "\n") {
			l = strings.TrimSpace(l)
			if strings.Contains(l, "gmqtt/") && !strings.HasPrefix(l, "/") && !strings.HasPrefix(l, "created by") {
				if i := strings.LastIndex(l, "("); i > 0 {
					l = l[:i]
				}
				where = strings.TrimPrefix(l, "github.com/DrmagicE/gmqtt/")
				break
			}
		}
		h[where]++
	}
	var ks []string
	for k := range h {
		ks = append(ks, k)
	}
	sort.Strings(ks)
	var parts []string
	for _, k := range ks {
		parts = append(parts, fmt.Sprintf("%s x%d", k, h[k]))
	}
	return strings.Join(parts, ", ")
}
