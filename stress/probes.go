package main

// Targeted probes: each one drives the broker into one specific situation that the model
// (Model/ConnLife.v, Model/StopLife.v) or the lock table says is problematic, and checks
// the statement of the property there.  A probe prints STRESS ok when the broker behaves
// as the property says.

import (
	"bufio"
	"context"
	"fmt"
	"net"
	"sort"
	"sync"
	"sync/atomic"
	"time"

	"github.com/DrmagicE/gmqtt/config"
	"github.com/DrmagicE/gmqtt/server"
)

var probes = map[string]func() (string, *failure){
	"flood-after-disconnect":  probeFloodAfterDisconnect,
	"stop-during-connect":     probeStopDuringConnect,
	"stop-vs-late-connect":    probeStopVsLateConnect,
	"stop-vs-inflight-accept": probeStopVsInflightAccept,
	"once-deadlock":           probeOnceDeadlock,
	"same-id-storm":           probeSameIDStorm,
	"slow-subscriber":         probeSlowSubscriber,
	"overlap-lock-cycle":      probeOverlapLockCycle,
	"stop-waits-teardown":     probeStopWaitsTeardown,
	"terminate-vs-reconnect":  probeTerminateVsReconnect,
}

func probeNames() []string {
	var ns []string
	for n := range probes {
		ns = append(ns, n)
	}
	sort.Strings(ns)
	return ns
}

// waitUnregistered: the broker must forget the client within d
func waitUnregistered(b *broker, id string, d time.Duration) bool {
	deadline := time.Now().Add(d)
	for {
		if b.srv.ClientService().GetClient(id) == nil {
			return true
		}
		if time.Now().After(deadline) {
			return false
		}
		time.Sleep(20 * time.Millisecond)
	}
}

// finish: Stop + leak check, appended to every probe that got that far
func finish(b *broker, bound time.Duration, what string) (string, *failure) {
	el, f := b.stopBroker(1, bound)
	if f != nil {
		f.detail = what + ": " + f.detail
		return "", f
	}
	if f := leakCheck(2 * time.Second); f != nil {
		f.detail = what + ": " + f.detail
		return "", f
	}
	return fmt.Sprintf("stop_ms=%.1f", float64(el)/1e6), nil
}

// D1 (Model/ConnLife.v kf_reader_blocked_on_in): a client sends DISCONNECT and, in the same
// segment, more packets than the `in` channel buffers.  readHandle has returned, nobody drains
// `in`, readLoop blocks in `client.in <- packet` for ever; serve never reaches internalClose.
func probeFloodAfterDisconnect() (string, *failure) {
	bound := *flagWatchdog
	b, f := startBroker(nil)
	if f != nil {
		return "", f
	}
	c, err := dialClient(b.addr, "flood", false, true, 0, bound)
	if err != nil {
		return "", failf("watchdog", "CONNECT: %v", err)
	}
	buf := disconnectPacket()
	for i := 0; i < 12; i++ {
		buf = append(buf, pingreqPacket()...)
	}
	_ = c.send(buf)
	time.Sleep(200 * time.Millisecond)
	c.closePlain()
	if !waitUnregistered(b, "flood", 3*time.Second) {
		el, sf := b.stopBroker(1, 3*time.Second)
		stopTxt := fmt.Sprintf("Stop(3s) then returned nil after %s", el.Round(time.Millisecond))
		if sf != nil {
			stopTxt = "and then " + sf.detail
		}
		return "", failf("leak", "client that sent DISCONNECT followed by 12 PINGREQ in one write is still registered 3s after it closed its socket (readLoop blocked on the full `in` channel; goroutines: %d); %s",
			len(brokerGoroutines()), stopTxt)
	}
	return finish(b, bound, "flood-after-disconnect")
}

// Repaired finding (1d02d65; was kf_unregistered_survives): a connection that has not completed CONNECT when
// Stop takes its snapshot of srv.clients is neither closed nor waited for.
func probeStopDuringConnect() (string, *failure) {
	bound := *flagWatchdog
	b, f := startBroker(nil)
	if f != nil {
		return "", f
	}
	raw, err := net.DialTimeout("tcp", b.addr, bound)
	if err != nil {
		return "", failf("panic", "dial: %v", err)
	}
	defer raw.Close()
	time.Sleep(100 * time.Millisecond) // accepted, serve() running, waiting for CONNECT
	el, f := b.stopBroker(1, bound)
	if f != nil {
		return "", f
	}
	// the property: Stop returns after closing all connections; all per-connection goroutines have exited
	_ = raw.SetReadDeadline(time.Now().Add(1 * time.Second))
	one := make([]byte, 1)
	_, rerr := raw.Read(one)
	closedByBroker := rerr != nil && !isTimeout(rerr)
	gs := brokerGoroutines()
	if !closedByBroker || len(gs) > 0 {
		// does the stopped broker even complete a CONNECT on it?
		extra := ""
		_ = raw.SetDeadline(time.Now().Add(2 * time.Second))
		if _, werr := raw.Write(connectPacket(false, "late", true, 0)); werr == nil {
			ack := make([]byte, 4)
			if _, e := readFull(raw, ack); e == nil && ack[0] == 0x20 && ack[3] == 0 {
				extra = "; the stopped broker then accepted a CONNECT on it (CONNACK 0): a client is registered after Stop returned"
			}
		}
		first := ""
		if len(gs) > 0 {
			first = "; first: " + summarizeStack(gs[0])
		}
		return "", failf("leak", "Stop returned nil after %s but a connection that had not yet sent CONNECT is still open (closed by broker: %v) with %d broker goroutine(s) alive%s%s",
			el.Round(time.Millisecond), closedByBroker, len(gs), first, extra)
	}
	return fmt.Sprintf("stop_ms=%.1f", float64(el)/1e6), nil
}

// lateListener: Close() first lets one more client complete CONNECT / CONNACK, then closes.
type lateListener struct {
	net.Listener
	once sync.Once
	hook func()
}

func (l *lateListener) Close() error {
	l.once.Do(l.hook)
	return l.Listener.Close()
}

// Gen/StopOrder.v, theorem C15_stop_order: the listeners are closed BEFORE Stop lists srv.clients.
// A client that completes CONNECT while the listener is being closed must be closed (and waited
// for) by Stop like every other registered client.  If the snapshot came first, this client would
// be online after Stop has returned.
func probeStopVsLateConnect() (string, *failure) {
	bound := *flagWatchdog
	var late *mclient
	var lateErr error
	var addr string
	b, f := startBrokerWith(nil, func(inner net.Listener) net.Listener {
		addr = inner.Addr().String()
		return &lateListener{Listener: inner, hook: func() {
			late, lateErr = dialClient(addr, "late", false, true, 0, bound)
		}}
	})
	if f != nil {
		return "", f
	}
	early, err := dialClient(b.addr, "early", false, true, 0, bound)
	if err != nil {
		return "", failf("watchdog", "CONNECT early: %v", err)
	}
	el, f := b.stopBroker(1, bound)
	if f != nil {
		return "", f
	}
	if !early.waitDead(1 * time.Second) {
		return "", failf("stop", "a client registered before Stop is still connected 1s after Stop returned nil")
	}
	// Since 1d02d65 a CONNECT that reaches registration after Stop has begun is refused (CONNACK with a
	// non-zero code) or the connection is closed: both are correct.  What must not happen: the late
	// client is online after Stop, or its connection is left open.
	outcome := "refused-or-closed"
	if lateErr != nil && isWatchdog(lateErr) {
		return "", failf("watchdog", "a client that connected while the listener was being closed got neither CONNACK nor a close within %s", bound)
	}
	if late != nil {
		outcome = "accepted-then-closed"
		if !late.waitDead(1 * time.Second) {
			answers := ""
			if _, err := late.request(pingreqPacket(), tPINGRESP, 0, 1*time.Second); err == nil {
				answers = " and still answers PINGREQ"
			}
			return "", failf("leak", "Stop returned nil after %s but a client that completed CONNECT/CONNACK while the listener was being closed is still connected%s: srv.clients was listed before the listeners were closed; broker goroutines: %s",
				el.Round(time.Millisecond), answers, goroutineHistogram())
		}
	}
	if b.srv.ClientService().GetClient("late") != nil {
		return "", failf("leak", "client `late` is registered after Stop returned")
	}
	if f := leakCheck(2 * time.Second); f != nil {
		return "", f
	}
	return fmt.Sprintf("late_client=%s stop_ms=%.1f", outcome, float64(el)/1e6), nil
}

// A connection that Accept has returned but that newClient has not yet put into srv.connecting
// when Stop lists the connections (here: a slow OnAccept hook) is in neither map.
func probeStopVsInflightAccept() (string, *failure) {
	bound := *flagWatchdog
	b, f := startBroker(nil)
	if f != nil {
		return "", f
	}
	atomic.StoreInt32(&b.plg.acceptGate, 1)
	raw, err := net.DialTimeout("tcp", b.addr, bound)
	if err != nil {
		return "", failf("panic", "dial: %v", err)
	}
	defer raw.Close()
	select {
	case <-b.plg.acceptSeen:
	case <-time.After(bound):
		return "", failf("watchdog", "the OnAccept hook was not called within %s", bound)
	}
	// the connection is accepted, the OnAccept hook is running; Stop runs to completion meanwhile
	el, f := b.stopBroker(1, bound)
	close(b.plg.acceptRelease)
	if f != nil {
		return "", f
	}
	// Since 9fa9d46 addConnecting closes a connection that is recorded after exit(): correct = the broker
	// closes the socket once the hook has returned, nothing is registered, and the goroutines of that
	// connection end on their own (Stop does not wait for them: they get a moment here).
	_ = raw.SetReadDeadline(time.Now().Add(2 * time.Second))
	one := make([]byte, 1)
	_, rerr := raw.Read(one)
	if rerr == nil || isTimeout(rerr) {
		return "", failf("leak", "Stop returned nil after %s while the OnAccept hook of an accepted connection was still running; 2s after the hook returned the connection is still open (not closed by the broker); broker goroutines: %s",
			el.Round(time.Millisecond), goroutineHistogram())
	}
	registered := 0
	b.srv.ClientService().IterateClient(func(server.Client) bool { registered++; return true })
	if registered != 0 {
		return "", failf("leak", "%d client(s) registered after Stop returned", registered)
	}
	if f := leakCheck(3 * time.Second); f != nil {
		gs := brokerGoroutines()
		all := ""
		for _, g := range gs {
			all += " || " + summarizeStack(g)
		}
		f.detail = "in-flight accept: " + f.detail + "; all:" + all
		return "", f
	}
	return fmt.Sprintf("inflight_connection=closed-by-broker stop_ms=%.1f", float64(el)/1e6), nil
}

func isTimeout(err error) bool {
	ne, ok := err.(net.Error)
	return ok && ne.Timeout()
}

func readFull(c net.Conn, b []byte) (int, error) {
	n := 0
	for n < len(b) {
		m, err := c.Read(b[n:])
		n += m
		if err != nil {
			return n, err
		}
	}
	return n, nil
}

// D2 (Model/ConnLife.v kf_once_blocked_on_out): v5 client that does not read; `out` fills and the
// writer blocks in the socket; the client then sends a malformed packet (readLoop -> setError
// with a *codes.Error -> errOnce body -> client.write(DISCONNECT) blocks on the full `out`) and
// resets the connection (writeLoop fails -> setError -> waits for the Once).
func probeOnceDeadlock() (string, *failure) {
	bound := *flagWatchdog
	b, f := startBroker(func(c *config.Config) { c.MQTT.MaxQueuedMsg = 5000 })
	if f != nil {
		return "", f
	}
	// subscriber: raw v5 connection that we stop reading from
	raw, err := net.DialTimeout("tcp", b.addr, bound)
	if err != nil {
		return "", failf("panic", "dial: %v", err)
	}
	tc := raw.(*net.TCPConn)
	_ = tc.SetReadBuffer(4096)
	_ = raw.SetDeadline(time.Now().Add(bound))
	if _, err := raw.Write(connectPacket(true, "once", true, 0)); err != nil {
		return "", failf("panic", "write CONNECT: %v", err)
	}
	hdr := make([]byte, 2)
	if _, err := readFull(raw, hdr); err != nil || hdr[0] != 0x20 {
		return "", failf("watchdog", "no v5 CONNACK: %v % x", err, hdr)
	}
	rest := make([]byte, int(hdr[1]))
	if _, err := readFull(raw, rest); err != nil || len(rest) < 2 || rest[1] != 0 {
		return "", failf("watchdog", "v5 CONNECT refused: %v % x", err, rest)
	}
	if _, err := raw.Write(subscribePacket(true, 1, "once/t", 0)); err != nil {
		return "", failf("panic", "write SUBSCRIBE: %v", err)
	}
	if _, err := readFull(raw, hdr); err != nil || hdr[0] != 0x90 {
		return "", failf("watchdog", "no SUBACK: %v % x", err, hdr)
	}
	rest = make([]byte, int(hdr[1]))
	_, _ = readFull(raw, rest)
	_ = raw.SetDeadline(time.Time{})
	// from here on the subscriber does not read
	p, err := dialClient(b.addr, "once-pub", false, true, 0, bound)
	if err != nil {
		return "", failf("watchdog", "publisher CONNECT: %v", err)
	}
	payload := make([]byte, 60000)
	for i := 0; i < 400; i++ { // 24 MB: more than the socket buffers on both sides
		if err := p.send(publishPacket(false, 0, "once/t", 0, false, payload)); err != nil {
			break
		}
	}
	if _, err := p.request(pingreqPacket(), tPINGRESP, 0, 30*time.Second); err != nil {
		return "", failf("watchdog", "publisher PINGREQ after the flood: %v", err)
	}
	time.Sleep(500 * time.Millisecond)
	// malformed packet (reserved type 0), then reset
	_ = raw.SetWriteDeadline(time.Now().Add(2 * time.Second))
	_, _ = raw.Write([]byte{0x00, 0x00})
	time.Sleep(300 * time.Millisecond)
	_ = tc.SetLinger(0)
	_ = raw.Close()
	p.closePlain()
	if !waitUnregistered(b, "once", 3*time.Second) {
		gs := brokerGoroutines()
		inOnce := 0
		for _, g := range gs {
			if containsAll(g, "sync.(*Once)") {
				inOnce++
			}
		}
		el, sf := b.stopBroker(1, 3*time.Second)
		stopTxt := fmt.Sprintf("Stop(3s) then returned nil after %s", el.Round(time.Millisecond))
		if sf != nil {
			stopTxt = "and then " + sf.detail
		}
		return "", failf("leak", "v5 subscriber that stopped reading, sent a malformed packet and reset its connection is still registered 3s later; %d broker goroutines alive, %d of them inside/waiting for client.errOnce; %s",
			len(gs), inOnce, stopTxt)
	}
	return finish(b, bound, "once-deadlock")
}

func containsAll(s string, subs ...string) bool {
	for _, x := range subs {
		found := false
		for i := 0; i+len(x) <= len(s); i++ {
			if s[i:i+len(x)] == x {
				found = true
				break
			}
		}
		if !found {
			return false
		}
	}
	return true
}

// lockDuplicatedID releases srv.mu between "no online client with this id" and re-acquiring it:
// several CONNECTs for one client id that has an OFFLINE session can all register.
func probeSameIDStorm() (string, *failure) {
	bound := *flagWatchdog
	b, f := startBroker(nil)
	if f != nil {
		return "", f
	}
	const storms, width = 40, 12
	for s := 0; s < storms; s++ {
		id := fmt.Sprintf("storm%d", s)
		// an offline session for id
		c, err := dialClient(b.addr, id, false, false, 0, bound)
		if err != nil {
			return "", failf("watchdog", "storm %d: first CONNECT: %v", s, err)
		}
		if _, err := c.request(subscribePacket(false, 1, "storm/t", 1), tSUBACK, 1, bound); err != nil {
			return "", failf("watchdog", "storm %d: SUBSCRIBE: %v", s, err)
		}
		_ = c.send(disconnectPacket())
		c.closePlain()
		if !waitUnregistered(b, id, 3*time.Second) {
			return "", failf("leak", "storm %d: client still registered 3s after DISCONNECT", s)
		}
		// width simultaneous CONNECTs (clean session = false) for the same id
		var wg sync.WaitGroup
		start := make(chan struct{})
		conns := make([]*mclient, width)
		var wd int32
		for i := 0; i < width; i++ {
			wg.Add(1)
			go func(i int) {
				defer wg.Done()
				<-start
				c, err := dialClient(b.addr, id, false, false, 0, bound)
				if err != nil {
					if isWatchdog(err) {
						atomic.AddInt32(&wd, 1)
					}
					return
				}
				conns[i] = c
			}(i)
		}
		close(start)
		wg.Wait()
		if wd > 0 {
			return "", failf("watchdog", "storm %d: %d of %d simultaneous CONNECTs with one client id got no CONNACK within %s; broker goroutines: %s", s, wd, width, bound, goroutineHistogram())
		}
		time.Sleep(150 * time.Millisecond)
		alive := 0
		for _, c := range conns {
			if c == nil || c.isDead() {
				continue
			}
			if _, err := c.request(pingreqPacket(), tPINGRESP, 0, 1*time.Second); err == nil {
				alive++
			}
		}
		for _, c := range conns {
			if c != nil {
				c.closeAbrupt()
			}
		}
		if alive != 1 {
			return "", failf("race", "storm %d: after %d simultaneous CONNECTs (clean session = 0) for one client id with an offline session, %d connections are alive and answer PINGREQ (want exactly 1): several connections are registered for one client id and share its queue",
				s, width, alive)
		}
	}
	return finish(b, bound, "same-id-storm")
}

// Lock table: the packet-id limiter lock is held across client.write in pollInflights, and it
// is acquired under srv.mu (Queue.Add -> NotifyDropped -> limiter.release).  A resumed
// subscriber that does not read makes pollInflights block while holding the limiter lock; a
// publish that then drops one of that client's expired in-flight messages blocks under srv.mu:
// every other client stalls.
func probeSlowSubscriber() (string, *failure) {
	bound := *flagWatchdog
	b, f := startBroker(func(c *config.Config) {
		c.MQTT.MaxQueuedMsg = 40
		c.MQTT.MaxInflight = 40
		c.MQTT.InflightExpiry = 1 * time.Second
	})
	if f != nil {
		return "", f
	}
	payload := make([]byte, 200000)
	// 1. subscriber with a persistent session receives QoS1 messages and never acknowledges them
	raw, err := net.DialTimeout("tcp", b.addr, bound)
	if err != nil {
		return "", failf("panic", "dial: %v", err)
	}
	_ = raw.SetDeadline(time.Now().Add(bound))
	_, _ = raw.Write(connectPacket(false, "slow", false, 0))
	ack := make([]byte, 4)
	if _, err := readFull(raw, ack); err != nil || ack[3] != 0 {
		return "", failf("watchdog", "slow subscriber CONNECT: %v % x", err, ack)
	}
	_, _ = raw.Write(subscribePacket(false, 1, "slow/t", 1))
	suback := make([]byte, 5)
	if _, err := readFull(raw, suback); err != nil {
		return "", failf("watchdog", "slow subscriber SUBSCRIBE: %v", err)
	}
	_ = raw.SetDeadline(time.Time{})
	p, err := dialClient(b.addr, "slow-pub", false, true, 0, bound)
	if err != nil {
		return "", failf("watchdog", "publisher CONNECT: %v", err)
	}
	for i := 0; i < 40; i++ {
		pid := p.pid()
		if _, err := p.request(publishPacket(false, pid, "slow/t", 1, false, payload), tPUBACK, pid, bound); err != nil {
			return "", failf("watchdog", "publisher PUBLISH %d: %v", i, err)
		}
	}
	// read (and drop) what arrives for a moment so that the messages become in-flight, then vanish
	go func() {
		buf := make([]byte, 1<<16)
		_ = raw.SetReadDeadline(time.Now().Add(1500 * time.Millisecond))
		for {
			if _, err := raw.Read(buf); err != nil {
				return
			}
		}
	}()
	time.Sleep(1700 * time.Millisecond)
	if tc, ok := raw.(*net.TCPConn); ok {
		_ = tc.SetLinger(0)
	}
	_ = raw.Close()
	if !waitUnregistered(b, "slow", 3*time.Second) {
		return "", failf("leak", "slow subscriber still registered 3s after reset")
	}
	// 2. it comes back (session resumed) and does not read: pollInflights re-sends 40 x 200 kB
	raw2, err := net.DialTimeout("tcp", b.addr, bound)
	if err != nil {
		return "", failf("panic", "dial: %v", err)
	}
	defer raw2.Close()
	_ = raw2.(*net.TCPConn).SetReadBuffer(4096)
	_ = raw2.SetDeadline(time.Now().Add(bound))
	_, _ = raw2.Write(connectPacket(false, "slow", false, 0))
	if _, err := readFull(raw2, ack); err != nil || ack[3] != 0 {
		return "", failf("watchdog", "slow subscriber re-CONNECT: %v % x", err, ack)
	}
	_ = raw2.SetDeadline(time.Time{})
	time.Sleep(1500 * time.Millisecond) // in-flight messages are now older than inflight_expiry
	// 3. one more publish for the slow client: its queue is full of expired in-flight messages
	done := make(chan error, 1)
	go func() {
		pid := p.pid()
		_, err := p.request(publishPacket(false, pid, "slow/t", 1, false, []byte("x")), tPUBACK, pid, bound)
		done <- err
	}()
	// 4. an unrelated client must still be served
	time.Sleep(300 * time.Millisecond)
	t0 := time.Now()
	other, err := dialClient(b.addr, "bystander", false, true, 0, bound)
	if err != nil {
		gs := brokerGoroutines()
		blocked := ""
		for _, g := range gs {
			if containsAll(g, "packetIDLimiter", "release") {
				blocked = "; " + summarizeStack(g)
				break
			}
		}
		return "", failf("watchdog", "an unrelated client got no CONNACK within %s while a resumed subscriber that does not read holds the packet-id limiter lock in pollInflights and a publisher waits for that lock under srv.mu (%v)%s",
			bound, err, blocked)
	}
	lat := time.Since(t0)
	other.closePlain()
	select {
	case err := <-done:
		if err != nil {
			return "", failf("watchdog", "publish to the slow client: %v", err)
		}
	case <-time.After(bound):
		return "", failf("watchdog", "publish to the slow client got no PUBACK within %s", bound)
	}
	p.closePlain()
	raw2.Close()
	s, f := finish(b, bound, "slow-subscriber")
	if f != nil {
		return "", f
	}
	return fmt.Sprintf("bystander_connect_ms=%.1f %s", float64(lat)/1e6, s), nil
}

// Lock table: with delivery_mode = overlap the queue insertion (and the drop accounting:
// stats.clientMu, and from there TrieDB.GetClientStats) runs INSIDE TrieDB.Iterate's read lock,
// while statsManager.getClientStats takes the trie read lock under stats.clientMu: a cycle
// clientMu <-> TrieDB.RWMutex that closes when a writer (SUBSCRIBE) is pending.  This probe tries
// to hit it: publishers that overflow a 1-message queue, subscription churn, and a stream of
// first-time client ids (statistics miss).  It is probabilistic: `ok` means "not hit".
func probeOverlapLockCycle() (string, *failure) {
	bound := *flagWatchdog
	b, f := startBroker(func(c *config.Config) {
		c.MQTT.DeliveryMode = "overlap"
		c.MQTT.MaxQueuedMsg = 1
	})
	if f != nil {
		return "", f
	}
	sub, err := dialClient(b.addr, "ov-sub", false, true, 0, bound)
	if err != nil {
		return "", failf("watchdog", "subscriber CONNECT: %v", err)
	}
	if _, err := sub.request(subscribePacket(false, 1, "ov/#", 1), tSUBACK, 1, bound); err != nil {
		return "", failf("watchdog", "subscriber SUBSCRIBE: %v", err)
	}
	var stop int32
	var wg sync.WaitGroup
	var fail atomic.Value
	setFail := func(f *failure) { fail.CompareAndSwap(nil, f) }
	dur := time.Duration(*flagSeconds) * time.Second
	for i := 0; i < 4; i++ { // publishers
		wg.Add(1)
		go func(i int) {
			defer wg.Done()
			c, err := dialClient(b.addr, fmt.Sprintf("ov-pub%d", i), false, true, 0, bound)
			if err != nil {
				setFail(failf("watchdog", "publisher %d CONNECT: %v", i, err))
				return
			}
			defer c.closePlain()
			for atomic.LoadInt32(&stop) == 0 {
				pid := c.pid()
				if _, err := c.request(publishPacket(false, pid, "ov/t", 1, false, []byte("x")), tPUBACK, pid, bound); err != nil {
					if err == errWatchdog {
						setFail(failf("watchdog", "publisher %d: no PUBACK within %s; broker goroutines: %s", i, bound, goroutineHistogram()))
					}
					return
				}
			}
		}(i)
	}
	for i := 0; i < 4; i++ { // subscription churn (writers of the trie)
		wg.Add(1)
		go func(i int) {
			defer wg.Done()
			c, err := dialClient(b.addr, fmt.Sprintf("ov-churn%d", i), false, true, 0, bound)
			if err != nil {
				setFail(failf("watchdog", "churn %d CONNECT: %v", i, err))
				return
			}
			defer c.closePlain()
			for n := 0; atomic.LoadInt32(&stop) == 0; n++ {
				pid := c.pid()
				if _, err := c.request(subscribePacket(false, pid, fmt.Sprintf("churn/%d/%d", i, n%7), 0), tSUBACK, pid, bound); err != nil {
					if err == errWatchdog {
						setFail(failf("watchdog", "churn %d: no SUBACK within %s; broker goroutines: %s", i, bound, goroutineHistogram()))
					}
					return
				}
			}
		}(i)
	}
	for i := 0; i < 4; i++ { // first-time client ids
		wg.Add(1)
		go func(i int) {
			defer wg.Done()
			for n := 0; atomic.LoadInt32(&stop) == 0; n++ {
				c, err := dialClient(b.addr, fmt.Sprintf("ov-new%d-%d", i, n), false, true, 0, bound)
				if err != nil {
					if isWatchdog(err) {
						setFail(failf("watchdog", "new client %d-%d: no CONNACK within %s; broker goroutines: %s", i, n, bound, goroutineHistogram()))
					}
					return
				}
				c.closeAbrupt()
			}
		}(i)
	}
	deadline := time.Now().Add(dur)
	for time.Now().Before(deadline) && fail.Load() == nil {
		time.Sleep(50 * time.Millisecond)
	}
	atomic.StoreInt32(&stop, 1)
	wdone := make(chan struct{})
	go func() { wg.Wait(); close(wdone) }()
	select {
	case <-wdone:
	case <-time.After(2 * bound):
		setFail(failf("watchdog", "traffic goroutines did not finish within %s; broker goroutines: %s", 2*bound, goroutineHistogram()))
	}
	if v := fail.Load(); v != nil {
		return "", v.(*failure)
	}
	sub.closePlain()
	return finish(b, bound, "overlap-lock-cycle")
}

var _ = context.Background

// "Stop returns after closing all connections, runs Unload/OnStop, and all per-connection goroutines have
// exited": with a slow tear-down (an OnClosed hook that takes 300 ms) the difference between "the connection
// noticed that it must close" and "the connection has finished closing" is observable.  When Stop returns,
// every OnClosed call must have returned, OnStop must have fired after all of them, and no client may be
// registered any more.
func probeStopWaitsTeardown() (string, *failure) {
	bound := *flagWatchdog
	b, f := startBroker(nil)
	if f != nil {
		return "", f
	}
	// the bootstrap client of startBroker has been closed: wait until its tear-down is over
	deadline := time.Now().Add(3 * time.Second)
	for atomic.LoadInt64(&b.plg.closedBegin) != atomic.LoadInt64(&b.plg.closedEnd) || b.srv.ClientService().GetClient("bootstrap") != nil {
		if time.Now().After(deadline) {
			return "", failf("watchdog", "the bootstrap connection did not finish closing within 3s")
		}
		time.Sleep(10 * time.Millisecond)
	}
	atomic.StoreInt64(&b.plg.closedDelay, int64(300*time.Millisecond))
	ids := []string{"td1", "td2", "td3"}
	for _, id := range ids {
		if _, err := dialClient(b.addr, id, false, true, 0, bound); err != nil {
			return "", failf("watchdog", "CONNECT %s: %v", id, err)
		}
	}
	idle, err := net.Dial("tcp", b.addr) // a connection that never sends CONNECT
	if err == nil {
		defer idle.Close()
	}
	time.Sleep(50 * time.Millisecond)
	begun0 := atomic.LoadInt64(&b.plg.closedBegin)
	el, f := b.stopBroker(1, bound)
	if f != nil {
		return "", f
	}
	begun, ended := atomic.LoadInt64(&b.plg.closedBegin), atomic.LoadInt64(&b.plg.closedEnd)
	if begun != ended {
		return "", failf("stop", "Stop returned nil after %s while %d of %d OnClosed hooks of registered connections were still running: Stop does not wait for the end of the tear-down of its connections",
			el.Round(time.Millisecond), begun-ended, begun-begun0+0)
	}
	if begun-begun0 < int64(len(ids)) {
		return "", failf("stop", "Stop returned nil after %s but only %d of %d registered connections had begun their OnClosed hook: their goroutines are still running", el.Round(time.Millisecond), begun-begun0, len(ids))
	}
	if p := atomic.LoadInt64(&b.plg.pendingAtStop); p != 0 {
		return "", failf("stop", "OnStop fired while %d OnClosed hooks were still running", p)
	}
	for _, id := range ids {
		if b.srv.ClientService().GetClient(id) != nil {
			return "", failf("leak", "client %s is still registered after Stop returned", id)
		}
	}
	if f := leakCheck(2 * time.Second); f != nil {
		return "", f
	}
	return fmt.Sprintf("teardown_hooks=%d stop_ms=%.1f", begun-begun0, float64(el)/1e6), nil
}

// dialSP: CONNECT and report the Session Present flag of the CONNACK
func dialSP(addr, id string, clean bool, bound time.Duration) (*mclient, bool, error) {
	conn, err := net.DialTimeout("tcp", addr, bound)
	if err != nil {
		return nil, false, err
	}
	c := &mclient{conn: conn, br: bufio.NewReader(conn), id: id, waiters: map[uint32]chan *pkt{}, dead: make(chan struct{})}
	go c.readLoop()
	p, err := c.request(connectPacket(false, id, clean, 0), tCONNACK, 0, bound)
	if err != nil {
		c.closeAbrupt()
		return nil, false, fmt.Errorf("CONNECT %s: %w", id, err)
	}
	if len(p.body) < 2 || p.body[1] != 0 {
		c.closeAbrupt()
		return nil, false, fmt.Errorf("CONNECT %s refused: % x", id, p.body)
	}
	return c, p.body[0]&1 == 1, nil
}

// C05 under a schedule the wire suites cannot produce (they let every step finish): an administrative termination
// of an online session, and a CONNECT with the same client id that arrives while the terminated connection is still
// tearing down (an OnClosed hook of 300 ms).  The newcomer must wait for the old connection, find no session
// (Session Present 0), stay the one registered connection of the id afterwards, and be displaced by a third CONNECT.
func probeTerminateVsReconnect() (string, *failure) {
	bound := *flagWatchdog
	b, f := startBroker(nil)
	if f != nil {
		return "", f
	}
	deadline := time.Now().Add(3 * time.Second)
	for atomic.LoadInt64(&b.plg.closedBegin) != atomic.LoadInt64(&b.plg.closedEnd) || b.srv.ClientService().GetClient("bootstrap") != nil {
		if time.Now().After(deadline) {
			return "", failf("watchdog", "the bootstrap connection did not finish closing within 3s")
		}
		time.Sleep(10 * time.Millisecond)
	}
	const id = "tvr"
	c1, sp1, err := dialSP(b.addr, id, false, bound)
	if err != nil {
		return "", failf("watchdog", "first CONNECT: %v", err)
	}
	if sp1 {
		return "", failf("session", "Session Present 1 on the very first CONNECT of %s", id)
	}
	atomic.StoreInt64(&b.plg.closedDelay, int64(300*time.Millisecond))
	b.srv.ClientService().TerminateSession(id)
	c2, sp2, err := dialSP(b.addr, id, false, bound)
	atomic.StoreInt64(&b.plg.closedDelay, 0)
	if err != nil {
		return "", failf("watchdog", "CONNECT during the tear-down of the terminated connection: %v", err)
	}
	if sp2 {
		return "", failf("session", "CONNECT (Clean Start 0) right after TerminateSession(%s) was answered Session Present 1: the terminated session was resumed", id)
	}
	if !c1.waitDead(2 * time.Second) {
		return "", failf("leak", "the connection of the terminated session is still open 2s later")
	}
	time.Sleep(500 * time.Millisecond) // the old tear-down is over by now
	if b.srv.ClientService().GetClient(id) == nil {
		return "", failf("session", "the connection that was acknowledged after TerminateSession(%s) is no longer registered once the old tear-down has finished (its socket is still served)", id)
	}
	if _, err := c2.request(pingreqPacket(), tPINGRESP, 0, bound); err != nil {
		return "", failf("watchdog", "the second connection does not answer PINGREQ: %v", err)
	}
	c3, _, err := dialSP(b.addr, id, false, bound)
	if err != nil {
		return "", failf("watchdog", "third CONNECT: %v", err)
	}
	if !c2.waitDead(2 * time.Second) {
		return "", failf("session", "two connections are attached to client id %s: the second one was not displaced by the third CONNECT", id)
	}
	c3.closeAbrupt()
	return finish(b, bound, "terminate-vs-reconnect")
}
