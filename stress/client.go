package main

import (
	"bufio"
	"errors"
	"fmt"
	"net"
	"sync"
	"sync/atomic"
	"time"
)

// global counters of the run
var (
	nRequests  int64
	maxLatency int64 // ns
	nSessions  int64
	nKilled    int64 // sessions ended by the broker (take-over, TerminateSession, Stop)
)

func noteLatency(d time.Duration) {
	atomic.AddInt64(&nRequests, 1)
	for {
		old := atomic.LoadInt64(&maxLatency)
		if int64(d) <= old || atomic.CompareAndSwapInt64(&maxLatency, old, int64(d)) {
			return
		}
	}
}

type mclient struct {
	conn    net.Conn
	br      *bufio.Reader
	id      string
	v5      bool
	wmu     sync.Mutex
	mu      sync.Mutex
	waiters map[uint32]chan *pkt
	dead    chan struct{}
	nextPid uint16
	rxPub   int64
}

var errWatchdog = errors.New("watchdog")
var errClosed = errors.New("connection closed by the broker")

func key(typ byte, pid uint16) uint32 { return uint32(typ)<<16 | uint32(pid) }

// dialClient opens a connection, sends CONNECT and waits for the CONNACK.
func dialClient(addr, id string, v5, clean bool, keepAlive uint16, bound time.Duration) (*mclient, error) {
	conn, err := net.DialTimeout("tcp", addr, bound)
	if err != nil {
		return nil, err
	}
	c := &mclient{conn: conn, br: bufio.NewReader(conn), id: id, v5: v5, waiters: map[uint32]chan *pkt{}, dead: make(chan struct{})}
	go c.readLoop()
	p, err := c.request(connectPacket(v5, id, clean, keepAlive), tCONNACK, 0, bound)
	if err != nil {
		c.closeAbrupt()
		return nil, fmt.Errorf("CONNECT %s: %w", id, err)
	}
	if len(p.body) < 2 || p.body[1] != 0 {
		c.closeAbrupt()
		return nil, fmt.Errorf("CONNECT %s refused: % x", id, p.body)
	}
	return c, nil
}

func (c *mclient) send(b []byte) error {
	c.wmu.Lock()
	defer c.wmu.Unlock()
	_ = c.conn.SetWriteDeadline(time.Now().Add(10 * time.Second))
	_, err := c.conn.Write(b)
	return err
}

// request sends b and waits for the response (typ, pid): the watchdog of the property.
func (c *mclient) request(b []byte, typ byte, pid uint16, bound time.Duration) (*pkt, error) {
	ch := make(chan *pkt, 1)
	k := key(typ, pid)
	c.mu.Lock()
	c.waiters[k] = ch
	c.mu.Unlock()
	defer func() { c.mu.Lock(); delete(c.waiters, k); c.mu.Unlock() }()
	t0 := time.Now()
	if err := c.send(b); err != nil {
		return nil, errClosed
	}
	t := time.NewTimer(bound)
	defer t.Stop()
	select {
	case p := <-ch:
		noteLatency(time.Since(t0))
		return p, nil
	case <-c.dead:
		// a response may have raced with the close
		select {
		case p := <-ch:
			noteLatency(time.Since(t0))
			return p, nil
		default:
		}
		return nil, errClosed
	case <-t.C:
		return nil, errWatchdog
	}
}

func (c *mclient) readLoop() {
	defer close(c.dead)
	for {
		p, err := readPkt(c.br)
		if err != nil {
			return
		}
		switch p.typ {
		case tPUBLISH:
			atomic.AddInt64(&c.rxPub, 1)
			qos, pid, err := p.publishInfo()
			if err != nil {
				return
			}
			switch qos {
			case 1:
				_ = c.send(ackPacket(tPUBACK, pid))
			case 2:
				_ = c.send(ackPacket(tPUBREC, pid))
			}
		case tPUBREL:
			_ = c.send(ackPacket(tPUBCOMP, p.pid()))
		default:
			pid := uint16(0)
			switch p.typ {
			case tPUBACK, tPUBREC, tPUBCOMP, tSUBACK, tUNSUBACK:
				pid = p.pid()
			}
			c.mu.Lock()
			ch := c.waiters[key(p.typ, pid)]
			c.mu.Unlock()
			if ch != nil {
				select {
				case ch <- p:
				default:
				}
			}
		}
	}
}

func (c *mclient) pid() uint16 {
	c.nextPid++
	if c.nextPid == 0 {
		c.nextPid = 1
	}
	return c.nextPid
}

func (c *mclient) closePlain() { _ = c.conn.Close() }

// closeAbrupt: RST instead of FIN
func (c *mclient) closeAbrupt() {
	if tc, ok := c.conn.(*net.TCPConn); ok {
		_ = tc.SetLinger(0)
	}
	_ = c.conn.Close()
}

func (c *mclient) isDead() bool {
	select {
	case <-c.dead:
		return true
	default:
		return false
	}
}

// waitDead: the broker must close the socket within d
func (c *mclient) waitDead(d time.Duration) bool {
	select {
	case <-c.dead:
		return true
	case <-time.After(d):
		return false
	}
}
