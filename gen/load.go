package main

// Loading and type-checking of the packages of /repo with the standard library only.
//
//   - packages of the module under -repo are parsed from source (all non-test .go files of the
//     directory: the `verif` hook files are included, they take the same locks);
//   - standard-library imports are type-checked from GOROOT/src (go/importer "source");
//   - every other import (zap, gomock, redigo, ...) is replaced by an EMPTY fake package and
//     the resulting type errors are tolerated: expressions that involve third-party types are
//     simply untyped, calls into them are "external calls" for the analyses.  A type error in
//     an expression that only involves repo/stdlib types is NOT tolerated (loud failure).

import (
	"fmt"
	"go/ast"
	"go/build"
	"go/importer"
	"go/parser"
	"go/token"
	"go/types"
	"os"
	"path/filepath"
	"sort"
	"strings"
)

type Pkg struct {
	Path  string // import path
	Rel   string // path relative to the module root ("" for the root package)
	Dir   string
	Files []*ast.File
	Names []string // file names, parallel to Files
	Types *types.Package
	Info  *types.Info
	// third-party imports replaced by empty packages, and the number of (tolerated) type errors
	Faked      []string
	TypeErrors int
}

type Loader struct {
	Repo    string
	Module  string
	Fset    *token.FileSet
	Pkgs    map[string]*Pkg
	std     types.Importer
	fakes   map[string]*types.Package
	loading map[string]bool
}

func NewLoader(repo string) (*Loader, error) {
	gomod, err := os.ReadFile(filepath.Join(repo, "go.mod"))
	if err != nil {
		return nil, err
	}
	module := ""
	for _, ln := range strings.Split(string(gomod), "\n") {
		ln = strings.TrimSpace(ln)
		if strings.HasPrefix(ln, "module ") {
			module = strings.TrimSpace(strings.TrimPrefix(ln, "module "))
			break
		}
	}
	if module == "" {
		return nil, fmt.Errorf("no module line in %s/go.mod", repo)
	}
	build.Default.CgoEnabled = false // pure-Go variants of net, os/user, ...
	fset := token.NewFileSet()
	return &Loader{
		Repo: repo, Module: module, Fset: fset,
		Pkgs:    map[string]*Pkg{},
		std:     importer.ForCompiler(fset, "source", nil),
		fakes:   map[string]*types.Package{},
		loading: map[string]bool{},
	}, nil
}

func (l *Loader) isRepoPath(path string) bool {
	return path == l.Module || strings.HasPrefix(path, l.Module+"/")
}

func isStdPath(path string) bool {
	first := path
	if i := strings.Index(path, "/"); i >= 0 {
		first = path[:i]
	}
	return !strings.Contains(first, ".")
}

// Import implements types.Importer.
func (l *Loader) Import(path string) (*types.Package, error) {
	if path == "unsafe" {
		return types.Unsafe, nil
	}
	if l.isRepoPath(path) {
		p, err := l.Load(path)
		if err != nil {
			return nil, err
		}
		return p.Types, nil
	}
	if isStdPath(path) {
		return l.std.Import(path)
	}
	if p, ok := l.fakes[path]; ok {
		return p, nil
	}
	name := path[strings.LastIndex(path, "/")+1:]
	// .../v2 style paths and go-xxx names: the local name is irrelevant for a fake package
	name = strings.NewReplacer("-", "_", ".", "_").Replace(name)
	p := types.NewPackage(path, name)
	p.MarkComplete()
	l.fakes[path] = p
	return p, nil
}

func (l *Loader) Load(path string) (*Pkg, error) {
	if p, ok := l.Pkgs[path]; ok {
		return p, nil
	}
	if l.loading[path] {
		return nil, fmt.Errorf("import cycle through %s", path)
	}
	l.loading[path] = true
	defer delete(l.loading, path)
	rel := strings.TrimPrefix(strings.TrimPrefix(path, l.Module), "/")
	dir := filepath.Join(l.Repo, rel)
	ents, err := os.ReadDir(dir)
	if err != nil {
		return nil, fmt.Errorf("package %s: %v", path, err)
	}
	var names []string
	for _, e := range ents {
		n := e.Name()
		if e.IsDir() || !strings.HasSuffix(n, ".go") || strings.HasSuffix(n, "_test.go") {
			continue
		}
		names = append(names, n)
	}
	sort.Strings(names)
	p := &Pkg{Path: path, Rel: rel, Dir: dir}
	pkgName := ""
	for _, n := range names {
		f, err := parser.ParseFile(l.Fset, filepath.Join(dir, n), nil, parser.ParseComments)
		if err != nil {
			return nil, fmt.Errorf("parse %s: %v", filepath.Join(dir, n), err)
		}
		if hasIgnoreTag(f) {
			continue
		}
		if pkgName == "" {
			pkgName = f.Name.Name
		} else if f.Name.Name != pkgName {
			return nil, fmt.Errorf("package %s: files declare both %s and %s", path, pkgName, f.Name.Name)
		}
		p.Files = append(p.Files, f)
		p.Names = append(p.Names, n)
	}
	if len(p.Files) == 0 {
		return nil, fmt.Errorf("package %s: no Go files in %s", path, dir)
	}
	p.Info = &types.Info{
		Types:      map[ast.Expr]types.TypeAndValue{},
		Defs:       map[*ast.Ident]types.Object{},
		Uses:       map[*ast.Ident]types.Object{},
		Selections: map[*ast.SelectorExpr]*types.Selection{},
		Implicits:  map[ast.Node]types.Object{},
		Scopes:     map[ast.Node]*types.Scope{},
	}
	var errs []string
	conf := types.Config{
		Importer: l,
		Error:    func(err error) { errs = append(errs, err.Error()) },
	}
	// which imports of this package are faked?
	for _, f := range p.Files {
		for _, im := range f.Imports {
			ip := strings.Trim(im.Path.Value, "\"")
			if ip != "unsafe" && !l.isRepoPath(ip) && !isStdPath(ip) {
				p.Faked = append(p.Faked, ip)
			}
		}
	}
	tp, _ := conf.Check(path, l.Fset, p.Files, p.Info)
	if len(errs) > 0 {
		// Type errors are tolerated only as a consequence of faked third-party imports
		// (directly, or through a repo package that itself has faked imports).
		if len(p.Faked) == 0 && !l.importsTainted(p) {
			return nil, fmt.Errorf("package %s does not type-check (and imports no third-party package):\n  %s", path, strings.Join(errs, "\n  "))
		}
		p.TypeErrors = len(errs)
	}
	p.Types = tp
	l.Pkgs[path] = p
	return p, nil
}

// hasIgnoreTag: files excluded from every build (`//go:build ignore`, tools, generators).
func hasIgnoreTag(f *ast.File) bool {
	for _, cg := range f.Comments {
		if cg.Pos() > f.Package {
			break
		}
		for _, c := range cg.List {
			t := strings.TrimSpace(c.Text)
			if strings.HasPrefix(t, "//go:build") && strings.Contains(t, "ignore") {
				return true
			}
			if strings.HasPrefix(t, "// +build") && strings.Contains(t, "ignore") {
				return true
			}
		}
	}
	return false
}

// importsTainted: some repo package imported by p has tolerated type errors
func (l *Loader) importsTainted(p *Pkg) bool {
	for _, f := range p.Files {
		for _, im := range f.Imports {
			ip := strings.Trim(im.Path.Value, "\"")
			if q, ok := l.Pkgs[ip]; ok && (q.TypeErrors > 0 || len(q.Faked) > 0) {
				return true
			}
		}
	}
	return false
}

func (l *Loader) Pos(p token.Pos) string {
	pos := l.Fset.Position(p)
	rel, err := filepath.Rel(l.Repo, pos.Filename)
	if err != nil {
		rel = pos.Filename
	}
	return fmt.Sprintf("%s:%d", rel, pos.Line)
}
