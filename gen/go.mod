module verifgen

go 1.26.1
