// Command verifgen regenerates the Coq tables of /verif/coq/theories/Gen from the Go source
// of the broker.  It is run by bin/check before the proofs are rebuilt:
//
//	go run . -repo /repo -out /verif/coq/theories/Gen
//
// Every translator is deterministic (sorted output), writes its file only when the content
// changed (so that `make` stays a no-op when the source did not move) and FAILS (exit 1, with a
// message) when the source no longer has the shape it understands; it never emits a partial
// table.  A translator reports what the source says; it decides no property.
package main

import (
	"flag"
	"fmt"
	"os"
	"path/filepath"
	"sort"
)

type translator struct {
	name string
	file string
	run  func(l *Loader) (string, string, error) // content, one-line summary
}

func main() {
	repo := flag.String("repo", "/repo", "root of the gmqtt source tree")
	out := flag.String("out", "", "output directory (theories/Gen)")
	only := flag.String("only", "", "run a single translator (hooks|locks|consts|stoporder|proptable|validate)")
	flag.Parse()
	if *out == "" {
		fmt.Fprintln(os.Stderr, "verifgen: -out is required")
		os.Exit(2)
	}
	l, err := NewLoader(*repo)
	if err != nil {
		fmt.Fprintln(os.Stderr, "verifgen:", err)
		os.Exit(1)
	}
	ts := []translator{
		{"consts", "Consts.v", genConsts},
		{"hooks", "HookKinds.v", genHooks},
		{"locks", "LockOrder.v", genLocks},
		{"stoporder", "StopOrder.v", genStopOrder},
		{"proptable", "PropTable.v", genPropTable},
		{"validate", "ValidateTable.v", genValidate},
	}
	sort.Slice(ts, func(i, j int) bool { return ts[i].name < ts[j].name })
	// run all first, write only if all succeeded: never a partial Gen/ directory
	type res struct{ file, content, summary string }
	var results []res
	for _, t := range ts {
		if *only != "" && *only != t.name {
			continue
		}
		content, summary, err := t.run(l)
		if err != nil {
			fmt.Fprintf(os.Stderr, "verifgen: translator %s FAILED: %v\n", t.name, err)
			os.Exit(1)
		}
		results = append(results, res{t.file, content, summary})
	}
	if err := os.MkdirAll(*out, 0o755); err != nil {
		fmt.Fprintln(os.Stderr, "verifgen:", err)
		os.Exit(1)
	}
	for _, r := range results {
		p := filepath.Join(*out, r.file)
		old, err := os.ReadFile(p)
		state := "unchanged"
		if err != nil || string(old) != r.content {
			tmp := p + ".tmp"
			if err := os.WriteFile(tmp, []byte(r.content), 0o644); err != nil {
				fmt.Fprintln(os.Stderr, "verifgen:", err)
				os.Exit(1)
			}
			if err := os.Rename(tmp, p); err != nil {
				fmt.Fprintln(os.Stderr, "verifgen:", err)
				os.Exit(1)
			}
			state = "rewritten"
		}
		fmt.Printf("verifgen: %s %s: %s\n", r.file, state, r.summary)
	}
}
