package main

import (
	"fmt"
	"strings"
)

// coqString renders s as a Coq string literal (only printable ASCII is expected in tables).
func coqString(s string) (string, error) {
	var b strings.Builder
	b.WriteByte('"')
	for _, r := range s {
		if r < 32 || r > 126 {
			return "", fmt.Errorf("non-printable character %q in table string %q", r, s)
		}
		if r == '"' {
			b.WriteString(`""`)
		} else {
			b.WriteRune(r)
		}
	}
	b.WriteByte('"')
	return b.String(), nil
}

func mustCoqString(s string) string {
	r, err := coqString(s)
	if err != nil {
		panic(err)
	}
	return r
}

func coqBool(b bool) string {
	if b {
		return "true"
	}
	return "false"
}

// coqList renders items as a Coq list, one item per line.
func coqList(items []string, indent string) string {
	if len(items) == 0 {
		return "[]"
	}
	var b strings.Builder
	b.WriteString("[\n")
	for i, it := range items {
		b.WriteString(indent + "  " + it)
		if i+1 < len(items) {
			b.WriteString(";")
		}
		b.WriteString("\n")
	}
	b.WriteString(indent + "]")
	return b.String()
}

// comment-safe text (no nested comment delimiters)
func coqComment(s string) string {
	s = strings.ReplaceAll(s, "(*", "( *")
	s = strings.ReplaceAll(s, "*)", "* )")
	return s
}

// forbiddenWords: bin/check rejects these words anywhere outside comments in the Coq tree.
var forbiddenWords = []string{"Admitted", "admit", "Axiom", "Axioms", "Parameter", "Parameters", "Conjecture", "Hypothesis", "Variable", "Abort"}

func checkForbidden(content string) error {
	// strip comments
	var b strings.Builder
	depth := 0
	for i := 0; i < len(content); i++ {
		if i+1 < len(content) && content[i] == '(' && content[i+1] == '*' {
			depth++
			i++
			continue
		}
		if i+1 < len(content) && content[i] == '*' && content[i+1] == ')' && depth > 0 {
			depth--
			i++
			continue
		}
		if depth == 0 {
			b.WriteByte(content[i])
		}
	}
	txt := b.String()
	isWord := func(c byte) bool {
		return c == '_' || (c >= '0' && c <= '9') || (c >= 'a' && c <= 'z') || (c >= 'A' && c <= 'Z')
	}
	for _, w := range forbiddenWords {
		from := 0
		for {
			i := strings.Index(txt[from:], w)
			if i < 0 {
				break
			}
			i += from
			before := i == 0 || !isWord(txt[i-1])
			after := i+len(w) >= len(txt) || !isWord(txt[i+len(w)])
			if before && after {
				return fmt.Errorf("generated table contains the word %q outside a comment (bin/check forbids it)", w)
			}
			from = i + len(w)
		}
	}
	return nil
}
