package main

// Translator "locks": Gen/LockOrder.v
//
// Packages analysed (bodies walked): see lockPackages.  Every other package of the module is
// only type-checked (to resolve types), the standard library is read from GOROOT/src, third
// party imports are opaque.
//
//   lock class   = <package dir>.<Type>.<field>   (`.L` appended for the Locker of a sync.Cond,
//                  the embedded type name for an embedded mutex).  All instances of a class are
//                  identified (two clients' limiter locks are one class).
//   call graph   = static calls by go/types; interface method calls -> every type of the
//                  analysed packages whose method set has all the methods of the interface (by
//                  name); calls through function values -> every function literal / function
//                  value of the analysed packages with an identical signature (and "unknown
//                  code": such calls are listed when they happen under a lock).
//   held sets    = MAY (for edges, blocking pairs: union over all paths and all call contexts)
//                  and MUST (for the "*Locked helper is called under its lock" table:
//                  intersection over all paths and all call contexts; the context of a callback
//                  is followed along the value flow: argument -> parameter -> call, variable and
//                  struct field assignments).

import (
	"fmt"
	"go/ast"
	"go/token"
	"go/types"
	"sort"
	"strings"
)

var lockPackages = []string{
	"server",
	"persistence/queue/mem",
	"persistence/subscription/mem",
	"persistence/session/mem",
	"persistence/unack/mem",
	"retained/trie",
}

// functions whose call sites must be inside the critical section of a lock: the guard class is
// determined by the receiver type.  A function named *Locked (or listed in guardedExtra) with a
// receiver that is not in this table makes the translator fail.
var guardOfRecv = map[string]string{
	"server.server":                       "server.server.mu",
	"server.packetIDLimiter":              "server.packetIDLimiter.cond.L",
	"persistence/subscription/mem.TrieDB": "persistence/subscription/mem.TrieDB.RWMutex",
}
var guardedExtra = map[string]bool{"deliverMessage": true}

type analysis struct {
	viaIface bool // set by resolve: the callees are the implementations of an interface method
	l        *Loader
	pkgs     []*Pkg
	funcs    []*Func
	byObj    map[*types.Func]*Func
	byLit    map[*ast.FuncLit]*Func
	named    []*types.Named // named non-interface types of the analysed packages
	parents  map[ast.Node]ast.Node
	encl     map[ast.Node]*Func // enclosing function of value occurrences (filled lazily)
	escaped  []*Func            // functions used as values
	escSet   map[*Func]bool
	classes  set
	nDyn     int
}

func relName(l *Loader, pkg *types.Package) string {
	if pkg == nil {
		return ""
	}
	p := pkg.Path()
	if p == l.Module {
		return "gmqtt"
	}
	return strings.TrimPrefix(p, l.Module+"/")
}

func (a *analysis) typeName(t types.Type) (string, bool) {
	for {
		t = types.Unalias(t)
		if p, ok := t.(*types.Pointer); ok {
			t = p.Elem()
			continue
		}
		break
	}
	n, ok := t.(*types.Named)
	if !ok {
		return "", false
	}
	if n.Obj().Pkg() == nil {
		return n.Obj().Name(), true
	}
	return relName(a.l, n.Obj().Pkg()) + "." + n.Obj().Name(), true
}

func isMockFile(name string) bool { return strings.HasSuffix(name, "_mock.go") }

func (a *analysis) collect() error {
	a.byObj = map[*types.Func]*Func{}
	a.byLit = map[*ast.FuncLit]*Func{}
	a.parents = map[ast.Node]ast.Node{}
	a.escSet = map[*Func]bool{}
	a.classes = set{}
	for _, rel := range lockPackages {
		p, err := a.l.Load(a.l.Module + "/" + rel)
		if err != nil {
			return err
		}
		a.pkgs = append(a.pkgs, p)
		// named types
		sc := p.Types.Scope()
		for _, n := range sc.Names() {
			if tn, ok := sc.Lookup(n).(*types.TypeName); ok && !tn.IsAlias() {
				if nt, ok := tn.Type().(*types.Named); ok {
					if _, isIface := nt.Underlying().(*types.Interface); !isIface {
						a.named = append(a.named, nt)
					}
				}
			}
		}
		for i, f := range p.Files {
			if isMockFile(p.Names[i]) {
				continue // gomock-generated doubles: no locks, not part of the broker
			}
			// parent links
			var stack []ast.Node
			ast.Inspect(f, func(n ast.Node) bool {
				if n == nil {
					stack = stack[:len(stack)-1]
					return true
				}
				if len(stack) > 0 {
					a.parents[n] = stack[len(stack)-1]
				}
				stack = append(stack, n)
				return true
			})
			for _, d := range f.Decls {
				fd, ok := d.(*ast.FuncDecl)
				if !ok || fd.Body == nil {
					continue
				}
				obj, _ := p.Info.Defs[fd.Name].(*types.Func)
				if obj == nil {
					return fmt.Errorf("%s: no type information for function %s", a.l.Pos(fd.Pos()), fd.Name.Name)
				}
				sig := obj.Type().(*types.Signature)
				name := p.Rel + "." + fd.Name.Name
				if sig.Recv() != nil {
					tn, ok := a.typeName(sig.Recv().Type())
					if !ok {
						return fmt.Errorf("%s: receiver type of %s not understood", a.l.Pos(fd.Pos()), fd.Name.Name)
					}
					name = tn + "." + fd.Name.Name
				}
				fn := &Func{name: name, pkg: p, decl: fd, body: fd.Body, sig: sig, obj: obj, pos: fd.Pos(), exported: fd.Name.IsExported()}
				a.funcs = append(a.funcs, fn)
				a.byObj[obj] = fn
				a.collectLits(fn, fd.Body)
			}
			// function literals in package-level variable initialisers
			for _, d := range f.Decls {
				gd, ok := d.(*ast.GenDecl)
				if !ok || gd.Tok != token.VAR {
					continue
				}
				for _, sp := range gd.Specs {
					for _, v := range sp.(*ast.ValueSpec).Values {
						holder := &Func{name: p.Rel + ".<init>", pkg: p, pos: v.Pos()}
						a.collectLitsExpr(holder, v)
					}
				}
			}
		}
	}
	sort.Slice(a.funcs, func(i, j int) bool {
		if a.funcs[i].name != a.funcs[j].name {
			return a.funcs[i].name < a.funcs[j].name
		}
		return a.funcs[i].pos < a.funcs[j].pos
	})
	if len(a.funcs) < 100 {
		return fmt.Errorf("only %d functions found in the analysed packages", len(a.funcs))
	}
	return nil
}

func (a *analysis) collectLits(parent *Func, body ast.Node) { a.collectLitsExpr(parent, body) }

func (a *analysis) collectLitsExpr(parent *Func, root ast.Node) {
	ast.Inspect(root, func(n ast.Node) bool {
		lit, ok := n.(*ast.FuncLit)
		if !ok {
			return true
		}
		parent.nlits++
		tv := parent.pkg.Info.Types[lit]
		sig, _ := tv.Type.(*types.Signature)
		if sig == nil {
			sig = types.NewSignatureType(nil, nil, nil, nil, nil, false)
		}
		fn := &Func{name: fmt.Sprintf("%s$%d", parent.name, parent.nlits), pkg: parent.pkg, lit: lit, body: lit.Body, sig: sig, parent: parent, pos: lit.Pos()}
		a.funcs = append(a.funcs, fn)
		a.byLit[lit] = fn
		a.collectLitsExpr(fn, lit.Body)
		return false
	})
}

// ---------------------------------------------------------------- lock operations

func isSyncNamed(t types.Type, name string) bool {
	for {
		t = types.Unalias(t)
		if p, ok := t.(*types.Pointer); ok {
			t = p.Elem()
			continue
		}
		break
	}
	n, ok := t.(*types.Named)
	return ok && n.Obj().Pkg() != nil && n.Obj().Pkg().Path() == "sync" && n.Obj().Name() == name
}

// lockOp recognises X.Lock/RLock/Unlock/RUnlock (sync.Mutex, sync.RWMutex, sync.Locker),
// cond.Wait, WaitGroup.Wait and time.Sleep.
func (a *analysis) lockOp(w *walker, c *ast.CallExpr) (op string, class string, ok bool) {
	sel, isSel := c.Fun.(*ast.SelectorExpr)
	if !isSel {
		return "", "", false
	}
	fobj, _ := w.info.Uses[sel.Sel].(*types.Func)
	if fobj == nil || fobj.Pkg() == nil {
		return "", "", false
	}
	if fobj.Pkg().Path() == "time" && fobj.Name() == "Sleep" {
		return "Sleep", "", true
	}
	if fobj.Pkg().Path() != "sync" {
		return "", "", false
	}
	sig := fobj.Type().(*types.Signature)
	if sig.Recv() == nil {
		return "", "", false
	}
	rt := sig.Recv().Type()
	switch {
	case isSyncNamed(rt, "Mutex") || isSyncNamed(rt, "RWMutex") || isSyncNamed(rt, "Locker"):
		switch fobj.Name() {
		case "Lock", "RLock", "Unlock", "RUnlock", "TryLock", "TryRLock":
		default:
			return "", "", false // RLocker etc.
		}
		s := w.info.Selections[sel]
		if s == nil {
			w.fail(c.Pos(), "lock operation %s without selection information", exprString(c.Fun))
		}
		var cl string
		if len(s.Index()) > 1 {
			// promoted through embedded field(s)
			tn, ok := a.typeName(s.Recv())
			if !ok {
				w.fail(c.Pos(), "lock operation on embedded mutex of unnamed type %s", s.Recv())
			}
			cl = tn + a.embeddedPath(w, s, c.Pos())
		} else {
			cl = a.mutexClass(w, sel.X)
		}
		a.classes[cl] = true
		return fobj.Name(), cl, true
	case isSyncNamed(rt, "Cond"):
		if fobj.Name() != "Wait" {
			return "", "", false // Signal, Broadcast
		}
		cl := a.condClass(w, sel.X) + ".L"
		a.classes[cl] = true
		return "Wait", cl, true
	case isSyncNamed(rt, "WaitGroup"):
		if fobj.Name() == "Wait" {
			return "WaitGroup.Wait", "", true
		}
	}
	return "", "", false
}

func (a *analysis) embeddedPath(w *walker, s *types.Selection, pos token.Pos) string {
	t := s.Recv()
	path := ""
	idx := s.Index()
	for _, i := range idx[:len(idx)-1] {
		for {
			t = types.Unalias(t)
			if p, ok := t.(*types.Pointer); ok {
				t = p.Elem()
				continue
			}
			break
		}
		st, ok := t.Underlying().(*types.Struct)
		if !ok {
			w.fail(pos, "embedded lock path through non-struct %s", t)
		}
		f := st.Field(i)
		path += "." + f.Name()
		t = f.Type()
	}
	return path
}

// mutexClass: the class of an expression of type sync.Mutex / *sync.Mutex / sync.RWMutex / sync.Locker
func (a *analysis) mutexClass(w *walker, x ast.Expr) string {
	switch e := x.(type) {
	case *ast.ParenExpr:
		return a.mutexClass(w, e.X)
	case *ast.UnaryExpr:
		if e.Op == token.AND {
			return a.mutexClass(w, e.X)
		}
	case *ast.StarExpr:
		return a.mutexClass(w, e.X)
	case *ast.SelectorExpr:
		// A.f
		if tv, ok := w.info.Types[e.X]; ok && isSyncNamed(tv.Type, "Cond") {
			if e.Sel.Name != "L" {
				w.fail(x.Pos(), "selector %s on sync.Cond", e.Sel.Name)
			}
			return a.condClass(w, e.X) + ".L"
		}
		s := w.info.Selections[e]
		if s == nil || s.Kind() != types.FieldVal {
			w.fail(x.Pos(), "lock expression %s is not a field selection", exprString(x))
		}
		tn, ok := a.typeName(s.Recv())
		if !ok {
			w.fail(x.Pos(), "lock expression %s: owner type %s is not a named type", exprString(x), s.Recv())
		}
		if len(s.Index()) > 1 {
			return tn + a.embeddedPath(w, s, x.Pos()) + "." + e.Sel.Name
		}
		return tn + "." + e.Sel.Name
	case *ast.Ident:
		obj := w.info.ObjectOf(e)
		v, ok := obj.(*types.Var)
		if !ok {
			break
		}
		if v.Parent() == v.Pkg().Scope() {
			return relName(a.l, v.Pkg()) + "." + v.Name()
		}
		w.fail(x.Pos(), "lock held in a local variable or parameter (%s) is not understood", e.Name)
	}
	w.fail(x.Pos(), "lock expression %s is not understood", exprString(x))
	return ""
}

func (a *analysis) condClass(w *walker, x ast.Expr) string {
	e, ok := x.(*ast.SelectorExpr)
	if !ok {
		w.fail(x.Pos(), "sync.Cond expression %s is not a field selection", exprString(x))
	}
	s := w.info.Selections[e]
	if s == nil || s.Kind() != types.FieldVal {
		w.fail(x.Pos(), "sync.Cond expression %s is not a field selection", exprString(x))
	}
	tn, ok := a.typeName(s.Recv())
	if !ok {
		w.fail(x.Pos(), "sync.Cond expression %s: owner type is not named", exprString(x))
	}
	return tn + "." + e.Sel.Name
}

// checkCondConstructors: every sync.NewCond gets a fresh &sync.Mutex{} (so that `<cond>.L` is a
// lock class of its own)
func (a *analysis) checkCondConstructors() error {
	for _, p := range a.pkgs {
		for i, f := range p.Files {
			if isMockFile(p.Names[i]) {
				continue
			}
			var err error
			ast.Inspect(f, func(n ast.Node) bool {
				c, ok := n.(*ast.CallExpr)
				if !ok || err != nil {
					return true
				}
				sel, ok := c.Fun.(*ast.SelectorExpr)
				if !ok || sel.Sel.Name != "NewCond" {
					return true
				}
				if fo, _ := p.Info.Uses[sel.Sel].(*types.Func); fo == nil || fo.Pkg() == nil || fo.Pkg().Path() != "sync" {
					return true
				}
				okShape := false
				if len(c.Args) == 1 {
					if u, ok := c.Args[0].(*ast.UnaryExpr); ok && u.Op == token.AND {
						if cl, ok := u.X.(*ast.CompositeLit); ok && len(cl.Elts) == 0 && exprString(cl.Type) == "sync.Mutex" {
							okShape = true
						}
					}
				}
				if !okShape {
					err = fmt.Errorf("%s: sync.NewCond argument is not a fresh &sync.Mutex{}", a.l.Pos(c.Pos()))
				}
				return true
			})
			if err != nil {
				return err
			}
		}
	}
	return nil
}

// ---------------------------------------------------------------- call resolution

// resolve: the functions of the analysed packages a call may reach.
//
//	callees != nil : static or interface-resolved callees
//	dyn            : call through a function value (or an interface without implementation here)
//	ext            : qualified name of an external function/method (for the few that matter)
func (a *analysis) resolve(w *walker, c *ast.CallExpr) (callees []*Func, dyn bool, ext string) {
	a.viaIface = false
	fun := ast.Unparen(c.Fun)
	if tv, ok := w.info.Types[fun]; ok && tv.IsType() {
		return nil, false, "" // conversion
	}
	if lit, ok := fun.(*ast.FuncLit); ok {
		if g := a.byLit[lit]; g != nil {
			return []*Func{g}, false, ""
		}
		return nil, false, ""
	}
	var id *ast.Ident
	switch f := fun.(type) {
	case *ast.Ident:
		id = f
	case *ast.SelectorExpr:
		id = f.Sel
	case *ast.IndexExpr: // generic instantiation: not used by the analysed packages
		if tv, ok := w.info.Types[fun]; ok && tv.Type != nil {
			if _, isSig := tv.Type.Underlying().(*types.Signature); isSig {
				return nil, true, ""
			}
		}
		return nil, false, ""
	}
	if id != nil {
		switch obj := w.info.Uses[id].(type) {
		case *types.Builtin:
			return nil, false, ""
		case *types.Func:
			sig := obj.Type().(*types.Signature)
			if sig.Recv() != nil {
				if it, ok := sig.Recv().Type().Underlying().(*types.Interface); ok {
					impls := a.implementations(it, obj.Name())
					if len(impls) > 0 {
						a.viaIface = true
						return impls, false, ""
					}
					if obj.Pkg() != nil && a.l.isRepoPath(obj.Pkg().Path()) {
						return nil, true, "" // repo interface implemented elsewhere (plugins, redis)
					}
					return nil, false, qualified(obj)
				}
			}
			if g := a.byObj[obj]; g != nil {
				return []*Func{g}, false, ""
			}
			return nil, false, qualified(obj)
		case nil:
			// untyped (third-party) callee
			if tv, ok := w.info.Types[fun]; !ok || tv.Type == nil || tv.Type == types.Typ[types.Invalid] {
				return nil, false, "?"
			}
		}
	}
	if tv, ok := w.info.Types[fun]; ok && tv.Type != nil {
		if _, isSig := tv.Type.Underlying().(*types.Signature); isSig {
			return nil, true, ""
		}
	}
	return nil, false, "?"
}

func qualified(f *types.Func) string {
	sig := f.Type().(*types.Signature)
	if sig.Recv() != nil {
		t := sig.Recv().Type()
		for {
			t = types.Unalias(t)
			if p, ok := t.(*types.Pointer); ok {
				t = p.Elem()
				continue
			}
			break
		}
		if n, ok := t.(*types.Named); ok && n.Obj().Pkg() != nil {
			return n.Obj().Pkg().Path() + "." + n.Obj().Name() + "." + f.Name()
		}
		return f.Name()
	}
	if f.Pkg() != nil {
		return f.Pkg().Path() + "." + f.Name()
	}
	return f.Name()
}

// implementations: methods `name` of the named types of the analysed packages whose method set
// contains every method name of the interface (over-approximation: signatures are not compared,
// because third-party parameter types are opaque here).
func (a *analysis) implementations(it *types.Interface, name string) []*Func {
	var out []*Func
	if it.NumMethods() == 0 {
		return nil
	}
	for _, nt := range a.named {
		ms := types.NewMethodSet(types.NewPointer(nt))
		all := true
		for i := 0; i < it.NumMethods(); i++ {
			if ms.Lookup(it.Method(i).Pkg(), it.Method(i).Name()) == nil {
				all = false
				break
			}
		}
		if !all {
			continue
		}
		{
			for i := 0; i < ms.Len(); i++ {
				if ms.At(i).Obj().Name() == name {
					if fo, ok := ms.At(i).Obj().(*types.Func); ok {
						if g := a.byObj[fo]; g != nil {
							out = append(out, g)
						}
					}
				}
			}
		}
	}
	sort.Slice(out, func(i, j int) bool { return out[i].name < out[j].name })
	return out
}

// findEscaped: function literals and declared functions used as VALUES (not only called)
func (a *analysis) findEscaped() {
	for _, f := range a.funcs {
		if f.body == nil {
			continue
		}
		info := f.pkg.Info
		ast.Inspect(f.body, func(n ast.Node) bool {
			switch x := n.(type) {
			case *ast.FuncLit:
				g := a.byLit[x]
				if g != nil && !a.isCallFun(x) {
					a.markEscaped(g)
				}
				return false // nested literal bodies are visited as their own Func
			case *ast.Ident:
				if fo, ok := info.Uses[x].(*types.Func); ok {
					if g := a.byObj[fo]; g != nil {
						var node ast.Node = x
						if p, ok := a.parents[x].(*ast.SelectorExpr); ok && p.Sel == x {
							node = p
						}
						if !a.isCallFun(node) {
							a.markEscaped(g)
						}
					}
				}
			}
			return true
		})
	}
	sort.Slice(a.escaped, func(i, j int) bool { return a.escaped[i].name < a.escaped[j].name })
}

func (a *analysis) isCallFun(n ast.Node) bool {
	p := a.parents[n]
	for {
		if pe, ok := p.(*ast.ParenExpr); ok {
			n, p = pe, a.parents[pe]
			continue
		}
		break
	}
	c, ok := p.(*ast.CallExpr)
	return ok && ast.Unparen(c.Fun) == n
}

func (a *analysis) markEscaped(g *Func) {
	if !a.escSet[g] {
		a.escSet[g] = true
		a.escaped = append(a.escaped, g)
	}
}

func sigNoRecv(s *types.Signature) *types.Signature {
	if s.Recv() == nil {
		return s
	}
	return types.NewSignatureType(nil, nil, nil, s.Params(), s.Results(), s.Variadic())
}

// bySignature: candidates of a call through a function value
func (a *analysis) bySignature(w *walker, c *ast.CallExpr) []*Func {
	tv, ok := w.info.Types[ast.Unparen(c.Fun)]
	if !ok || tv.Type == nil {
		return nil
	}
	sig, ok := tv.Type.Underlying().(*types.Signature)
	if !ok {
		return nil
	}
	var out []*Func
	for _, g := range a.escaped {
		if types.Identical(sigNoRecv(g.sig), sig) {
			out = append(out, g)
		}
	}
	return out
}

// funcValues: the functions of the analysed packages an expression of function type denotes
// syntactically (literal, function name, method value)
func (a *analysis) funcValues(w *walker, e ast.Expr) []*Func {
	e = ast.Unparen(e)
	switch x := e.(type) {
	case *ast.FuncLit:
		if g := a.byLit[x]; g != nil {
			return []*Func{g}
		}
	case *ast.Ident:
		if fo, ok := w.info.Uses[x].(*types.Func); ok {
			if g := a.byObj[fo]; g != nil {
				return []*Func{g}
			}
		}
	case *ast.SelectorExpr:
		if fo, ok := w.info.Uses[x.Sel].(*types.Func); ok {
			if g := a.byObj[fo]; g != nil {
				return []*Func{g}
			}
		}
	case *ast.CallExpr: // conversion T(f)
		if tv, ok := w.info.Types[x.Fun]; ok && tv.IsType() && len(x.Args) == 1 {
			return a.funcValues(w, x.Args[0])
		}
	}
	return nil
}

// ---------------------------------------------------------------- driver

func genLocks(l *Loader) (content string, summaryLine string, err error) {
	defer func() {
		if r := recover(); r != nil {
			if e, ok := r.(error); ok {
				err = e
				return
			}
			panic(r)
		}
	}()
	a := &analysis{l: l}
	if err := a.collect(); err != nil {
		return "", "", err
	}
	if err := a.checkCondConstructors(); err != nil {
		return "", "", err
	}
	a.findEscaped()
	// Pre-pass: one walk of every function to learn the call edges (static, interface-resolved,
	// by-signature candidates, deferred and handed-over function values).
	for _, f := range a.funcs {
		if f.body != nil {
			a.walkFunc(f)
		}
	}
	sccs := a.sccOrder()
	// Summaries are then computed bottom-up over the strongly connected components of the call
	// graph (callees first); inside a component the iteration starts from "no net effect".
	empty := func() summary {
		return summary{valid: true, acqMay: set{}, acqMust: set{}, relMay: set{}, relMust: set{}}
	}
	for _, f := range a.funcs {
		f.sumAll, f.sumNormal, f.sumErr = empty(), empty(), summary{}
	}
	for _, comp := range sccs {
		for round := 0; ; round++ {
			if round > 20 {
				return "", "", fmt.Errorf("function summaries do not stabilise in the component of %s", comp[0].name)
			}
			changed := false
			for _, f := range comp {
				if f.body != nil && a.walkFunc(f) {
					changed = true
				}
			}
			if !changed {
				break
			}
		}
	}
	// final walk with the final summaries (events and snapshots used below)
	for _, f := range a.funcs {
		if f.body != nil && a.walkFunc(f) {
			return "", "", fmt.Errorf("summary of %s changed after the bottom-up pass", f.name)
		}
	}
	a.propagateMay()
	a.propagateMust()
	a.debugDump()
	return a.output()
}

// sccOrder: strongly connected components of the call graph in reverse topological order
// (callees before callers), deterministic.
func (a *analysis) sccOrder() [][]*Func {
	succ := map[*Func][]*Func{}
	for _, f := range a.funcs {
		seen := map[*Func]bool{}
		for i := range f.events {
			for _, g := range f.events[i].callees {
				if !seen[g] {
					seen[g] = true
					succ[f] = append(succ[f], g)
				}
			}
		}
	}
	index := map[*Func]int{}
	low := map[*Func]int{}
	on := map[*Func]bool{}
	var stack []*Func
	var out [][]*Func
	n := 0
	var strong func(v *Func)
	strong = func(v *Func) {
		n++
		index[v], low[v] = n, n
		stack = append(stack, v)
		on[v] = true
		for _, w := range succ[v] {
			if index[w] == 0 {
				strong(w)
				if low[w] < low[v] {
					low[v] = low[w]
				}
			} else if on[w] && index[w] < low[v] {
				low[v] = index[w]
			}
		}
		if low[v] == index[v] {
			var comp []*Func
			for {
				w := stack[len(stack)-1]
				stack = stack[:len(stack)-1]
				on[w] = false
				comp = append(comp, w)
				if w == v {
					break
				}
			}
			sort.Slice(comp, func(i, j int) bool { return comp[i].name < comp[j].name })
			out = append(out, comp)
		}
	}
	for _, f := range a.funcs {
		if index[f] == 0 {
			strong(f)
		}
	}
	return out
}
