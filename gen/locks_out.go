package main

import (
	"fmt"
	"go/ast"
	"go/token"
	"go/types"
	"sort"
	"strings"
)

// ---------------------------------------------------------------- MAY propagation

func (a *analysis) absMay(f *Func, s snapshot) set {
	r := set{}
	for k := range s.may {
		r[k] = true
	}
	for k := range f.entryMay {
		if !s.relMust[k] {
			r[k] = true
		}
	}
	return r
}

func (a *analysis) propagateMay() {
	for _, f := range a.funcs {
		f.entryMay = map[string]*witness{}
	}
	work := append([]*Func(nil), a.funcs...)
	inWork := map[*Func]bool{}
	for _, f := range work {
		inWork[f] = true
	}
	for len(work) > 0 {
		f := work[0]
		work = work[1:]
		inWork[f] = false
		for i := range f.events {
			e := &f.events[i]
			if (e.kind != evCall && e.kind != evDyn) || e.fresh {
				continue
			}
			ctx := a.absMay(f, e.snap).keys()
			for _, g := range e.callees {
				ch := false
				for _, c := range ctx {
					if g.entryMay[c] == nil {
						g.entryMay[c] = &witness{f, e}
						ch = true
					}
				}
				if ch && !inWork[g] {
					inWork[g] = true
					work = append(work, g)
				}
			}
		}
	}
}

// ---------------------------------------------------------------- MUST propagation

type site struct {
	f *Func
	e *event
}

type mustCtx struct {
	a        *analysis
	sites    map[*ast.CallExpr][]site
	uses     map[types.Object][]*ast.Ident
	enclMemo map[ast.Node]*Func
}

func (a *analysis) enclosing(m *mustCtx, n ast.Node) *Func {
	if f, ok := m.enclMemo[n]; ok {
		return f
	}
	var res *Func
	for p := a.parents[n]; p != nil; p = a.parents[p] {
		switch x := p.(type) {
		case *ast.FuncLit:
			res = a.byLit[x]
		case *ast.FuncDecl:
			for _, pk := range a.pkgs {
				if fo, ok := pk.Info.Defs[x.Name].(*types.Func); ok {
					res = a.byObj[fo]
					break
				}
			}
		}
		if res != nil {
			break
		}
	}
	m.enclMemo[n] = res
	return res
}

func mustAt(entry set, s snapshot) set {
	r := set{}
	for k := range entry {
		if !s.relMay[k] {
			r[k] = true
		}
	}
	for k := range s.must {
		r[k] = true
	}
	return r
}

func (a *analysis) propagateMust() {
	m := &mustCtx{a: a, sites: map[*ast.CallExpr][]site{}, uses: map[types.Object][]*ast.Ident{}, enclMemo: map[ast.Node]*Func{}}
	for _, f := range a.funcs {
		for i := range f.events {
			e := &f.events[i]
			if e.call != nil && (e.kind == evCall || e.kind == evDyn) {
				m.sites[e.call] = append(m.sites[e.call], site{f, e})
			}
		}
	}
	for _, p := range a.pkgs {
		for i, f := range p.Files {
			if isMockFile(p.Names[i]) {
				continue
			}
			ast.Inspect(f, func(n ast.Node) bool {
				if id, ok := n.(*ast.Ident); ok {
					if o := p.Info.Uses[id]; o != nil {
						if _, isVar := o.(*types.Var); isVar {
							m.uses[o] = append(m.uses[o], id)
						}
					}
				}
				return true
			})
		}
	}
	top := a.classes.copy()
	for _, f := range a.funcs {
		f.entryMust = top.copy()
	}
	for round := 0; ; round++ {
		if round > 50 {
			panic(fmt.Errorf("must-held propagation does not stabilise"))
		}
		changed := false
		for _, g := range a.funcs {
			ctxs := m.contextsOf(g)
			var nm set
			if len(ctxs) == 0 {
				nm = set{}
			} else {
				nm = ctxs[0].copy()
				for _, c := range ctxs[1:] {
					for k := range nm {
						if !c[k] {
							delete(nm, k)
						}
					}
				}
			}
			if !setEq(nm, g.entryMust) {
				g.entryMust = nm
				changed = true
			}
		}
		if !changed {
			return
		}
	}
}

// contextsOf: the must-held sets with which g can be entered
func (m *mustCtx) contextsOf(g *Func) []set {
	a := m.a
	var ctxs []set
	if g.exported || g.body == nil {
		ctxs = append(ctxs, set{}) // callable from outside the analysed packages
	}
	// static and interface-resolved calls (not the by-signature candidates of dynamic calls)
	for _, f := range a.funcs {
		for i := range f.events {
			e := &f.events[i]
			if e.kind != evCall {
				continue
			}
			for _, c := range e.callees {
				if c != g {
					continue
				}
				if e.fresh || (e.extName != "" && e.extName != "sync.Once.Do") {
					ctxs = append(ctxs, set{}) // new goroutine, or handed to external code that may call it later
				} else {
					ctxs = append(ctxs, mustAt(f.entryMust, e.snap))
				}
			}
		}
	}
	// value flows
	if a.escSet[g] {
		for _, occ := range m.valueOccurrences(g) {
			encl := a.enclosing(m, occ)
			var entry set
			if encl != nil {
				entry = encl.entryMust
			}
			ctxs = append(ctxs, m.flow(occ, encl, entry, map[types.Object]bool{})...)
		}
	}
	return ctxs
}

// valueOccurrences: the expressions that denote g as a value
func (m *mustCtx) valueOccurrences(g *Func) []ast.Node {
	a := m.a
	var out []ast.Node
	if g.lit != nil {
		if !a.isCallFun(g.lit) {
			out = append(out, g.lit)
		}
		return out
	}
	for _, f := range a.funcs {
		if f.body == nil {
			continue
		}
		info := f.pkg.Info
		ast.Inspect(f.body, func(n ast.Node) bool {
			if _, ok := n.(*ast.FuncLit); ok && n != ast.Node(f.lit) {
				return false
			}
			if id, ok := n.(*ast.Ident); ok {
				if fo, ok := info.Uses[id].(*types.Func); ok && fo == g.obj {
					var node ast.Node = id
					if p, ok := a.parents[id].(*ast.SelectorExpr); ok && p.Sel == id {
						node = p
					}
					if !a.isCallFun(node) {
						out = append(out, node)
					}
				}
			}
			return true
		})
	}
	return out
}

// flow: contexts in which the function value denoted by occurrence n (inside function encl,
// whose entry must-set for THIS flow is `entry`) can be invoked.
func (m *mustCtx) flow(n ast.Node, encl *Func, entry set, visiting map[types.Object]bool) []set {
	a := m.a
	unknown := []set{{}}
	if encl == nil {
		return unknown
	}
	info := encl.pkg.Info
	p := a.parents[n]
	for {
		if pe, ok := p.(*ast.ParenExpr); ok {
			n, p = pe, a.parents[pe]
			continue
		}
		// conversion T(f): the value flows on to the conversion's consumer
		if c, ok := p.(*ast.CallExpr); ok && len(c.Args) == 1 && c.Args[0] == n {
			if tv, ok := info.Types[c.Fun]; ok && tv.IsType() {
				n, p = c, a.parents[c]
				continue
			}
		}
		break
	}
	atSites := func(c *ast.CallExpr) ([]set, bool) {
		var r []set
		for _, s := range m.sites[c] {
			if s.f != encl {
				continue
			}
			if s.e.fresh {
				r = append(r, set{})
			} else {
				r = append(r, mustAt(entry, s.e.snap))
			}
		}
		return r, len(r) > 0
	}
	switch x := p.(type) {
	case *ast.CallExpr:
		if ast.Unparen(x.Fun) == n {
			// called here
			if _, isGo := a.parents[x].(*ast.GoStmt); isGo {
				return unknown
			}
			r, ok := atSites(x)
			if !ok {
				return unknown
			}
			return r
		}
		idx := -1
		for i, arg := range x.Args {
			if arg == n {
				idx = i
			}
		}
		if idx < 0 {
			return unknown
		}
		if _, isGo := a.parents[x].(*ast.GoStmt); isGo {
			return unknown
		}
		w := &walker{a: a, f: encl, info: info}
		callees, _, ext := a.resolve(w, x)
		if len(callees) == 0 {
			if ext == "sync.Once.Do" {
				// Once.Do calls its argument synchronously (or not at all)
				var r []set
				for _, fobj := range []*ast.CallExpr{x} {
					// the walker recorded one evCall per function value argument with call == x
					rs, ok := atSites(fobj)
					if !ok {
						return unknown
					}
					r = append(r, rs...)
				}
				return r
			}
			return unknown
		}
		siteMust, ok := atSites(x)
		if !ok {
			return unknown
		}
		var out []set
		for _, g := range callees {
			ps := g.sig.Params()
			if idx >= ps.Len() || (g.sig.Variadic() && idx >= ps.Len()-1) {
				return unknown
			}
			pv := ps.At(idx)
			for _, sm := range siteMust {
				out = append(out, m.param(g, pv, sm, visiting)...)
			}
		}
		return out
	case *ast.AssignStmt:
		if len(x.Lhs) != len(x.Rhs) {
			return unknown
		}
		for i, r := range x.Rhs {
			if r == n {
				return m.holderOf(x.Lhs[i], encl, visiting)
			}
		}
		return nil // n is on the left-hand side: a write, no flow
	case *ast.ValueSpec:
		for i, r := range x.Values {
			if r == n && i < len(x.Names) {
				if o := info.Defs[x.Names[i]]; o != nil {
					return m.holder(o, visiting)
				}
			}
		}
		return unknown
	case *ast.KeyValueExpr:
		if x.Value != n {
			return unknown
		}
		if id, ok := x.Key.(*ast.Ident); ok {
			if o, ok := info.Uses[id].(*types.Var); ok && o.IsField() {
				return m.holder(o, visiting)
			}
		}
		return unknown
	case *ast.BinaryExpr:
		if x.Op == token.EQL || x.Op == token.NEQ {
			return nil // nil comparison: not a use of the value
		}
		return unknown
	case *ast.SelectorExpr:
		// n is the X of a selector whose Sel is the method/field: the occurrence was the inner part
		return unknown
	}
	return unknown
}

func (m *mustCtx) holderOf(lhs ast.Expr, encl *Func, visiting map[types.Object]bool) []set {
	info := encl.pkg.Info
	switch l := ast.Unparen(lhs).(type) {
	case *ast.Ident:
		if l.Name == "_" {
			return nil
		}
		if o := info.ObjectOf(l); o != nil {
			return m.holder(o, visiting)
		}
	case *ast.SelectorExpr:
		if s := info.Selections[l]; s != nil && s.Kind() == types.FieldVal {
			return m.holder(s.Obj(), visiting)
		}
	}
	return []set{{}}
}

// holder: contexts of all reads of a variable / struct field that holds the function value
func (m *mustCtx) holder(o types.Object, visiting map[types.Object]bool) []set {
	a := m.a
	if visiting[o] {
		return nil
	}
	visiting[o] = true
	defer delete(visiting, o)
	v, ok := o.(*types.Var)
	if !ok {
		return []set{{}}
	}
	var out []set
	if v.Exported() && (v.IsField() || (v.Pkg() != nil && v.Parent() == v.Pkg().Scope())) {
		out = append(out, set{}) // readable from other packages
	}
	for _, id := range m.uses[o] {
		var node ast.Node = id
		if p, ok := a.parents[id].(*ast.SelectorExpr); ok && p.Sel == id {
			node = p
		}
		// writes
		if as, ok := a.parents[node].(*ast.AssignStmt); ok {
			isL := false
			for _, l := range as.Lhs {
				if l == node {
					isL = true
				}
			}
			if isL {
				continue
			}
		}
		if u, ok := a.parents[node].(*ast.UnaryExpr); ok && u.Op == token.AND {
			out = append(out, set{})
			continue
		}
		encl := a.enclosing(m, node)
		if encl == nil {
			out = append(out, set{})
			continue
		}
		out = append(out, m.flow(node, encl, encl.entryMust, visiting)...)
	}
	return out
}

// param: the value arrives in parameter pv of g, g being entered with must-set entryM
func (m *mustCtx) param(g *Func, pv *types.Var, entryM set, visiting map[types.Object]bool) []set {
	a := m.a
	if visiting[pv] {
		return nil
	}
	visiting[pv] = true
	defer delete(visiting, pv)
	var out []set
	for _, id := range m.uses[pv] {
		var node ast.Node = id
		if as, ok := a.parents[node].(*ast.AssignStmt); ok {
			isL := false
			for _, l := range as.Lhs {
				if l == node {
					isL = true
				}
			}
			if isL {
				continue
			}
		}
		if u, ok := a.parents[node].(*ast.UnaryExpr); ok && u.Op == token.AND {
			out = append(out, set{})
			continue
		}
		encl := a.enclosing(m, node)
		if encl == nil {
			out = append(out, set{})
			continue
		}
		if encl == g {
			out = append(out, m.flow(node, g, entryM, visiting)...)
		} else {
			out = append(out, m.flow(node, encl, encl.entryMust, visiting)...) // captured by a nested literal
		}
	}
	return out
}

// ---------------------------------------------------------------- output

func (a *analysis) heldPath(f *Func, h string, s snapshot, depth int) string {
	if depth > 30 {
		return "..."
	}
	if pos, ok := s.may[h]; ok {
		return fmt.Sprintf("%s [holds %s since %s]", f.name, h, a.l.Pos(pos))
	}
	w := f.entryMay[h]
	if w == nil {
		return f.name + " [?]"
	}
	return a.heldPath(w.from, h, w.ev.snap, depth+1) + fmt.Sprintf(" -> %s (called at %s)", f.name, a.l.Pos(w.ev.pos))
}

func baseName(f *Func) string {
	if f.decl == nil {
		return ""
	}
	return f.decl.Name.Name
}

func (a *analysis) guardOf(f *Func) (string, bool, error) {
	n := baseName(f)
	if n == "" || !(strings.HasSuffix(n, "Locked") || guardedExtra[n]) {
		return "", false, nil
	}
	if f.sig.Recv() == nil {
		return "", false, fmt.Errorf("%s: %s is a *Locked function without receiver: its lock is not known to the translator", a.l.Pos(f.pos), f.name)
	}
	tn, _ := a.typeName(f.sig.Recv().Type())
	g, ok := guardOfRecv[tn]
	if !ok {
		return "", false, fmt.Errorf("%s: %s: no guard lock is known for receiver type %s", a.l.Pos(f.pos), f.name, tn)
	}
	return g, true, nil
}

func (a *analysis) output() (string, string, error) {
	type edge struct{ from, to string }
	edgeW := map[edge]string{}
	type pair struct{ held, op string }
	blockW := map[pair]string{}
	dynW := map[pair]string{}
	type gsite struct {
		callee, guard, caller, pos, status string
	}
	var gsites []gsite
	gseen := map[string]bool{}
	nAcq, nCalls := 0, 0
	for _, f := range a.funcs {
		for i := range f.events {
			e := &f.events[i]
			held := a.absMay(f, e.snap).keys()
			switch e.kind {
			case evAcquire:
				nAcq++
				for _, h := range held {
					k := edge{h, e.class}
					wit := a.heldPath(f, h, e.snap, 0) + fmt.Sprintf(" ; %s %s at %s", e.mode, e.class, a.l.Pos(e.pos))
					if old, ok := edgeW[k]; !ok || len(wit) < len(old) || (len(wit) == len(old) && wit < old) {
						edgeW[k] = wit
					}
				}
			case evBlock:
				for _, h := range held {
					if h == e.class {
						continue
					}
					k := pair{h, fmt.Sprintf("%s @%s in %s", e.desc, a.l.Pos(e.pos), f.name)}
					wit := a.heldPath(f, h, e.snap, 0)
					if old, ok := blockW[k]; !ok || len(wit) < len(old) || (len(wit) == len(old) && wit < old) {
						blockW[k] = wit
					}
				}
			case evDyn:
				for _, h := range held {
					k := pair{h, fmt.Sprintf("%s(...) @%s in %s", e.desc, a.l.Pos(e.pos), f.name)}
					wit := a.heldPath(f, h, e.snap, 0)
					if old, ok := dynW[k]; !ok || len(wit) < len(old) || (len(wit) == len(old) && wit < old) {
						dynW[k] = wit
					}
				}
			case evCall:
				nCalls++
				for _, g := range e.callees {
					guard, ok, err := a.guardOf(g)
					if err != nil {
						return "", "", err
					}
					if !ok {
						continue
					}
					status := "GNo"
					if mustAt(f.entryMust, e.snap)[guard] {
						status = "GMust"
					} else if a.absMay(f, e.snap)[guard] {
						status = "GMayOnly"
					}
					s := gsite{g.name, guard, f.name, a.l.Pos(e.pos), status}
					key := s.callee + "|" + s.caller + "|" + s.pos
					if gseen[key] {
						// several events for one site (deferred call at several returns): keep the weakest
						for j := range gsites {
							if gsites[j].callee+"|"+gsites[j].caller+"|"+gsites[j].pos == key && statusRank(status) < statusRank(gsites[j].status) {
								gsites[j].status = status
							}
						}
						continue
					}
					gseen[key] = true
					gsites = append(gsites, s)
				}
			}
		}
	}
	// every guarded function must have been seen at least at one call site or be reported
	var b strings.Builder
	b.WriteString("(* GENERATED by /verif/gen (translator locks) from the Go source - do not edit.\n")
	b.WriteString("   Packages walked: " + strings.Join(lockPackages, ", ") + " (without *_test.go and *_mock.go).\n")
	b.WriteString("   lock_edges   : (held, acquired) between lock CLASSES (all instances of a field are one class);\n")
	b.WriteString("                  `held` MAY be held (union over paths and call contexts) when `acquired` is locked.\n")
	b.WriteString("                  RLock and Lock are not distinguished.  Each edge carries one witness call path.\n")
	b.WriteString("   blocking_under_lock : (held, blocking operation) - channel send/receive, select without default,\n")
	b.WriteString("                  range over a channel, sync.Cond.Wait (its own L excluded), WaitGroup.Wait, time.Sleep.\n")
	b.WriteString("   dyncalls_under_lock : (held, call through a function value / unimplemented interface): code the\n")
	b.WriteString("                  translator cannot see (hooks of plugins, callbacks) runs under that lock.\n")
	b.WriteString("   guarded_calls : every call site of a function named *Locked or deliverMessage with the lock its\n")
	b.WriteString("                  receiver type is guarded by, and whether that lock is held at the site on EVERY\n")
	b.WriteString("                  path and in EVERY call context (GMust), on some (GMayOnly) or on none (GNo). *)\n")
	b.WriteString("From Coq Require Import String List.\nImport ListNotations.\nLocal Open Scope string_scope.\n\n")

	classes := a.classes.keys()
	var items []string
	for _, c := range classes {
		items = append(items, mustCoqString(c))
	}
	b.WriteString("Definition lock_classes : list string := " + coqList(items, "") + ".\n\n")

	var edges []edge
	for k := range edgeW {
		edges = append(edges, k)
	}
	sort.Slice(edges, func(i, j int) bool {
		if edges[i].from != edges[j].from {
			return edges[i].from < edges[j].from
		}
		return edges[i].to < edges[j].to
	})
	b.WriteString("Definition lock_edges : list (string * string) := [\n")
	for i, e := range edges {
		sep := ";"
		if i+1 == len(edges) {
			sep = ""
		}
		b.WriteString(fmt.Sprintf("  (%s, %s)%s\n    (* %s *)\n", mustCoqString(e.from), mustCoqString(e.to), sep, coqComment(edgeW[e])))
	}
	b.WriteString("].\n\n")

	writePairs := func(name string, mp map[pair]string) int {
		var ps []pair
		for k := range mp {
			ps = append(ps, k)
		}
		sort.Slice(ps, func(i, j int) bool {
			if ps[i].held != ps[j].held {
				return ps[i].held < ps[j].held
			}
			return ps[i].op < ps[j].op
		})
		b.WriteString("Definition " + name + " : list (string * string) := [\n")
		for i, p := range ps {
			sep := ";"
			if i+1 == len(ps) {
				sep = ""
			}
			b.WriteString(fmt.Sprintf("  (%s, %s)%s\n    (* %s *)\n", mustCoqString(p.held), mustCoqString(p.op), sep, coqComment(mp[p])))
		}
		b.WriteString("].\n\n")
		return len(ps)
	}
	nBlock := writePairs("blocking_under_lock", blockW)
	nDyn := writePairs("dyncalls_under_lock", dynW)

	sort.Slice(gsites, func(i, j int) bool {
		if gsites[i].callee != gsites[j].callee {
			return gsites[i].callee < gsites[j].callee
		}
		if gsites[i].caller != gsites[j].caller {
			return gsites[i].caller < gsites[j].caller
		}
		return gsites[i].pos < gsites[j].pos
	})
	b.WriteString("Inductive guard_status := GMust | GMayOnly | GNo.\n\n")
	b.WriteString("Record guarded_call := mk_guarded_call {\n  gc_callee : string;\n  gc_guard : string;\n  gc_site : string;    (* caller @ file:line *)\n  gc_status : guard_status\n}.\n\n")
	b.WriteString("Definition guarded_calls : list guarded_call := [\n")
	nMust := 0
	for i, s := range gsites {
		sep := ";"
		if i+1 == len(gsites) {
			sep = ""
		}
		if s.status == "GMust" {
			nMust++
		}
		b.WriteString(fmt.Sprintf("  mk_guarded_call %s %s %s %s%s\n", mustCoqString(s.callee), mustCoqString(s.guard), mustCoqString(s.caller+" @ "+s.pos), s.status, sep))
	}
	b.WriteString("].\n\n")
	if len(gsites) == 0 {
		return "", "", fmt.Errorf("no call site of deliverMessage / *Locked functions found")
	}
	for _, want := range []string{"deliverMessage", "addMsgToQueueLocked", "sendWillLocked"} {
		found := false
		for _, s := range gsites {
			if strings.HasSuffix(s.callee, "."+want) {
				found = true
			}
		}
		if !found {
			return "", "", fmt.Errorf("no call site of %s found (renamed?)", want)
		}
	}
	nf := 0
	for _, f := range a.funcs {
		if f.body != nil {
			nf++
		}
	}
	b.WriteString(fmt.Sprintf("(* coverage of this run *)\nDefinition n_functions : nat := %d.\nDefinition n_acquisitions : nat := %d.\nDefinition n_call_events : nat := %d.\n", nf, nAcq, nCalls))
	content := b.String()
	if err := checkForbidden(content); err != nil {
		return "", "", err
	}
	sum := fmt.Sprintf("%d functions, %d lock classes, %d acquisitions, %d edges, %d blocking-under-lock pairs, %d dynamic calls under lock, %d guarded call sites (%d GMust)",
		nf, len(classes), nAcq, len(edges), nBlock, nDyn, len(gsites), nMust)
	return content, sum, nil
}

func statusRank(s string) int {
	switch s {
	case "GNo":
		return 0
	case "GMayOnly":
		return 1
	}
	return 2
}
