package main

// Intraprocedural part of the lock translator: an abstract walk over the structured AST of one
// function that tracks, RELATIVE to the (unknown) set of locks held at entry,
//
//	may     lock classes acquired in this function (directly or by a callee that returns
//	        holding them) that MAY be held here            (union at joins)
//	must    ... that are held here on EVERY path           (intersection at joins)
//	relMay  classes not acquired here that MAY have been released (Unlock of a caller's lock)
//	relMust ... that HAVE been released on every path
//
// and records events (acquisition, call, blocking operation, dynamic call) with a snapshot of
// that state.  `defer X.Unlock()` keeps X held to the end of the function; deferred calls run
// at every return reached after the defer statement.  Loops are iterated to a fixpoint.
// The only path-sensitivity is the Go error idiom (see stmts): after `.., err = g(..)` directly
// followed by `if err != nil { ...return }`, the continuation uses the exit states of g that
// are not inside an `if err != nil` block of g.

import (
	"fmt"
	"go/ast"
	"go/token"
	"go/types"
	"sort"
	"strings"
)

type set map[string]bool

func (s set) copy() set {
	r := set{}
	for k := range s {
		r[k] = true
	}
	return r
}
func (s set) keys() []string {
	r := make([]string, 0, len(s))
	for k := range s {
		r = append(r, k)
	}
	sort.Strings(r)
	return r
}
func setEq(a, b set) bool {
	if len(a) != len(b) {
		return false
	}
	for k := range a {
		if !b[k] {
			return false
		}
	}
	return true
}

type deferred struct {
	node  *ast.DeferStmt
	sure  bool
	bound bool // `defer X.Unlock()` registered while X was held by this function: it releases that hold only
}

// held: a lock acquired in this function that may be held; deferRel = on every path on which it
// is held, a `defer X.Unlock()` for it is registered (it is released at function exit)
type held struct {
	pos      token.Pos
	deferRel bool
}

type lstate struct {
	dead    bool
	may     map[string]held
	must    set
	relMay  set
	relMust set
	defers  []deferred
	nilv    map[types.Object]bool // error variables known to be nil here
}

func newState() lstate {
	return lstate{may: map[string]held{}, must: set{}, relMay: set{}, relMust: set{}, nilv: map[types.Object]bool{}}
}
func deadState() lstate { s := newState(); s.dead = true; return s }

func (s lstate) clone() lstate {
	r := lstate{dead: s.dead, may: map[string]held{}, must: s.must.copy(), relMay: s.relMay.copy(), relMust: s.relMust.copy(), nilv: map[types.Object]bool{}}
	for k, v := range s.may {
		r.may[k] = v
	}
	for k := range s.nilv {
		r.nilv[k] = true
	}
	r.defers = append([]deferred(nil), s.defers...)
	return r
}

func join(a, b lstate) lstate {
	if a.dead {
		return b.clone()
	}
	if b.dead {
		return a.clone()
	}
	r := newState()
	for k, v := range a.may {
		r.may[k] = v
	}
	for k, v := range b.may {
		if old, ok := r.may[k]; !ok {
			r.may[k] = v
		} else {
			if v.pos < old.pos {
				old.pos = v.pos
			}
			old.deferRel = old.deferRel && v.deferRel
			r.may[k] = old
		}
	}
	for k := range a.must {
		if b.must[k] {
			r.must[k] = true
		}
	}
	for k := range a.relMay {
		r.relMay[k] = true
	}
	for k := range b.relMay {
		r.relMay[k] = true
	}
	for k := range a.relMust {
		if b.relMust[k] {
			r.relMust[k] = true
		}
	}
	for k := range a.nilv {
		if b.nilv[k] {
			r.nilv[k] = true
		}
	}
	// defers: union, sure only when registered on both paths
	idx := map[*ast.DeferStmt]int{}
	for _, d := range a.defers {
		idx[d.node] = len(r.defers)
		r.defers = append(r.defers, deferred{d.node, false, d.bound})
	}
	inB := map[*ast.DeferStmt]bool{}
	for _, d := range b.defers {
		inB[d.node] = true
		if i, ok := idx[d.node]; ok {
			r.defers[i].sure = d.sure
		} else {
			r.defers = append(r.defers, deferred{d.node, false, d.bound})
		}
	}
	for i, d := range a.defers {
		if inB[d.node] {
			r.defers[i].sure = r.defers[i].sure && d.sure
		}
	}
	sort.SliceStable(r.defers, func(i, j int) bool { return r.defers[i].node.Pos() < r.defers[j].node.Pos() })
	return r
}

func stateEq(a, b lstate) bool {
	if a.dead != b.dead {
		return false
	}
	if len(a.may) != len(b.may) {
		return false
	}
	for k, v := range a.may {
		if w, ok := b.may[k]; !ok || w.deferRel != v.deferRel {
			return false
		}
	}
	if len(a.nilv) != len(b.nilv) {
		return false
	}
	for k := range a.nilv {
		if !b.nilv[k] {
			return false
		}
	}
	return setEq(a.must, b.must) && setEq(a.relMay, b.relMay) && setEq(a.relMust, b.relMust) && len(a.defers) == len(b.defers)
}

func (s *lstate) acquire(c string, pos token.Pos) {
	if _, ok := s.may[c]; !ok {
		s.may[c] = held{pos: pos}
	}
	s.must[c] = true
}

// release: sure release of class c
func (s *lstate) release(c string) {
	if _, ok := s.may[c]; ok {
		if !s.must[c] { // maybe it was the caller's
			s.relMay[c] = true
		}
		delete(s.may, c)
		delete(s.must, c)
		return
	}
	s.relMay[c] = true
	s.relMust[c] = true
}

// maybeRelease: c is released on some paths only
func (s *lstate) maybeRelease(c string) {
	delete(s.must, c)
	if _, ok := s.may[c]; !ok {
		s.relMay[c] = true
	}
}

type snapshot struct {
	may     map[string]token.Pos
	must    set
	relMay  set
	relMust set
}

func snap(s lstate) snapshot {
	c := s.clone()
	m := map[string]token.Pos{}
	for k, v := range c.may {
		m[k] = v.pos
	}
	return snapshot{m, c.must, c.relMay, c.relMust}
}

type evKind int

const (
	evAcquire evKind = iota
	evCall
	evBlock
	evDyn
)

type event struct {
	kind    evKind
	pos     token.Pos
	snap    snapshot
	class   string  // evAcquire: the class; evBlock: class released while waiting (cond.Wait) or ""
	mode    string  // evAcquire: Lock | RLock
	callees []*Func // evCall
	fresh   bool    // evCall: callee starts in a new goroutine (go, time.AfterFunc)
	desc    string
	call    *ast.CallExpr
	viaDef  bool
	extName string // evCall: the function value was handed to this external function
}

// summary of a function: join of its exit states (after deferred calls)
type summary struct {
	valid   bool
	acqMay  set
	acqMust set
	relMay  set
	relMust set
}

func sumOf(s lstate) summary {
	if s.dead {
		return summary{valid: false}
	}
	r := summary{valid: true, acqMay: set{}, acqMust: s.must.copy(), relMay: s.relMay.copy(), relMust: s.relMust.copy()}
	for k := range s.may {
		r.acqMay[k] = true
	}
	return r
}

func sumEq(a, b summary) bool {
	if a.valid != b.valid {
		return false
	}
	if !a.valid {
		return true
	}
	return setEq(a.acqMay, b.acqMay) && setEq(a.acqMust, b.acqMust) && setEq(a.relMay, b.relMay) && setEq(a.relMust, b.relMust)
}

type Func struct {
	name     string
	pkg      *Pkg
	decl     *ast.FuncDecl
	lit      *ast.FuncLit
	body     *ast.BlockStmt
	sig      *types.Signature
	obj      *types.Func
	parent   *Func
	pos      token.Pos
	exported bool
	nlits    int

	events    []event
	sumAll    summary
	sumNormal summary // exits where the last (error) result is nil or unknown
	sumErr    summary // exits where the last (error) result is non-nil or unknown

	// interprocedural results
	entryMay  map[string]*witness
	entryMust set // nil = not yet constrained (top)
	hasCtx    bool
}

type witness struct {
	from *Func
	ev   *event
}

type target struct {
	isLoop bool
	breaks *[]lstate
	conts  *[]lstate
}

type errCtx struct {
	obj   types.Object
	clean bool
}

type walker struct {
	a          *analysis
	f          *Func
	info       *types.Info
	exitsAll   []lstate
	exitsNorm  []lstate
	exitsErr   []lstate
	closureAsg map[types.Object]bool
	errMode    bool
	targets    []target
	errStack   []errCtx
	mute       int
	normalCall *ast.CallExpr
}

func (w *walker) fail(pos token.Pos, format string, args ...interface{}) {
	panic(fmt.Errorf("%s: in %s: %s", w.a.l.Pos(pos), w.f.name, fmt.Sprintf(format, args...)))
}

func (w *walker) record(e event) {
	if w.mute > 0 {
		return
	}
	w.f.events = append(w.f.events, e)
}

// walkFunc runs the local analysis of f; returns true when its summaries changed.
func (a *analysis) walkFunc(f *Func) bool {
	w := &walker{a: a, f: f, info: f.pkg.Info, closureAsg: map[types.Object]bool{}}
	// variables assigned inside nested function literals: no nil-ness facts for them
	ast.Inspect(f.body, func(n ast.Node) bool {
		if lit, ok := n.(*ast.FuncLit); ok && lit != f.lit {
			ast.Inspect(lit.Body, func(m ast.Node) bool {
				if as, ok := m.(*ast.AssignStmt); ok {
					for _, l := range as.Lhs {
						if id, ok := l.(*ast.Ident); ok {
							if o := w.info.ObjectOf(id); o != nil {
								w.closureAsg[o] = true
							}
						}
					}
				}
				return true
			})
			return false
		}
		return true
	})
	f.events = nil
	end := w.block(f.body, newState())
	if !end.dead {
		w.doReturn(end, f.body.Rbrace, 0)
	}
	all, norm, errs := deadState(), deadState(), deadState()
	for _, s := range w.exitsAll {
		all = join(all, s)
	}
	for _, s := range w.exitsNorm {
		norm = join(norm, s)
	}
	for _, s := range w.exitsErr {
		errs = join(errs, s)
	}
	sa, sn, se := sumOf(all), sumOf(norm), sumOf(errs)
	if !sa.valid { // never returns (infinite loop, panics): no net effect visible to callers
		sa = summary{valid: true, acqMay: set{}, acqMust: set{}, relMay: set{}, relMust: set{}}
	}
	if !sn.valid {
		sn = sa
	}
	// se may stay invalid: the function never returns a non-nil error
	changed := !sumEq(sa, f.sumAll) || !sumEq(sn, f.sumNormal) || !sumEq(se, f.sumErr)
	f.sumAll, f.sumNormal, f.sumErr = sa, sn, se
	return changed
}

// doReturn: run the deferred calls registered in st (LIFO) and record the exit state.
// kind: 0 = nothing known about the error result, 1 = surely non-nil, 2 = surely nil
func (w *walker) doReturn(st lstate, pos token.Pos, kind int) {
	st = st.clone()
	ds := st.defers
	st.defers = nil
	for i := len(ds) - 1; i >= 0; i-- {
		d := ds[i]
		if op, class, ok := w.a.lockOp(w, d.node.Call); ok && (op == "Unlock" || op == "RUnlock") {
			if h, isLocal := st.may[class]; isLocal {
				if h.deferRel { // registered on every path on which the lock is held
					delete(st.may, class)
					delete(st.must, class)
				} else {
					st.maybeRelease(class)
				}
			} else if d.bound {
				// the hold it was registered for is not present on this path (or already released)
			} else if d.sure {
				st.release(class)
			} else {
				st.maybeRelease(class)
			}
			continue
		}
		after := w.call(d.node.Call, st.clone(), true, false)
		if d.sure {
			st = after
		} else {
			st = join(st, after)
		}
		st.defers = nil
	}
	w.exitsAll = append(w.exitsAll, st)
	if kind != 1 {
		w.exitsNorm = append(w.exitsNorm, st)
	}
	if kind != 2 {
		w.exitsErr = append(w.exitsErr, st)
	}
}

func (w *walker) block(b *ast.BlockStmt, st lstate) lstate {
	if b == nil {
		return st
	}
	return w.stmts(b.List, st)
}

func terminates(b *ast.BlockStmt) bool {
	if b == nil || len(b.List) == 0 {
		return false
	}
	switch s := b.List[len(b.List)-1].(type) {
	case *ast.ReturnStmt:
		return true
	case *ast.ExprStmt:
		if c, ok := s.X.(*ast.CallExpr); ok {
			if id, ok := c.Fun.(*ast.Ident); ok && id.Name == "panic" {
				return true
			}
		}
	}
	return false
}

// errIdiom: statement s assigns the last result of exactly one call to an identifier v, and
// next is `if v != nil { ... return }` without init/else.  Returns the call.
func (w *walker) errIdiom(s, next ast.Stmt) *ast.CallExpr {
	as, ok := s.(*ast.AssignStmt)
	if !ok || len(as.Rhs) != 1 || len(as.Lhs) == 0 {
		return nil
	}
	call, ok := as.Rhs[0].(*ast.CallExpr)
	if !ok {
		return nil
	}
	v, ok := as.Lhs[len(as.Lhs)-1].(*ast.Ident)
	if !ok {
		return nil
	}
	is, ok := next.(*ast.IfStmt)
	if !ok || is.Init != nil || is.Else != nil || !terminates(is.Body) {
		return nil
	}
	x, ok := isNilCmp(is.Cond, token.NEQ)
	if !ok {
		return nil
	}
	c, ok := x.(*ast.Ident)
	if !ok || c.Name != v.Name {
		return nil
	}
	vo := w.info.ObjectOf(v)
	if vo == nil || vo != w.info.ObjectOf(c) || !isErrorType(vo.Type()) {
		return nil
	}
	return call
}

func isErrorType(t types.Type) bool {
	n, ok := t.(*types.Named)
	return ok && n.Obj().Pkg() == nil && n.Obj().Name() == "error"
}

func (w *walker) stmts(list []ast.Stmt, st lstate) lstate {
	for i := 0; i < len(list); i++ {
		if i+1 < len(list) {
			if call := w.errIdiom(list[i], list[i+1]); call != nil {
				w.normalCall, w.errMode = call, true
				stErr := w.stmt(list[i], st.clone())
				w.mute++
				w.errMode = false
				stNorm := w.stmt(list[i], st.clone())
				w.normalCall = nil
				w.mute--
				is := list[i+1].(*ast.IfStmt)
				if o := w.errVarOfCond(is.Cond, token.NEQ); o != nil {
					stNorm.nilv[o] = true
				}
				w.pushErr(is)
				thenOut := w.block(is.Body, stErr)
				w.popErr(is)
				st = join(thenOut, stNorm)
				i++
				continue
			}
		}
		st = w.stmt(list[i], st)
	}
	return st
}

// pushErr: entering the then-branch of `if v != nil`
func (w *walker) pushErr(is *ast.IfStmt) {
	x, ok := isNilCmp(is.Cond, token.NEQ)
	if !ok {
		w.errStack = append(w.errStack, errCtx{})
		return
	}
	id, ok := x.(*ast.Ident)
	if !ok {
		w.errStack = append(w.errStack, errCtx{})
		return
	}
	obj := w.info.ObjectOf(id)
	if obj == nil || !isErrorType(obj.Type()) {
		w.errStack = append(w.errStack, errCtx{})
		return
	}
	clean := true
	ast.Inspect(is.Body, func(n ast.Node) bool {
		switch x := n.(type) {
		case *ast.AssignStmt:
			for _, l := range x.Lhs {
				if li, ok := l.(*ast.Ident); ok && w.info.ObjectOf(li) == obj {
					clean = false
				}
			}
		case *ast.UnaryExpr:
			if x.Op == token.AND {
				if li, ok := x.X.(*ast.Ident); ok && w.info.ObjectOf(li) == obj {
					clean = false
				}
			}
		case *ast.FuncLit:
			return false
		}
		return true
	})
	w.errStack = append(w.errStack, errCtx{obj, clean})
}
func (w *walker) popErr(*ast.IfStmt) { w.errStack = w.errStack[:len(w.errStack)-1] }

// isErrReturn: the return statement returns (in last position) a variable that an enclosing
// `if v != nil` (whose body never assigns v) has just tested.
func (w *walker) returnKind(r *ast.ReturnStmt, st lstate) int {
	var obj types.Object
	res := w.f.sig.Results()
	if res.Len() == 0 || !isErrorType(res.At(res.Len()-1).Type()) {
		return 0
	}
	if len(r.Results) == 0 {
		obj = res.At(res.Len() - 1)
		if obj.Name() == "" || obj.Name() == "_" {
			return 0
		}
	} else {
		id, ok := r.Results[len(r.Results)-1].(*ast.Ident)
		if !ok {
			return 0
		}
		obj = w.info.ObjectOf(id)
		if obj == types.Universe.Lookup("nil") {
			return 2
		}
	}
	if obj == nil || w.closureAsg[obj] {
		return 0
	}
	for _, e := range w.errStack {
		if e.obj != nil && e.obj == obj && e.clean {
			return 1
		}
	}
	if st.nilv[obj] {
		return 2
	}
	return 0
}

// errVarOfCond: cond is `v != nil` (neq) or `v == nil` with v an error variable
func (w *walker) errVarOfCond(cond ast.Expr, op token.Token) types.Object {
	x, ok := isNilCmp(cond, op)
	if !ok {
		return nil
	}
	id, ok := x.(*ast.Ident)
	if !ok {
		return nil
	}
	obj := w.info.ObjectOf(id)
	if obj == nil || !isErrorType(obj.Type()) || w.closureAsg[obj] {
		return nil
	}
	return obj
}

func (w *walker) stmt(s ast.Stmt, st lstate) lstate {
	if st.dead {
		return st
	}
	switch x := s.(type) {
	case nil, *ast.EmptyStmt:
		return st
	case *ast.ExprStmt:
		st = w.expr(x.X, st)
		if c, ok := x.X.(*ast.CallExpr); ok {
			if id, ok := c.Fun.(*ast.Ident); ok && id.Name == "panic" && w.info.Uses[id] == types.Universe.Lookup("panic") {
				return deadState()
			}
		}
		return st
	case *ast.AssignStmt:
		for _, e := range x.Rhs {
			st = w.expr(e, st)
		}
		for _, e := range x.Lhs {
			st = w.expr(e, st)
			if id, ok := e.(*ast.Ident); ok {
				if o := w.info.ObjectOf(id); o != nil {
					delete(st.nilv, o)
				}
			}
		}
		return st
	case *ast.DeclStmt:
		if gd, ok := x.Decl.(*ast.GenDecl); ok {
			for _, sp := range gd.Specs {
				if vs, ok := sp.(*ast.ValueSpec); ok {
					for _, e := range vs.Values {
						st = w.expr(e, st)
					}
				}
			}
		}
		return st
	case *ast.IncDecStmt:
		return w.expr(x.X, st)
	case *ast.SendStmt:
		st = w.expr(x.Chan, st)
		st = w.expr(x.Value, st)
		w.record(event{kind: evBlock, pos: x.Pos(), snap: snap(st), desc: "chan send " + exprString(x.Chan) + " <- ..."})
		return st
	case *ast.GoStmt:
		return w.goCall(x.Call, st)
	case *ast.DeferStmt:
		// arguments are evaluated now
		for _, e := range x.Call.Args {
			st = w.expr(e, st)
		}
		if op, class, ok := w.a.lockOp(w, x.Call); ok && (op == "Unlock" || op == "RUnlock") {
			if h, isLocal := st.may[class]; isLocal {
				h.deferRel = true
				st.may[class] = h
				st.defers = append(st.defers, deferred{x, true, true})
				return st
			}
		}
		st.defers = append(st.defers, deferred{x, true, false})
		return st
	case *ast.ReturnStmt:
		for _, e := range x.Results {
			st = w.expr(e, st)
		}
		w.doReturn(st, x.Pos(), w.returnKind(x, st))
		return deadState()
	case *ast.BranchStmt:
		if x.Label != nil {
			w.fail(x.Pos(), "labelled %s is not understood", x.Tok)
		}
		switch x.Tok {
		case token.BREAK:
			if len(w.targets) == 0 {
				w.fail(x.Pos(), "break outside of loop/switch/select")
			}
			t := w.targets[len(w.targets)-1]
			*t.breaks = append(*t.breaks, st.clone())
		case token.CONTINUE:
			for i := len(w.targets) - 1; i >= 0; i-- {
				if w.targets[i].isLoop {
					*w.targets[i].conts = append(*w.targets[i].conts, st.clone())
					return deadState()
				}
			}
			w.fail(x.Pos(), "continue outside of loop")
		default:
			w.fail(x.Pos(), "%s is not understood", x.Tok)
		}
		return deadState()
	case *ast.BlockStmt:
		return w.block(x, st)
	case *ast.IfStmt:
		st = w.stmt(x.Init, st)
		st = w.expr(x.Cond, st)
		thenIn, elseIn := st.clone(), st.clone()
		if o := w.errVarOfCond(x.Cond, token.NEQ); o != nil {
			elseIn.nilv[o] = true
		}
		if o := w.errVarOfCond(x.Cond, token.EQL); o != nil {
			thenIn.nilv[o] = true
		}
		w.pushErr(x)
		thenOut := w.block(x.Body, thenIn)
		w.popErr(x)
		var elseOut lstate
		if x.Else != nil {
			elseOut = w.stmt(x.Else, elseIn)
		} else {
			elseOut = elseIn
		}
		return join(thenOut, elseOut)
	case *ast.SwitchStmt:
		st = w.stmt(x.Init, st)
		if x.Tag != nil {
			st = w.expr(x.Tag, st)
		}
		return w.clauses(x.Body, st, false)
	case *ast.TypeSwitchStmt:
		st = w.stmt(x.Init, st)
		st = w.stmt(x.Assign, st)
		return w.clauses(x.Body, st, false)
	case *ast.SelectStmt:
		hasDefault := false
		var descs []string
		for _, c := range x.Body.List {
			cc := c.(*ast.CommClause)
			if cc.Comm == nil {
				hasDefault = true
				continue
			}
			descs = append(descs, commString(cc.Comm))
		}
		if !hasDefault {
			w.record(event{kind: evBlock, pos: x.Pos(), snap: snap(st), desc: "select{" + strings.Join(descs, "; ") + "}"})
		}
		return w.clauses(x.Body, st, true)
	case *ast.ForStmt:
		st = w.stmt(x.Init, st)
		return w.loop(st, x.Cond, x.Post, x.Body, x.Cond == nil)
	case *ast.RangeStmt:
		st = w.expr(x.X, st)
		if tv, ok := w.info.Types[x.X]; ok && tv.Type != nil {
			if _, isChan := tv.Type.Underlying().(*types.Chan); isChan {
				w.record(event{kind: evBlock, pos: x.Pos(), snap: snap(st), desc: "range over chan " + exprString(x.X)})
			}
		}
		return w.loop(st, nil, nil, x.Body, false)
	case *ast.LabeledStmt:
		w.fail(x.Pos(), "labelled statement is not understood")
	default:
		w.fail(s.Pos(), "statement of kind %T is not understood", s)
	}
	return st
}

func commString(s ast.Stmt) string {
	switch x := s.(type) {
	case *ast.SendStmt:
		return exprString(x.Chan) + "<-"
	case *ast.ExprStmt:
		return exprString(x.X)
	case *ast.AssignStmt:
		if len(x.Rhs) == 1 {
			return exprString(x.Rhs[0])
		}
	}
	return "?"
}

// clauses: bodies of switch / type switch / select
func (w *walker) clauses(body *ast.BlockStmt, st lstate, isSelect bool) lstate {
	var breaks []lstate
	w.targets = append(w.targets, target{isLoop: false, breaks: &breaks})
	out := deadState()
	hasDefault := false
	for _, c := range body.List {
		cs := st.clone()
		var list []ast.Stmt
		switch cc := c.(type) {
		case *ast.CaseClause:
			if cc.List == nil {
				hasDefault = true
			}
			for _, e := range cc.List {
				if _, isType := w.info.Types[e]; isType && w.info.Types[e].IsType() {
					continue
				}
				cs = w.expr(e, cs)
			}
			list = cc.Body
		case *ast.CommClause:
			if cc.Comm == nil {
				hasDefault = true
			} else {
				// the communication itself is part of the select (recorded once); evaluate operands
				switch cm := cc.Comm.(type) {
				case *ast.SendStmt:
					cs = w.expr(cm.Chan, cs)
					cs = w.expr(cm.Value, cs)
				case *ast.ExprStmt:
					cs = w.commRecv(cm.X, cs)
				case *ast.AssignStmt:
					for _, e := range cm.Rhs {
						cs = w.commRecv(e, cs)
					}
				}
			}
			list = cc.Body
		}
		for _, s := range list {
			if bs, ok := s.(*ast.BranchStmt); ok && bs.Tok == token.FALLTHROUGH {
				w.fail(bs.Pos(), "fallthrough is not understood")
			}
		}
		out = join(out, w.stmts(list, cs))
	}
	w.targets = w.targets[:len(w.targets)-1]
	if !hasDefault && !isSelect {
		out = join(out, st)
	}
	for _, b := range breaks {
		out = join(out, b)
	}
	return out
}

// commRecv: `<-ch` in a select clause: evaluate ch only
func (w *walker) commRecv(e ast.Expr, st lstate) lstate {
	if u, ok := e.(*ast.UnaryExpr); ok && u.Op == token.ARROW {
		return w.expr(u.X, st)
	}
	return w.expr(e, st)
}

func (w *walker) loop(st lstate, cond ast.Expr, post ast.Stmt, body *ast.BlockStmt, infinite bool) lstate {
	head := st.clone()
	var exit lstate
	for iter := 0; ; iter++ {
		if iter > 8 {
			w.fail(body.Pos(), "loop analysis does not converge")
		}
		var breaks, conts []lstate
		w.targets = append(w.targets, target{isLoop: true, breaks: &breaks, conts: &conts})
		saved := len(w.f.events)
		savedAll, savedNorm := len(w.exitsAll), len(w.exitsNorm)
		h := head.clone()
		if cond != nil {
			h = w.expr(cond, h)
		}
		out := w.block(body, h.clone())
		for _, c := range conts {
			out = join(out, c)
		}
		if post != nil {
			out = w.stmt(post, out)
		}
		w.targets = w.targets[:len(w.targets)-1]
		newHead := join(head, out)
		if infinite {
			exit = deadState()
		} else {
			exit = h.clone()
		}
		for _, b := range breaks {
			exit = join(exit, b)
		}
		if stateEq(newHead, head) {
			return exit
		}
		// iterate again from the widened head: drop the events and exits of this round
		if w.mute == 0 {
			w.f.events = w.f.events[:saved]
		}
		w.exitsAll, w.exitsNorm = w.exitsAll[:savedAll], w.exitsNorm[:savedNorm]
		head = newHead
	}
}

// ---------------------------------------------------------------- expressions

func (w *walker) expr(e ast.Expr, st lstate) lstate {
	if e == nil || st.dead {
		return st
	}
	switch x := e.(type) {
	case *ast.CallExpr:
		return w.call(x, st, false, false)
	case *ast.FuncLit:
		return st // separate function
	case *ast.UnaryExpr:
		st = w.expr(x.X, st)
		if x.Op == token.ARROW {
			w.record(event{kind: evBlock, pos: x.Pos(), snap: snap(st), desc: "chan recv <-" + exprString(x.X)})
		}
		return st
	case *ast.BinaryExpr:
		st = w.expr(x.X, st)
		return w.expr(x.Y, st)
	case *ast.ParenExpr:
		return w.expr(x.X, st)
	case *ast.SelectorExpr:
		return w.expr(x.X, st)
	case *ast.IndexExpr:
		st = w.expr(x.X, st)
		return w.expr(x.Index, st)
	case *ast.IndexListExpr:
		return w.expr(x.X, st)
	case *ast.SliceExpr:
		st = w.expr(x.X, st)
		st = w.expr(x.Low, st)
		st = w.expr(x.High, st)
		return w.expr(x.Max, st)
	case *ast.StarExpr:
		return w.expr(x.X, st)
	case *ast.TypeAssertExpr:
		return w.expr(x.X, st)
	case *ast.KeyValueExpr:
		st = w.expr(x.Key, st)
		return w.expr(x.Value, st)
	case *ast.CompositeLit:
		for _, el := range x.Elts {
			if kv, ok := el.(*ast.KeyValueExpr); ok {
				st = w.expr(kv.Value, st)
			} else {
				st = w.expr(el, st)
			}
		}
		return st
	case *ast.Ident, *ast.BasicLit, *ast.ArrayType, *ast.MapType, *ast.ChanType, *ast.FuncType, *ast.InterfaceType, *ast.StructType, *ast.Ellipsis:
		return st
	}
	w.fail(e.Pos(), "expression of kind %T is not understood", e)
	return st
}

func (w *walker) goCall(c *ast.CallExpr, st lstate) lstate {
	for _, e := range c.Args {
		st = w.expr(e, st)
	}
	if sel, ok := c.Fun.(*ast.SelectorExpr); ok {
		st = w.expr(sel.X, st)
	}
	callees, dyn, _ := w.a.resolve(w, c)
	if len(callees) > 0 {
		w.record(event{kind: evCall, pos: c.Pos(), snap: snap(st), callees: callees, fresh: true, call: c, desc: "go " + exprString(c.Fun)})
	} else if dyn {
		w.record(event{kind: evCall, pos: c.Pos(), snap: snap(st), callees: w.a.bySignature(w, c), fresh: true, call: c, desc: "go " + exprString(c.Fun)})
	}
	return st
}

func applySummary(st lstate, sums []summary, pos token.Pos) lstate {
	if len(sums) == 0 {
		return st
	}
	acqMay, relMay := set{}, set{}
	var acqMust, relMust set
	for _, s := range sums {
		for k := range s.acqMay {
			acqMay[k] = true
		}
		for k := range s.relMay {
			relMay[k] = true
		}
		if acqMust == nil {
			acqMust, relMust = s.acqMust.copy(), s.relMust.copy()
		} else {
			for k := range acqMust {
				if !s.acqMust[k] {
					delete(acqMust, k)
				}
			}
			for k := range relMust {
				if !s.relMust[k] {
					delete(relMust, k)
				}
			}
		}
	}
	for _, k := range relMay.keys() {
		if relMust[k] {
			st.release(k)
		} else {
			st.maybeRelease(k)
		}
	}
	for _, k := range acqMay.keys() {
		if _, ok := st.may[k]; !ok {
			st.may[k] = held{pos: pos}
		}
		if acqMust[k] {
			st.must[k] = true
		}
	}
	return st
}

// call handles one call expression: operands first, then the call itself.
func (w *walker) call(c *ast.CallExpr, st lstate, viaDefer bool, _ bool) lstate {
	if st.dead {
		return st
	}
	if !viaDefer {
		if sel, ok := c.Fun.(*ast.SelectorExpr); ok {
			st = w.expr(sel.X, st)
		} else if _, ok := c.Fun.(*ast.FuncLit); !ok {
			st = w.expr(c.Fun, st)
		}
		for _, e := range c.Args {
			st = w.expr(e, st)
		}
	}
	a := w.a
	// 1. lock operations and the blocking primitives of package sync / time
	if op, class, ok := a.lockOp(w, c); ok {
		switch op {
		case "Lock", "RLock":
			w.record(event{kind: evAcquire, pos: c.Pos(), snap: snap(st), class: class, mode: op, call: c, viaDef: viaDefer})
			st.acquire(class, c.Pos())
		case "Unlock", "RUnlock":
			st.release(class)
		case "TryLock", "TryRLock":
			w.fail(c.Pos(), "%s is not understood", op)
		case "Wait":
			w.record(event{kind: evBlock, pos: c.Pos(), snap: snap(st), class: class, desc: "cond.Wait " + exprString(c.Fun)})
		case "WaitGroup.Wait":
			w.record(event{kind: evBlock, pos: c.Pos(), snap: snap(st), desc: "WaitGroup.Wait " + exprString(c.Fun)})
		case "Sleep":
			w.record(event{kind: evBlock, pos: c.Pos(), snap: snap(st), desc: "time.Sleep"})
		}
		return st
	}
	callees, dyn, ext := a.resolve(w, c)
	viaIface := a.viaIface
	switch {
	case len(callees) > 0:
		w.record(event{kind: evCall, pos: c.Pos(), snap: snap(st), callees: callees, call: c, viaDef: viaDefer, desc: exprString(c.Fun)})
		var sums []summary
		for _, g := range callees {
			s := g.sumAll
			if w.normalCall == c {
				if w.errMode {
					s = g.sumErr
					if !s.valid && viaIface {
						s = g.sumAll // implementations outside the analysed packages may return errors
					}
				} else {
					s = g.sumNormal
				}
			}
			if s.valid {
				sums = append(sums, s)
			}
		}
		if w.normalCall == c && len(sums) == 0 && len(callees) > 0 {
			return deadState() // no callee can return in this mode (e.g. never returns an error)
		}
		st = applySummary(st, sums, c.Pos())
	case dyn:
		cands := a.bySignature(w, c)
		w.record(event{kind: evDyn, pos: c.Pos(), snap: snap(st), callees: cands, call: c, viaDef: viaDefer, desc: exprString(c.Fun)})
		// the candidates' net effects: only "maybe" (the call may also go to unknown code)
		var sums []summary
		for _, g := range cands {
			if g.sumAll.valid {
				sums = append(sums, g.sumAll)
			}
		}
		if len(sums) > 0 {
			sums = append(sums, summary{valid: true, acqMay: set{}, acqMust: set{}, relMay: set{}, relMust: set{}})
			st = applySummary(st, sums, c.Pos())
		}
	case ext != "":
		// function literals / function values handed to external code
		fresh := ext == "time.AfterFunc"
		for _, arg := range c.Args {
			for _, g := range a.funcValues(w, arg) {
				w.record(event{kind: evCall, pos: c.Pos(), snap: snap(st), callees: []*Func{g}, fresh: fresh, call: c, viaDef: viaDefer,
					extName: ext, desc: ext + "(" + g.name + ")"})
				if !fresh && (ext == "sync.Once.Do") && g.sumAll.valid {
					st = applySummary(st, []summary{g.sumAll}, c.Pos())
				}
			}
		}
	}
	return st
}
