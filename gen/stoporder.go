package main

// Translator "stoporder": Gen/StopOrder.v
//
// The sequence of the recognised top-level operations of the body of `srv.stopOnce.Do(func(){..})`
// in server.Stop (server/server.go), in SOURCE ORDER:
//
//	SDeferCloseExited      defer func() { defer close(srv.exitedChan); ... }()
//	SExit                  srv.exit()
//	SCloseListeners        for _, l := range srv.tcpListener { l.Close() }
//	SShutdownWebsockets    for _, ws := range srv.websocketServer { ws.Server.Shutdown(ctx) }
//	SLock / SUnlock        srv.mu.Lock() / srv.mu.Unlock()
//	SSnapshotCloseClients     for _, c := range srv.clients { chs = append(chs, c.closed); c.Close() }   (or chs[i] = c.closed; i++)
//	SSnapshotCloseConnecting  for c := range srv.connecting { chs = append(chs, c.closed); c.Close() }
//	                          (srv.connecting: accepted connections that have not registered a client id)
//	SStartWaiter           if len(chs) != 0 { go func() { for .. { <-v }; close(done) }() } else { close(done) }
//	SWait                  select { case <-ctx.Done(): ...; return   case <-done: <rest> }
//	SUnload                for _, v := range srv.plugins { ... v.Unload() ... }      (inside `case <-done`)
//	SOnStop                if srv.hooks.OnStop != nil { srv.hooks.OnStop(..) }        (inside `case <-done`)
//
// Log calls and the declarations `x := make(..)`, `i := 0` are skipped.  ANY other statement makes
// the translator fail: it never emits a partial sequence.  The order itself is not judged here
// (theorem C15_stop_order does that).

import (
	"fmt"
	"go/ast"
	"go/token"
	"strings"
)

type stopOp struct {
	name string
	pos  token.Pos
}

func containsCall(n ast.Node, pred func(c *ast.CallExpr) bool) bool {
	found := false
	ast.Inspect(n, func(x ast.Node) bool {
		if c, ok := x.(*ast.CallExpr); ok && pred(c) {
			found = true
		}
		return !found
	})
	return found
}

func isLogStmt(s ast.Stmt) bool {
	es, ok := s.(*ast.ExprStmt)
	if !ok {
		return false
	}
	c, ok := es.X.(*ast.CallExpr)
	return ok && strings.HasPrefix(exprString(c.Fun), "zaplog.")
}

func genStopOrder(l *Loader) (string, string, error) {
	p, err := l.Load(l.Module + "/server")
	if err != nil {
		return "", "", err
	}
	var fn *ast.FuncDecl
	for _, f := range p.Files {
		for _, d := range f.Decls {
			if fd, ok := d.(*ast.FuncDecl); ok && fd.Name.Name == "Stop" && fd.Recv != nil && fd.Body != nil {
				if len(fd.Recv.List) == 1 && strings.TrimPrefix(exprString(fd.Recv.List[0].Type), "*") == "server" {
					fn = fd
				}
			}
		}
	}
	if fn == nil {
		return "", "", fmt.Errorf("method (*server).Stop not found in package server")
	}
	if len(fn.Recv.List[0].Names) != 1 {
		return "", "", fmt.Errorf("Stop: unnamed receiver")
	}
	recv := fn.Recv.List[0].Names[0].Name
	ctxName := ""
	if fn.Type.Params != nil && len(fn.Type.Params.List) == 1 && len(fn.Type.Params.List[0].Names) == 1 {
		ctxName = fn.Type.Params.List[0].Names[0].Name
	}
	if ctxName == "" {
		return "", "", fmt.Errorf("%s: Stop does not have exactly one named parameter (the context)", l.Pos(fn.Pos()))
	}
	// the stopOnce.Do(func(){...}) call
	var body *ast.BlockStmt
	for _, st := range fn.Body.List {
		es, ok := st.(*ast.ExprStmt)
		if !ok {
			continue
		}
		c, ok := es.X.(*ast.CallExpr)
		if !ok || exprString(c.Fun) != recv+".stopOnce.Do" || len(c.Args) != 1 {
			continue
		}
		lit, ok := c.Args[0].(*ast.FuncLit)
		if !ok {
			return "", "", fmt.Errorf("%s: argument of stopOnce.Do is not a function literal", l.Pos(c.Pos()))
		}
		if body != nil {
			return "", "", fmt.Errorf("%s: Stop calls stopOnce.Do twice", l.Pos(c.Pos()))
		}
		body = lit.Body
	}
	if body == nil {
		return "", "", fmt.Errorf("%s: Stop does not call %s.stopOnce.Do(func(){...})", l.Pos(fn.Pos()), recv)
	}
	// everything outside the Once must be `var err error` and `return err`
	for _, st := range fn.Body.List {
		switch s := st.(type) {
		case *ast.DeclStmt, *ast.ReturnStmt:
		case *ast.ExprStmt:
			if c, ok := s.X.(*ast.CallExpr); !ok || exprString(c.Fun) != recv+".stopOnce.Do" {
				return "", "", fmt.Errorf("%s: statement of Stop outside stopOnce.Do not understood", l.Pos(st.Pos()))
			}
		default:
			return "", "", fmt.Errorf("%s: statement of Stop outside stopOnce.Do not understood (%T)", l.Pos(st.Pos()), st)
		}
	}

	var ops []stopOp
	add := func(name string, pos token.Pos) { ops = append(ops, stopOp{name, pos}) }
	chanVar := "" // the `done` channel
	isPrep := func(s ast.Stmt) bool {
		as, ok := s.(*ast.AssignStmt)
		if !ok || as.Tok != token.DEFINE || len(as.Lhs) != 1 || len(as.Rhs) != 1 {
			return false
		}
		switch r := as.Rhs[0].(type) {
		case *ast.BasicLit:
			return true
		case *ast.CallExpr:
			if exprString(r.Fun) != "make" {
				return false
			}
			if _, isChan := r.Args[0].(*ast.ChanType); isChan {
				chanVar = exprString(as.Lhs[0])
			}
			// no call other than len() in the arguments
			for _, a := range r.Args[1:] {
				if containsCall(a, func(c *ast.CallExpr) bool { return exprString(c.Fun) != "len" }) {
					return false
				}
			}
			return true
		}
		return false
	}
	for _, st := range body.List {
		where := l.Pos(st.Pos())
		if isLogStmt(st) || isPrep(st) {
			continue
		}
		switch s := st.(type) {
		case *ast.DeferStmt:
			lit, ok := s.Call.Fun.(*ast.FuncLit)
			if !ok || !containsCall(lit, func(c *ast.CallExpr) bool {
				return exprString(c.Fun) == "close" && len(c.Args) == 1 && exprString(c.Args[0]) == recv+".exitedChan"
			}) {
				return "", "", fmt.Errorf("Stop: %s: deferred call is not a function literal that closes %s.exitedChan", where, recv)
			}
			add("SDeferCloseExited", s.Pos())
		case *ast.ExprStmt:
			c, ok := s.X.(*ast.CallExpr)
			if !ok {
				return "", "", fmt.Errorf("Stop: %s: statement not understood", where)
			}
			switch exprString(c.Fun) {
			case recv + ".exit":
				add("SExit", s.Pos())
			case recv + ".mu.Lock":
				add("SLock", s.Pos())
			case recv + ".mu.Unlock":
				add("SUnlock", s.Pos())
			default:
				return "", "", fmt.Errorf("Stop: %s: call %s not understood", where, exprString(c.Fun))
			}
		case *ast.RangeStmt:
			if s.Value == nil && exprString(s.X) != recv+".connecting" {
				return "", "", fmt.Errorf("Stop: %s: range without value variable", where)
			}
			v := exprString(s.Value)
			switch exprString(s.X) {
			case recv + ".tcpListener":
				es, ok := s.Body.List[0].(*ast.ExprStmt)
				if len(s.Body.List) != 1 || !ok || !strings.HasPrefix(exprString(es.X), v+".Close(") {
					return "", "", fmt.Errorf("Stop: %s: the loop over tcpListener does not just call %s.Close()", where, v)
				}
				add("SCloseListeners", s.Pos())
			case recv + ".websocketServer":
				es, ok := s.Body.List[0].(*ast.ExprStmt)
				if len(s.Body.List) != 1 || !ok || !strings.HasPrefix(exprString(es.X), v+".Server.Shutdown(") {
					return "", "", fmt.Errorf("Stop: %s: the loop over websocketServer does not just call %s.Server.Shutdown()", where, v)
				}
				add("SShutdownWebsockets", s.Pos())
			case recv + ".clients", recv + ".connecting":
				// `for _, c := range srv.clients` / `for c := range srv.connecting` (a set keyed by *client)
				isSet := exprString(s.X) == recv+".connecting"
				if isSet {
					if s.Value != nil {
						return "", "", fmt.Errorf("Stop: %s: the loop over connecting must range over the keys", where)
					}
					v = exprString(s.Key)
				}
				records, closes := false, false
				for _, bs := range s.Body.List {
					switch b := bs.(type) {
					case *ast.AssignStmt:
						// chs[i] = c.closed   or   chs = append(chs, c.closed)
						ok := len(b.Rhs) == 1 && exprString(b.Rhs[0]) == v+".closed"
						if c, isCall := b.Rhs[0].(*ast.CallExpr); len(b.Rhs) == 1 && isCall && exprString(c.Fun) == "append" && len(c.Args) == 2 &&
							len(b.Lhs) == 1 && exprString(c.Args[0]) == exprString(b.Lhs[0]) && exprString(c.Args[1]) == v+".closed" {
							ok = true
						}
						if !ok {
							return "", "", fmt.Errorf("Stop: %s: assignment in the loop over %s not understood", l.Pos(bs.Pos()), exprString(s.X))
						}
						records = true
					case *ast.IncDecStmt:
					case *ast.ExprStmt:
						if strings.HasPrefix(exprString(b.X), v+".Close(") {
							closes = true
						} else {
							return "", "", fmt.Errorf("Stop: %s: call in the loop over %s not understood", l.Pos(bs.Pos()), exprString(s.X))
						}
					default:
						return "", "", fmt.Errorf("Stop: %s: statement in the loop over %s not understood", l.Pos(bs.Pos()), exprString(s.X))
					}
				}
				if !records || !closes {
					return "", "", fmt.Errorf("Stop: %s: the loop over %s must record %s.closed and call %s.Close() (records=%v closes=%v)", where, exprString(s.X), v, v, records, closes)
				}
				if isSet {
					add("SSnapshotCloseConnecting", s.Pos())
				} else {
					add("SSnapshotCloseClients", s.Pos())
				}
			default:
				return "", "", fmt.Errorf("Stop: %s: loop over %s not understood", where, exprString(s.X))
			}
		case *ast.IfStmt:
			// the waiter: receives from the recorded channels, then close(done)
			closesDone := func(n ast.Node) bool {
				return containsCall(n, func(c *ast.CallExpr) bool {
					return exprString(c.Fun) == "close" && len(c.Args) == 1 && chanVar != "" && exprString(c.Args[0]) == chanVar
				})
			}
			recvs := false
			ast.Inspect(s.Body, func(n ast.Node) bool {
				if u, ok := n.(*ast.UnaryExpr); ok && u.Op == token.ARROW {
					recvs = true
				}
				return true
			})
			hasGo := false
			for _, bs := range s.Body.List {
				if _, ok := bs.(*ast.GoStmt); ok {
					hasGo = true
				}
			}
			if s.Init != nil || !strings.HasPrefix(exprString(s.Cond), "len(...)") || !hasGo || !recvs || !closesDone(s.Body) || s.Else == nil || !closesDone(s.Else) {
				return "", "", fmt.Errorf("Stop: %s: if statement is not the waiter `if len(chs) != 0 { go func(){ <-v...; close(done) }() } else { close(done) }`", where)
			}
			add("SStartWaiter", s.Pos())
		case *ast.SelectStmt:
			if len(s.Body.List) != 2 {
				return "", "", fmt.Errorf("Stop: %s: select does not have exactly two cases", where)
			}
			var doneBody, ctxBody []ast.Stmt
			for _, cl := range s.Body.List {
				cc := cl.(*ast.CommClause)
				if cc.Comm == nil {
					return "", "", fmt.Errorf("Stop: %s: select has a default case", where)
				}
				switch commString(cc.Comm) {
				case "<-" + ctxName + ".Done(...)":
					ctxBody = cc.Body
				case "<-" + chanVar:
					doneBody = cc.Body
				default:
					return "", "", fmt.Errorf("Stop: %s: select case %s not understood", where, commString(cc.Comm))
				}
			}
			if ctxBody == nil || doneBody == nil {
				return "", "", fmt.Errorf("Stop: %s: select must wait for %s.Done() and for the waiter's channel", where, ctxName)
			}
			add("SWait", s.Pos())
			// timeout case: returns, runs neither Unload nor OnStop
			ret := false
			for _, bs := range ctxBody {
				if _, ok := bs.(*ast.ReturnStmt); ok {
					ret = true
				}
			}
			blk := &ast.BlockStmt{List: ctxBody}
			if !ret || containsCall(blk, func(c *ast.CallExpr) bool {
				n := exprString(c.Fun)
				return strings.HasSuffix(n, ".Unload") || strings.HasSuffix(n, ".OnStop")
			}) {
				return "", "", fmt.Errorf("Stop: %s: the %s.Done() case must return without Unload/OnStop", where, ctxName)
			}
			// a statement `recv.helper()` (no arguments) whose callee is a method of the same type in this package is
			// replaced by the statements of that method (one level): "extract method" must not hide the operations
			type doneStmt struct {
				st    ast.Stmt
				rname string
			}
			var flat []doneStmt
			for _, bs := range doneBody {
				inlined := false
				if es, ok := bs.(*ast.ExprStmt); ok {
					if call, ok := es.X.(*ast.CallExpr); ok && len(call.Args) == 0 {
						if sel, ok := call.Fun.(*ast.SelectorExpr); ok && exprString(sel.X) == recv {
							for _, f := range p.Files {
								for _, d := range f.Decls {
									fd, ok := d.(*ast.FuncDecl)
									if !ok || fd.Name.Name != sel.Sel.Name || fd.Recv == nil || len(fd.Recv.List) != 1 || len(fd.Recv.List[0].Names) != 1 || fd.Body == nil {
										continue
									}
									if exprString(fd.Recv.List[0].Type) != exprString(fn.Recv.List[0].Type) {
										continue
									}
									for _, hs := range fd.Body.List {
										flat = append(flat, doneStmt{hs, fd.Recv.List[0].Names[0].Name})
									}
									inlined = true
								}
							}
						}
					}
				}
				if !inlined {
					flat = append(flat, doneStmt{bs, recv})
				}
			}
			for _, ds := range flat {
				bs, recv := ds.st, ds.rname
				if isLogStmt(bs) {
					continue
				}
				switch b := bs.(type) {
				case *ast.RangeStmt:
					if exprString(b.X) != recv+".plugins" || b.Value == nil || !containsCall(b.Body, func(c *ast.CallExpr) bool {
						return exprString(c.Fun) == exprString(b.Value)+".Unload"
					}) {
						return "", "", fmt.Errorf("Stop: %s: loop in the done case is not the Unload loop over %s.plugins", l.Pos(bs.Pos()), recv)
					}
					add("SUnload", b.Pos())
				case *ast.IfStmt:
					x, ok := isNilCmp(b.Cond, token.NEQ)
					var call ast.Expr
					if len(b.Body.List) == 1 {
						if es, isE := b.Body.List[0].(*ast.ExprStmt); isE {
							call = es.X
						}
					}
					if !ok || exprString(x) != recv+".hooks.OnStop" || b.Else != nil || call == nil ||
						!strings.HasPrefix(exprString(call), recv+".hooks.OnStop(") {
						return "", "", fmt.Errorf("Stop: %s: if statement in the done case is not `if %s.hooks.OnStop != nil { %s.hooks.OnStop(..) }`", l.Pos(bs.Pos()), recv, recv)
					}
					add("SOnStop", b.Pos())
				default:
					return "", "", fmt.Errorf("Stop: %s: statement in the done case not understood", l.Pos(bs.Pos()))
				}
			}
		default:
			return "", "", fmt.Errorf("Stop: %s: statement of kind %T not understood", where, st)
		}
	}
	if len(ops) == 0 {
		return "", "", fmt.Errorf("Stop: no operation recognised")
	}
	var b strings.Builder
	b.WriteString("(* GENERATED by /verif/gen (translator stoporder) from server/server.go (server.Stop) - do not edit.\n")
	b.WriteString("   The recognised operations of the body of srv.stopOnce.Do(func(){...}) in SOURCE ORDER\n")
	b.WriteString("   (SUnload and SOnStop are inside the `case <-done` of the select that is SWait; the\n")
	b.WriteString("   `case <-ctx.Done()` returns without them: checked by the translator). *)\n")
	b.WriteString("From Coq Require Import List.\nImport ListNotations.\n\n")
	b.WriteString("Inductive stop_op :=\n  | SDeferCloseExited | SExit | SCloseListeners | SShutdownWebsockets | SLock\n  | SSnapshotCloseClients | SSnapshotCloseConnecting | SUnlock | SStartWaiter | SWait | SUnload | SOnStop.\n\n")
	b.WriteString("Definition stop_ops : list stop_op := [\n")
	var names []string
	for i, o := range ops {
		sep := ";"
		if i+1 == len(ops) {
			sep = ""
		}
		b.WriteString(fmt.Sprintf("  %s%s  (* %s *)\n", o.name, sep, l.Pos(o.pos)))
		names = append(names, o.name)
	}
	b.WriteString("].\n")
	content := b.String()
	if err := checkForbidden(content); err != nil {
		return "", "", err
	}
	return content, fmt.Sprintf("%d operations: %s", len(ops), strings.Join(names, " ")), nil
}
