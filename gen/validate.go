package main

// Translator "validate": Gen/ValidateTable.v
//
//   The guards of config.MQTT.Validate, in source order, as a small expression language that Model/ConfigV.v
//   interprets: the model of the validator is REGENERATED from the source.  Understood: a function body that is a
//   sequence of `if <cond> { return <error> }` statements (or `switch field { case consts: ... default: return <error> }`)
//   followed by `return nil`; <cond> built from &&, ||, !,
//   the comparisons == != < <= > >=, fields of the receiver, constants (evaluated by go/types), and the integer
//   conversions int(..) / uint16(..) ... of a field (widening: value preserving).  Anything else fails loudly.

import (
	"fmt"
	"go/ast"
	"go/constant"
	"go/token"
	"go/types"
	"strings"
)

func genValidate(l *Loader) (string, string, error) {
	cfP, err := l.Load(l.Module + "/config")
	if err != nil {
		return "", "", err
	}
	var fn *ast.FuncDecl
	for _, f := range cfP.Files {
		for _, d := range f.Decls {
			fd, ok := d.(*ast.FuncDecl)
			if !ok || fd.Name.Name != "Validate" || fd.Recv == nil || len(fd.Recv.List) != 1 {
				continue
			}
			t := fd.Recv.List[0].Type
			if st, ok := t.(*ast.StarExpr); ok {
				t = st.X
			}
			if id, ok := t.(*ast.Ident); ok && id.Name == "MQTT" {
				fn = fd
			}
		}
	}
	if fn == nil || fn.Body == nil {
		return "", "", fmt.Errorf("config.MQTT.Validate not found")
	}
	if len(fn.Recv.List[0].Names) != 1 {
		return "", "", fmt.Errorf("config.MQTT.Validate: receiver without a name")
	}
	recv := fn.Recv.List[0].Names[0].Name
	fields := map[string]string{} // field name -> kind ("int" / "string" / "bool")
	order := []string{}

	var operand func(e ast.Expr) (string, error)
	operand = func(e ast.Expr) (string, error) {
		if tv, ok := cfP.Info.Types[e]; ok && tv.Value != nil {
			switch tv.Value.Kind() {
			case constant.Int:
				return fmt.Sprintf("(OInt (%s)%%Z)", constant.ToInt(tv.Value).ExactString()), nil
			case constant.String:
				return fmt.Sprintf("(OStr (s2b %s))", mustCoqString(constant.StringVal(tv.Value))), nil
			case constant.Bool:
				return fmt.Sprintf("(OBool %s)", coqBool(constant.BoolVal(tv.Value))), nil
			}
			return "", fmt.Errorf("constant %s of an unsupported kind", tv.Value)
		}
		switch x := e.(type) {
		case *ast.ParenExpr:
			return operand(x.X)
		case *ast.SelectorExpr:
			id, ok := x.X.(*ast.Ident)
			if !ok || id.Name != recv {
				return "", fmt.Errorf("selector %s is not a field of the receiver", x.Sel.Name)
			}
			tv := cfP.Info.Types[e]
			bt, ok := tv.Type.Underlying().(*types.Basic)
			if !ok {
				return "", fmt.Errorf("field %s has type %s", x.Sel.Name, tv.Type)
			}
			kind := ""
			switch {
			case bt.Info()&types.IsInteger != 0:
				kind = "int"
			case bt.Info()&types.IsString != 0:
				kind = "string"
			case bt.Info()&types.IsBoolean != 0:
				kind = "bool"
			default:
				return "", fmt.Errorf("field %s has type %s", x.Sel.Name, tv.Type)
			}
			if _, seen := fields[x.Sel.Name]; !seen {
				order = append(order, x.Sel.Name)
			}
			fields[x.Sel.Name] = kind
			return fmt.Sprintf("(OField (s2b %s))", mustCoqString(x.Sel.Name)), nil
		case *ast.CallExpr:
			// an integer conversion of a field to a type that holds every value of the field's type
			if len(x.Args) != 1 {
				return "", fmt.Errorf("call with %d arguments", len(x.Args))
			}
			ftv, ok := cfP.Info.Types[x.Fun]
			if !ok || !ftv.IsType() {
				return "", fmt.Errorf("call of a function in a guard")
			}
			to, ok1 := ftv.Type.Underlying().(*types.Basic)
			from, ok2 := cfP.Info.Types[x.Args[0]].Type.Underlying().(*types.Basic)
			if !ok1 || !ok2 || to.Info()&types.IsInteger == 0 || from.Info()&types.IsInteger == 0 {
				return "", fmt.Errorf("conversion between non-integer types")
			}
			size := func(b *types.Basic) (bits int, signed bool) {
				switch b.Kind() {
				case types.Int8:
					return 8, true
				case types.Int16:
					return 16, true
				case types.Int32:
					return 32, true
				case types.Int64, types.Int:
					return 64, true
				case types.Uint8:
					return 8, false
				case types.Uint16:
					return 16, false
				case types.Uint32:
					return 32, false
				case types.Uint64, types.Uint, types.Uintptr:
					return 64, false
				}
				return 0, false
			}
			tb, ts := size(to)
			fb, fs := size(from)
			widening := tb != 0 && fb != 0 && ((ts == fs && tb >= fb) || (ts && !fs && tb > fb))
			if !widening {
				return "", fmt.Errorf("conversion %s(%s) may change the value", to, from)
			}
			return operand(x.Args[0])
		}
		return "", fmt.Errorf("operand of an unsupported form (%T)", e)
	}
	var cond func(e ast.Expr) (string, error)
	cond = func(e ast.Expr) (string, error) {
		switch x := e.(type) {
		case *ast.ParenExpr:
			return cond(x.X)
		case *ast.UnaryExpr:
			if x.Op != token.NOT {
				return "", fmt.Errorf("unary operator %s", x.Op)
			}
			c, err := cond(x.X)
			if err != nil {
				return "", err
			}
			return "(GNot " + c + ")", nil
		case *ast.BinaryExpr:
			switch x.Op {
			case token.LAND, token.LOR:
				a, err := cond(x.X)
				if err != nil {
					return "", err
				}
				b, err := cond(x.Y)
				if err != nil {
					return "", err
				}
				if x.Op == token.LAND {
					return "(GAnd " + a + " " + b + ")", nil
				}
				return "(GOr " + a + " " + b + ")", nil
			case token.EQL, token.NEQ, token.LSS, token.LEQ, token.GTR, token.GEQ:
				a, err := operand(x.X)
				if err != nil {
					return "", err
				}
				b, err := operand(x.Y)
				if err != nil {
					return "", err
				}
				op := map[token.Token]string{token.EQL: "CEq", token.NEQ: "CNe", token.LSS: "CLt", token.LEQ: "CLe", token.GTR: "CGt", token.GEQ: "CGe"}[x.Op]
				return fmt.Sprintf("(GCmp %s %s %s)", op, a, b), nil
			}
			return "", fmt.Errorf("binary operator %s", x.Op)
		}
		// a boolean field
		o, err := operand(e)
		if err != nil {
			return "", err
		}
		return "(GCmp CEq " + o + " (OBool true))", nil
	}
	var guards []string
	stmts := fn.Body.List
	if len(stmts) == 0 {
		return "", "", fmt.Errorf("config.MQTT.Validate: empty body")
	}
	last, ok := stmts[len(stmts)-1].(*ast.ReturnStmt)
	if !ok || len(last.Results) != 1 {
		return "", "", fmt.Errorf("config.MQTT.Validate does not end with `return nil`")
	}
	if id, ok := last.Results[0].(*ast.Ident); !ok || id.Name != "nil" {
		return "", "", fmt.Errorf("config.MQTT.Validate does not end with `return nil`")
	}
	for _, s := range stmts[:len(stmts)-1] {
		pos := l.Fset.Position(s.Pos())
		if sw, ok := s.(*ast.SwitchStmt); ok {
			// switch tag { case c1, c2: [return err] ... default: [return err] } with constant case values: a clause
			// that returns an error is the guard "tag equals one of its values", a returning default the guard "tag
			// equals none of the listed values"; clauses with an empty body accept
			if sw.Init != nil || sw.Tag == nil {
				return "", "", fmt.Errorf("config.MQTT.Validate: %s:%d: switch with an init statement or without a tag", pos.Filename, pos.Line)
			}
			tag, err := operand(sw.Tag)
			if err != nil {
				return "", "", fmt.Errorf("config.MQTT.Validate: %s:%d: %v", pos.Filename, pos.Line, err)
			}
			var all []string
			type clause struct {
				vals    []string
				returns bool
				deflt   bool
			}
			var cls []clause
			for _, cs := range sw.Body.List {
				cc, ok := cs.(*ast.CaseClause)
				if !ok {
					return "", "", fmt.Errorf("config.MQTT.Validate: %s:%d: switch body", pos.Filename, pos.Line)
				}
				c := clause{deflt: cc.List == nil}
				for _, e := range cc.List {
					tv, ok := cfP.Info.Types[e]
					if !ok || tv.Value == nil {
						return "", "", fmt.Errorf("config.MQTT.Validate: %s:%d: case value is not a constant", pos.Filename, pos.Line)
					}
					v, err := operand(e)
					if err != nil {
						return "", "", fmt.Errorf("config.MQTT.Validate: %s:%d: %v", pos.Filename, pos.Line, err)
					}
					c.vals = append(c.vals, v)
					all = append(all, v)
				}
				switch len(cc.Body) {
				case 0:
				case 1:
					ret, ok := cc.Body[0].(*ast.ReturnStmt)
					if !ok || len(ret.Results) != 1 {
						return "", "", fmt.Errorf("config.MQTT.Validate: %s:%d: a case body that is not `return err`", pos.Filename, pos.Line)
					}
					if id, ok := ret.Results[0].(*ast.Ident); ok && id.Name == "nil" {
						return "", "", fmt.Errorf("config.MQTT.Validate: %s:%d: a case returns nil", pos.Filename, pos.Line)
					}
					c.returns = true
				default:
					return "", "", fmt.Errorf("config.MQTT.Validate: %s:%d: a case body with several statements", pos.Filename, pos.Line)
				}
				cls = append(cls, c)
			}
			fold := func(op, cmp string, vals []string) string {
				g := ""
				for i, v := range vals {
					c := fmt.Sprintf("(GCmp %s %s %s)", cmp, tag, v)
					if i == 0 {
						g = c
					} else {
						g = "(" + op + " " + g + " " + c + ")"
					}
				}
				return g
			}
			for _, c := range cls {
				if !c.returns {
					continue
				}
				if c.deflt {
					if len(all) == 0 {
						return "", "", fmt.Errorf("config.MQTT.Validate: %s:%d: a switch whose default always returns an error", pos.Filename, pos.Line)
					}
					guards = append(guards, fold("GAnd", "CNe", all))
				} else {
					guards = append(guards, fold("GOr", "CEq", c.vals))
				}
			}
			continue
		}
		ifs, ok := s.(*ast.IfStmt)
		if !ok || ifs.Init != nil || ifs.Else != nil || len(ifs.Body.List) != 1 {
			return "", "", fmt.Errorf("config.MQTT.Validate: %s:%d: statement is not `if cond { return err }`", pos.Filename, pos.Line)
		}
		ret, ok := ifs.Body.List[0].(*ast.ReturnStmt)
		if !ok || len(ret.Results) != 1 {
			return "", "", fmt.Errorf("config.MQTT.Validate: %s:%d: the guard does not return an error", pos.Filename, pos.Line)
		}
		if id, ok := ret.Results[0].(*ast.Ident); ok && id.Name == "nil" {
			return "", "", fmt.Errorf("config.MQTT.Validate: %s:%d: the guard returns nil", pos.Filename, pos.Line)
		}
		c, err := cond(ifs.Cond)
		if err != nil {
			return "", "", fmt.Errorf("config.MQTT.Validate: %s:%d: %v", pos.Filename, pos.Line, err)
		}
		guards = append(guards, c)
	}
	var b strings.Builder
	b.WriteString("(* GENERATED by /verif/gen (translator validate) from config/mqtt.go (func (c MQTT) Validate) - do not edit.\n")
	b.WriteString("   Each guard is the condition of one `if cond { return error }`, in source order; the function returns nil\n   when no guard fires.  Interpreted by Model/ConfigV.v. *)\n")
	b.WriteString("From Coq Require Import ZArith NArith String Ascii List.\nImport ListNotations.\nLocal Open Scope string_scope.\n\n")
	b.WriteString("(* names and string constants are byte lists (Go strings); s2b is evaluated here, so that nothing below depends on Coq strings *)\n")
	b.WriteString("Definition s2b (s : string) : list N := map N_of_ascii (list_ascii_of_string s).\n\n")
	b.WriteString("Inductive vcmp := CEq | CNe | CLt | CLe | CGt | CGe.\n")
	b.WriteString("Inductive voperand := OField (name : list N) | OInt (z : Z) | OStr (s : list N) | OBool (b : bool).\n")
	b.WriteString("Inductive vguard := GCmp (c : vcmp) (a b : voperand) | GAnd (a b : vguard) | GOr (a b : vguard) | GNot (a : vguard).\n\n")
	b.WriteString("Definition validate_guards : list vguard := Eval vm_compute in " + coqList(guards, "") + ".\n\n")
	var fitems []string
	for _, f := range order {
		fitems = append(fitems, fmt.Sprintf("(%s, %s)", mustCoqString(f), mustCoqString(fields[f])))
	}
	b.WriteString("(* the fields of config.MQTT the guards read, with their kind *)\n")
	b.WriteString("Definition validate_fields : list (string * string) := " + coqList(fitems, "") + ".\n")
	return b.String(), fmt.Sprintf("%d guards over %d fields", len(guards), len(order)), nil
}
