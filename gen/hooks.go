package main

// Translator "hooks": Gen/HookKinds.v
//
// From server/plugin.go: the fields of `HookWrapper`; from server/hook.go: the fields of `Hooks`
// and, for every wrapper type, its kind (`type OnXWrapper func(OnX) OnX`); from
// server/server.go `initPluginHooks`:
//   - the COLLECT blocks   `if hooks.F != nil { v = append(v, hooks.F) }`  inside
//     `for _, p := range srv.plugins { hooks := p.HookWrapper(); ... }`
//   - the APPLY blocks     `if v != nil { h := srv.hooks.K; if h == nil { h = func... };
//                              for <loop over v> { h = v[idx](h) }; srv.hooks.K' = h }`
//     with the DIRECTION of the loop: Desc = index runs from len(v)-1 down to 0 (the first
//     collected wrapper is applied last = outermost), Asc = 0 .. len(v)-1.
// Any statement of initPluginHooks that is neither of these shapes, the plugin construction
// loop, a log call, a declaration, nor `return nil` makes the translator fail.

import (
	"fmt"
	"go/ast"
	"go/token"
	"sort"
	"strings"
)

type hookRow struct {
	field, wtype, kind string
	collected          bool
	slice              string
	collectPos         string
	applied            bool
	dir                string // "Desc" | "Asc"
	bound, indexed     string // slice whose length bounds the apply loop / slice indexed in its body
	base, store        string // Hooks field read as the innermost hook / assigned
	nilDefault         bool
	guarded            bool // apply block is inside `if v != nil`
	applyPos           string
}

func exprString(e ast.Expr) string {
	switch x := e.(type) {
	case *ast.Ident:
		return x.Name
	case *ast.SelectorExpr:
		return exprString(x.X) + "." + x.Sel.Name
	case *ast.StarExpr:
		return "*" + exprString(x.X)
	case *ast.ParenExpr:
		return "(" + exprString(x.X) + ")"
	case *ast.CallExpr:
		return exprString(x.Fun) + "(...)"
	case *ast.IndexExpr:
		return exprString(x.X) + "[" + exprString(x.Index) + "]"
	case *ast.BasicLit:
		return x.Value
	case *ast.BinaryExpr:
		return exprString(x.X) + x.Op.String() + exprString(x.Y)
	case *ast.UnaryExpr:
		return x.Op.String() + exprString(x.X)
	case *ast.FuncLit:
		return "func{...}"
	case *ast.TypeAssertExpr:
		return exprString(x.X) + ".(type)"
	case *ast.CompositeLit:
		return "lit{...}"
	case *ast.ArrayType:
		return "[]" + exprString(x.Elt)
	case *ast.MapType:
		return "map[...]"
	case *ast.SliceExpr:
		return exprString(x.X) + "[:]"
	case *ast.KeyValueExpr:
		return exprString(x.Key) + ":" + exprString(x.Value)
	case *ast.ChanType:
		return "chan"
	case *ast.InterfaceType:
		return "interface{}"
	case *ast.FuncType:
		return "func"
	case *ast.StructType:
		return "struct{}"
	case *ast.Ellipsis:
		return "..."
	case nil:
		return ""
	}
	return fmt.Sprintf("<%T>", e)
}

func isNilCmp(e ast.Expr, op token.Token) (ast.Expr, bool) {
	b, ok := e.(*ast.BinaryExpr)
	if !ok || b.Op != op {
		return nil, false
	}
	if id, ok := b.Y.(*ast.Ident); ok && id.Name == "nil" {
		return b.X, true
	}
	return nil, false
}

func structFields(p *Pkg, name string) ([]string, []string, error) {
	for _, f := range p.Files {
		for _, d := range f.Decls {
			gd, ok := d.(*ast.GenDecl)
			if !ok || gd.Tok != token.TYPE {
				continue
			}
			for _, sp := range gd.Specs {
				ts := sp.(*ast.TypeSpec)
				if ts.Name.Name != name {
					continue
				}
				st, ok := ts.Type.(*ast.StructType)
				if !ok {
					return nil, nil, fmt.Errorf("server.%s is not a struct", name)
				}
				var names, typs []string
				for _, fl := range st.Fields.List {
					t := exprString(fl.Type)
					if len(fl.Names) == 0 { // embedded
						names = append(names, t)
						typs = append(typs, t)
					}
					for _, n := range fl.Names {
						names = append(names, n.Name)
						typs = append(typs, t)
					}
				}
				return names, typs, nil
			}
		}
	}
	return nil, nil, fmt.Errorf("type server.%s not found", name)
}

// wrapperKind: `type W func(K) K`  ->  K
func wrapperKind(p *Pkg, w string) (string, error) {
	for _, f := range p.Files {
		for _, d := range f.Decls {
			gd, ok := d.(*ast.GenDecl)
			if !ok || gd.Tok != token.TYPE {
				continue
			}
			for _, sp := range gd.Specs {
				ts := sp.(*ast.TypeSpec)
				if ts.Name.Name != w {
					continue
				}
				ft, ok := ts.Type.(*ast.FuncType)
				if !ok || ft.Params == nil || len(ft.Params.List) != 1 || len(ft.Params.List[0].Names) > 1 ||
					ft.Results == nil || len(ft.Results.List) != 1 || len(ft.Results.List[0].Names) > 1 {
					return "", fmt.Errorf("wrapper type %s is not of the shape func(K) K", w)
				}
				a, b := exprString(ft.Params.List[0].Type), exprString(ft.Results.List[0].Type)
				if a != b {
					return "", fmt.Errorf("wrapper type %s maps %s to %s (different kinds)", w, a, b)
				}
				return a, nil
			}
		}
	}
	return "", fmt.Errorf("wrapper type %s not declared in package server", w)
}

func genHooks(l *Loader) (string, string, error) {
	p, err := l.Load(l.Module + "/server")
	if err != nil {
		return "", "", err
	}
	wfields, wtypes, err := structFields(p, "HookWrapper")
	if err != nil {
		return "", "", err
	}
	hfields, _, err := structFields(p, "Hooks")
	if err != nil {
		return "", "", err
	}
	if len(wfields) == 0 || len(hfields) == 0 {
		return "", "", fmt.Errorf("HookWrapper or Hooks has no fields")
	}
	rows := map[string]*hookRow{}
	for i, f := range wfields {
		k, err := wrapperKind(p, wtypes[i])
		if err != nil {
			return "", "", err
		}
		rows[f] = &hookRow{field: f, wtype: wtypes[i], kind: k}
	}
	// find initPluginHooks
	var fn *ast.FuncDecl
	for _, f := range p.Files {
		for _, d := range f.Decls {
			if fd, ok := d.(*ast.FuncDecl); ok && fd.Name.Name == "initPluginHooks" && fd.Recv != nil {
				fn = fd
			}
		}
	}
	if fn == nil || fn.Body == nil {
		return "", "", fmt.Errorf("method initPluginHooks not found in package server")
	}
	recv := ""
	if len(fn.Recv.List) == 1 && len(fn.Recv.List[0].Names) == 1 {
		recv = fn.Recv.List[0].Names[0].Name
	}
	if recv == "" {
		return "", "", fmt.Errorf("initPluginHooks: unnamed receiver")
	}
	sliceOf := map[string]string{} // slice variable -> wrapper type
	sliceField := map[string]string{}
	pluginsLoops := 0
	for _, st := range fn.Body.List {
		switch s := st.(type) {
		case *ast.DeclStmt:
			gd := s.Decl.(*ast.GenDecl)
			if gd.Tok != token.VAR {
				return "", "", fmt.Errorf("initPluginHooks: %s: declaration not understood", l.Pos(s.Pos()))
			}
			for _, sp := range gd.Specs {
				vs := sp.(*ast.ValueSpec)
				at, ok := vs.Type.(*ast.ArrayType)
				if !ok || at.Len != nil || len(vs.Values) != 0 {
					return "", "", fmt.Errorf("initPluginHooks: %s: var is not an uninitialised slice", l.Pos(vs.Pos()))
				}
				for _, n := range vs.Names {
					sliceOf[n.Name] = exprString(at.Elt)
				}
			}
		case *ast.ExprStmt: // log call
			if _, ok := s.X.(*ast.CallExpr); !ok {
				return "", "", fmt.Errorf("initPluginHooks: %s: statement not understood", l.Pos(s.Pos()))
			}
			if !strings.HasPrefix(exprString(s.X), "zaplog.") {
				return "", "", fmt.Errorf("initPluginHooks: %s: call %s not understood", l.Pos(s.Pos()), exprString(s.X))
			}
		case *ast.ReturnStmt:
			if len(s.Results) != 1 || exprString(s.Results[0]) != "nil" {
				return "", "", fmt.Errorf("initPluginHooks: %s: return not understood", l.Pos(s.Pos()))
			}
		case *ast.RangeStmt:
			over := exprString(s.X)
			switch over {
			case recv + ".config.PluginOrder": // plugin construction, in plugin_order
				// must append to srv.plugins in iteration order
				okAppend := false
				ast.Inspect(s.Body, func(n ast.Node) bool {
					if as, ok := n.(*ast.AssignStmt); ok && len(as.Lhs) == 1 && exprString(as.Lhs[0]) == recv+".plugins" &&
						len(as.Rhs) == 1 && strings.HasPrefix(exprString(as.Rhs[0]), "append(") {
						if c := as.Rhs[0].(*ast.CallExpr); len(c.Args) == 2 && exprString(c.Args[0]) == recv+".plugins" {
							okAppend = true
						}
					}
					return true
				})
				if !okAppend {
					return "", "", fmt.Errorf("initPluginHooks: %s: the loop over PluginOrder does not append to %s.plugins", l.Pos(s.Pos()), recv)
				}
			case recv + ".plugins":
				pluginsLoops++
				if s.Tok != token.DEFINE || s.Value == nil {
					return "", "", fmt.Errorf("initPluginHooks: %s: range over plugins without value variable", l.Pos(s.Pos()))
				}
				pv := exprString(s.Value)
				hv := ""
				for i, bs := range s.Body.List {
					if i == 0 {
						as, ok := bs.(*ast.AssignStmt)
						if !ok || as.Tok != token.DEFINE || len(as.Lhs) != 1 || len(as.Rhs) != 1 || exprString(as.Rhs[0]) != pv+".HookWrapper(...)" {
							return "", "", fmt.Errorf("initPluginHooks: %s: expected `hooks := %s.HookWrapper()`", l.Pos(bs.Pos()), pv)
						}
						hv = exprString(as.Lhs[0])
						continue
					}
					is, ok := bs.(*ast.IfStmt)
					if !ok || is.Init != nil || is.Else != nil || len(is.Body.List) != 1 {
						return "", "", fmt.Errorf("initPluginHooks: %s: collect block not understood", l.Pos(bs.Pos()))
					}
					x, ok := isNilCmp(is.Cond, token.NEQ)
					if !ok {
						return "", "", fmt.Errorf("initPluginHooks: %s: collect condition not understood", l.Pos(bs.Pos()))
					}
					sel, ok := x.(*ast.SelectorExpr)
					if !ok || exprString(sel.X) != hv {
						return "", "", fmt.Errorf("initPluginHooks: %s: collect condition is not %s.<Field> != nil", l.Pos(bs.Pos()), hv)
					}
					field := sel.Sel.Name
					row, ok := rows[field]
					if !ok {
						return "", "", fmt.Errorf("initPluginHooks: %s: %s is not a field of HookWrapper", l.Pos(bs.Pos()), field)
					}
					as, ok := is.Body.List[0].(*ast.AssignStmt)
					if !ok || as.Tok != token.ASSIGN || len(as.Lhs) != 1 || len(as.Rhs) != 1 {
						return "", "", fmt.Errorf("initPluginHooks: %s: collect body not understood", l.Pos(bs.Pos()))
					}
					v := exprString(as.Lhs[0])
					call, ok := as.Rhs[0].(*ast.CallExpr)
					if !ok || exprString(call.Fun) != "append" || len(call.Args) != 2 || exprString(call.Args[0]) != v ||
						exprString(call.Args[1]) != hv+"."+field || call.Ellipsis != token.NoPos {
						return "", "", fmt.Errorf("initPluginHooks: %s: collect body is not `%s = append(%s, %s.%s)`", l.Pos(bs.Pos()), v, v, hv, field)
					}
					if sliceOf[v] != row.wtype {
						return "", "", fmt.Errorf("initPluginHooks: %s: %s collected into %s of element type %q (want %s)", l.Pos(bs.Pos()), field, v, sliceOf[v], row.wtype)
					}
					if row.collected {
						return "", "", fmt.Errorf("initPluginHooks: %s: %s collected twice", l.Pos(bs.Pos()), field)
					}
					if prev, dup := sliceField[v]; dup {
						return "", "", fmt.Errorf("initPluginHooks: %s: slice %s receives both %s and %s", l.Pos(bs.Pos()), v, prev, field)
					}
					sliceField[v] = field
					row.collected, row.slice, row.collectPos = true, v, l.Pos(bs.Pos())
				}
			default:
				return "", "", fmt.Errorf("initPluginHooks: %s: loop over %s not understood", l.Pos(s.Pos()), over)
			}
		case *ast.IfStmt:
			if err := applyBlock(l, s, recv, sliceOf, sliceField, rows, true); err != nil {
				return "", "", err
			}
		default:
			return "", "", fmt.Errorf("initPluginHooks: %s: statement of kind %T not understood", l.Pos(st.Pos()), st)
		}
	}
	if pluginsLoops != 1 {
		return "", "", fmt.Errorf("initPluginHooks: expected exactly one loop over %s.plugins, found %d", recv, pluginsLoops)
	}

	// ---- output
	var b strings.Builder
	b.WriteString("(* GENERATED by /verif/gen (translator hooks) from server/plugin.go, server/hook.go and\n")
	b.WriteString("   server/server.go (initPluginHooks) - do not edit.\n")
	b.WriteString("   One row per field of server.HookWrapper:\n")
	b.WriteString("     hr_collected : initPluginHooks appends the plugin's wrapper to a slice (plugins are visited in\n")
	b.WriteString("                    srv.plugins order = config.PluginOrder order)\n")
	b.WriteString("     hr_applied   : a loop folds that slice into srv.hooks.<hr_store>, starting from srv.hooks.<hr_base>\n")
	b.WriteString("     hr_dir       : Desc = the loop index runs from len-1 down to 0, i.e. the wrapper of the FIRST\n")
	b.WriteString("                    plugin is applied last and is the outermost; Asc = the opposite\n")
	b.WriteString("     hr_nil_default : a no-op hook is substituted when srv.hooks.<hr_base> is nil\n")
	b.WriteString("     hr_slice / hr_bound / hr_indexed : the slice the wrappers are collected into, the slice whose length\n")
	b.WriteString("                    bounds the apply loop, the slice the loop body indexes (all three must be the same) *)\n")
	b.WriteString("From Coq Require Import String List.\nImport ListNotations.\nLocal Open Scope string_scope.\n\n")
	b.WriteString("Inductive fold_dir := Desc | Asc | NoLoop.\n\n")
	b.WriteString("Record hook_row := mk_hook_row {\n  hr_field : string;      (* field of HookWrapper *)\n  hr_kind : string;       (* hook kind K of `type <field type> func(K) K` *)\n")
	b.WriteString("  hr_collected : bool;\n  hr_applied : bool;\n  hr_dir : fold_dir;\n  hr_base : string;       (* Hooks field the fold starts from *)\n  hr_store : string;      (* Hooks field the result is stored to *)\n  hr_nil_default : bool;\n  hr_slice : string;      (* local slice the plugins' wrappers of this field are collected into *)\n  hr_bound : string;      (* slice whose LENGTH bounds the apply loop *)\n  hr_indexed : string     (* slice the apply loop takes the wrappers from *)\n}.\n\n")
	var items []string
	for _, f := range wfields {
		items = append(items, mustCoqString(f))
	}
	b.WriteString("Definition hook_wrapper_fields : list string := " + coqList(items, "") + ".\n\n")
	items = nil
	for _, f := range hfields {
		items = append(items, mustCoqString(f))
	}
	b.WriteString("Definition hooks_fields : list string := " + coqList(items, "") + ".\n\n")
	items = nil
	nColl, nAppl := 0, 0
	var notApplied []string
	for _, f := range wfields {
		r := rows[f]
		dir := r.dir
		if dir == "" {
			dir = "NoLoop"
		}
		cm := ""
		if r.collected {
			nColl++
			cm += " collect " + r.collectPos + " into " + r.slice + ";"
		} else {
			cm += " NOT collected;"
		}
		if r.applied {
			nAppl++
			cm += " apply " + r.applyPos
		} else {
			cm += " NOT applied"
			notApplied = append(notApplied, f)
		}
		items = append(items, fmt.Sprintf("mk_hook_row %s %s %s %s %s %s %s %s %s %s %s  (*%s *)", mustCoqString(r.field), mustCoqString(r.kind),
			coqBool(r.collected), coqBool(r.applied), dir, mustCoqString(r.base), mustCoqString(r.store), coqBool(r.nilDefault),
			mustCoqString(r.slice), mustCoqString(r.bound), mustCoqString(r.indexed), coqComment(cm)))
	}
	// coqList puts ';' after the item text; the trailing comment must come after it: rebuild by hand
	b.WriteString("Definition hook_rows : list hook_row := [\n")
	for i, it := range items {
		k := strings.Index(it, "  (*")
		sep := ";"
		if i+1 == len(items) {
			sep = ""
		}
		b.WriteString("  " + it[:k] + sep + it[k:] + "\n")
	}
	b.WriteString("].\n")
	sort.Strings(notApplied)
	content := b.String()
	if err := checkForbidden(content); err != nil {
		return "", "", err
	}
	sum := fmt.Sprintf("%d HookWrapper fields, %d Hooks fields, %d collected, %d applied", len(wfields), len(hfields), nColl, nAppl)
	if len(notApplied) > 0 {
		sum += "; NOT applied: " + strings.Join(notApplied, ",")
	}
	for _, f := range wfields {
		if r := rows[f]; r.applied && (r.bound != r.slice || r.indexed != r.slice) {
			sum += fmt.Sprintf("; %s: loop bound len(%s), indexes %s, collected into %s", f, r.bound, r.indexed, r.slice)
		}
	}
	return content, sum, nil
}

// applyBlock recognises
//
//	if v != nil { h := srv.hooks.K; [if h == nil { h = func... }]; <loop>; srv.hooks.K' = h }
func applyBlock(l *Loader, s *ast.IfStmt, recv string, sliceOf, sliceField map[string]string, rows map[string]*hookRow, guarded bool) error {
	where := l.Pos(s.Pos())
	if s.Init != nil || s.Else != nil {
		return fmt.Errorf("initPluginHooks: %s: apply block with init/else not understood", where)
	}
	x, ok := isNilCmp(s.Cond, token.NEQ)
	if !ok {
		return fmt.Errorf("initPluginHooks: %s: apply condition is not `<slice> != nil`", where)
	}
	v := exprString(x)
	if _, ok := sliceOf[v]; !ok {
		return fmt.Errorf("initPluginHooks: %s: %s is not one of the wrapper slices", where, v)
	}
	field, ok := sliceField[v]
	if !ok {
		return fmt.Errorf("initPluginHooks: %s: slice %s is applied but nothing is collected into it", where, v)
	}
	row := rows[field]
	if row.applied {
		return fmt.Errorf("initPluginHooks: %s: slice %s applied twice", where, v)
	}
	body := s.Body.List
	if len(body) < 3 {
		return fmt.Errorf("initPluginHooks: %s: apply block too short", where)
	}
	// h := srv.hooks.K
	as, ok := body[0].(*ast.AssignStmt)
	if !ok || as.Tok != token.DEFINE || len(as.Lhs) != 1 || len(as.Rhs) != 1 {
		return fmt.Errorf("initPluginHooks: %s: expected `h := %s.hooks.<Kind>`", where, recv)
	}
	h := exprString(as.Lhs[0])
	base := exprString(as.Rhs[0])
	pre := recv + ".hooks."
	if !strings.HasPrefix(base, pre) || strings.Contains(base[len(pre):], ".") {
		return fmt.Errorf("initPluginHooks: %s: base %s is not a field of %s.hooks", where, base, recv)
	}
	row.base = base[len(pre):]
	i := 1
	if is, ok := body[i].(*ast.IfStmt); ok {
		y, ok := isNilCmp(is.Cond, token.EQL)
		if !ok || exprString(y) != h || is.Else != nil || len(is.Body.List) != 1 {
			return fmt.Errorf("initPluginHooks: %s: nil-default block not understood", where)
		}
		das, ok := is.Body.List[0].(*ast.AssignStmt)
		if !ok || das.Tok != token.ASSIGN || len(das.Lhs) != 1 || exprString(das.Lhs[0]) != h {
			return fmt.Errorf("initPluginHooks: %s: nil-default block does not assign %s", where, h)
		}
		if _, ok := das.Rhs[0].(*ast.FuncLit); !ok {
			return fmt.Errorf("initPluginHooks: %s: nil-default is not a function literal", where)
		}
		row.nilDefault = true
		i++
	}
	if len(body) != i+2 {
		return fmt.Errorf("initPluginHooks: %s: apply block has %d statements, expected %d", where, len(body), i+2)
	}
	// loop
	var idx ast.Expr
	var loopBody *ast.BlockStmt
	dir := ""
	switch lp := body[i].(type) {
	case *ast.ForStmt:
		ini, ok := lp.Init.(*ast.AssignStmt)
		if !ok || ini.Tok != token.DEFINE || len(ini.Lhs) != 1 || len(ini.Rhs) != 1 {
			return fmt.Errorf("initPluginHooks: %s: loop init not understood", where)
		}
		iv := exprString(ini.Lhs[0])
		start := exprString(ini.Rhs[0])
		cond := exprString(lp.Cond)
		post := ""
		if ids, ok := lp.Post.(*ast.IncDecStmt); ok && exprString(ids.X) == iv {
			post = ids.Tok.String()
		}
		// the bound: len(<slice>) of ANY of the wrapper slices; which one is recorded in the row
		// (hr_bound) and judged by the theorem, not here
		lenOf := func(e ast.Expr) (string, bool) {
			c, ok := e.(*ast.CallExpr)
			if !ok || exprString(c.Fun) != "len" || len(c.Args) != 1 {
				return "", false
			}
			name := exprString(c.Args[0])
			if _, isSlice := sliceOf[name]; !isSlice {
				return "", false
			}
			return name, true
		}
		bound := ""
		switch {
		case cond == iv+">0" && post == "--":
			b, ok := lenOf(ini.Rhs[0])
			if !ok {
				return fmt.Errorf("initPluginHooks: %s: loop `for %s := %s; %s; %s--`: start is not len(<wrapper slice>)", where, iv, start, cond, iv)
			}
			bound = b
			dir, idx = "Desc", &ast.BinaryExpr{X: ast.NewIdent(iv), Op: token.SUB, Y: &ast.BasicLit{Kind: token.INT, Value: "1"}}
		case start == "len(...)-1" && cond == iv+">=0" && post == "--":
			b, ok := lenOf(ini.Rhs[0].(*ast.BinaryExpr).X)
			if !ok {
				return fmt.Errorf("initPluginHooks: %s: loop start is not len(<wrapper slice>)-1", where)
			}
			bound = b
			dir, idx = "Desc", ast.NewIdent(iv)
		case start == "0" && post == "++" && lp.Cond != nil:
			be, ok := lp.Cond.(*ast.BinaryExpr)
			if !ok || be.Op != token.LSS || exprString(be.X) != iv {
				return fmt.Errorf("initPluginHooks: %s: ascending loop bound not understood", where)
			}
			b, ok := lenOf(be.Y)
			if !ok {
				return fmt.Errorf("initPluginHooks: %s: ascending loop bound is not len(<wrapper slice>)", where)
			}
			bound = b
			dir, idx = "Asc", ast.NewIdent(iv)
		default:
			return fmt.Errorf("initPluginHooks: %s: loop `for %s := %s; %s; %s%s` not understood", where, iv, start, cond, iv, post)
		}
		row.bound = bound
		loopBody = lp.Body
	case *ast.RangeStmt:
		if _, isSlice := sliceOf[exprString(lp.X)]; !isSlice || lp.Value == nil || lp.Tok != token.DEFINE {
			return fmt.Errorf("initPluginHooks: %s: range loop not understood", where)
		}
		row.bound, row.indexed = exprString(lp.X), exprString(lp.X)
		dir, idx = "Asc", nil
		loopBody = lp.Body
		// h = w(h)
		if len(loopBody.List) != 1 {
			return fmt.Errorf("initPluginHooks: %s: loop body not understood", where)
		}
		as, ok := loopBody.List[0].(*ast.AssignStmt)
		if !ok || as.Tok != token.ASSIGN || len(as.Lhs) != 1 || exprString(as.Lhs[0]) != h {
			return fmt.Errorf("initPluginHooks: %s: loop body does not assign %s", where, h)
		}
		c, ok := as.Rhs[0].(*ast.CallExpr)
		if !ok || exprString(c.Fun) != exprString(lp.Value) || len(c.Args) != 1 || exprString(c.Args[0]) != h {
			return fmt.Errorf("initPluginHooks: %s: loop body is not `%s = w(%s)`", where, h, h)
		}
		loopBody = nil
	default:
		return fmt.Errorf("initPluginHooks: %s: expected a loop, found %T", where, body[i])
	}
	if loopBody != nil {
		if len(loopBody.List) != 1 {
			return fmt.Errorf("initPluginHooks: %s: loop body not understood", where)
		}
		as, ok := loopBody.List[0].(*ast.AssignStmt)
		if !ok || as.Tok != token.ASSIGN || len(as.Lhs) != 1 || len(as.Rhs) != 1 || exprString(as.Lhs[0]) != h {
			return fmt.Errorf("initPluginHooks: %s: loop body does not assign %s", where, h)
		}
		c, ok := as.Rhs[0].(*ast.CallExpr)
		if !ok || len(c.Args) != 1 || exprString(c.Args[0]) != h {
			return fmt.Errorf("initPluginHooks: %s: loop body is not `%s = %s[idx](%s)`", where, h, v, h)
		}
		ie, ok := c.Fun.(*ast.IndexExpr)
		if !ok || exprString(ie.Index) != exprString(idx) {
			return fmt.Errorf("initPluginHooks: %s: loop body indexes %s (expected <wrapper slice>[%s])", where, exprString(c.Fun), exprString(idx))
		}
		if _, isSlice := sliceOf[exprString(ie.X)]; !isSlice {
			return fmt.Errorf("initPluginHooks: %s: loop body indexes %s, which is not one of the wrapper slices", where, exprString(ie.X))
		}
		row.indexed = exprString(ie.X)
	}
	// srv.hooks.K' = h
	st, ok := body[i+1].(*ast.AssignStmt)
	if !ok || st.Tok != token.ASSIGN || len(st.Lhs) != 1 || len(st.Rhs) != 1 || exprString(st.Rhs[0]) != h {
		return fmt.Errorf("initPluginHooks: %s: the block does not end with `%s.hooks.<Kind> = %s`", where, recv, h)
	}
	store := exprString(st.Lhs[0])
	if !strings.HasPrefix(store, pre) || strings.Contains(store[len(pre):], ".") {
		return fmt.Errorf("initPluginHooks: %s: result stored to %s", where, store)
	}
	row.store = store[len(pre):]
	row.applied, row.dir, row.applyPos, row.guarded = true, dir, where, guarded
	return nil
}
