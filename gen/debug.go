package main

import (
	"fmt"
	"os"
	"strings"
)

func (a *analysis) debugDump() {
	pat := os.Getenv("VERIFGEN_DEBUG")
	if pat == "" {
		return
	}
	for _, f := range a.funcs {
		if pat == "NET" {
			if len(f.sumAll.acqMay) > 0 || len(f.sumAll.relMay) > 0 {
				fmt.Fprintf(os.Stderr, "NET %s acqMay=%v acqMust=%v relMay=%v relMust=%v\n", f.name, f.sumAll.acqMay.keys(), f.sumAll.acqMust.keys(), f.sumAll.relMay.keys(), f.sumAll.relMust.keys())
			}
			continue
		}
		if !strings.Contains(f.name, pat) {
			continue
		}
		fmt.Fprintf(os.Stderr, "FUNC %s\n  sumAll acqMay=%v acqMust=%v relMay=%v relMust=%v\n  entryMay=%d entryMust=%v\n", f.name,
			f.sumAll.acqMay.keys(), f.sumAll.acqMust.keys(), f.sumAll.relMay.keys(), f.sumAll.relMust.keys(), len(f.entryMay), f.entryMust.keys())
		for _, e := range f.events {
			var cs []string
			for _, c := range e.callees {
				cs = append(cs, c.name)
			}
			fmt.Fprintf(os.Stderr, "  ev kind=%d %s %s class=%s callees=%v may=%v must=%v relMay=%v fresh=%v def=%v\n", e.kind, a.l.Pos(e.pos), e.desc, e.class, cs, len(e.snap.may), e.snap.must.keys(), e.snap.relMay.keys(), e.fresh, e.viaDef)
		}
	}
}
