(* Oracle for property C04, written from the statement:

     A QoS 2 PUBLISH is forwarded to subscribers exactly once however many times the sender retransmits
     it (same packet identifier) before PUBREL, including retransmissions after resuming its session;
     once PUBREL/PUBCOMP completed the identifier can be reused and the new message is delivered. Every
     QoS 1 PUBLISH is answered by one PUBACK, every QoS 2 PUBLISH by a PUBREC and every PUBREL by a
     PUBCOMP carrying the same packet identifier.

   It is evaluated on the implementation's observations only. Abstract state:
     - per client id: the set of QoS 2 packet identifiers for which a PUBLISH was sent and no PUBREL yet
       (emptied when a CONNACK says Session Present = 0, kept when it says 1), and its subscriptions
       (filter -> granted QoS, No Local) as confirmed by SUBACK / UNSUBACK;
     - per socket and application message (topic, payload): how many copies should have been forwarded
       and how many were.
   Clauses decided (names used in the explanations):
     ack     in the step of a QoS 1 PUBLISH / QoS 2 PUBLISH / PUBREL the sender's socket receives exactly one
             PUBACK / PUBREC / PUBCOMP with that packet identifier (reason code < 0x80) and no socket ever
             receives a PUBACK/PUBREC/PUBCOMP that was not asked for;
     once    a QoS 2 PUBLISH whose identifier is outstanding in the sender's session is forwarded to nobody;
     fwd     a QoS 2 PUBLISH whose identifier is not outstanding (never used, completed by PUBREL, or
             outstanding only in a session that was not resumed) is forwarded: one copy per matching
             subscription (overlap) or one per subscribed client (onlyonce), No Local honoured; in the
             same step when the subscriber's send window has room, else by the time it has;
     alive   the broker does not close a connection of the family or send DISCONNECT on it.
   The family (everything else returns true, class outside_xxx): see harness/w_c04.go. Forwarding of QoS 0/1
   messages, flags, QoS and properties of forwarded copies, PUBREL towards subscribers, packet ids chosen by
   the broker and the order of packets within a step are not looked at.

   Known finding kf_recvmax_dup_qos2: for a v5 publisher the broker takes one unit of its Receive Maximum
   quota for EVERY QoS>0 PUBLISH packet (server/client.go readLoop, tryDecServerQuota) but gives a unit back
   only per PUBACK / PUBCOMP, so every retransmission of a QoS 2 PUBLISH loses one unit until the end of
   the connection; when the quota is used up the next QoS>0 PUBLISH is answered by DISCONNECT 0x93 instead of
   PUBACK/PUBREC although the client never had more than Receive Maximum identifiers outstanding. The name
   is returned only when the failing step is a QoS>0 PUBLISH of a v5 client that got no ack and a closed
   connection (DISCONNECT 0x93 or none) AND a per-packet count of the quota had reached zero. *)
open Conv

exception Outside of string
exception Fail of string * string

type sock = {
  s_cid : string; s_ver : int;
  mutable s_alive : bool;            (* CONNACK 0 received, not closed / taken over / DISCONNECTed by the script *)
  mutable s_quota : int;             (* what is left of the Receive Maximum if every QoS>0 PUBLISH packet takes one unit *)
  mutable s_infl : int list;         (* packet ids of forwarded QoS>0 PUBLISHes the script has not acknowledged *)
  mutable s_rel : int list;          (* PUBREC sent, PUBCOMP not yet *)
}
type client = {
  mutable out : int list;            (* QoS 2 ids: PUBLISH sent, PUBREL not yet, in the current session *)
  mutable carried : int list;        (* those of [out] that were sent on an earlier connection *)
  mutable lost : int list;           (* ids that were outstanding in a session that was discarded *)
  mutable completed : int list;
  mutable subs : (string * (int * bool)) list;
}

let last_cls = ref "-"
(* mutation testing of the oracle itself (never set in normal runs): O_C04_MUTATE = always_new (retransmissions are
   forwarded again) | noresume (a session never survives a reconnect) | never_reuse (a completed id stays taken) |
   no_release (PUBREL does not free the id) | nolocal (No Local ignored) | ack_kind (QoS 2 PUBLISH answered by PUBACK) *)
let mutation = (match Sys.getenv_opt "O_C04_MUTATE" with Some m -> m | None -> "")

let outside w = raise (Outside w)
let a = Sexp.atom
let ios x = int_of_string (a x)
let rec remove1 x = function [] -> [] | y :: r -> if x = y then r else y :: remove1 x r

let oracle : S_wire.oracle_fn = fun cfg hooks steps iobs iraw ->
  let flags = Hashtbl.create 16 in
  let flag f = Hashtbl.replace flags f () in
  let window = int_of_n cfg.Model.c_max_inflight in
  let recv_max = int_of_n cfg.Model.c_recv_max in
  let mode = if window >= 100 then "A" else "B" in
  let cls () = mode ^ String.concat "" (List.map (fun f -> "+" ^ f) (List.sort compare (Hashtbl.fold (fun k () acc -> k :: acc) flags []))) in
  try
    if hooks <> Model.no_hooks then outside "hooks";
    if int_of_n cfg.Model.c_max_qos <> 2 then outside "max_qos";
    (let mp = int_of_n cfg.Model.c_max_packet in if mp <> 0 && mp < 100000 then outside "max_packet");
    if int_of_nat cfg.Model.c_max_queued < 200 then outside "max_queued";
    if window < 1 then outside "max_inflight";
    (* ---- pre-scan: a client that subscribes has one connection, which the script never ends *)
    let lab = Hashtbl.create 8 in
    let subscribers = Hashtbl.create 8 and nconn = Hashtbl.create 8 and ended = Hashtbl.create 8 in
    List.iter (fun st -> match Sexp.list st with
        | Sexp.A "connect" :: c :: _ :: rest ->
          let cid = a (Sexp.field1 "cid" (Sexp.L rest)) in
          (match Hashtbl.find_opt lab (ios c) with Some old -> Hashtbl.replace ended old () | None -> ());
          Hashtbl.replace lab (ios c) cid;
          Hashtbl.replace nconn cid (1 + (try Hashtbl.find nconn cid with Not_found -> 0))
        | [Sexp.A "send"; c; Sexp.L (Sexp.A "subscribe" :: _)] ->
          (match Hashtbl.find_opt lab (ios c) with Some cid -> Hashtbl.replace subscribers cid () | None -> outside "send_unknown")
        | [Sexp.A "send"; c; Sexp.L (Sexp.A "disconnect" :: _)] | [Sexp.A "close"; c] ->
          (match Hashtbl.find_opt lab (ios c) with Some cid -> Hashtbl.replace ended cid () | None -> ())
        | _ -> ()) steps;
    Hashtbl.iter (fun cid () ->
        if Hashtbl.mem ended cid || Hashtbl.find nconn cid <> 1 then outside "subscriber_offline") subscribers;
    if mode = "B" && List.exists (fun st -> match st with Sexp.L (Sexp.A "advance" :: _) -> true | _ -> false) steps then outside "B_advance";
    (* ---- state *)
    let socks : (int, sock) Hashtbl.t = Hashtbl.create 8 in
    let clients : (string, client) Hashtbl.t = Hashtbl.create 8 in
    let client cid = match Hashtbl.find_opt clients cid with
      | Some c -> c
      | None -> let c = { out = []; carried = []; lost = []; completed = []; subs = [] } in Hashtbl.replace clients cid c; c in
    let expected : (int * string, int) Hashtbl.t = Hashtbl.create 32 and got : (int * string, int) Hashtbl.t = Hashtbl.create 32 in
    let q2keys = Hashtbl.create 32 and q01keys = Hashtbl.create 32 and retained = Hashtbl.create 8 in
    let first_key : (string * int, string) Hashtbl.t = Hashtbl.create 16 in
    let bump t k n = Hashtbl.replace t k (n + (try Hashtbl.find t k with Not_found -> 0)) in
    let get t k = try Hashtbl.find t k with Not_found -> 0 in
    let copies (cl : client) ~same topic =
      let tb = bytes_of_atom topic in
      let n = List.length (List.filter (fun (f, (_, nl)) -> Model.topic_match tb (bytes_of_atom f) && not (nl && same)) cl.subs) in
      let n = if mutation = "nolocal" then List.length (List.filter (fun (f, _) -> Model.topic_match tb (bytes_of_atom f)) cl.subs) else n in
      if cfg.Model.c_onlyonce then min n 1 else n in
    let pkts_of obs c = match List.find_opt (fun (c', _, _) -> c' = c) obs with Some (_, p, _) -> p | None -> [] in
    let show l = String.concat "," (List.map (fun (k, p) -> k ^ ":" ^ string_of_int p) l) in
    List.iteri (fun k ((step, obs), raw) ->
        let where = "step " ^ string_of_int k ^ " " in
        let exp_acks = ref [] in         (* (label, kind, pid) *)
        let subscribing = ref (-1) in
        let kf_hint = ref "-" in
        let dup_fwd = ref false in
        let alive_sock c = match Hashtbl.find_opt socks c with Some s when s.s_alive -> s | _ -> outside "send_on_dead_socket" in
        (match Sexp.list step with
         | Sexp.A "connect" :: c :: ver :: rest ->
           let c = ios c and x = Sexp.L rest in
           let cid = a (Sexp.field1 "cid" x) in
           if cid = "x" then outside "empty_cid";
           if Sexp.field_opt "will" x <> None || Sexp.field_opt "connflags" x <> None then outside "will";
           List.iter (fun p -> if S_wire.prop_name p <> "sei" then outside "connect_props") (Sexp.field "props" x);
           (match Hashtbl.find_opt socks c with Some s when s.s_alive -> outside "label_reused_while_open" | _ -> ());
           let sp = match List.find_opt (fun p -> match p with Sexp.L (Sexp.A "connack" :: _) -> true | _ -> false) (pkts_of obs c) with
             | Some (Sexp.L [_; sp; code; _]) -> if ios code <> 0 then outside "connack_refused"; a sp <> "0"
             | _ -> outside "no_connack" in
           (* a second connection of the same client: the first one is taken over *)
           Hashtbl.iter (fun _ s -> if s.s_cid = cid && s.s_alive then (flag "takeover"; s.s_alive <- false)) socks;
           let cl = client cid in
           if sp then begin
             if cl.out <> [] then flag "resume_outstanding";
             cl.carried <- cl.out
           end else begin
             if cl.out <> [] then flag "discard_outstanding";
             cl.lost <- cl.out @ cl.lost; cl.out <- []; cl.carried <- []; cl.subs <- []
           end;
           if mutation = "noresume" then (cl.out <- []; cl.carried <- []);
           Hashtbl.replace socks c { s_cid = cid; s_ver = ios ver; s_alive = true; s_quota = recv_max; s_infl = []; s_rel = [] }
         | [Sexp.A "send"; c; p0] ->
           let c = ios c in
           (match S_wire.sent_of_step raw with
            | Some None -> ()                                    (* unresolved (rx K): nothing was sent *)
            | sent ->
              let p = (match sent with Some (Some p) -> p | _ -> p0) in
              let s = alive_sock c in
              let cl = client s.s_cid in
              (match Sexp.list p with
               | [Sexp.A "publish"; _; q; r; t; pl; pid; Sexp.L (Sexp.A "props" :: ps)] ->
                 let q = ios q and pid = ios pid in
                 let topic = a t in
                 let tstr = String.concat "" (List.map (fun b -> String.make 1 (Char.chr (int_of_n b))) (bytes_of_atom topic)) in
                 if tstr = "" || tstr.[0] = '$' || String.contains tstr '+' || String.contains tstr '#' then outside "topic";
                 List.iter (fun pr -> match S_wire.prop_name pr with "alias" | "subid" -> outside "publish_props" | _ -> ()) ps;
                 if q > 2 then outside "qos3";
                 let key = topic ^ "|" ^ a pl in
                 if a r <> "0" then begin
                   if not cfg.Model.c_retain_avail then outside "retain";
                   Hashtbl.replace retained key ()
                 end;
                 let fresh = not (List.mem pid cl.out) in
                 if q > 0 && s.s_ver = 5 then begin
                   (* Receive Maximum counts messages (distinct ids) not yet PUBACKed / PUBCOMPed *)
                   if fresh && List.length cl.out + 1 > recv_max then outside "recv_max";
                   if s.s_quota = 0 then kf_hint := "kf_recvmax_dup_qos2" else s.s_quota <- s.s_quota - 1
                 end;
                 let forward () =
                   Hashtbl.iter (fun l (s' : sock) ->
                       if s'.s_alive then begin
                         let n = copies (client s'.s_cid) ~same:(s'.s_cid = s.s_cid) topic in
                         if n > 0 then (bump expected (l, key) n; flag "fwd")
                       end) socks in
                 (match q with
                  | 0 | 1 ->
                    if Hashtbl.mem q2keys key then outside "ambiguous_payload";
                    Hashtbl.replace q01keys key ();
                    if q = 1 then begin
                      if not fresh then outside "qos1_with_outstanding_qos2_id";
                      flag "q1"; exp_acks := (c, "puback", pid) :: !exp_acks
                    end
                  | _ ->
                    if Hashtbl.mem q01keys key then outside "ambiguous_payload";
                    Hashtbl.replace q2keys key ();
                    exp_acks := (c, (if mutation = "ack_kind" then "puback" else "pubrec"), pid) :: !exp_acks;
                    let fresh = if mutation = "always_new" then true else if mutation = "never_reuse" then not (List.mem pid cl.out || List.mem pid cl.completed) else fresh in
                    if fresh then begin
                      flag "new";
                      if List.mem pid cl.completed then flag "reuse";
                      if List.mem pid cl.lost then (flag "again_after_discard"; cl.lost <- remove1 pid cl.lost);
                      cl.out <- pid :: cl.out;
                      Hashtbl.replace first_key (s.s_cid, pid) key;
                      forward ()
                    end else begin
                      flag "dup";
                      if List.mem pid cl.carried then flag "dup_resumed";
                      if List.length cl.out >= 2 then flag "dup_interleaved";
                      let orig = (try Hashtbl.find first_key (s.s_cid, pid) with Not_found -> key) in
                      if orig <> key then flag "dup_other_content";
                      if Hashtbl.fold (fun (_, k') n acc -> acc || (k' = orig && n > 0)) expected false then (flag "dup_of_forwarded"; dup_fwd := true)
                    end)
               | [Sexp.A "pubrel"; pid; _; _] ->
                 let pid = ios pid in
                 exp_acks := (c, "pubcomp", pid) :: !exp_acks;
                 if List.mem pid cl.out then begin
                   flag "rel"; if List.mem pid cl.carried then flag "rel_resumed"; cl.out <- remove1 pid cl.out; cl.carried <- remove1 pid cl.carried;
                   if mutation <> "no_release" then cl.completed <- pid :: cl.completed else cl.out <- pid :: cl.out
                 end else flag "rel_unknown"
               | [Sexp.A "puback"; pid; _; _] -> s.s_infl <- remove1 (ios pid) s.s_infl
               | [Sexp.A "pubrec"; pid; code; _] ->
                 let pid = ios pid in
                 if List.mem pid s.s_infl then (s.s_infl <- remove1 pid s.s_infl; if not (s.s_ver = 5 && ios code >= 128) then s.s_rel <- pid :: s.s_rel)
               | [Sexp.A "pubcomp"; pid; _; _] -> s.s_rel <- remove1 (ios pid) s.s_rel
               | Sexp.A "subscribe" :: pid :: _ :: ts ->
                 subscribing := c;
                 (* with a small window a retained replay may be queued behind other messages and arrive in any later step *)
                 if mode = "B" && Hashtbl.length retained > 0 then outside "B_retained_replay";
                 let codes = match List.find_opt (fun x -> match x with Sexp.L (Sexp.A "suback" :: pid' :: _) -> pid' = pid | _ -> false) (pkts_of obs c) with
                   | Some (Sexp.L [_; _; Sexp.L (Sexp.A "codes" :: cs); _]) -> List.map ios cs
                   | _ -> outside "no_suback" in
                 if List.length codes <> List.length ts then outside "suback_codes";
                 List.iter2 (fun t code -> match Sexp.list t with
                     | [Sexp.A "t"; f; _; nl; _; _] ->
                       let fs = String.concat "" (List.map (fun b -> String.make 1 (Char.chr (int_of_n b))) (bytes_of_atom (a f))) in
                       if String.length fs >= 6 && String.sub fs 0 6 = "$share" then outside "shared";
                       if code > 2 then outside "subscribe_refused";
                       cl.subs <- (a f, (code, a nl <> "0" && s.s_ver = 5)) :: List.remove_assoc (a f) cl.subs
                     | _ -> outside "subscribe_entry") ts codes;
                 if mode = "B" && List.length (List.sort_uniq compare (List.map (fun (_, (q, _)) -> q) cl.subs)) > 1 then outside "B_mixed_qos"
               | Sexp.A "unsubscribe" :: pid :: _ :: fs ->
                 if not (List.exists (fun x -> match x with Sexp.L (Sexp.A "unsuback" :: pid' :: _) -> pid' = pid | _ -> false) (pkts_of obs c)) then outside "no_unsuback";
                 List.iter (fun f -> cl.subs <- List.remove_assoc (a f) cl.subs) fs
               | Sexp.A "disconnect" :: _ -> s.s_alive <- false
               | [Sexp.A "pingreq"] -> ()
               | _ -> outside "packet"))
         | [Sexp.A "close"; c] -> (match Hashtbl.find_opt socks (ios c) with Some s -> s.s_alive <- false | None -> ())
         | [Sexp.A "advance"; _] | [Sexp.A "expire_check"] | [Sexp.A "inspect"] -> ()
         | _ -> outside "step");
        (* ---- what the implementation did in this step *)
        List.iter (fun (c, pkts, is_open) ->
            let s = Hashtbl.find_opt socks c in
            let live = (match s with Some s -> s.s_alive | None -> false) in
            let acks = List.filter_map (fun p -> match p with
                | Sexp.L [Sexp.A ("puback" | "pubrec" | "pubcomp" as kind); pid; code; _] ->
                  if kind <> "pubcomp" && ios code >= 128 then raise (Fail ("-", where ^ "ack: socket " ^ string_of_int c ^ " " ^ kind ^ " " ^ a pid ^ " with reason code " ^ a code));
                  (* informational: a v5 retransmission is answered 0x10 (no matching subscribers) although the message was forwarded *)
                  if kind = "pubrec" && !dup_fwd && ios code = 16 then flag "info_dup_pubrec_0x10";
                  (match s with Some s when kind <> "pubrec" -> s.s_quota <- min recv_max (s.s_quota + 1) | _ -> ());
                  Some (kind, ios pid)
                | _ -> None) pkts in
            let want = List.filter_map (fun (c', kind, pid) -> if c' = c then Some (kind, pid) else None) !exp_acks in
            let closed = live && (not is_open || List.exists (fun p -> match p with Sexp.L (Sexp.A "disconnect" :: _) -> true | _ -> false) pkts) in
            let dis = String.concat "" (List.filter_map (fun p -> match p with Sexp.L (Sexp.A "disconnect" :: code :: _) -> Some (" DISCONNECT " ^ a code) | _ -> None) pkts) in
            if List.sort compare acks <> List.sort compare want then
              raise (Fail ((if closed && acks = [] && (dis = "" || dis = " DISCONNECT 147") then !kf_hint else "-"),
                           where ^ "ack: socket " ^ string_of_int c ^ " expected [" ^ show want ^ "] got [" ^ show acks ^ "]" ^ (if closed then " and the broker ended the connection" ^ dis else "")));
            if closed then raise (Fail ("-", where ^ "alive: the broker ended the connection of socket " ^ string_of_int c ^ dis));
            List.iter (fun p -> match p with
                | Sexp.L [Sexp.A "publish"; _; q; _; t; pl; pid; _] ->
                  let key = a t ^ "|" ^ a pl in
                  (match s with Some s when ios q > 0 && not (List.mem (ios pid) s.s_infl) -> s.s_infl <- ios pid :: s.s_infl | _ -> ());
                  if c = !subscribing && Hashtbl.mem retained key then ()
                  else if Hashtbl.mem q2keys key then bump got (c, key) 1
                  else if Hashtbl.mem q01keys key then ()
                  else raise (Fail ("-", where ^ "once: socket " ^ string_of_int c ^ " received a message nobody published: " ^ key))
                | _ -> ()) pkts) obs;
        (* ---- forwarded copies so far against the expectation *)
        let keys = Hashtbl.create 16 in
        Hashtbl.iter (fun k _ -> Hashtbl.replace keys k ()) expected; Hashtbl.iter (fun k _ -> Hashtbl.replace keys k ()) got;
        Hashtbl.iter (fun (l, key) () ->
            let e = get expected (l, key) and g = get got (l, key) in
            if g > e then raise (Fail ("-", Printf.sprintf "%sonce: socket %d has %d copies of %s, expected %d" where l g key e));
            let room = mode = "A" || (match Hashtbl.find_opt socks l with Some s -> List.length s.s_infl + List.length s.s_rel < window | None -> false) in
            if g < e && room then raise (Fail ("-", Printf.sprintf "%sfwd: socket %d has %d copies of %s, expected %d" where l g key e));
            if g < e then flag "waiting") keys)
      (List.combine (List.combine steps iobs) iraw);
    last_cls := cls (); (true, "-", "")
  with
  | Outside w -> last_cls := "outside_" ^ w; (true, "-", "")
  | Fail (kf, why) -> last_cls := cls (); (false, kf, why)

let run input impl = let v = S_wire.run_with oracle input impl in { v with Verdict.cls = !last_cls }
