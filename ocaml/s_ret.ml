open Model
open Conv
open Msgconv

let op_of_sx x = match Sexp.list x with
  | [Sexp.A "add"; m] -> RAdd (msg_of_sx m)
  | [Sexp.A "remove"; t] -> RRemove (bytes_of_sx t)
  | [Sexp.A "clear"] -> RClear
  | _ -> failwith "rop"

let q_of_sx x = match Sexp.list x with
  | [Sexp.A "matched"; f] -> QMatched (bytes_of_sx f)
  | [Sexp.A "get"; t] -> QGet (bytes_of_sx t)
  | [Sexp.A "all"] -> QAll
  | _ -> failwith "rquery"

let run (input : Sexp.t) (impl : Sexp.t) : Verdict.t =
  let ops = List.map op_of_sx (Sexp.field "ops" input) in
  let qs = List.map q_of_sx (Sexp.field "queries" input) in
  let d = rdb_run ops in
  let sp = rspec_run ops in
  let ires = List.map (fun r -> List.map msg_of_sx (Sexp.list r)) (Sexp.field "results" impl) in
  let mres = List.map (rmodel_answer d) qs in
  let agree = List.length ires = List.length mres && List.for_all2 mmeq mres ires in
  let oracle = List.for_all2 (c07_store_ok sp) qs ires in
  let hit = List.exists (fun r -> r <> []) ires in
  { Verdict.agree; oracle; kf = "-"; nontrivial = List.length ops >= 3 && hit;
    cls = Printf.sprintf "ops%s_sp%d_%s" (if List.length ops < 10 then "lt10" else "ge10") (min (List.length sp) 4) (if hit then "hit" else "nohit");
    model = Sexp.L (List.map (fun l -> Sexp.L (sorted_msgs l)) mres); why = "" }
