(* Oracle of property C03 - outbound QoS1/2: at-least-once across reconnects, unique ids, bounded window.
   Written from the property statement; evaluated on the packets the real broker sent. Generator: harness/w_c03.go.

   Clauses decided (names used in explanations and in the class counters):
     replay    after a reconnect that resumes the session every message still awaiting PUBACK/PUBCOMP is
               transmitted again, before any new message (QoS 0 included), in the order of the first
               transmissions, with its packet identifier, DUP=1 and its content, or as PUBREL once a
               PUBREC was sent; nothing else is transmitted with DUP=1; a message whose acknowledgement
               was completed is not transmitted again (the retransmissions may stop only while the window
               of the new connection is full)
     dup0      a message is first sent with DUP=0 (a DUP=0 PUBLISH with QoS>0 must be one of the messages
               queued for the session and not sent so far)
     ids       the identifier of a first transmission is non-zero and differs from every identifier awaiting
               PUBACK/PUBCOMP in the session
     window    the PUBLISH packets with QoS>0 sent on a connection and not yet completed by PUBACK / PUBCOMP /
               (v5) PUBREC>=0x80 never number more than min(max_inflight, Receive Maximum of that CONNECT)
     delivery  (not part of the statement: it keeps the window clause from being satisfied by sending nothing) at the
               end of a step (the broker is quiescent) no queued QoS>0 message is held back while the window has
               room; here a retransmitted PUBREL awaiting PUBCOMP occupies a slot like a PUBREL does within one
               connection (the broker keeps the identifier in use until PUBCOMP), so the occupancy is the number of
               outstanding messages transmitted in any form on the connection
     pubrel    PUBREL is only sent for a message whose PUBREC was received
   Known findings (returned only for failures of exactly that class):
     kf_replay_exceeds_smaller_recvmax          window exceeded by the retransmissions themselves, on a connection whose
                                                window is smaller than an earlier one of the session
   (kf_pubrel_id_reused_after_reconnect and kf_window_after_replayed_pubrel_completed were repaired in /repo 75cdebf -
   pollInflights marks the ids of retransmitted PUBRELs as in use - and are plain failures now; witnesses in
   corpus/C03/fixed.sx)
   Class field: <in|oof_reason|fail|kf_...>,<letter><0|1>... one flag per clause exercised (see set_cls / cov letters):
     S resumed, R DUP=1 retransmission, L PUBREL retransmission, O >=2 due at a resume, N new message after retransmissions,
     D first transmission checked, I ids compared with another outstanding one, F window reached, H message held back by a
     full window, M same message retransmitted on >=2 resumes, E error reason code completed a flow, A a flow completed,
     C clean start over a stored session, T take-over, B the stricter count (retransmitted PUBRELs counted) would exceed,
     Q message in PUBREL state inside the window, K skipped ack, X more than 100 due at a resume.
   Not decided: the properties of the first transmission (C01/C12), ordering of first transmissions, anything
   when the scenario leaves the family (the verdict is then `true` with class oof_<reason>). *)
open Conv

exception Oof of string                 (* outside the family: never guess *)
exception Viol of string * string       (* known finding or "-", explanation *)

type est = Pub | Rel
type entry = {
  pid : int; qos : int; topic : string; payload : string;
  ident : string;                       (* content of the first transmission without DUP and subscription ids *)
  core : string;                        (* the same without properties (a v3/v4 connection cannot carry them) *)
  first_v5 : bool;                      (* first sent on a v5 connection *)
  mutable st : est;
  mutable on_conn : bool;               (* a PUBLISH packet for it went out on the current connection *)
  mutable trans : bool;                 (* PUBLISH or PUBREL went out on the current connection *)
  mutable ntrans : int;
}
type pend = { p_topic : string; p_payload : string; p_qos : int; p_due : int }
type sub = { f : Model.n list; sq : int; nl : bool }
type sess = {
  cid : string;
  mutable exists : bool;                (* the broker holds session state for this client id *)
  mutable persist : bool;               (* ... which outlives the current connection *)
  mutable outstanding : entry list;     (* awaiting PUBACK/PUBCOMP, in order of first transmission *)
  mutable pending : pend list;          (* queued, never sent *)
  mutable subs : sub list;
  mutable cur : int option;
  mutable max_limit : int;              (* largest window of the earlier connections of this session *)
}
type sock = {
  label : int; s_cid : string; ver : int; limit : int; prev_max : int;
  mutable alive : bool; mutable disc : bool;
  mutable replay : entry list;          (* retransmissions still due on this connection *)
  resumed : bool;
}

(* clause counters of the last case (printed through class=) *)
let last_cls = ref ""
type cnt = { mutable c_dup1 : int; mutable c_rel : int; mutable c_order : bool; mutable c_newafter : bool; mutable c_dup0 : int;
             mutable c_ids2 : bool; mutable c_full : bool; mutable c_held : bool; mutable c_multi : bool; mutable c_err : bool;
             mutable c_acked : int; mutable c_resume : int; mutable c_clean : bool; mutable c_skipped : int; mutable c_bwin : bool;
             mutable c_takeover : bool; mutable c_relinwin : bool; mutable c_big : bool }

let a = function Sexp.A s -> s | Sexp.L _ -> raise (Oof "atom")
let int_a x = try int_of_string (a x) with Failure _ -> raise (Oof "int")
let is_prefix p s = String.length s >= String.length p && String.sub s 0 (String.length p) = p
let str_of_atom x = (* xHEX -> raw string *)
  let l = try bytes_of_atom x with _ -> raise (Oof "bytes") in
  String.init (List.length l) (fun i -> Char.chr (int_of_n (List.nth l i)))
let show_atom x = let s = try str_of_atom x with _ -> x in
  if String.length s > 0 && String.for_all (fun c -> Char.code c > 32 && Char.code c < 127) s then s else x

let props_of = function Sexp.L (Sexp.A "props" :: ps) -> ps | _ -> raise (Oof "props")
let pname = S_wire.prop_name

let oracle : S_wire.oracle_fn = fun cfg hooks steps obs raw ->
  let k = { c_dup1 = 0; c_rel = 0; c_order = false; c_newafter = false; c_dup0 = 0; c_ids2 = false; c_full = false; c_held = false;
            c_multi = false; c_err = false; c_acked = 0; c_resume = 0; c_clean = false; c_skipped = 0; c_bwin = false; c_takeover = false;
            c_relinwin = false; c_big = false } in
  let b x = if x then "1" else "0" in
  let set_cls tag =
    last_cls := Printf.sprintf "%s,R%s,L%s,O%s,N%s,D%s,I%s,F%s,H%s,M%s,E%s,A%s,S%s,C%s,T%s,B%s,Q%s,K%s,X%s" tag
        (b (k.c_dup1 > 0)) (b (k.c_rel > 0)) (b k.c_order) (b k.c_newafter) (b (k.c_dup0 > 0)) (b k.c_ids2) (b k.c_full) (b k.c_held)
        (b k.c_multi) (b k.c_err) (b (k.c_acked > 0)) (b (k.c_resume > 0)) (b k.c_clean) (b k.c_takeover) (b k.c_bwin) (b k.c_relinwin)
        (b (k.c_skipped > 0)) (b k.c_big) in
  let step_no = ref 0 in
  try
    if hooks <> Model.no_hooks then raise (Oof "hooks");
    let max_inflight = int_of_n cfg.Model.c_max_inflight in
    let chk_n v lo what = if int_of_n v < lo then raise (Oof ("cfg_" ^ what)) in
    if max_inflight < 1 then raise (Oof "cfg_max_inflight");
    if int_of_nat cfg.Model.c_max_queued < 200 then raise (Oof "cfg_max_queued");
    chk_n cfg.Model.c_session_expiry 3600 "session_expiry";
    if int_of_n cfg.Model.c_message_expiry <> 0 then chk_n cfg.Model.c_message_expiry 3600 "message_expiry";
    chk_n cfg.Model.c_max_qos 2 "max_qos"; chk_n cfg.Model.c_max_packet 100000 "max_packet";
    let nsteps = List.length steps in
    if nsteps > 1000 then raise (Oof "too_long");
    let steps_a = Array.of_list steps in
    let sessions : (string, sess) Hashtbl.t = Hashtbl.create 8 in
    let socks : (int, sock) Hashtbl.t = Hashtbl.create 8 in
    let advanced = ref 0 in
    let viol ?(kf = "-") clause fmt = Printf.ksprintf (fun s -> raise (Viol (kf, Printf.sprintf "step %d: clause %s: %s" !step_no clause s))) fmt in
    let sess_of cid = match Hashtbl.find_opt sessions cid with
      | Some s -> s
      | None -> let s = { cid; exists = false; persist = false; outstanding = []; pending = []; subs = []; cur = None; max_limit = 0 } in
        Hashtbl.replace sessions cid s; s in
    let n_on_conn se = List.length (List.filter (fun e -> e.on_conn) se.outstanding) in
    let n_trans se = List.length (List.filter (fun e -> e.trans) se.outstanding) in
    (* the network connection of a session ended *)
    let cut (sk : sock) =
      if sk.alive then begin
        sk.alive <- false;
        let se = sess_of sk.s_cid in
        if se.cur = Some sk.label then begin
          se.cur <- None;
          if not se.persist then begin se.exists <- false; se.outstanding <- []; se.pending <- []; se.subs <- [] end
        end
      end in
    let ident_of qos ret topic payload ps =
      Sexp.to_string (Sexp.L ([Sexp.A qos; Sexp.A ret; Sexp.A topic; Sexp.A payload] @ List.filter (fun p -> pname p <> "subid") ps)) in
    (* one packet received by the client on socket sk *)
    let on_rx (sk : sock) (se : sess) (pkt : Sexp.t) =
      match pkt with
      | Sexp.L [Sexp.A "publish"; Sexp.A dup; Sexp.A qos_s; Sexp.A ret; Sexp.A topic; Sexp.A payload; Sexp.A pid_s; Sexp.L (Sexp.A "props" :: ps)] ->
        let dup = dup <> "0" and qos = int_of_string qos_s and pid = int_of_string pid_s in
        let what = Printf.sprintf "PUBLISH(dup=%b,qos=%d,%s,%s,id=%d) on socket %d" dup qos (show_atom topic) (show_atom payload) pid sk.label in
        let ident = ident_of qos_s ret topic payload ps and core = ident_of qos_s ret topic payload [] in
        if qos = 0 then begin
          if dup then viol "dup0" "%s: QoS 0 with DUP=1" what;
          (match sk.replay with
           | e :: _ -> viol "replay" "%s is a new message, but the retransmission of id %d (%s) is still due" what e.pid (show_atom e.payload)
           | [] -> ())
        end else if dup then begin
          (match sk.replay with
           | e :: rest when e.st = Pub && e.pid = pid && (if sk.ver = 5 && e.first_v5 then e.ident = ident else e.core = core) ->
             sk.replay <- rest; e.on_conn <- true; e.trans <- true; e.ntrans <- e.ntrans + 1;
             k.c_dup1 <- k.c_dup1 + 1; if e.ntrans >= 3 then k.c_multi <- true;
             let n = n_on_conn se in
             if n = sk.limit then k.c_full <- true;
             if n > sk.limit then begin
               let npub = List.length (List.filter (fun e -> e.st = Pub) se.outstanding) in
               let kf = if sk.limit < sk.prev_max && npub <= sk.prev_max then "kf_replay_exceeds_smaller_recvmax" else "-" in
               viol ~kf "window" "%s is retransmission number %d on a connection whose window is %d (largest earlier window of the session %d)" what n sk.limit sk.prev_max
             end
           | e :: _ ->
             viol "replay" "%s: DUP=1 but the next retransmission due is %s id %d (%s)" what (if e.st = Pub then "PUBLISH" else "PUBREL") e.pid (show_atom e.payload)
           | [] ->
             (match List.find_opt (fun e -> e.pid = pid) se.outstanding with
              | Some _ -> viol "replay" "%s: DUP=1 although no retransmission is due (already retransmitted on this connection, or sent on it first)" what
              | None -> viol "replay" "%s: DUP=1 for an identifier that is not awaiting an acknowledgement (never sent or already acknowledged)" what))
        end else begin
          (match sk.replay with
           | e :: _ -> viol "replay" "%s is a new message (DUP=0), but the retransmission of id %d (%s) is still due" what e.pid (show_atom e.payload)
           | [] -> ());
          if pid = 0 then viol "ids" "%s: packet identifier 0" what;
          (match List.find_opt (fun e -> e.pid = pid) se.outstanding with
           | Some e ->
             viol "ids" "%s: identifier %d is still awaiting %s for %s (%s)" what pid (if e.st = Rel then "PUBCOMP" else "PUBACK/PUBREC") (show_atom e.payload)
               (if e.st = Rel && not e.on_conn then "its PUBREL was retransmitted on this connection" else "sent on this connection")
           | None -> ());
          let rec take acc = function
            | [] -> None
            | p :: r when p.p_topic = topic && p.p_payload = payload && p.p_qos = qos -> Some (List.rev_append acc r)
            | p :: r -> take (p :: acc) r in
          (match take [] se.pending with
           | Some rest -> se.pending <- rest
           | None ->
             (match List.find_opt (fun e -> e.topic = topic && e.payload = payload && e.qos = qos) se.outstanding with
              | Some e -> viol "dup0" "%s: DUP=0 and a new identifier, but this message was already sent as id %d and is unacknowledged" what e.pid
              | None -> viol "dup0" "%s: no such message is queued for the session (already delivered and acknowledged, or never published)" what));
          k.c_dup0 <- k.c_dup0 + 1;
          if sk.resumed && List.exists (fun e -> e.trans && e.ntrans >= 2 || (e.st = Rel && e.trans && not e.on_conn)) se.outstanding then k.c_newafter <- true;
          if se.outstanding <> [] then k.c_ids2 <- true;
          let n = n_on_conn se + 1 in
          if n = sk.limit then k.c_full <- true;
          if n_trans se + 1 > sk.limit then k.c_bwin <- true;
          if List.exists (fun e -> e.on_conn && e.st = Rel) se.outstanding then k.c_relinwin <- true;
          if n > sk.limit then viol "window" "%s is unacknowledged PUBLISH number %d on a connection whose window is %d" what n sk.limit;
          se.outstanding <- se.outstanding @ [{ pid; qos; topic; payload; ident; core; first_v5 = (sk.ver = 5); st = Pub; on_conn = true; trans = true; ntrans = 1 }]
        end
      | Sexp.L [Sexp.A "pubrel"; Sexp.A pid_s; _; _] ->
        let pid = int_of_string pid_s in
        (match sk.replay with
         | e :: rest when e.st = Rel && e.pid = pid -> sk.replay <- rest; e.trans <- true; e.ntrans <- e.ntrans + 1; k.c_rel <- k.c_rel + 1
         | _ ->
           (match List.find_opt (fun e -> e.pid = pid) se.outstanding with
            | Some e when e.st = Rel && e.trans -> ()     (* the answer to a PUBREC of this connection *)
            | Some e when e.st = Rel -> viol "replay" "PUBREL id %d on socket %d retransmitted out of order (due first: id %d)" pid sk.label (match sk.replay with e :: _ -> e.pid | [] -> 0)
            | Some _ -> viol "pubrel" "PUBREL id %d on socket %d, but no PUBREC was sent for that message" pid sk.label
            | None -> viol "pubrel" "PUBREL id %d on socket %d: no message with that identifier awaits PUBCOMP" pid sk.label))
      | _ -> () in
    let raw_a = Array.of_list raw and obs_a = Array.of_list obs in
    let n = min nsteps (min (Array.length raw_a) (Array.length obs_a)) in
    let entries i = match raw_a.(i) with Sexp.L (Sexp.A "s" :: es) -> es | _ -> [] in
    let queue_for ~from_cid topic_atom payload qos due =
      let topic = try bytes_of_atom topic_atom with _ -> raise (Oof "topic") in
      let ts = str_of_atom topic_atom in
      if ts = "" || String.contains ts '+' || String.contains ts '#' || ts.[0] = '$' then raise (Oof "topic_name");
      Hashtbl.iter (fun _ se ->
          if se.exists then begin
            let ms = List.filter (fun s -> Model.topic_match topic s.f && not (s.nl && from_cid = Some se.cid)) se.subs in
            let add q = if q > 0 then se.pending <- se.pending @ [{ p_topic = topic_atom; p_payload = payload; p_qos = q; p_due = due }] in
            if cfg.Model.c_onlyonce then (if ms <> [] then add (min qos (List.fold_left (fun m s -> max m s.sq) 0 ms)))
            else List.iter (fun s -> add (min qos s.sq)) ms
          end) sessions in
    for i = 0 to n - 1 do
      step_no := i;
      let es = entries i in
      if List.exists (fun e -> match e with Sexp.L [Sexp.A ("hang" | "aborted")] -> true | Sexp.L (Sexp.A "harness_panic" :: _) -> true | _ -> false) es then raise (Oof "hang");
      let ob = obs_a.(i) in
      let pk_of c = match List.find_opt (fun (c', _, _) -> c' = c) ob with Some (_, p, _) -> p | None -> [] in
      (* a socket on which DISCONNECT was sent must be closed in the next step *)
      Hashtbl.iter (fun _ sk -> if sk.alive && sk.disc then
                       (match steps_a.(i) with Sexp.L [Sexp.A "close"; c] when int_a c = sk.label -> () | _ -> raise (Oof "after_disconnect"))) socks;
      (match steps_a.(i) with
       | Sexp.L (Sexp.A "connect" :: c :: ver :: rest) ->
         let c = int_a c and ver = int_a ver and x = Sexp.L rest in
         if ver < 3 || ver > 5 then raise (Oof "version");
         let cid = a (Sexp.field1 "cid" x) and clean = a (Sexp.field1 "clean" x) <> "0" in
         if cid = "x" then raise (Oof "empty_cid");
         (match Sexp.field_opt "keepalive" x with Some [Sexp.A "0"] -> () | _ -> raise (Oof "keepalive"));
         List.iter (fun f -> if Sexp.field_opt f x <> None then raise (Oof ("connect_" ^ f))) ["will"; "user"; "pass"; "connflags"];
         let ps = Sexp.field "props" x in
         List.iter (fun p -> if not (List.mem (pname p) ["sei"; "recvmax"]) then raise (Oof ("connect_prop_" ^ pname p))) ps;
         let prop nm = List.find_map (fun p -> match p with Sexp.L [Sexp.A n'; v] when n' = nm -> Some (int_a v) | _ -> None) ps in
         if ver < 5 && ps <> [] then raise (Oof "v3_props");
         (match Hashtbl.find_opt socks c with Some sk -> cut sk | None -> ());
         let se = sess_of cid in
         (match se.cur with Some l -> k.c_takeover <- true; cut (Hashtbl.find socks l) | None -> ());
         let resumed = se.exists && not clean in
         if se.exists && clean then k.c_clean <- true;
         if not resumed then begin se.outstanding <- []; se.pending <- []; se.subs <- []; se.max_limit <- 0 end;
         let sei = match prop "sei" with Some v -> v | None -> 0 in
         if ver = 5 && sei > 0 && sei < 3600 then raise (Oof "short_sei");
         se.persist <- (if ver = 5 then sei > 0 else not clean);
         let limit = match (if ver = 5 then prop "recvmax" else None) with
           | Some 0 -> raise (Oof "recvmax0") | Some r -> min r max_inflight | None -> max_inflight in
         (match pk_of c with
          | Sexp.L [Sexp.A "connack"; Sexp.A sp; Sexp.A "0"; _] :: _ when (sp <> "0") = resumed -> ()
          | _ -> raise (Oof "connack"));
         List.iter (fun e -> e.on_conn <- false; e.trans <- false) se.outstanding;
         let sk = { label = c; s_cid = cid; ver; limit; prev_max = se.max_limit; alive = true; disc = false; replay = se.outstanding; resumed } in
         if resumed then begin
           k.c_resume <- k.c_resume + 1;
           if List.length se.outstanding >= 2 then k.c_order <- true;
           if List.length se.outstanding > 100 then k.c_big <- true end;
         se.max_limit <- max se.max_limit limit;
         Hashtbl.replace socks c sk; se.cur <- Some c; se.exists <- true
       | Sexp.L [Sexp.A "close"; c] ->
         (match Hashtbl.find_opt socks (int_a c) with Some sk -> cut sk | None -> ())
       | Sexp.L [Sexp.A "advance"; ms] ->
         advanced := !advanced + int_a ms; if !advanced > 1800_000 then raise (Oof "advance")
       | Sexp.L [Sexp.A ("expire_check" | "inspect")] -> ()
       | Sexp.L [Sexp.A "api_publish"; Sexp.L [Sexp.A "m"; _; qos; ret; topic; payload; _; _; _; expiry; _; _; _; _]] ->
         if a ret <> "0" || a expiry <> "0" then raise (Oof "api_msg");
         queue_for ~from_cid:None (a topic) (a payload) (int_a qos) i
       | Sexp.L [Sexp.A "send"; c; p0] ->
         let c = int_a c in
         let sk = match Hashtbl.find_opt socks c with Some sk when sk.alive -> sk | _ -> raise (Oof "send_on_dead_socket") in
         let se = sess_of sk.s_cid in
         if List.exists (fun e -> e = Sexp.L [Sexp.A "skipped"]) es then k.c_skipped <- k.c_skipped + 1
         else begin
           let p = match List.find_map (fun e -> match e with Sexp.L (Sexp.A "sent" :: _ :: p :: _) -> Some p | _ -> None) es with
             | Some p -> p | None -> raise (Oof "no_sent_entry") in
           ignore p0;
           (match p with
            | Sexp.L (Sexp.A "subscribe" :: pid :: _ :: ts) ->
              let codes = match List.find_map (fun x -> match x with
                  | Sexp.L [Sexp.A "suback"; pid'; Sexp.L (Sexp.A "codes" :: cs); _] when pid' = pid -> Some (List.map int_a cs) | _ -> None) (pk_of c) with
              | Some cs when List.length cs = List.length ts -> cs | _ -> raise (Oof "suback") in
              List.iter2 (fun t code -> match t with
                  | Sexp.L [Sexp.A "t"; f; _; nl; _; _] ->
                    if code > 2 then raise (Oof "sub_refused");
                    if is_prefix "$share/" (str_of_atom (a f)) then raise (Oof "shared");
                    let fb = bytes_of_atom (a f) in
                    se.subs <- List.filter (fun s -> s.f <> fb) se.subs @ [{ f = fb; sq = code; nl = a nl <> "0" }]
                  | _ -> raise (Oof "sub_topic")) ts codes
            | Sexp.L [Sexp.A "publish"; dup; qos; ret; topic; payload; pid; props] ->
              if a dup <> "0" || a ret <> "0" then raise (Oof "publish_flags");
              List.iter (fun p -> if not (List.mem (pname p) ["pfmt"; "ctype"; "resp"; "corr"; "user"]) then raise (Oof ("publish_prop_" ^ pname p))) (props_of props);
              let qos = int_a qos in
              let due = if qos < 2 then i else begin
                  let d = ref max_int in
                  for j = n - 1 downto i + 1 do
                    (match steps_a.(j) with
                     | Sexp.L [Sexp.A "send"; c'; Sexp.L (Sexp.A "pubrel" :: pid' :: _)] when int_a c' = c && pid' = pid -> d := j
                     | Sexp.L [Sexp.A "send"; c'; Sexp.L (Sexp.A "publish" :: _ :: _ :: _ :: _ :: _ :: pid' :: _)] when int_a c' = c && pid' = pid -> raise (Oof "publisher_reuses_id")
                     | _ -> ())
                  done; !d end in
              (match List.find_opt (fun x -> match x with Sexp.L (Sexp.A ("puback" | "pubrec") :: pid' :: code :: _) -> pid' = pid && int_a code >= 128 | _ -> false) (pk_of c) with
               | Some _ -> raise (Oof "publish_refused") | None -> ());
              queue_for ~from_cid:(Some sk.s_cid) (a topic) (a payload) qos due
            | Sexp.L [Sexp.A kind; pid; code; _] when kind = "puback" || kind = "pubrec" || kind = "pubcomp" ->
              let pid = int_a pid and code = if sk.ver = 5 then int_a code else 0 in
              (match List.find_opt (fun e -> e.pid = pid) se.outstanding with
               | None -> raise (Oof "ack_of_nothing")
               | Some e ->
                 if not e.trans then raise (Oof "ack_before_retransmission");
                 let complete () = se.outstanding <- List.filter (fun e' -> e' != e) se.outstanding; k.c_acked <- k.c_acked + 1; if code >= 128 then k.c_err <- true in
                 (match kind, e.qos, e.st with
                  | "puback", 1, Pub -> complete ()
                  | "pubrec", 2, Pub -> if code >= 128 then complete () else e.st <- Rel
                  | "pubrec", 2, Rel -> raise (Oof "duplicate_pubrec")
                  | "pubcomp", 2, Rel -> complete ()
                  | _ -> raise (Oof "wrong_kind_of_ack")))
            | Sexp.L [Sexp.A "pubrel"; _; _; _] -> ()       (* the publisher completes its own QoS 2 flow *)
            | Sexp.L [Sexp.A "pingreq"] -> ()
            | Sexp.L [Sexp.A "disconnect"; code; Sexp.L [Sexp.A "props"]] when a code = "0" -> sk.disc <- true
            | _ -> raise (Oof "packet"))
         end
       | _ -> raise (Oof "step"));
      (* what the clients received in this step *)
      List.iter (fun (c, pk, _) ->
          match Hashtbl.find_opt socks c with
          | Some sk when sk.alive ->
            let se = sess_of sk.s_cid in
            if se.cur = Some c then List.iter (on_rx sk se) pk
          | _ ->
            if List.exists (fun p -> S_wire.is_flow p) pk then viol "replay" "PUBLISH/PUBREL on socket %d, which is not the session's current connection" c) ob;
      (* quiescent: nothing may be held back while the window has room *)
      Hashtbl.iter (fun _ se ->
          match se.cur with
          | Some c ->
            let sk = Hashtbl.find socks c in
            if sk.alive && not sk.disc then begin
              let nw = n_trans se in       (* occupancy: PUBLISH packets and retransmitted PUBRELs not yet completed *)
              (match sk.replay with
               | e :: _ when e.st = Rel -> viol "replay" "socket %d: PUBREL id %d (%s) was not retransmitted" c e.pid (show_atom e.payload)
               | e :: _ when nw < sk.limit -> viol "replay" "socket %d: id %d (%s) was not retransmitted although the window has room (%d of %d)" c e.pid (show_atom e.payload) nw sk.limit
               | _ :: _ -> ()
               | [] ->
                 let due = List.filter (fun p -> p.p_due <= i) se.pending in
                 if due <> [] then begin
                   if nw < sk.limit then
                     (let p = List.hd due in viol "delivery" "socket %d: queued message %s (qos %d) not sent although the window has room (%d of %d)" c (show_atom p.p_payload) p.p_qos nw sk.limit)
                   else k.c_held <- true
                 end)
            end
          | None -> ()) sessions
    done;
    set_cls "in";
    (true, "-", "")
  with
  | Oof w -> set_cls ("oof_" ^ w); (true, "-", "")
  | Viol (kf, why) -> set_cls (if kf = "-" then "fail" else kf); (false, kf, why)
  | Sexp.Parse_error w -> set_cls "oof_parse"; (true, "-", "")

let run input impl =
  last_cls := "unsupported";
  let v = S_wire.run_with oracle input impl in
  { v with Verdict.cls = !last_cls }
