(* suite cfgv of property C13: config.MQTT.Validate against the regenerated guard list (Model/ConfigV.v) *)
open Model
open Conv

let z_of_string (s : string) : Model.z =
  let neg = String.length s > 0 && s.[0] = '-' in
  let digits = if neg then String.sub s 1 (String.length s - 1) else s in
  (* values fit an OCaml int (at most 2^40 here) *)
  let n = int_of_string digits in
  if n = 0 then Z0 else if neg then Zneg (pos_of_int n) else Zpos (pos_of_int n)

let run_cfgv (input : Sexp.t) (impl : Sexp.t) : Verdict.t =
  let zf k = z_of_string (Sexp.atom (Sexp.field1 k input)) in
  let c = { v_max_qos = zf "qos"; v_max_queued = zf "queued"; v_recv_max = zf "recv"; v_max_packet = zf "packet";
            v_max_inflight = zf "inflight"; v_mode = bytes_of_sx (Sexp.field1 "mode" input) } in
  let iok = bool_of_sx (Sexp.field1 "ok" impl) in
  let m = mqtt_validate (env_of c) in
  let agree = (match m with VOk -> iok | VReject _ -> not iok | VStuck -> false) in
  (* the oracle is the documented meaning of the fields (accepted_b), on the implementation's verdict *)
  let oracle = (accepted_b c = iok) in
  let cls = match m with VOk -> "accepted" | VReject i -> Printf.sprintf "rejected_by_guard_%d" (int_of_nat i) | VStuck -> "stuck" in
  { Verdict.agree; oracle; kf = "-"; nontrivial = true; cls;
    model = Sexp.L [Sexp.A cls]; why = if oracle then "" else "Validate accepts a configuration it should reject, or rejects one it should accept" }
