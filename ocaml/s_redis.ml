(* suites on the redis persistence backend: rsub, runack, rqueue, crash *)
open Model
open Conv
open Msgconv

let fx = code_fixes

(* ---- stored values and journalled commands ---- *)
let blob_of_sx x = match x with
  | Sexp.A _ -> BRaw (bytes_of_sx x)
  | Sexp.L (Sexp.A "s" :: _) -> BSub (S_sub.sub_of_sx x)
  | Sexp.L (Sexp.A "e" :: _) -> BElem (S_queue.elem_of_sx x)
  | _ -> failwith "blob"

let sx_elem e =
  Sexp.L [Sexp.A "e"; sx_n e.e_tag; sx_n e.e_at; (match e.e_expiry with None -> Sexp.A "none" | Some x -> sx_n x);
          (match e.e_body with QPub m -> Sexp.L [Sexp.A "pub"; sx_msg m] | QRel p -> Sexp.L [Sexp.A "rel"; sx_n p])]

let sx_blob = function
  | BRaw b -> sx_bytes b
  | BSub s -> S_sub.sx_sub s
  | BElem e -> sx_elem e

let z_of_int = S_queue.z_of_int
let int_of_z = S_queue.int_of_z

let cmd_of_sx x = match Sexp.list x with
  | Sexp.A "hset" :: k :: fvs ->
    CHSet (bytes_of_sx k, List.map (fun fv -> match Sexp.list fv with [f; v] -> (bytes_of_sx f, blob_of_sx v) | _ -> failwith "fv") fvs)
  | Sexp.A "hdel" :: k :: fs -> CHDel (bytes_of_sx k, List.map bytes_of_sx fs)
  | [Sexp.A "del"; k] -> CDel (bytes_of_sx k)
  | [Sexp.A "rpush"; k; v] -> CRPush (bytes_of_sx k, blob_of_sx v)
  | [Sexp.A "lrem"; k; Sexp.A "1"; v] -> CLRem (bytes_of_sx k, blob_of_sx v)
  | [Sexp.A "lset"; k; i; v] -> CLSet (bytes_of_sx k, z_of_int (int_of_sx i), blob_of_sx v)
  | _ -> failwith ("journal entry outside the modelled command set: " ^ Sexp.to_string x)

let sx_cmd = function
  | CHSet (k, fvs) -> Sexp.L (Sexp.A "hset" :: sx_bytes k :: List.map (fun (f, v) -> Sexp.L [sx_bytes f; sx_blob v]) fvs)
  | CHDel (k, fs) -> Sexp.L (Sexp.A "hdel" :: sx_bytes k :: List.map sx_bytes fs)
  | CDel k -> Sexp.L [Sexp.A "del"; sx_bytes k]
  | CRPush (k, v) -> Sexp.L [Sexp.A "rpush"; sx_bytes k; sx_blob v]
  | CLRem (k, v) -> Sexp.L [Sexp.A "lrem"; sx_bytes k; Sexp.A "1"; sx_blob v]
  | CLSet (k, i, v) -> Sexp.L [Sexp.A "lset"; sx_bytes k; sx_int (int_of_z i); sx_blob v]

(* stored times have whole seconds of the wall clock and the in-flight expiry is taken from
   the wall clock: times agree up to 2 s *)
let near a b = abs (int_of_n a - int_of_n b) <= 2000
let near_opt a b = match a, b with None, None -> true | Some x, Some y -> near x y | _ -> false
let elem_near a b = near a.e_at b.e_at && near_opt a.e_expiry b.e_expiry && a.e_body = b.e_body
let blob_near a b = match a, b with BElem x, BElem y -> elem_near x y | _ -> a = b
let cmd_near a b = match a, b with
  | CRPush (k, v), CRPush (k', v') | CLRem (k, v), CLRem (k', v') -> k = k' && blob_near v v'
  | CLSet (k, i, v), CLSet (k', i', v') -> k = k' && i = i' && blob_near v v'
  | _ -> a = b
let cmds_near a b = List.length a = List.length b && List.for_all2 cmd_near a b

(* ---- rsub ---- *)
let sop_of_sx x = match Sexp.list x with
  | [Sexp.A "sub"; c; s] -> SSub (bytes_of_sx c, [S_sub.sub_of_sx s])
  | Sexp.A "subm" :: c :: ss -> SSub (bytes_of_sx c, List.map S_sub.sub_of_sx ss)
  | Sexp.A "unsub" :: c :: ts -> SUnsub (bytes_of_sx c, List.map bytes_of_sx ts)
  | [Sexp.A "unsuball"; c] -> SUnsubAll (bytes_of_sx c)
  | _ -> failwith "sop"

(* C09O.canonical_names (mirrored here until it is a root of extract/Extract.v): the names the
   broker hands to the store - (share name, filter) and the full topic name determine each other *)
let canonical_op = function
  | OSub (_, s) -> let (g, f) = split_topic (full_topic s) in g = s.s_share && f = s.s_filter
  | OUnsub (_, t) -> let (g, f) = split_topic t in
    t = (if is_empty g then f else sHARE_SLASH @ g @ [sLASH] @ f)
  | OUnsubAll _ -> true

let run_rsub (input : Sexp.t) (impl : Sexp.t) : Verdict.t =
  let live = S_sub.run `C02 input (Sexp.L (List.map (fun k -> Sexp.L (Sexp.A k :: Sexp.field k (Sexp.L (Sexp.field "live" impl))))
                                               ["already"; "results"; "gstats"; "cstats"])) in
  let ops = List.map sop_of_sx (Sexp.field "ops" input) in
  let flat = sops_flat ops in
  let qs = List.map S_sub.q_of_sx (Sexp.field "queries" input) in
  let ijournal = List.map cmd_of_sx (Sexp.field "journal" impl) in
  let mjournal = sops_cmds fx ops in
  let rel = Sexp.L (Sexp.field "reload" impl) in
  let ids = List.map bytes_of_sx (Sexp.field "ids" rel) in
  let ierr = bool_of_sx (Sexp.field1 "err" rel) in
  let ires = List.map S_sub.ires_of_sx (Sexp.field "results" rel) in
  let icur = int_of_sx (Sexp.field1 "cur" rel) in
  let mreload = reload_ops fx ops ids in
  let (merr, mres, mcur) = match mreload with
    | None -> (true, [], 0)
    | Some l -> let d = db_run l in (false, List.map (fun q -> db_iterate q d) qs, int_of_n d.gstats.st_cur) in
  let agree_reload =
    merr = ierr && (merr || (List.length ires = List.length mres && List.for_all2 ires_eqb mres ires && icur = mcur)) in
  let agree = live.Verdict.agree && ijournal = mjournal && agree_reload in
  let sp = spec_run flat in
  let wf = wf_ops flat in
  let reload_ok =
    (not ierr) && List.length ires = List.length qs &&
    List.for_all2 (fun q r -> c02_query_ok sp q r) qs ires && icur = List.length sp in
  let canonical = List.for_all canonical_op flat in
  let oracle = live.Verdict.oracle && ((not wf) || (not canonical) || reload_ok) in
  let kf = "-" in
  let nonempty = List.exists (fun r -> match r with IOk (_ :: _) -> true | _ -> false) ires in
  let nun = List.length (List.filter (fun o -> match o with SUnsub _ | SUnsubAll _ -> true | _ -> false) ops) in
  { Verdict.agree; oracle; kf;
    nontrivial = List.length ops >= 3 && nonempty;
    cls = Printf.sprintf "ops%s_unsub%s_%s_%s%s" (if List.length ops < 10 then "lt10" else "ge10") (if nun = 0 then "0" else "some")
        (if List.exists (fun c -> trim_left c <> c) ids then "trimid" else "plainid") (if nonempty then "hit" else "nohit")
        (if canonical then "" else "_noncanonical");
    model = Sexp.L [Sexp.L (Sexp.A "journal" :: List.map sx_cmd mjournal);
                    Sexp.L (Sexp.A "reload" :: sx_bool merr :: sx_int mcur :: List.map S_sub.sx_ires mres)];
    why = (if oracle then "" else if not live.Verdict.oracle then "live_store" else if ierr then "reload_failed" else "reloaded_store_differs_from_spec") }

(* ---- runack ---- *)
let ruop_of_sx x = match Sexp.list x with
  | [Sexp.A "init"; c] -> RUInit (bool_of_sx c)
  | [Sexp.A "set"; i] -> RUSet (n_of_sx i)
  | [Sexp.A "remove"; i] -> RURemove (n_of_sx i)
  | [Sexp.A "restart"] -> RURestart
  | _ -> failwith "ruop"

let run_runack (input : Sexp.t) (impl : Sexp.t) : Verdict.t =
  let ops = List.map ruop_of_sx (Sexp.field "ops" input) in
  let iouts = List.map (fun x -> match x with Sexp.A "none" -> None | b -> Some (bool_of_sx b)) (Sexp.field "outs" impl) in
  let ijournal = List.map cmd_of_sx (Sexp.field "journal" impl) in
  let (mouts, mjournal) = ru_run fx [n_of_int 99] [] [] ops in
  let dup = List.exists (fun x -> x = Some true) iouts in
  let restarts = List.exists (fun o -> o = RURestart) ops in
  { Verdict.agree = (mouts = iouts) && ijournal = mjournal; oracle = runack_ok ops iouts;
    kf = "-"; nontrivial = dup || restarts;
    cls = (if dup then "dup" else "nodup") ^ (if restarts then "_restart" else "_norestart");
    model = Sexp.L [Sexp.L (List.map (fun x -> match x with None -> Sexp.A "none" | Some b -> sx_bool b) mouts);
                    Sexp.L (Sexp.A "journal" :: List.map sx_cmd mjournal)];
    why = (if runack_ok ops iouts then "" else "stored_id_not_reported_as_duplicate") }

(* ---- rqueue ---- *)
let rqop_of_sx x = match Sexp.list x with
  | [Sexp.A "restart"] -> Some ORestart
  | _ -> (match S_queue.op_of_sx x with Some o -> Some (ROp o) | None -> None)

let run_rqueue (input : Sexp.t) (impl : Sexp.t) : Verdict.t =
  let max = nat_of_sx (Sexp.field1 "max" input) in
  let ifexp = n_of_sx (Sexp.field1 "ifexp" input) in
  let raw = Sexp.field "ops" input in
  let iouts_raw = Sexp.field "outs" impl in
  let rec zip ops outs = match ops, outs with
    | o :: ops', x :: outs' -> (match rqop_of_sx o with None -> zip ops' outs' | Some op -> (op, Some x) :: zip ops' outs')
    | o :: ops', [] -> (match rqop_of_sx o with None -> zip ops' [] | Some op -> (op, None) :: zip ops' [])
    | [], _ -> [] in
  let z = zip raw iouts_raw in
  let ops = List.map fst z in
  let isx = List.filter_map snd z in
  let iouts = List.map S_queue.oout_of_sx isx in
  let ijournal = List.map cmd_of_sx (Sexp.field "journal" impl) in
  let (mouts_full, mjournal) = rq_model max ifexp ops in
  let mouts = List.map oout_of mouts_full in
  let exps_near a b =
    List.length a = List.length b &&
    List.for_all2 (fun x y -> List.length x = List.length y &&
                              List.for_all2 (fun p q -> p = q || (p <> "none" && q <> "none" && abs (int_of_string p - int_of_string q) <= 2)) x y) a b in
  let agree_outs = (mouts = iouts) && exps_near (List.map S_queue.model_exps mouts_full) (List.map S_queue.impl_exps isx) in
  let agree_journal = cmds_near mjournal ijournal in
  let agree = agree_outs && agree_journal in
  let oracle = c10r_ok max ifexp ops iouts in
  let drops = List.length (List.filter (fun x -> match x with XAdd (OvDropped _ :: _) | XAdd (OvInflight _ :: _) -> true | _ -> false) iouts) in
  let reads = List.length (List.filter (fun x -> match x with XRead (_ :: _, _) -> true | _ -> false) iouts) in
  let replays = List.length (List.filter (fun x -> match x with XReadInflight (_ :: _) -> true | _ -> false) iouts) in
  let panics = List.exists (fun x -> x = XPanic) iouts in
  let restarts = List.exists (fun o -> o = ORestart) ops in
  let kf = match rq_class max ifexp ops with
    | RQNone -> "-"
    | RQOther -> "unclassified" in
  { Verdict.agree; oracle; kf;
    nontrivial = reads > 0 && (drops > 0 || replays > 0);
    cls = Printf.sprintf "max%d_drops%s_reads%s_replay%s%s%s%s" (int_of_nat max) (if drops = 0 then "0" else "some")
        (if reads = 0 then "0" else "some") (if replays = 0 then "0" else "some") (if restarts then "_restart" else "")
        (if panics then "_panic" else "") (if agree_outs && not agree_journal then "_journaldiff" else "");
    model = Sexp.L [Sexp.L (List.map S_queue.sx_oout mouts); Sexp.L (Sexp.A "journal" :: List.map sx_cmd mjournal)];
    why = (if oracle then "" else kf) }

(* ---- crash ---- *)
let rxpkt_of_sx x = match Sexp.list x with
  | [Sexp.A "connack"; sp; code] -> XConnack (bool_of_sx sp, n_of_sx code)
  | Sexp.A "suback" :: pid :: codes -> XSuback (n_of_sx pid, List.map n_of_sx codes)
  | [Sexp.A "unsuback"; pid] -> XUnsuback (n_of_sx pid)
  | [Sexp.A "puback"; pid; code] -> XPuback (n_of_sx pid, n_of_sx code)
  | [Sexp.A "pubrec"; pid; code] -> XPubrec (n_of_sx pid, n_of_sx code)
  | [Sexp.A "pubrel"; pid] -> XPubrel (n_of_sx pid)
  | [Sexp.A "pubcomp"; pid] -> XPubcomp (n_of_sx pid)
  | [Sexp.A "publish"; dup; qos; t; pl; pid] -> XPublish (bool_of_sx dup, n_of_sx qos, bytes_of_sx t, bytes_of_sx pl, n_of_sx pid)
  | _ -> XOther

let crash_sub subid t = match Sexp.list t with
  | [Sexp.A "t"; f; q; nl; rap; rh] ->
    let (g, flt) = split_topic (bytes_of_sx f) in
    { s_share = g; s_filter = flt; s_id = subid; s_qos = n_of_sx q; s_nl = bool_of_sx nl; s_rap = bool_of_sx rap; s_rh = n_of_sx rh }
  | _ -> failwith "crash sub"

let cstep_of_sx x = match Sexp.list x with
  | [Sexp.A "connect"; c; clean; exp] -> SConnect (nat_of_sx c, bool_of_sx clean, n_of_sx exp)
  | [Sexp.A ("close" | "disconnect"); c] -> SClose (nat_of_sx c)
  | Sexp.A "subscribe" :: c :: pid :: subid :: ts -> SSubscribe (nat_of_sx c, n_of_sx pid, List.map (crash_sub (n_of_sx subid)) ts)
  | Sexp.A "unsubscribe" :: c :: pid :: ts -> SUnsubscribe (nat_of_sx c, n_of_sx pid, List.map bytes_of_sx ts)
  | [Sexp.A "publish"; c; q; pid; t; pl] -> SPublish (nat_of_sx c, n_of_sx q, n_of_sx pid, bytes_of_sx t, bytes_of_sx pl)
  | [Sexp.A "pubrel"; c; pid] -> SPubrel (nat_of_sx c, n_of_sx pid)
  | [Sexp.A "puback"; c; pid] -> SPuback (nat_of_sx c, n_of_sx pid)
  | [Sexp.A "pubrec"; c; pid] -> SPubrec (nat_of_sx c, n_of_sx pid)
  | [Sexp.A "pubcomp"; c; pid] -> SPubcomp (nat_of_sx c, n_of_sx pid)
  | [Sexp.A "skipped"] -> SSkipped
  | _ -> failwith ("crash step " ^ Sexp.to_string x)

let ostep_of_sx x = match Sexp.list x with
  | Sexp.A "st" :: start :: don :: sent :: rest ->
    let rx = List.filter_map (fun r -> match Sexp.list r with
        | [Sexp.A "rx"; c; pos; pkt] -> Some ((nat_of_sx c, nat_of_sx pos), rxpkt_of_sx pkt)
        | Sexp.A "hang" :: _ -> failwith "hang in the first run"
        | _ -> None) rest in
    { os_start = nat_of_sx start; os_done = nat_of_sx don; os_step = cstep_of_sx sent; os_rx = rx }
  | _ -> failwith "ostep"

(* times are masked on both sides (presence of an expiry is kept); subscription identifiers
   follow Go's map iteration order: sorted *)
let mask_elem e =
  let body = match e.e_body with
    | QPub m -> QPub { m with m_subids = List.sort compare m.m_subids }
    | b -> b in
  { e_tag = N0; e_at = N0; e_expiry = (match e.e_expiry with None -> None | Some _ -> Some N0); e_body = body }
let mask_blob = function BElem e -> BElem (mask_elem e) | b -> b
let mask_cmd = function
  | CRPush (k, v) -> CRPush (k, mask_blob v)
  | CLRem (k, v) -> CLRem (k, mask_blob v)
  | CLSet (k, i, v) -> CLSet (k, i, mask_blob v)
  | c -> c
let cmd_key = function CHSet (k, _) | CHDel (k, _) | CDel k | CRPush (k, _) | CLRem (k, _) | CLSet (k, _, _) -> k

let rx_cmp = function
  | XPublish (dup, q, _, pl, pid) -> XPublish (dup, q, [], pl, pid)
  | p -> p

let fail_name = function
  | FStartup -> "startup" | FSession _ -> "session" | FSubExtra (_, _, true) -> "sub_after_unsuback" | FSubExtra (_, _, false) -> "sub_wrong"
  | FSubMissing _ -> "sub_missing" | FSubForeign _ -> "sub_foreign_id" | FMsgLost _ -> "msg_lost" | FDupNotRecognised _ -> "dup_not_recognised"

let run_crash (input : Sexp.t) (impl : Sexp.t) : Verdict.t =
  (match Sexp.field_opt "harness_error" impl with Some [e] -> failwith ("harness: " ^ Sexp.to_string e) | _ -> ());
  (match Sexp.field_opt "harness_panic" impl with Some [e] -> failwith ("harness panic: " ^ Sexp.to_string e) | _ -> ());
  let names = List.map bytes_of_sx (Sexp.field "names" input) in
  let steps = List.map ostep_of_sx (Sexp.field "steps" impl) in
  let ijournal = List.map mask_cmd (List.map cmd_of_sx (Sexp.field "journal" impl)) in
  let mj = model_journal fx names steps in
  let mjournal = List.map mask_cmd (jcmds mj) in
  (* (1) journal: per key, the same command sequence *)
  let keys = List.sort_uniq compare (List.map cmd_key (ijournal @ mjournal)) in
  let proj k j = List.filter (fun c -> cmd_key c = k) j in
  let badkeys = List.filter (fun k -> proj k ijournal <> proj k mjournal) keys in
  let agree_journal = badkeys = [] in
  (* (2) every prefix *)
  let q2 c pid = List.find_map (fun o -> match o.os_step with
      | SPublish (c', q, pid', t, pl) when c' = c && pid' = pid && int_of_n q = 2 -> Some (t, pl) | _ -> None) steps in
  let fails = ref [] and disagree = ref [] in
  let nprefix = ref 0 in
  List.iter (fun px ->
      match Sexp.list px with
      | Sexp.A "p" :: k :: rest ->
        incr nprefix;
        let k = int_of_sx k in
        let f name = Sexp.field name (Sexp.L rest) in
        let up = bool_of_sx (List.hd (f "up")) in
        let sessions = if up then List.map bytes_of_sx (f "sessions") else [] in
        let subs = if up then List.map (fun e -> match Sexp.list e with [c; s] -> (bytes_of_sx c, S_sub.sub_of_sx s) | _ -> failwith "psub") (f "subs") else [] in
        let clients = if up then List.map (fun c -> match Sexp.list c with
            | Sexp.A "c" :: _ :: r ->
              let g name = Sexp.field name (Sexp.L r) in
              (match Sexp.field_opt "hang" (Sexp.L r) with Some _ -> failwith "hang after restart" | None -> ());
              { co_sp = (match g "sp" with [Sexp.A "none"] -> None | [b] -> Some (bool_of_sx b) | _ -> None);
                co_rx = List.map rxpkt_of_sx (g "rx");
                co_resend = List.map (fun r -> match Sexp.list r with [pid; n; a] -> ((n_of_sx pid, nat_of_sx n), bool_of_sx a) | _ -> failwith "resend") (g "resend") }
            | _ -> failwith "pclient") (f "clients") else [] in
        let p = { po_k = nat_of_int k; po_up = up; po_sessions = sessions; po_subs = subs; po_clients = clients } in
        let fl = crash_prefix_fails names steps p in
        fails := List.map (fun x -> (k, x)) fl @ !fails;
        (* model prediction on the same store *)
        let cmds = List.filteri (fun i _ -> i < k) ijournal in
        let posts = List.mapi (fun ci co ->
            let pids = List.filter_map (fun r -> match r with XPublish (false, q, _, _, pid) when int_of_n q > 0 -> Some pid | _ -> None) co.co_rx in
            let res = List.map (fun ((pid, _), _) -> match q2 (nat_of_int ci) pid with Some (t, pl) -> ((pid, t), pl) | None -> failwith "resend of unknown publish") co.co_resend in
            (pids, res)) clients in
        let posts = if up then posts else List.map (fun _ -> ([], [])) names in
        (match model_prefix fx names cmds posts with
         | None -> if up then disagree := (k, "model: start-up fails") :: !disagree
         | Some ((msess, msubs), mcl) ->
           if not up then disagree := (k, "impl: start-up failed") :: !disagree
           else begin
             let su l = List.sort_uniq compare l in
             if su msess <> su sessions then disagree := (k, "sessions") :: !disagree;
             if List.sort compare msubs <> List.sort compare subs then disagree := (k, "subs") :: !disagree;
             if List.length mcl <> List.length clients then disagree := (k, "clients") :: !disagree
             else List.iteri (fun ci (((msp, mrx), mres), co) ->
                 if msp <> co.co_sp then disagree := (k, Printf.sprintf "sp%d" ci) :: !disagree;
                 if List.map rx_cmp mrx <> List.map rx_cmp co.co_rx then disagree := (k, Printf.sprintf "rx%d" ci) :: !disagree;
                 if mres <> co.co_resend then disagree := (k, Printf.sprintf "resend%d" ci) :: !disagree)
                 (List.combine mcl clients)
           end)
      | _ -> failwith "prefix") (Sexp.field "prefixes" impl);
  (* session gauges of the live broker at the end of the history (uint64 on the wire: a wrapped gauge does not fit an
     OCaml int and is recognised by its length): active + inactive sessions cannot exceed the number of client ids, and
     no more sessions can have been terminated as taken over than there were CONNECTs *)
  let gauge_fail =
    match Sexp.field_opt "gauges" impl with
    | Some [a; i; _; _; t] ->
      let small x = String.length (Sexp.atom x) <= 9 in
      let nconn = List.length (List.filter (fun o -> match o.os_step with SConnect _ -> true | _ -> false) steps) in
      if not (small a && small i && small t) then Some "session_gauge_wrapped"
      else if int_of_sx a + int_of_sx i > List.length names then Some "session_gauges_exceed_client_ids"
      else if int_of_sx t > nconn then Some "more_take_overs_than_connects"
      else None
    | _ -> None in
  let agree = agree_journal && !disagree = [] in
  let oracle = !fails = [] && gauge_fail = None in
  let kf = "-" in   (* no open known finding at this level: 41101f9, 9588927, 892f3ad repaired the three classes *)
  let failnames = List.sort_uniq compare (List.map (fun (_, x) -> fail_name x) !fails) in
  let nsub = List.length (List.filter (fun o -> match o.os_step with SSubscribe _ -> true | _ -> false) steps) in
  let ndeliv = List.length (List.filter (fun c -> match c with CRPush _ -> true | _ -> false) ijournal) in
  { Verdict.agree; oracle; kf;
    nontrivial = List.length ijournal >= 10 && nsub > 0 && ndeliv > 0;
    cls = Printf.sprintf "j%s_sub%s_deliv%s_%s" (if List.length ijournal < 25 then "lt25" else if List.length ijournal < 50 then "lt50" else "ge50")
        (if nsub = 0 then "0" else "some") (if ndeliv = 0 then "0" else "some") (if failnames = [] then "ok" else String.concat "+" failnames);
    model = Sexp.L [Sexp.L (Sexp.A "journal" :: List.map sx_cmd mjournal);
                    Sexp.L (Sexp.A "journal_keys_differ" :: List.map sx_bytes badkeys);
                    Sexp.L (Sexp.A "prefix_disagree" :: List.map (fun (k, w) -> Sexp.L [sx_int k; Sexp.A w]) (List.rev !disagree));
                    Sexp.L (Sexp.A "oracle_fails" :: List.map (fun (k, x) -> Sexp.L [sx_int k; Sexp.A (fail_name x)]) (List.rev !fails))];
    why = (match List.rev !fails with [] -> (match gauge_fail with Some g -> g | None -> "") | (k, x) :: _ -> Printf.sprintf "prefix%d:%s(%s)" k (fail_name x) (String.concat "+" failnames)) }
