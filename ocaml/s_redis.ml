(* suites on the redis persistence backend: rsub, runack, rqueue, crash *)
open Model
open Conv
open Msgconv

let fx = code_fixes

(* ---- stored values and journalled commands ---- *)
let blob_of_sx x = match x with
  | Sexp.A _ -> BRaw (bytes_of_sx x)
  | Sexp.L (Sexp.A "s" :: _) -> BSub (S_sub.sub_of_sx x)
  | Sexp.L (Sexp.A "e" :: _) -> BElem (S_queue.elem_of_sx x)
  | _ -> failwith "blob"

let sx_elem e =
  Sexp.L [Sexp.A "e"; sx_n e.e_tag; sx_n e.e_at; (match e.e_expiry with None -> Sexp.A "none" | Some x -> sx_n x);
          (match e.e_body with QPub m -> Sexp.L [Sexp.A "pub"; sx_msg m] | QRel p -> Sexp.L [Sexp.A "rel"; sx_n p])]

let sx_blob = function
  | BRaw b -> sx_bytes b
  | BSub s -> S_sub.sx_sub s
  | BElem e -> sx_elem e

let z_of_int = S_queue.z_of_int
let int_of_z = S_queue.int_of_z

let cmd_of_sx x = match Sexp.list x with
  | Sexp.A "hset" :: k :: fvs ->
    CHSet (bytes_of_sx k, List.map (fun fv -> match Sexp.list fv with [f; v] -> (bytes_of_sx f, blob_of_sx v) | _ -> failwith "fv") fvs)
  | Sexp.A "hdel" :: k :: fs -> CHDel (bytes_of_sx k, List.map bytes_of_sx fs)
  | [Sexp.A "del"; k] -> CDel (bytes_of_sx k)
  | [Sexp.A "rpush"; k; v] -> CRPush (bytes_of_sx k, blob_of_sx v)
  | [Sexp.A "lrem"; k; Sexp.A "1"; v] -> CLRem (bytes_of_sx k, blob_of_sx v)
  | [Sexp.A "lset"; k; i; v] -> CLSet (bytes_of_sx k, z_of_int (int_of_sx i), blob_of_sx v)
  | _ -> failwith ("journal entry outside the modelled command set: " ^ Sexp.to_string x)

let sx_cmd = function
  | CHSet (k, fvs) -> Sexp.L (Sexp.A "hset" :: sx_bytes k :: List.map (fun (f, v) -> Sexp.L [sx_bytes f; sx_blob v]) fvs)
  | CHDel (k, fs) -> Sexp.L (Sexp.A "hdel" :: sx_bytes k :: List.map sx_bytes fs)
  | CDel k -> Sexp.L [Sexp.A "del"; sx_bytes k]
  | CRPush (k, v) -> Sexp.L [Sexp.A "rpush"; sx_bytes k; sx_blob v]
  | CLRem (k, v) -> Sexp.L [Sexp.A "lrem"; sx_bytes k; Sexp.A "1"; sx_blob v]
  | CLSet (k, i, v) -> Sexp.L [Sexp.A "lset"; sx_bytes k; sx_int (int_of_z i); sx_blob v]

(* stored times have whole seconds of the wall clock and the in-flight expiry is taken from
   the wall clock: times agree up to 2 s *)
let near a b = abs (int_of_n a - int_of_n b) <= 2000
let near_opt a b = match a, b with None, None -> true | Some x, Some y -> near x y | _ -> false
let elem_near a b = near a.e_at b.e_at && near_opt a.e_expiry b.e_expiry && a.e_body = b.e_body
let blob_near a b = match a, b with BElem x, BElem y -> elem_near x y | _ -> a = b
let cmd_near a b = match a, b with
  | CRPush (k, v), CRPush (k', v') | CLRem (k, v), CLRem (k', v') -> k = k' && blob_near v v'
  | CLSet (k, i, v), CLSet (k', i', v') -> k = k' && i = i' && blob_near v v'
  | _ -> a = b
let cmds_near a b = List.length a = List.length b && List.for_all2 cmd_near a b

(* ---- rsub ---- *)
let sop_of_sx x = match Sexp.list x with
  | [Sexp.A "sub"; c; s] -> SSub (bytes_of_sx c, [S_sub.sub_of_sx s])
  | Sexp.A "subm" :: c :: ss -> SSub (bytes_of_sx c, List.map S_sub.sub_of_sx ss)
  | Sexp.A "unsub" :: c :: ts -> SUnsub (bytes_of_sx c, List.map bytes_of_sx ts)
  | [Sexp.A "unsuball"; c] -> SUnsubAll (bytes_of_sx c)
  | _ -> failwith "sop"

let run_rsub (input : Sexp.t) (impl : Sexp.t) : Verdict.t =
  let live = S_sub.run `C02 input (Sexp.L (List.map (fun k -> Sexp.L (Sexp.A k :: Sexp.field k (Sexp.L (Sexp.field "live" impl))))
                                               ["already"; "results"; "gstats"; "cstats"])) in
  let ops = List.map sop_of_sx (Sexp.field "ops" input) in
  let flat = sops_flat ops in
  let qs = List.map S_sub.q_of_sx (Sexp.field "queries" input) in
  let ijournal = List.map cmd_of_sx (Sexp.field "journal" impl) in
  let mjournal = sops_cmds fx ops in
  let rel = Sexp.L (Sexp.field "reload" impl) in
  let ids = List.map bytes_of_sx (Sexp.field "ids" rel) in
  let ierr = bool_of_sx (Sexp.field1 "err" rel) in
  let ires = List.map S_sub.ires_of_sx (Sexp.field "results" rel) in
  let icur = int_of_sx (Sexp.field1 "cur" rel) in
  let mreload = reload_ops fx ops ids in
  let (merr, mres, mcur) = match mreload with
    | None -> (true, [], 0)
    | Some l -> let d = db_run l in (false, List.map (fun q -> db_iterate q d) qs, int_of_n d.gstats.st_cur) in
  let agree_reload =
    merr = ierr && (merr || (List.length ires = List.length mres && List.for_all2 ires_eqb mres ires && icur = mcur)) in
  let agree = live.Verdict.agree && ijournal = mjournal && agree_reload in
  let sp = spec_run flat in
  let wf = wf_ops flat in
  let reload_ok =
    (not ierr) && List.length ires = List.length qs &&
    List.for_all2 (fun q r -> c02_query_ok sp q r) qs ires && icur = List.length sp in
  let oracle = live.Verdict.oracle && ((not wf) || reload_ok) in
  let kf = if kf_redis_hdel_slice fx ops then "kf_redis_hdel_slice" else if kf_redis_trimleft fx ops then "kf_redis_trimleft" else "-" in
  let nonempty = List.exists (fun r -> match r with IOk (_ :: _) -> true | _ -> false) ires in
  let nun = List.length (List.filter (fun o -> match o with SUnsub _ | SUnsubAll _ -> true | _ -> false) ops) in
  { Verdict.agree; oracle; kf;
    nontrivial = List.length ops >= 3 && nonempty;
    cls = Printf.sprintf "ops%s_unsub%s_%s_%s" (if List.length ops < 10 then "lt10" else "ge10") (if nun = 0 then "0" else "some")
        (if List.exists (fun c -> trim_left c <> c) ids then "trimid" else "plainid") (if nonempty then "hit" else "nohit");
    model = Sexp.L [Sexp.L (Sexp.A "journal" :: List.map sx_cmd mjournal);
                    Sexp.L (Sexp.A "reload" :: sx_bool merr :: sx_int mcur :: List.map S_sub.sx_ires mres)] }

(* ---- runack ---- *)
let ruop_of_sx x = match Sexp.list x with
  | [Sexp.A "init"; c] -> RUInit (bool_of_sx c)
  | [Sexp.A "set"; i] -> RUSet (n_of_sx i)
  | [Sexp.A "remove"; i] -> RURemove (n_of_sx i)
  | [Sexp.A "restart"] -> RURestart
  | _ -> failwith "ruop"

let run_runack (input : Sexp.t) (impl : Sexp.t) : Verdict.t =
  let ops = List.map ruop_of_sx (Sexp.field "ops" input) in
  let iouts = List.map (fun x -> match x with Sexp.A "none" -> None | b -> Some (bool_of_sx b)) (Sexp.field "outs" impl) in
  let ijournal = List.map cmd_of_sx (Sexp.field "journal" impl) in
  let (mouts, mjournal) = ru_run fx [n_of_int 99] [] [] ops in
  let dup = List.exists (fun x -> x = Some true) iouts in
  let restarts = List.exists (fun o -> o = RURestart) ops in
  { Verdict.agree = (mouts = iouts) && ijournal = mjournal; oracle = runack_ok ops iouts;
    kf = (if kf_redis_unack_reload fx ops then "kf_redis_unack_reload" else "-"); nontrivial = dup || restarts;
    cls = (if dup then "dup" else "nodup") ^ (if restarts then "_restart" else "_norestart");
    model = Sexp.L [Sexp.L (List.map (fun x -> match x with None -> Sexp.A "none" | Some b -> sx_bool b) mouts);
                    Sexp.L (Sexp.A "journal" :: List.map sx_cmd mjournal)] }

(* ---- rqueue ---- *)
let rqop_of_sx x = match Sexp.list x with
  | [Sexp.A "restart"] -> Some ORestart
  | _ -> (match S_queue.op_of_sx x with Some o -> Some (ROp o) | None -> None)

let run_rqueue (input : Sexp.t) (impl : Sexp.t) : Verdict.t =
  let max = nat_of_sx (Sexp.field1 "max" input) in
  let ifexp = n_of_sx (Sexp.field1 "ifexp" input) in
  let raw = Sexp.field "ops" input in
  let iouts_raw = Sexp.field "outs" impl in
  let rec zip ops outs = match ops, outs with
    | o :: ops', x :: outs' -> (match rqop_of_sx o with None -> zip ops' outs' | Some op -> (op, Some x) :: zip ops' outs')
    | o :: ops', [] -> (match rqop_of_sx o with None -> zip ops' [] | Some op -> (op, None) :: zip ops' [])
    | [], _ -> [] in
  let z = zip raw iouts_raw in
  let ops = List.map fst z in
  let isx = List.filter_map snd z in
  let iouts = List.map S_queue.oout_of_sx isx in
  let ijournal = List.map cmd_of_sx (Sexp.field "journal" impl) in
  let (mouts_full, mjournal) = rq_model max ifexp ops in
  let mouts = List.map oout_of mouts_full in
  let exps_near a b =
    List.length a = List.length b &&
    List.for_all2 (fun x y -> List.length x = List.length y &&
                              List.for_all2 (fun p q -> p = q || (p <> "none" && q <> "none" && abs (int_of_string p - int_of_string q) <= 2)) x y) a b in
  let agree_outs = (mouts = iouts) && exps_near (List.map S_queue.model_exps mouts_full) (List.map S_queue.impl_exps isx) in
  let agree_journal = cmds_near mjournal ijournal in
  let agree = agree_outs && agree_journal in
  let oracle = c10r_ok max ifexp ops iouts in
  let drops = List.length (List.filter (fun x -> match x with XAdd (OvDropped _ :: _) | XAdd (OvInflight _ :: _) -> true | _ -> false) iouts) in
  let reads = List.length (List.filter (fun x -> match x with XRead (_ :: _, _) -> true | _ -> false) iouts) in
  let replays = List.length (List.filter (fun x -> match x with XReadInflight (_ :: _) -> true | _ -> false) iouts) in
  let panics = List.exists (fun x -> x = XPanic) iouts in
  let restarts = List.exists (fun o -> o = ORestart) ops in
  let kf = match rq_class max ifexp ops with
    | RQNone -> "-"
    | RQLenAfterRestart -> "kf_redis_queue_len_after_restart"
    | RQLrangeMinus1 -> "kf_redis_queue_lrange_minus1"
    | RQAddBeforeReplay -> "kf_redis_queue_add_before_replay"
    | RQStaleCache -> "kf_redis_queue_stale_cache"
    | RQReplaceCursor0 -> "kf_redis_queue_replace_cursor0"
    | RQOther -> "unclassified" in
  { Verdict.agree; oracle; kf;
    nontrivial = reads > 0 && (drops > 0 || replays > 0);
    cls = Printf.sprintf "max%d_drops%s_reads%s_replay%s%s%s%s" (int_of_nat max) (if drops = 0 then "0" else "some")
        (if reads = 0 then "0" else "some") (if replays = 0 then "0" else "some") (if restarts then "_restart" else "")
        (if panics then "_panic" else "") (if agree_outs && not agree_journal then "_journaldiff" else "");
    model = Sexp.L [Sexp.L (List.map S_queue.sx_oout mouts); Sexp.L (Sexp.A "journal" :: List.map sx_cmd mjournal)] }
