open Model
open Conv
open Msgconv

let exp_of_sx x = match x with Sexp.A "none" -> None | _ -> Some (n_of_sx x)

let elem_of_sx x = match Sexp.list x with
  | [Sexp.A "e"; tag; at; exp; body] ->
    let b = match Sexp.list body with
      | [Sexp.A "pub"; m] -> QPub (msg_of_sx m)
      | [Sexp.A "rel"; p] -> QRel (n_of_sx p)
      | _ -> failwith "qbody" in
    { e_tag = n_of_sx tag; e_at = n_of_sx at; e_expiry = exp_of_sx exp; e_body = b }
  | _ -> failwith "elem"

(* `shift` only advances the clock, which later operations carry explicitly *)
let op_of_sx x = match Sexp.list x with
  | [Sexp.A "shift"; _] -> None
  | [Sexp.A "add"; now; e] -> Some (OAdd (n_of_sx now, elem_of_sx e))
  | [Sexp.A "read"; now; pids] -> Some (ORead (n_of_sx now, List.map n_of_sx (Sexp.list pids)))
  | [Sexp.A "readinflight"; now; n] -> Some (OReadInflight (n_of_sx now, nat_of_sx n))
  | [Sexp.A "remove"; p] -> Some (ORemove (n_of_sx p))
  | [Sexp.A "replace"; e] -> Some (OReplace (elem_of_sx e))
  | [Sexp.A "init"; c; v; l] -> Some (OInit (bool_of_sx c, bool_of_sx v, n_of_sx l))
  | [Sexp.A "close"] -> Some OClose
  | _ -> failwith "qop"

let z_of_int i = if i = 0 then Z0 else if i > 0 then Zpos (pos_of_int i) else Zneg (pos_of_int (-i))
let int_of_z = function Z0 -> 0 | Zpos p -> int_of_pos p | Zneg p -> - (int_of_pos p)

let reason_of = function "full" -> DFull | "expired" -> DExpired | "expired_inflight" -> DExpiredInflight | "exceeds" -> DExceedsMax | s -> failwith ("reason " ^ s)
let atom_of_reason = function DFull -> "full" | DExpired -> "expired" | DExpiredInflight -> "expired_inflight" | DExceedsMax -> "exceeds"

let oev_of_sx x = match Sexp.list x with
  | [Sexp.A "dropped"; t; r] -> OvDropped (n_of_sx t, reason_of (Sexp.atom r))
  | [Sexp.A "inflight"; d] -> OvInflight (z_of_int (int_of_sx d))
  | [Sexp.A "queue"; d] -> OvQueue (z_of_int (int_of_sx d))
  | _ -> failwith "oev"

(* the expiry (seconds) the implementation reported is compared separately *)
let oelem_of_sx x = match Sexp.list x with
  | [Sexp.A "pub"; t; p; q; _] -> OPub (n_of_sx t, n_of_sx p, n_of_sx q)
  | [Sexp.A "rel"; p; _] -> ORel (n_of_sx p)
  | _ -> failwith "oelem"
let oexp_of_sx x = match Sexp.list x with
  | [Sexp.A "pub"; _; _; _; e] -> e
  | [Sexp.A "rel"; _; e] -> e
  | _ -> failwith "oelem"

let oout_of_sx x = match Sexp.list x with
  | Sexp.A "add" :: evs -> XAdd (List.map oev_of_sx evs)
  | [Sexp.A "read"; rs; evs] -> XRead (List.map oelem_of_sx (Sexp.list rs), List.map oev_of_sx (Sexp.list evs))
  | [Sexp.A "readinflight"; rs] -> XReadInflight (List.map oelem_of_sx (Sexp.list rs))
  | Sexp.A "remove" :: evs -> XRemove (List.map oev_of_sx evs)
  | [Sexp.A "replace"; b] -> XReplace (bool_of_sx b)
  | [Sexp.A "unit"] -> XUnit
  | [Sexp.A "panic"] -> XPanic
  | [Sexp.A "blocked"] -> XBlocked
  | [Sexp.A "closed"] -> XClosedErr
  | _ -> failwith "oout"

let sx_oelem = function
  | OPub (t, p, q) -> Sexp.L [Sexp.A "pub"; sx_n t; sx_n p; sx_n q]
  | ORel p -> Sexp.L [Sexp.A "rel"; sx_n p]
let sx_oev = function
  | OvDropped (t, r) -> Sexp.L [Sexp.A "dropped"; sx_n t; Sexp.A (atom_of_reason r)]
  | OvInflight d -> Sexp.L [Sexp.A "inflight"; sx_int (int_of_z d)]
  | OvQueue d -> Sexp.L [Sexp.A "queue"; sx_int (int_of_z d)]
let sx_oout = function
  | XAdd evs -> Sexp.L (Sexp.A "add" :: List.map sx_oev evs)
  | XRead (rs, evs) -> Sexp.L [Sexp.A "read"; Sexp.L (List.map sx_oelem rs); Sexp.L (List.map sx_oev evs)]
  | XReadInflight rs -> Sexp.L [Sexp.A "readinflight"; Sexp.L (List.map sx_oelem rs)]
  | XRemove evs -> Sexp.L (Sexp.A "remove" :: List.map sx_oev evs)
  | XReplace b -> Sexp.L [Sexp.A "replace"; sx_bool b]
  | XUnit -> Sexp.L [Sexp.A "unit"] | XPanic -> Sexp.L [Sexp.A "panic"]
  | XBlocked -> Sexp.L [Sexp.A "blocked"] | XClosedErr -> Sexp.L [Sexp.A "closed"]

(* expiry (whole seconds, rounded) of the elements the model hands out *)
let model_exps (o : qout) : string list =
  let f e = match e.e_expiry with None -> "none" | Some x -> string_of_int ((int_of_n x + 500) / 1000) in
  match o with
  | RRead (rs, _) -> List.map f rs
  | RReadInflight rs -> List.map f rs
  | _ -> []
let impl_exps x = match Sexp.list x with
  | [Sexp.A "read"; rs; _] | [Sexp.A "readinflight"; rs] -> List.map (fun e -> Sexp.atom (oexp_of_sx e)) (Sexp.list rs)
  | _ -> []

let run (input : Sexp.t) (impl : Sexp.t) : Verdict.t =
  let max = nat_of_sx (Sexp.field1 "max" input) in
  let ifexp = n_of_sx (Sexp.field1 "ifexp" input) in
  let raw = Sexp.field "ops" input in
  let iouts_raw = Sexp.field "outs" impl in
  (* drop the shift ops and their unit outputs *)
  let rec zip ops outs = match ops, outs with
    | o :: ops', x :: outs' -> (match op_of_sx o with None -> zip ops' outs' | Some op -> (op, Some x) :: zip ops' outs')
    | o :: ops', [] -> (match op_of_sx o with None -> zip ops' [] | Some op -> (op, None) :: zip ops' [])
    | [], _ -> [] in
  let z = zip raw iouts_raw in
  let ops = List.map fst z in
  let isx = List.filter_map snd z in
  let iouts = List.map oout_of_sx isx in
  let mouts_full = model_outs max ifexp ops in
  let mouts = List.map oout_of mouts_full in
  let agree = (mouts = iouts) && (List.map model_exps mouts_full = List.map impl_exps isx) in
  let oracle = c10_ok max ifexp ops iouts in
  let drops = List.length (List.filter (fun x -> match x with XAdd (OvDropped _ :: _) | XAdd (OvInflight _ :: _) -> true | _ -> false) iouts) in
  let reads = List.length (List.filter (fun x -> match x with XRead (_ :: _, _) -> true | _ -> false) iouts) in
  let replays = List.length (List.filter (fun x -> match x with XReadInflight (_ :: _) -> true | _ -> false) iouts) in
  let panics = List.exists (fun x -> x = XPanic) iouts in
  { Verdict.agree; oracle; kf = "-";
    nontrivial = reads > 0 && (drops > 0 || replays > 0);
    cls = Printf.sprintf "max%d_drops%s_reads%s_replay%s%s" (int_of_nat max) (if drops = 0 then "0" else "some")
        (if reads = 0 then "0" else "some") (if replays = 0 then "0" else "some") (if panics then "_panic" else "");
    model = Sexp.L (List.map sx_oout mouts); why = "" }
