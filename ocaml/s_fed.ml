(* suites fedq (C16) and fedr (C17): the federation plugin *)
open Model
open Conv
open Msgconv

(* ---------------------------------------------------------------- shared *)

let sx_event = function
  | ESub (g, f) -> Sexp.L [Sexp.A "s"; sx_bytes g; sx_bytes f]
  | EUnsub t -> Sexp.L [Sexp.A "u"; sx_bytes t]
  | EMsg m -> Sexp.L [Sexp.A "m"; sx_msg m]

let event_of_sx x = match Sexp.list x with
  | [Sexp.A "s"; g; f] -> ESub (bytes_of_sx g, bytes_of_sx f)
  | [Sexp.A "u"; t] -> EUnsub (bytes_of_sx t)
  | [Sexp.A "m"; m] -> EMsg (msg_of_sx m)
  | _ -> failwith "event"

(* increasing id list <-> ((a b) ...) ranges *)
let sx_ranges (ids : int list) : Sexp.t =
  let rec go acc = function
    | [] -> List.rev acc
    | x :: r ->
      let rec ext y = function z :: r' when z = y + 1 -> ext z r' | r' -> (y, r') in
      let (y, r') = ext x r in
      go (Sexp.L [sx_int x; sx_int y] :: acc) r' in
  Sexp.L (go [] ids)

let sorted_sx l = List.sort (fun a b -> compare (Sexp.to_string a) (Sexp.to_string b)) l
let sorted_strs l = Sexp.(List.map (fun s -> A s) (List.sort compare (List.map atom_of_bytes l)))

(* ---------------------------------------------------------------- fedq *)

let mode_of = function
  | "ok" -> HsOk | "lostreq" -> HsLostReq | "lostresp" -> HsLostResp | "failopen" -> HsFailOpen
  | s -> failwith ("hello mode " ^ s)

let qstep_of_sx x = match Sexp.list x with
  | [Sexp.A "sub"; c; g; f] -> QSub (bytes_of_sx c, bytes_of_sx g, bytes_of_sx f)
  | [Sexp.A "unsub"; c; t] -> QUnsub (bytes_of_sx c, bytes_of_sx t)
  | [Sexp.A "term"; c] -> QTerm (bytes_of_sx c)
  | [Sexp.A "msg"; m] -> QMsg (msg_of_sx m)
  | [Sexp.A "send"] -> QSend
  | [Sexp.A "deliver"; b] -> QDeliver (bool_of_sx b)
  | [Sexp.A "ackd"] -> QAckDeliver
  | [Sexp.A "cut"] -> QCut
  | [Sexp.A "hello"; Sexp.A m] -> QReconnect (mode_of m)
  | [Sexp.A "drain"] -> QDrain
  | [Sexp.A "peerlost"] -> QPeerLost
  | [Sexp.A "peerjoin"] -> QPeerJoin
  | [Sexp.A "droppeer"] -> QDropPeer
  | [Sexp.A "joinpeer"] -> QJoinPeer
  | _ -> failwith ("fedq step " ^ Sexp.to_string x)

(* the model's observable of one step, in the format of the harness *)
let fq_obs_sx (s : fstate) (s' : fstate) : Sexp.t =
  let o = fq_model_obs s s' in
  let emit = List.map (fun (id, e) -> Sexp.L [sx_n id; sx_event e]) o.o_emit in
  let q = match s'.a_peer with
    | None -> Sexp.L [Sexp.A "none"]
    | Some p ->
      let q = p.p_q in
      Sexp.L [Sexp.A "q"; sx_ranges (List.map (fun (i, _) -> int_of_n i) q.evq_l);
              (match q.evq_read with None -> Sexp.A "nil" | Some i -> sx_n i);
              sx_n q.evq_next; sx_bool q.evq_closed; sx_bool q.evq_bad] in
  let sess = match s'.fb_sess with
    | None -> Sexp.L [Sexp.A "none"]
    | Some se ->
      let m = match s'.a_peer with Some p -> p.p_sid = se.fs_id | None -> false in
      Sexp.L [Sexp.A "sess"; sx_bool m; sx_n se.fs_next; sx_ranges (List.map int_of_n se.fs_seen)] in
  let app = List.map (fun ((ep, id), dup) -> Sexp.L [sx_n ep; sx_n id; sx_bool dup]) o.o_app in
  Sexp.L [Sexp.L (Sexp.A "emit" :: emit); Sexp.L [Sexp.A "reset"; sx_bool o.o_reset]; q; sess;
          Sexp.L [Sexp.A "bpeer"; sx_bool s'.fb_peer];
          Sexp.L (Sexp.A "view" :: (match view_of s'.fb_fed with Some v -> sorted_strs v | None -> [Sexp.A "panic"]));
          Sexp.L (Sexp.A "local" :: sorted_strs o.o_local);
          Sexp.L [Sexp.A "strm"; sx_bool s'.st_up; sx_ranges (List.map (fun ((_, id), _) -> int_of_n id) s'.c2s);
                  sx_ranges (List.map int_of_n s'.s2c)];
          Sexp.L (Sexp.A "app" :: app);
          Sexp.L (Sexp.A "pubs" :: List.map sx_msg o.o_pubs);
          Sexp.L (Sexp.A "ret" :: sorted_msgs (rdb_all s'.fb_ret));
          Sexp.L [Sexp.A "idle"; sx_bool o.o_idle]]

let unranges x =
  List.concat_map (fun r -> match Sexp.list r with
      | [a; b] -> let a = int_of_sx a and b = int_of_sx b in List.init (b - a + 1) (fun i -> a + i)
      | _ -> failwith "range") (Sexp.list x)

(* the implementation's observable of one step as the record the oracle reads *)
let sobs_of_sx (x : Sexp.t) : sobs =
  let emit = List.map (fun e -> match Sexp.list e with [id; ev] -> (n_of_sx id, event_of_sx ev) | _ -> failwith "emit") (Sexp.field "emit" x) in
  let app = List.map (fun e -> match Sexp.list e with [ep; id; d] -> ((n_of_sx ep, n_of_sx id), bool_of_sx d) | _ -> failwith "app") (Sexp.field "app" x) in
  let up = match Sexp.field "strm" x with u :: _ -> bool_of_sx u | _ -> failwith "strm" in
  { o_emit = emit; o_reset = bool_of_sx (Sexp.field1 "reset" x); o_app = app;
    o_pubs = List.map msg_of_sx (Sexp.field "pubs" x);
    o_view = List.map bytes_of_sx (Sexp.field "view" x); o_local = List.map bytes_of_sx (Sexp.field "local" x);
    o_up = up; o_idle = bool_of_sx (Sexp.field1 "idle" x) }

let run_fedq (input : Sexp.t) (impl : Sexp.t) : Verdict.t =
  let ret = List.map msg_of_sx (Sexp.field "ret" input) in
  let steps = List.map qstep_of_sx (Sexp.field "steps" input) in
  let iouts = Sexp.field "outs" impl in
  let iobs = List.map sobs_of_sx iouts in
  (* run the model step by step; the order of the events emitted at a step is the one the
     implementation used (the model accepts it only when it is a permutation of its own) *)
  let rec go s steps obs acc = match steps with
    | [] -> List.rev acc
    | ev :: r ->
      let order, obs' = match obs with o :: r' -> (List.map snd o.o_emit, r') | [] -> ([], []) in
      let s' = fq_step s ev order in
      go s' r obs' (fq_obs_sx s s' :: acc) in
  let mouts = go (fq_init ret) steps iobs [] in
  let agree = List.length mouts = List.length iouts &&
              List.for_all2 (fun a b -> Sexp.to_string a = Sexp.to_string b) mouts iouts in
  let oracle = c16_ok steps iobs in
  let kf =
    if oracle then "-"
    else if kf_hello_reply_lost steps then "kf_hello_reply_lost"
    else if kf_event_not_utf8 ret steps then "kf_event_not_utf8"
    else "-" in
  let napplied = List.length (List.concat_map (fun o -> List.filter (fun (_, d) -> not d) o.o_app) iobs) in
  let ndup = List.length (List.concat_map (fun o -> List.filter (fun (_, d) -> d) o.o_app) iobs) in
  let faults = List.length (List.filter (fun e -> match e with
      | QCut | QDeliver false | QReconnect HsLostReq | QReconnect HsLostResp | QReconnect HsFailOpen -> true | _ -> false) steps) in
  let lost = List.length (List.filter (fun e -> match e with QPeerLost | QDropPeer -> true | _ -> false) steps) in
  let big = List.exists (fun o -> List.length o.o_app >= 100) iobs in
  { Verdict.agree; oracle; kf;
    nontrivial = napplied >= 3 && faults + lost > 0;
    cls = Printf.sprintf "faults%s_lost%s_dup%s%s" (if faults = 0 then "0" else "some") (if lost = 0 then "0" else "some")
        (if ndup = 0 then "0" else "some") (if big then "_burst" else "");
    model = Sexp.L mouts;
    why = (if oracle then ""
           else if not (c16_safety_ok steps iobs) then "applied_sequence_is_not_a_duplicate-free_in-order_prefix_of_the_emitted_sequence"
           else "after_the_fault-free_suffix:_stream_not_idle,_or_events_not_applied,_or_view<>local_subscription_set") }


(* ---------------------------------------------------------------- fedr *)

let lsub_of_sx x = match Sexp.list x with
  | [c; g; f] -> ((bytes_of_sx c, bytes_of_sx g), bytes_of_sx f)
  | _ -> failwith "lsub"

let sx_iopts = function
  | None -> Sexp.A "none"
  | Some o ->
    Sexp.L [Sexp.A "q"; sx_bool o.io_sys; sx_bool o.io_shared; sx_bool o.io_nonshared; sx_bytes o.io_client; sx_bytes o.io_topic;
            Sexp.A (match o.io_mt with MatchName -> "name" | MatchFilter -> "filter" | MatchNone -> "none")]

let iopts_of_sx = function
  | Sexp.A "none" -> None
  | x -> (match Sexp.list x with
      | [Sexp.A "q"; sys; sh; ns; c; t; mt] ->
        Some { io_sys = bool_of_sx sys; io_shared = bool_of_sx sh; io_nonshared = bool_of_sx ns; io_client = bytes_of_sx c;
               io_topic = bytes_of_sx t;
               io_mt = (match Sexp.atom mt with "name" -> MatchName | "filter" -> MatchFilter | _ -> MatchNone) }
      | _ -> failwith "iopts")

let run_fedr (input : Sexp.t) (impl : Sexp.t) : Verdict.t =
  let node = bytes_of_sx (Sexp.field1 "node" input) in
  let nodes = List.map (fun n -> match Sexp.list n with
      | name :: subs -> (bytes_of_sx name, List.map lsub_of_sx subs)
      | [] -> failwith "node") (Sexp.field "nodes" input) in
  let peers = List.map bytes_of_sx (Sexp.field "peers" input) in
  let local_ops = List.map (fun ((c, g), f) -> OSub (c, { (plain_sub g f) with s_qos = n_of_int 1 }))
      (try List.assoc node nodes with Not_found -> []) in
  let fed_ops = List.map (fun o -> match Sexp.list o with
      | [Sexp.A "sub"; n; g; f] -> OSub (bytes_of_sx n, plain_sub (bytes_of_sx g) (bytes_of_sx f))
      | [Sexp.A "unsub"; n; t] -> OUnsub (bytes_of_sx n, bytes_of_sx t)
      | _ -> failwith "fed op") (Sexp.field "fed" input) in
  let pubs = List.map (fun x -> match Sexp.list x with [Sexp.A "p"; _; m] -> msg_of_sx m | _ -> failwith "pub") (Sexp.field "pubs" input) in
  let recv = List.map msg_of_sx (Sexp.field "recv" input) in
  let case = { rc_node = node; rc_nodes = nodes; rc_peers = peers } in
  (* model *)
  let mpubs = fr_run (fr_init node local_ops fed_ops peers) pubs in
  let sx_pub ((evs, drop), opts) =
    let sent = List.concat_map (fun (p, es) -> List.map (fun e -> Sexp.L [sx_bytes p; sx_event e]) es) evs in
    Sexp.L [Sexp.L (Sexp.A "sent" :: sorted_sx sent); Sexp.L [Sexp.A "drop"; sx_bool drop]; Sexp.L [Sexp.A "opts"; sx_iopts opts];
            Sexp.L [Sexp.A "idsok"; sx_bool true]] in
  let mrecv = fr_receive_all recv rdb_init in
  let sx_recv (p, ret) =
    Sexp.L [Sexp.L [Sexp.A "pubs"; sx_msg p]; Sexp.L (Sexp.A "ret" :: sorted_msgs ret); Sexp.L [Sexp.A "fwd"; sx_int 0];
            Sexp.L [Sexp.A "ack"; sx_bool true]] in
  let model = Sexp.L [Sexp.L (Sexp.A "pubs" :: List.map sx_pub mpubs); Sexp.L (Sexp.A "recv" :: List.map sx_recv mrecv)] in
  (* implementation *)
  let ipubs = Sexp.field "pubs" impl and irecv = Sexp.field "recv" impl in
  let norm_pub x =
    Sexp.L [Sexp.L (Sexp.A "sent" :: sorted_sx (Sexp.field "sent" x)); Sexp.L (Sexp.A "drop" :: Sexp.field "drop" x);
            Sexp.L (Sexp.A "opts" :: Sexp.field "opts" x);
            (* ids of the events in every peer queue are consecutive (checked by the harness on the real queues) *)
            Sexp.L (Sexp.A "idsok" :: (match Sexp.field_opt "idsok" x with Some v -> v | None -> [sx_bool true]))] in
  let impl_n = Sexp.L [Sexp.L (Sexp.A "pubs" :: List.map norm_pub ipubs); Sexp.L (Sexp.A "recv" :: irecv)] in
  let agree = Sexp.to_string model = Sexp.to_string impl_n in
  let pobs = List.map (fun x ->
      { po_sent = List.map (fun e -> match Sexp.list e with
            | [p; ev] -> (match event_of_sx ev with EMsg m -> (bytes_of_sx p, m) | _ -> failwith "non-message event")
            | _ -> failwith "sent") (Sexp.field "sent" x);
        po_drop = bool_of_sx (Sexp.field1 "drop" x); po_opts = iopts_of_sx (Sexp.field1 "opts" x) }) ipubs in
  let robs = List.map (fun x ->
      { ro_pubs = List.map msg_of_sx (Sexp.field "pubs" x); ro_ret = List.map msg_of_sx (Sexp.field "ret" x);
        ro_fwd = n_of_sx (Sexp.field1 "fwd" x) }) irecv in
  let ids_ok = List.for_all (fun x -> match Sexp.field_opt "idsok" x with Some [v] -> bool_of_sx v | _ -> true) ipubs in
  let pub_ok = ids_ok && List.length pobs = List.length pubs && List.for_all2 (fun m o -> c17_pub_ok case m o) pubs pobs in
  let recv_ok = c17_recv_ok [] recv robs in
  let oracle = pub_ok && recv_ok in
  (* every failing publish must be in the known-finding class; the receiving side has none *)
  let kf =
    if oracle || List.length pobs <> List.length pubs || not recv_ok then "-"
    else begin
      let bad_pubs = List.filter (fun (m, o) -> not (c17_pub_ok case m o)) (List.combine pubs pobs) in
      let pubs_known = List.for_all (fun (m, o) -> kf_shared_span case m && (m.m_retained || plain_ok case m o)) bad_pubs in
      if bad_pubs <> [] && pubs_known then "kf_shared_span" else "-"
    end in
  let nsent = List.length (List.concat_map (fun o -> o.po_sent) pobs) in
  let any_shared = List.exists (fun (_, l) -> List.exists (fun ((_, g), _) -> g <> []) l) nodes in
  let span = List.exists (fun m -> kf_shared_span case m) pubs in
  let any_ret = List.exists (fun m -> m.m_retained) pubs in
  { Verdict.agree; oracle; kf;
    nontrivial = nsent > 0 && List.length pubs >= 1;
    cls = Printf.sprintf "peers%d_sh%s_span%s_ret%s_recv%d" (List.length peers) (if any_shared then "1" else "0")
        (if span then "1" else "0") (if any_ret then "1" else "0") (List.length recv);
    model;
    why = (if oracle then ""
           else if List.length pobs <> List.length pubs then "number_of_publish_observations_differs"
           else if not pub_ok then
             (let bad = List.filter (fun (m, o) -> not (c17_pub_ok case m o)) (List.combine pubs pobs) in
              if List.exists (fun (m, o) -> m.m_retained || not (plain_ok case m o)) bad then "peer_set_or_local_delivery_wrong_for_a_publish"
              else "a_share_group_spanning_nodes_is_not_served_exactly_once")
           else "receiver:_published_message_or_retained_store_differs_from_the_broker_rule") }
