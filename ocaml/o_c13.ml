(* Oracle of property C13: "limits negotiated at CONNECT hold in both directions for every valid config".

   Written from the statement of the property (and the MQTT 5 packet layout for sizes). It is evaluated
   on the packets the real broker sent and their wire sizes ((opts (sizes 1))); it never looks at the Coq
   model.

   FAMILY it decides (everything else: verdict true, class outside_<why>): disjoint publishers and
   subscribers; publishers connect with clean start; a subscriber session has subscriptions with disjoint
   filters (as granted by SUBACK, one filter per SUBSCRIBE), is persistent and is resumed with clean 0;
   PUBLISH with retain 0 and a payload that is unique in the scenario (DUP only on a literal repetition of a
   QoS 2 PUBLISH the broker has not completed yet); no wills, take-overs, client DISCONNECTs, hooks, shared
   subscriptions, time steps, queue overflow, optional-to-forward properties; acknowledgements that fit what
   is in flight.

   STATE. Per connection: what CONNACK advertised (Topic Alias Maximum, Receive Maximum, Maximum Packet
   Size), what the client declared in CONNECT (Maximum Packet Size, Topic Alias Maximum, Receive Maximum),
   the inbound alias table (client -> broker), the outbound alias table (broker -> client), the packet ids
   of the client's QoS>0 publishes that are not yet completed (no PUBACK / PUBCOMP / failing PUBREC seen).
   Per subscriber session: its subscriptions, the FIFO of copies that wait, the copies in flight, the
   in-flight window min(max_inflight, Receive Maximum).

   CLAUSES
   O1 every packet a v5 client receives is at most the Maximum Packet Size it declared;
   O2 a message whose PUBLISH (without alias) would be larger is not delivered, the connection stays open and
      later messages that fit still arrive (through L);
   L  (non-vacuity) a message whose PUBLISH fits and that the subscriber can take is delivered in the step
      in which that became true, with the right (alias-resolved) topic;
   O4 an outbound alias is 1..client Topic Alias Maximum (none at all when that is 0 / absent / v3), a PUBLISH
      with empty topic carries an alias bound on THIS connection, and it resolves to the message's topic;
   ADV CONNACK advertises the configured server_receive_maximum, topic_alias_maximum, max_packet_size;
   I  a v5 client packet that exceeds a limit (alias 0 or > Topic Alias Maximum: 0x94; more open QoS>0
      publishes than Receive Maximum: 0x93; packet larger than Maximum Packet Size: 0x95) is answered by
      DISCONNECT with (one of) the matching code(s) and the connection is closed; an empty topic with an alias
      that is not bound is answered by DISCONNECT 0x94 or 0x82;
   N  no other connection ever gets a DISCONNECT or is closed by the broker, and the broker always comes to
      rest (this is also the "without crashing" part: every client that stayed within the limits is still
      served at the end).

   KNOWN FINDINGS (each confirmed with a hand-written scenario, reproducible every time)
   kf_alias_pushes_over_max_size              a PUBLISH that fits without Topic Alias is sent with one and is then
                                              larger than the client's Maximum Packet Size (first use: +3 bytes; later
                                              uses with a topic shorter than 3 bytes: +1..2 bytes)
   kf_retransmission_exceeds_max_packet_size  an unacknowledged message is sent again after a reconnect although it
                                              is larger than the Maximum Packet Size declared on the NEW connection
   kf_connack_exceeds_client_max_packet_size  CONNACK (34 bytes here) is sent whatever Maximum Packet Size was declared
   kf_resend_at_full_quota_disconnected       a client that repeats (DUP) its only open QoS 2 PUBLISH while the Receive
                                              Maximum is used up is disconnected with 0x93 although nothing new is open

   The environment variable C13_MUT breaks the oracle on purpose (mutation tests of the oracle itself):
   in_size_ge, in_alias_excl, recv_plus1, in_no_rebind, out_alias_minus1, out_no_bind, out_size_ge, drop_late. *)
open Model
open Conv

exception Outside of string
exception Fail of string

type msg = { payload : string; topic : string; tbytes : n list; mqos : int; fprops : Sexp.t list }
type entry = { em : msg; mutable pid : int; mutable rel : bool; eqos : int; esubid : int option }
type sub1 = { filter : n list; fatom : string; granted : int; subid : int option }
type pendi = { pm : msg; peq : int; psubid : int option }
type sess = {
  cid : string;
  mutable subs : sub1 list;
  mutable pend : pendi list;
  mutable out : entry list;
  mutable w : int;
  mutable sock : int option;
  mutable ver : int;
  mutable persistent : bool;
  mutable is_pub : bool;
}
type sock = {
  sver : int; scid : string;
  adv_alias : int; adv_recv : int; adv_maxpkt : int option;
  decl_maxpkt : int option; decl_alias : int;
  mutable dead : bool;
  in_alias : (int, string) Hashtbl.t;
  mutable outst : int list;
  out_alias : (int, string) Hashtbl.t;
  mutable drops : int;
  mutable stray_pubrel : bool;   (* the client sent PUBREL for a packet id that was not open *)
}

let last_cls = ref "-"

(* mutation switches for testing the oracle itself (never set in production) *)
let mut = try Sys.getenv "C13_MUT" with Not_found -> ""

let atom_int x = int_of_string (Sexp.atom x)
let alen a = (String.length a - 1) / 2
let props_list x = match x with Sexp.L (Sexp.A "props" :: ps) -> ps | _ -> raise (Outside "props")
let prop_int name ps =
  List.fold_left (fun acc p -> match p with Sexp.L [Sexp.A n; Sexp.A v] when n = name && acc = None -> Some (int_of_string v) | _ -> acc) None ps
(* "m12." + padding: print the label only *)
let short pl =
  let b = bytes_of_atom pl in
  let rec go acc = function
    | [] -> List.rev acc
    | x :: r -> let c = Char.chr (int_of_n x) in if c = '.' then List.rev acc else go (c :: acc) r in
  let l = go [] b in
  if List.length l > 12 then pl else String.init (List.length l) (List.nth l) ^ Printf.sprintf "(%dB)" (List.length b)
let has_prop name ps = List.exists (fun p -> match p with Sexp.L (Sexp.A n :: _) -> n = name | _ -> false) ps

(* ---- MQTT packet sizes *)
let varint_len n = if n < 128 then 1 else if n < 16384 then 2 else if n < 2097152 then 3 else 4
let prop_size p = match p with
  | Sexp.L [Sexp.A "pfmt"; _] -> 2
  | Sexp.L [Sexp.A ("ctype" | "resp" | "corr"); Sexp.A s] -> 3 + alen s
  | Sexp.L [Sexp.A "user"; Sexp.A k; Sexp.A v] -> 5 + alen k + alen v
  | Sexp.L [Sexp.A "msgexpiry"; _] -> 5
  | Sexp.L [Sexp.A "subid"; Sexp.A n] -> 1 + varint_len (int_of_string n)
  | Sexp.L [Sexp.A "alias"; _] -> 3
  | _ -> raise (Outside "prop_kind")
let publish_size ver topic_len payload_len qos props =
  let pl = List.fold_left (fun a p -> a + prop_size p) 0 props in
  let rem = 2 + topic_len + (if qos > 0 then 2 else 0) + (if ver = 5 then varint_len pl + pl else 0) + payload_len in
  1 + varint_len rem + rem

let oracle : S_wire.oracle_fn = fun cfg hooks steps _iobs raw ->
  (* counters -> class *)
  let cnt : (string, int) Hashtbl.t = Hashtbl.create 32 in
  let bump k = Hashtbl.replace cnt k (1 + (try Hashtbl.find cnt k with Not_found -> 0)) in
  let keys = ["Df"; "Dn"; "Dx"; "Da"; "Ff"; "Fn"; "Rt"; "Oa"; "Oe"; "Or"; "Om"; "Ib"; "Iu"; "Ir"; "Im"; "V94z"; "V94x"; "V94u"; "V93"; "Rb"; "Rs"; "V95"; "V95x"; "Sb"; "V95n"; "Kf"] in
  (* Df a message was dropped for its size (any); Dn ... 1..4 bytes above the limit; Dx dropped while the aliased form
     would have fitted; Da a message was delivered on a connection after a drop on it; Ff a message was delivered to a
     connection with a declared maximum; Fn ... at most 3 bytes below it; Rt retransmission after reconnect checked;
     Oa outbound alias first use; Oe outbound alias with empty topic resolved; Or outbound alias re-bound to another
     topic; Om outbound alias = client maximum; Ib inbound alias bound; Iu inbound alias used with empty topic and the
     resolved topic seen at a subscriber / accepted; Ir inbound alias re-bound; Im inbound alias = advertised maximum
     accepted; V94z alias 0; V94x alias > maximum; V94u unbound alias; V93 receive maximum exceeded; Rb a QoS>0 publish
     accepted that filled the last free slot; Rs a QoS 2 PUBLISH sent again (DUP) on the same connection; V95 packet too large; V95x ... by exactly one byte; Sb a packet of exactly
     the maximum size accepted; V95n a non-PUBLISH packet too large; Kf a known finding *)
  let cls () = String.concat "" (List.map (fun k -> Printf.sprintf "%s%d" k (if Hashtbl.mem cnt k then 1 else 0)) keys) in
  let kfs : (string * string) list ref = ref [] in
  let kf name why = bump "Kf"; kfs := (name, why) :: !kfs in
  try
    if hooks.h_auth <> None || hooks.h_sub_all <> None || hooks.h_sub <> [] || hooks.h_msg_on || hooks.h_will_on then raise (Outside "hooks");
    if int_of_nat cfg.c_max_queued < 200 then raise (Outside "max_queued");
    if int_of_n cfg.c_max_qos <> 2 then raise (Outside "max_qos");
    if int_of_n cfg.c_max_packet = 0 || int_of_n cfg.c_recv_max = 0 || int_of_n cfg.c_max_inflight = 0 then raise (Outside "invalid_config");
    let max_inflight = int_of_n cfg.c_max_inflight in
    let sess_exp = int_of_n cfg.c_session_expiry in
    let sessions : (string, sess) Hashtbl.t = Hashtbl.create 8 in
    let socks : (int, sock) Hashtbl.t = Hashtbl.create 8 in
    let msgs : (string, msg) Hashtbl.t = Hashtbl.create 16 in
    let refused : (string, unit) Hashtbl.t = Hashtbl.create 4 in
    let find_sess cid = Hashtbl.find_opt sessions cid in
    let sess_of_sock l = match Hashtbl.find_opt socks l with
      | Some k -> (match find_sess k.scid with Some s when s.sock = Some l -> Some s | _ -> None)
      | None -> None in
    let sub_props ver (m : msg) subid = if ver <> 5 then [] else m.fprops @ (match subid with Some n -> [Sexp.L [Sexp.A "subid"; Sexp.A (string_of_int n)]] | None -> []) in
    let plain_size ver (m : msg) eq subid = publish_size ver (alen m.topic) (alen m.payload) eq (sub_props ver m subid) in
    let limit_of l = match Hashtbl.find_opt socks l with Some k when k.sver = 5 -> k.decl_maxpkt | _ -> None in
    let too_big l size = match limit_of l with Some m -> size > m | None -> false in

    List.iteri (fun i (st, rw) ->
        let entries = match rw with Sexp.L (Sexp.A "s" :: es) -> es | _ -> raise (Outside "obs_shape") in
        if List.exists (fun e -> e = Sexp.L [Sexp.A "hang"] || e = Sexp.L [Sexp.A "aborted"]) entries then
          raise (Fail (Printf.sprintf "step %d: the broker did not come to rest (hang) although every client that is still connected stayed within the limits" i));
        (* per socket: packets with sizes, open flag *)
        let obs = List.filter_map (fun e -> match e with
            | Sexp.L [Sexp.A c; Sexp.L (Sexp.A "pkts" :: ps); Sexp.L [Sexp.A "open"; o]; Sexp.L (Sexp.A "sizes" :: zs)] when c <> "sent" ->
              if List.length ps <> List.length zs then raise (Outside "undecodable");
              Some (int_of_string c, List.combine ps (List.map atom_int zs), Sexp.atom o <> "0")
            | Sexp.L [Sexp.A c; Sexp.L (Sexp.A "pkts" :: _); Sexp.L [Sexp.A "open"; _]] when c <> "sent" -> raise (Outside "no_sizes")
            | _ -> None) entries in
        let pkts_of l = match List.find_opt (fun (c', _, _) -> c' = l) obs with Some (_, pk, _) -> List.map fst pk | None -> [] in
        let sent_size = List.fold_left (fun acc e -> match e with Sexp.L [Sexp.A "sent"; _; _; Sexp.A z] -> Some (int_of_string z) | _ -> acc) None entries in
        (* the connection that must be thrown out in this step: label, acceptable codes, what it did *)
        let must_die : (int * int list * string) option ref = ref None in
        let closed_by_script : int option ref = ref None in
        let reconnected : int option ref = ref None in
        let resend : (int * bool) option ref = ref None in

        (match Sexp.list st with
         | Sexp.A "connect" :: l :: ver :: rest ->
           let l = atom_int l and ver = atom_int ver in
           let x = Sexp.L rest in
           if Sexp.field_opt "will" x <> None || Sexp.field_opt "user" x <> None || Sexp.field_opt "pass" x <> None || Sexp.field_opt "connflags" x <> None then raise (Outside "connect_options");
           if (match Sexp.field_opt "keepalive" x with Some [Sexp.A "0"] -> false | _ -> true) then raise (Outside "keepalive");
           let cid = Sexp.atom (Sexp.field1 "cid" x) in
           if cid = "x" then raise (Outside "empty_cid");
           let clean = Sexp.atom (Sexp.field1 "clean" x) <> "0" in
           let ps = Sexp.field "props" x in
           if Hashtbl.mem socks l then raise (Outside "label_reused_while_open");
           Hashtbl.iter (fun _ k -> if k.scid = cid && not k.dead then raise (Outside "take_over")) socks;
           if has_prop "authmethod" ps then raise (Outside "connect_props");
           let decl_maxpkt = if ver = 5 then prop_int "maxpkt" ps else None in
           if decl_maxpkt = Some 0 then raise (Outside "maxpkt_zero");
           let decl_alias = if ver = 5 then (match prop_int "aliasmax" ps with Some a -> a | None -> 0) else 0 in
           let decl_recv = if ver = 5 then (match prop_int "recvmax" ps with Some 0 -> raise (Outside "recvmax_zero") | Some a -> a | None -> 65535) else 65535 in
           let (sp, cps) = (match pkts_of l with
               | Sexp.L [Sexp.A "connack"; sp; Sexp.A "0"; cps] :: _ -> (Sexp.atom sp <> "0", props_list cps)
               | _ -> raise (Outside "connect_refused")) in
           let adv_alias = (match prop_int "aliasmax" cps with Some a -> a | None -> 0) in
           let adv_recv = (match prop_int "recvmax" cps with Some a -> a | None -> 65535) in
           let adv_maxpkt = prop_int "maxpkt" cps in
           if ver = 5 then begin
             if adv_alias <> int_of_n cfg.c_alias_max then raise (Fail (Printf.sprintf "step %d: clause ADV: CONNACK advertises Topic Alias Maximum %d, configured %d" i adv_alias (int_of_n cfg.c_alias_max)));
             if adv_recv <> int_of_n cfg.c_recv_max then raise (Fail (Printf.sprintf "step %d: clause ADV: CONNACK advertises Receive Maximum %d, configured %d" i adv_recv (int_of_n cfg.c_recv_max)));
             if adv_maxpkt <> Some (int_of_n cfg.c_max_packet) then raise (Fail (Printf.sprintf "step %d: clause ADV: CONNACK advertises Maximum Packet Size %s, configured %d" i (match adv_maxpkt with Some v -> string_of_int v | None -> "none") (int_of_n cfg.c_max_packet)))
           end;
           let persistent = sess_exp > 0 && (if ver = 5 then (match prop_int "sei" ps with Some v -> v > 0 | None -> false) else not clean) in
           let w = min max_inflight decl_recv in
           let s = match find_sess cid with
             | Some s when s.subs <> [] || s.pend <> [] || s.out <> [] ->
               if clean then raise (Outside "clean_restart");
               if not sp then raise (Outside "session_lost");
               s
             | _ ->
               let s = { cid; subs = []; pend = []; out = []; w; sock = None; ver; persistent; is_pub = false } in
               Hashtbl.replace sessions cid s; s in
           s.w <- w; s.sock <- Some l; s.ver <- ver; s.persistent <- persistent;
           Hashtbl.replace socks l { sver = ver; scid = cid; adv_alias; adv_recv; adv_maxpkt; decl_maxpkt; decl_alias; dead = false;
                                     in_alias = Hashtbl.create 4; outst = []; out_alias = Hashtbl.create 4; drops = 0; stray_pubrel = false };
           reconnected := Some l
         | [Sexp.A "send"; l; p] ->
           let l = atom_int l in
           (match Hashtbl.find_opt socks l with
            | None -> ()    (* closed by the script earlier: the runner skips the step *)
            | Some k when k.dead -> ()
            | Some k ->
              let sent = match S_wire.sent_of_step rw with Some None -> None | Some (Some p') -> Some p' | None -> Some p in
              let s = match sess_of_sock l with Some s -> s | None -> raise (Outside "send_without_session") in
              (match sent with
               | None -> ()
               | Some p ->
                 let size = match sent_size with Some z -> z | None -> raise (Outside "no_sent_size") in
                 let viol : (int list * string) list ref = ref [] in
                 if k.sver = 5 then begin
                   match k.adv_maxpkt with
                   | Some m when (if mut = "in_size_ge" then size >= m else size > m) ->
                     bump "V95"; if size = m + 1 then bump "V95x";
                     (match p with Sexp.L (Sexp.A "publish" :: _) -> () | _ -> bump "V95n");
                     viol := ([0x95], Printf.sprintf "a packet of %d bytes, Maximum Packet Size %d" size m) :: !viol
                   | Some m when size = m -> bump "Sb"
                   | _ -> ()
                 end;
                 (match Sexp.list p with
                  | [Sexp.A "publish"; dup; qos; ret; topic; payload; pid; ps] ->
                    let ps = props_list ps in
                    if Sexp.atom ret <> "0" then raise (Outside "retain");
                    let is_dup = Sexp.atom dup <> "0" in
                    if s.subs <> [] then raise (Outside "publisher_subscribes");
                    if has_prop "subid" ps then raise (Outside "publish_props");
                    List.iter (fun pr -> match pr with
                        | Sexp.L [Sexp.A "pfmt"; Sexp.A "0"] | Sexp.L [Sexp.A "msgexpiry"; Sexp.A "0"] | Sexp.L [Sexp.A ("ctype" | "resp" | "corr"); Sexp.A "x"] -> raise (Outside "optional_props")
                        | _ -> ignore (prop_size pr)) ps;
                    let q = atom_int qos and pid = atom_int pid in
                    let pl = Sexp.atom payload in
                    if is_dup then begin
                      (* the client sends a QoS 2 PUBLISH again that the broker has not completed: no new message, no new slot *)
                      if not (q = 2 && List.mem pid k.outst && Hashtbl.mem msgs pl && not (has_prop "alias" ps) && k.sver = 5) then raise (Outside "dup");
                      if !viol <> [] then raise (Outside "dup_too_large")
                    end
                    else if Hashtbl.mem msgs pl || Hashtbl.mem refused pl then raise (Outside "payload_not_unique");
                    let ta = Sexp.atom topic in
                    (* Topic Alias *)
                    let real = ref (if ta = "x" then None else Some ta) in
                    let bind = ref None in
                    (match (if k.sver = 5 then prop_int "alias" ps else None) with
                     | Some a ->
                       let amax = if mut = "in_alias_excl" then k.adv_alias - 1 else k.adv_alias in
                       if a = 0 then (bump "V94z"; viol := ([0x94], "Topic Alias 0") :: !viol)
                       else if a > amax then (bump "V94x"; viol := ([0x94], Printf.sprintf "Topic Alias %d, Topic Alias Maximum %d" a k.adv_alias) :: !viol)
                       else if ta = "x" then
                         (match Hashtbl.find_opt k.in_alias a with
                          | Some t -> real := Some t
                          | None -> bump "V94u"; viol := ([0x94; 0x82], Printf.sprintf "Topic Alias %d that is not bound" a) :: !viol)
                       else bind := Some a
                     | None -> if ta = "x" then raise (Outside "empty_topic"));
                    (* Receive Maximum *)
                    if q > 0 && List.mem pid k.outst && not is_dup then raise (Outside "pid_reused");
                    let rmax = if mut = "recv_plus1" then k.adv_recv + 1 else k.adv_recv in
                    if is_dup then begin
                      bump "Rs";
                      resend := Some (l, List.length k.outst >= k.adv_recv)
                    end
                    else if k.sver = 5 && q > 0 && List.length k.outst >= rmax then begin
                      bump "V93";
                      viol := ([0x93], Printf.sprintf "QoS %d PUBLISH number %d without completion, Receive Maximum %d" q (List.length k.outst + 1) k.adv_recv) :: !viol
                    end;
                    if is_dup then ()
                    else if !viol <> [] then begin
                      Hashtbl.replace refused pl ();
                      must_die := Some (l, List.concat_map fst !viol, String.concat " and " (List.map snd !viol))
                    end else begin
                      s.is_pub <- true;
                      if k.sver = 5 && q > 0 && List.length k.outst = k.adv_recv - 1 then bump "Rb";
                      if q > 0 then k.outst <- pid :: k.outst;
                      (match !bind with
                       | Some a ->
                         (match Hashtbl.find_opt k.in_alias a with Some t when t <> ta -> bump "Ir" | _ -> ());
                         if not (mut = "in_no_rebind" && Hashtbl.mem k.in_alias a) then Hashtbl.replace k.in_alias a ta;
                         bump "Ib";
                         if a = k.adv_alias then bump "Im"
                       | None -> ());
                      let t = match !real with Some t -> t | None -> raise (Outside "no_topic") in
                      if ta = "x" then bump "Iu";
                      let ts = String.init (alen t) (fun j -> Char.chr (int_of_n (List.nth (bytes_of_atom t) j))) in
                      if ts = "" || String.contains ts '+' || String.contains ts '#' || ts.[0] = '$' then raise (Outside "topic");
                      let fprops = if k.sver = 5 then List.filter (fun pr -> not (has_prop "alias" [pr])) ps else [] in
                      let m = { payload = pl; topic = t; tbytes = bytes_of_atom t; mqos = q; fprops } in
                      Hashtbl.replace msgs pl m;
                      Hashtbl.iter (fun _ (r : sess) ->
                          match List.filter (fun sb -> topic_match m.tbytes sb.filter) r.subs with
                          | [] -> ()
                          | [sb] ->
                            let eq = min q sb.granted in
                            if eq = 0 && q > 0 && r.sock = None && not cfg.c_queue_qos0 then raise (Outside "qos0_by_downgrade_while_offline")
                            else if eq = 0 && r.sock = None && not cfg.c_queue_qos0 then ()
                            else r.pend <- r.pend @ [{ pm = m; peq = eq; psubid = sb.subid }]
                          | _ -> raise (Outside "overlapping_subs")) sessions
                    end
                  | _ when !viol <> [] ->
                    must_die := Some (l, List.concat_map fst !viol, String.concat " and " (List.map snd !viol))
                  | [Sexp.A "pubrel"; Sexp.A rid; _; _] ->
                    if s.subs <> [] then raise (Outside "subscriber_pubrel");
                    (try if not (List.mem (int_of_string rid) k.outst) then k.stray_pubrel <- true with _ -> ())
                  | Sexp.A "subscribe" :: _ :: sps :: ts ->
                    if s.is_pub then raise (Outside "publisher_subscribes");
                    (match ts with
                     | [Sexp.L [Sexp.A "t"; f; _; _; _; _]] ->
                       let fa = Sexp.atom f in
                       let fb = bytes_of_atom fa in
                       (match fb with
                        | a :: b :: c :: d :: e :: g :: _ when List.map int_of_n [a; b; c; d; e; g] = [36; 115; 104; 97; 114; 101] -> raise (Outside "shared")
                        | _ -> ());
                       (match List.find_opt (fun a -> match a with Sexp.L (Sexp.A "suback" :: _) -> true | _ -> false) (pkts_of l) with
                        | Some (Sexp.L [Sexp.A "suback"; _; Sexp.L [Sexp.A "codes"; Sexp.A code]; _]) ->
                          let code = int_of_string code in
                          s.subs <- List.filter (fun sb -> sb.fatom <> fa) s.subs;
                          if code < 128 then
                            s.subs <- s.subs @ [{ filter = fb; fatom = fa; granted = code; subid = (if k.sver = 5 then prop_int "subid" (props_list sps) else None) }]
                        | _ -> raise (Outside "no_suback"))
                     | _ -> raise (Outside "subscribe_shape"))
                  | Sexp.A "unsubscribe" :: _ :: _ :: ts ->
                    List.iter (fun f -> s.subs <- List.filter (fun sb -> sb.fatom <> Sexp.atom f) s.subs) ts
                  | [Sexp.A (("puback" | "pubrec" | "pubcomp") as kind); pid; code; ps] ->
                    if k.sver = 5 && (atom_int code <> 0 || props_list ps <> []) then raise (Outside "ack_code");
                    let pid = atom_int pid in
                    (match List.find_opt (fun e -> e.pid = pid) s.out with
                     | None -> raise (Outside "odd_ack")
                     | Some e ->
                       let release () = s.out <- List.filter (fun e' -> e' != e) s.out in
                       (match kind with
                        | "puback" when e.eqos = 1 && not e.rel -> release ()
                        | "pubrec" when e.eqos = 2 && not e.rel -> e.rel <- true
                        | "pubcomp" when e.eqos = 2 && e.rel -> release ()
                        | _ -> raise (Outside "odd_ack")))
                  | [Sexp.A "pingreq"] -> ()
                  | _ -> raise (Outside "packet_kind"))))
         | [Sexp.A "close"; l] ->
           let l = atom_int l in
           (match Hashtbl.find_opt socks l with
            | None -> ()
            | Some k ->
              (match sess_of_sock l with
               | Some s ->
                 if List.exists (fun e -> e.rel) s.out then raise (Outside "pubcomp_owed_at_close");
                 s.sock <- None;
                 List.iter (fun e -> e.pid <- -1) s.out;
                 if not s.persistent || k.dead then begin
                   if s.subs <> [] && not s.persistent then raise (Outside "subscriber_session_not_persistent");
                   if s.subs = [] then Hashtbl.remove sessions s.cid
                 end
               | None -> ());
              Hashtbl.remove socks l;
              closed_by_script := Some l)
         | [Sexp.A "inspect"] -> ()
         | _ -> raise (Outside "step_kind"));

        (* ---- what arrived in this step *)
        List.iter (fun (l, pk, opn) ->
            match Hashtbl.find_opt socks l with
            | None -> ()
            | Some k when k.dead -> ()
            | Some k ->
              let s = sess_of_sock l in
              let firsts = ref [] in
              let dying = (match !must_die with Some (l', _, _) when l' = l -> true | _ -> false) in
              let got_disc = ref None in
              List.iter (fun (p, size) ->
                  (* O1 for everything but PUBLISH (which needs a closer look) *)
                  (match p with
                   | Sexp.L (Sexp.A "publish" :: _) -> ()
                   | Sexp.L (Sexp.A "connack" :: _) when too_big l size ->
                     kf "kf_connack_exceeds_client_max_packet_size"
                       (Printf.sprintf "step %d: CONNACK of %d bytes sent to socket %d which declared Maximum Packet Size %d" i size l (match limit_of l with Some m -> m | None -> 0))
                   | Sexp.L (Sexp.A kind :: _) when too_big l size ->
                     raise (Fail (Printf.sprintf "step %d: clause O1: %s of %d bytes sent to socket %d which declared Maximum Packet Size %d" i kind size l (match limit_of l with Some m -> m | None -> 0)))
                   | _ -> ());
                  match p with
                  | Sexp.L [Sexp.A "publish"; dup; qos; _; topic; payload; pid; ps] ->
                    let pl = Sexp.atom payload and ta = Sexp.atom topic and ps = props_list ps in
                    let q = atom_int qos in
                    if Hashtbl.mem refused pl then raise (Outside "refused_publish_forwarded");
                    let m = match Hashtbl.find_opt msgs pl with Some m -> m | None -> raise (Fail (Printf.sprintf "step %d: socket %d receives an unknown message %s" i l pl)) in
                    let sz = publish_size k.sver (alen ta) (alen pl) q ps in
                    if sz <> size then raise (Fail (Printf.sprintf "step %d: internal: size of the PUBLISH %s computed %d, on the wire %d" i (short pl) sz size));
                    (* O4: outbound alias *)
                    let alias = prop_int "alias" ps in
                    (match alias with
                     | Some a ->
                       let amax = if mut = "out_alias_minus1" then k.decl_alias - 1 else k.decl_alias in
                       if a < 1 || a > amax then
                         raise (Fail (Printf.sprintf "step %d: clause O4: PUBLISH %s to socket %d uses Topic Alias %d, the client's Topic Alias Maximum is %d" i (short pl) l a k.decl_alias));
                       if a = k.decl_alias then bump "Om"
                     | None -> ());
                    let real = (match alias, ta with
                        | Some a, "x" ->
                          (match Hashtbl.find_opt k.out_alias a with
                           | Some t -> bump "Oe"; t
                           | None -> raise (Fail (Printf.sprintf "step %d: clause O4: PUBLISH %s to socket %d has an empty topic and Topic Alias %d which is not bound on this connection" i (short pl) l a)))
                        | None, "x" -> raise (Fail (Printf.sprintf "step %d: clause O4: PUBLISH %s to socket %d has an empty topic and no alias" i (short pl) l))
                        | Some a, t ->
                          (match Hashtbl.find_opt k.out_alias a with Some t' when t' <> t -> bump "Or" | _ -> ());
                          if mut <> "out_no_bind" then Hashtbl.replace k.out_alias a t; bump "Oa"; t
                        | None, t -> t) in
                    if real <> m.topic then
                      raise (Fail (Printf.sprintf "step %d: clause O4/L: %s reaches socket %d under topic %s (alias %s), it was published to %s" i (short pl) l real
                                     (match alias with Some a -> string_of_int a | None -> "none") m.topic));
                    (* O1 *)
                    let plain = publish_size k.sver (alen real) (alen pl) q (List.filter (fun pr -> not (has_prop "alias" [pr])) ps) in
                    (match limit_of l with
                     | Some mx when (if mut = "out_size_ge" then size >= mx else size > mx) ->
                       if alias <> None && plain <= mx then
                         kf "kf_alias_pushes_over_max_size"
                           (Printf.sprintf "step %d: PUBLISH %s to socket %d is %d bytes, Maximum Packet Size %d; without the Topic Alias property it would be %d" i (short pl) l size mx plain)
                       else if Sexp.atom dup <> "0" then
                         kf "kf_retransmission_exceeds_max_packet_size"
                           (Printf.sprintf "step %d: retransmitted PUBLISH %s to socket %d is %d bytes, Maximum Packet Size %d declared on this connection" i (short pl) l size mx)
                       else
                         raise (Fail (Printf.sprintf "step %d: clause O1: PUBLISH %s of %d bytes sent to socket %d which declared Maximum Packet Size %d" i (short pl) size l mx))
                     | Some mx -> bump "Ff"; if mx - plain <= 3 && plain <= mx then bump "Fn"
                     | None -> ());
                    (match s with
                     | Some s when s.subs <> [] || s.out <> [] ->
                       if Sexp.atom dup <> "0" then begin
                         match List.find_opt (fun e -> e.em.payload = pl && not e.rel && e.pid = -1) s.out with
                         | None -> raise (Fail (Printf.sprintf "step %d: %s receives a DUP publish %s that is not in flight" i s.cid (short pl)))
                         | Some e -> e.pid <- atom_int pid; bump "Rt"
                       end else begin
                         if List.mem_assoc pl !firsts then raise (Fail (Printf.sprintf "step %d: %s receives %s twice" i s.cid (short pl)));
                         firsts := !firsts @ [(pl, (q, atom_int pid, plain))]
                       end
                     | _ -> raise (Fail (Printf.sprintf "step %d: socket %d (%s) has no subscription but receives %s" i l k.scid (short pl))))
                  | Sexp.L [Sexp.A "disconnect"; Sexp.A code; _] -> got_disc := Some (int_of_string code)
                  | Sexp.L [Sexp.A ("puback" | "pubcomp"); Sexp.A pid; _; _] -> k.outst <- List.filter (fun x -> x <> int_of_string pid) k.outst
                  | Sexp.L [Sexp.A "pubrec"; Sexp.A pid; Sexp.A code; _] when int_of_string code >= 128 -> k.outst <- List.filter (fun x -> x <> int_of_string pid) k.outst
                  | _ -> ()) pk;
              (* I / N *)
              (match !must_die with
               | Some (l', codes, what) when l' = l ->
                 (match !got_disc with
                  | Some c when List.mem c codes -> ()
                  | Some c -> raise (Fail (Printf.sprintf "step %d: clause I: socket %d sent %s: expected DISCONNECT %s, got DISCONNECT 0x%02x" i l what (String.concat "/" (List.map (Printf.sprintf "0x%02x") codes)) c))
                  | None when opn && codes = [0x93] && k.stray_pubrel ->
                    (* known finding: the PUBCOMP answering a PUBREL gives a unit of the receive quota back even when the
                       packet id was not open, so the client can then hold more than Receive Maximum publishes *)
                    kf "kf_unknown_pubrel_refunds_quota"
                      (Printf.sprintf "step %d: socket %d sent %s after a PUBREL for an id that was not open: expected DISCONNECT 0x93, got none" i l what);
                    raise (Outside "after_stray_pubrel_refund")
                  | None -> raise (Fail (Printf.sprintf "step %d: clause I: socket %d sent %s: expected DISCONNECT %s, got none (connection %s)" i l what (String.concat "/" (List.map (Printf.sprintf "0x%02x") codes)) (if opn then "open" else "closed"))));
                 if opn then raise (Fail (Printf.sprintf "step %d: clause I: socket %d sent %s and got DISCONNECT but the connection is still open" i l what));
                 k.dead <- true;
                 (match s with Some s -> s.sock <- None; List.iter (fun e -> e.pid <- -1) s.out | None -> ())
               | _ ->
                 (match !got_disc with
                  | Some 0x93 when !resend = Some (l, true) ->
                    kf "kf_resend_at_full_quota_disconnected"
                      (Printf.sprintf "step %d: socket %d sent a QoS 2 PUBLISH again (DUP) while %d of %d publishes were open, and got DISCONNECT 0x93" i l (List.length k.outst) k.adv_recv);
                    k.dead <- true;
                    (match s with Some s -> s.sock <- None | None -> ())
                  | Some c -> raise (Fail (Printf.sprintf "step %d: clause N: socket %d (%s) stayed within the advertised limits and got DISCONNECT 0x%02x" i l k.scid c))
                  | None -> ());
                 if not opn && not k.dead then raise (Fail (Printf.sprintf "step %d: clause N: socket %d (%s) stayed within the advertised limits and was closed by the broker" i l k.scid)));
              ignore dying;
              (* L / O2: what a subscriber with an attached connection must have got by the end of this step *)
              (match s with
               | Some s when (s.subs <> [] || s.pend <> [] || s.out <> []) && not k.dead ->
                 (* an in-flight message that was not sent again on the new connection because it no longer fits *)
                 if !reconnected = Some l then
                   s.out <- List.filter (fun e -> not (e.pid = -1 && not e.rel && too_big l (plain_size s.ver e.em e.eqos None))) s.out;
                 let avail = ref !firsts in
                 let rec loop () =
                   if List.length s.out >= s.w then ()
                   else match s.pend with
                     | [] -> ()
                     | pi :: rest ->
                       let want = plain_size s.ver pi.pm pi.peq pi.psubid in
                       (match List.assoc_opt pi.pm.payload !avail with
                        | Some (q, pid, plain) ->
                          avail := List.remove_assoc pi.pm.payload !avail;
                          s.pend <- rest;
                          if q <> pi.peq then raise (Outside "qos_differs");
                          if plain <> want then
                            raise (Fail (Printf.sprintf "step %d: internal: %s to %s: expected a PUBLISH of %d bytes (without alias), got one of %d" i (short pi.pm.payload) s.cid want plain));
                          if k.drops > 0 then bump "Da";
                          if q > 0 then s.out <- s.out @ [{ em = pi.pm; pid; rel = false; eqos = q; esubid = pi.psubid }];
                          loop ()
                        | None ->
                          let lim = if mut = "drop_late" then (match limit_of l with Some m -> Some (m + 1) | None -> None) else limit_of l in
                          (match lim with
                           | Some mx when want > mx ->
                             s.pend <- rest;
                             k.drops <- k.drops + 1;
                             bump "Df"; if want - mx <= 4 then bump "Dn";
                             if k.decl_alias > 0 && want - alen pi.pm.topic + 3 <= mx then bump "Dx";
                             loop ()
                           | _ ->
                             raise (Fail (Printf.sprintf "step %d: clause L: %s (a PUBLISH of %d bytes, Maximum Packet Size %s) not delivered to %s although %d of %d in flight"
                                            i (short pi.pm.payload) want (match limit_of l with Some m -> string_of_int m | None -> "none") s.cid (List.length s.out) s.w)))) in
                 loop ();
                 List.iter (fun (pl, _) ->
                     if List.exists (fun pi -> pi.pm.payload = pl) s.pend then
                       raise (Fail (Printf.sprintf "step %d: %s delivered to %s out of turn (window %d, in flight %d)" i (short pl) s.cid s.w (List.length s.out)))
                     else raise (Fail (Printf.sprintf "step %d: %s receives %s which is not waiting for it" i s.cid (short pl)))) !avail
               | _ -> ())) obs;
        (* a connection that had to be thrown out but is not even listed *)
        (match !must_die with
         | Some (l, _, what) when not (List.exists (fun (l', _, _) -> l' = l) obs) -> raise (Fail (Printf.sprintf "step %d: socket %d sent %s but is not observed" i l what))
         | _ -> ());
        ignore closed_by_script)
      (List.combine steps raw);
    last_cls := cls ();
    let rank = ["kf_unknown_pubrel_refunds_quota"; "kf_resend_at_full_quota_disconnected"; "kf_retransmission_exceeds_max_packet_size"; "kf_alias_pushes_over_max_size"; "kf_connack_exceeds_client_max_packet_size"] in
    (match List.rev !kfs with
     | [] -> (true, "-", "")
     | l ->
       let name = List.find (fun n -> List.mem_assoc n l) rank in
       let names = List.sort_uniq compare (List.map fst l) in
       (false, name, List.assoc name l ^ (if List.length names > 1 then " [also: " ^ String.concat "," (List.filter (fun n -> n <> name) names) ^ "]" else "")))
  with
  | Outside why when !kfs <> [] ->
    (* the walk stopped after a known finding was met: report it *)
    last_cls := cls ();
    let l = List.rev !kfs in
    let name = fst (List.hd l) in
    ignore why; (false, name, List.assoc name l)
  | Outside why -> last_cls := "outside_" ^ why; (true, "-", "")
  | Fail why -> last_cls := cls (); (false, "-", why)

let run input impl =
  last_cls := "-";
  (* an observation that ends in (hang) / (aborted) steps or in a harness error cannot always be replayed by the glue
     (unresolved symbolic packet ids): it is a failure of clause N all the same, not an evaluation error *)
  let rec mentions a x = match x with Sexp.A b -> a = b | Sexp.L l -> List.exists (mentions a) l in
  match (try Stdlib.Ok (S_wire.run_with oracle input impl) with e -> Stdlib.Error e) with
  | Stdlib.Ok v -> if String.length v.Verdict.cls >= 11 && String.sub v.Verdict.cls 0 11 = "unsupported" then v else { v with Verdict.cls = !last_cls }
  | Stdlib.Error e ->
    if mentions "hang" impl || mentions "harness_panic" impl || mentions "harness_error" impl then
      { Verdict.agree = false; oracle = false; kf = "-"; nontrivial = false; cls = "hang"; model = Sexp.A "not_evaluated";
        why = "the broker did not come to rest (hang) or the harness gave up; " ^ Printexc.to_string e }
    else raise e
