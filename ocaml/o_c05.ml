(* Oracle for property C05 - session life cycle: resume iff it should, one connection per client id.

   Written from the statement. It walks the scenario and the packets the IMPLEMENTATION sent and keeps, per
   client id, the session the statement says must exist: subscriptions (as confirmed by SUBACK/UNSUBACK),
   the QoS>0 messages that were routed to the session and are not completely acknowledged, the expiry
   interval (v3: 0 for clean, the configured one otherwise; v5: min(requested, configured), replaced by a
   DISCONNECT that carries one), the socket it is attached to, and the (virtual) time its last network
   connection ended.  The end of a network connection is the moment the socket is observed closed.

   Decided clauses
     sp        CONNACK Session Present = (Clean Start 0 and the session exists and is not ended by clean
               start / TerminateSession / expiry (elapsed > interval, interval 0 = ends with the connection))
     sei       v5 CONNACK announces min(requested, configured) as Session Expiry Interval
     resume    on a resumed session every incompletely acknowledged QoS>0 message comes again on the new
               connection in the CONNECT step: transmitted-before ones with DUP 1 and their old packet id,
               never transmitted ones with DUP 0, PUBREC'ed ones as PUBREL with the old id; nothing else
               (QoS 0 messages routed while the client was away may or may not come; a message routed while
               the session was attached to a socket whose client had already sent DISCONNECT may carry either
               DUP value: the broker "attempted" to send it there, and DUP is not part of the statement)
     subs      later publishes are delivered to the resumed session exactly according to its subscriptions
     fresh     a session that is not resumed starts empty: nothing is delivered in the CONNECT step and
               nothing later that its own new subscriptions do not explain
     takeover  a CONNECT for a client id that is attached to another open socket: that socket is closed by
               the end of the step, receives nothing in that step (but DISCONNECT 0x8E) and nothing ever after
     terminate TerminateSession closes the attached connection and ends the session

   Not decided: simultaneous CONNECTs (the runner is sequential), anything about wills, retained messages,
   shared subscriptions, flow control; an interval of 0xFFFFFFFF that "elapsed" (MQTT: never expires) gives
   outside_never_expires.

   Known finding kf_disconnect_sei_uncapped: a Session Expiry Interval in DISCONNECT that is larger than the
   configured maximum is taken as it is (the one in CONNECT is capped); returned only when the observed
   Session Present is exactly what the uncapped interval predicts and differs from the capped prediction.

   Scenarios outside the family of harness/w_c05.go give (true, "-", "") with class outside_<why>; otherwise
   the class is c05_<letters>, one letter per clause instance the scenario exercised (see `tag`).
   C05_MUTANT=1..8 in the environment breaks the oracle on purpose (mutation testing of the oracle itself). *)
open Conv

exception Outside of string
exception Fail of string * string      (* known finding or "-", explanation *)

type est = Queued | Limbo | Sent of int * int | Rec of int * int      (* socket, packet id; Limbo: routed while the session was attached to a socket whose client had sent DISCONNECT *)
type entry = { topic : string; payload : string; qos : int; mutable st : est }
type sub = { sq : int; nl : bool; born : int }
type sess = { mutable subs : (string * sub) list; mutable out : entry list; mutable may0 : (string * string) list;
              mutable e : int; mutable e_unc : int; mutable att : int option; mutable off_since : int;
              mutable ghost : string list; mutable conn_at : int }
type sock = { cid : string; ver : int; mutable sopen : bool; mutable live : bool }

let last_cls = ref ""
let mutant = match Sys.getenv_opt "C05_MUTANT" with Some s -> (try int_of_string s with _ -> 0) | None -> 0

let a = function Sexp.A s -> s | Sexp.L _ -> raise (Outside "atom")
let ios x = try int_of_string (a x) with Failure _ -> raise (Outside "int")
let u32max = 4294967295
let margin_ms = 150

let matches topic filter = Model.topic_match (bytes_of_atom topic) (bytes_of_atom filter)
let starts_with s p = String.length s >= String.length p && String.sub s 0 (String.length p) = p
let share_prefix = "x2473686172652f"   (* $share/ *)

let oracle : S_wire.oracle_fn = fun cfg hooks steps iobs raw ->
  let tags = Hashtbl.create 16 in
  let tag t = Hashtbl.replace tags t () in
  let cls () = "c05_" ^ String.concat "" (List.sort compare (Hashtbl.fold (fun k () acc -> k :: acc) tags [])) in
  try
    (* ---------------- family: configuration *)
    if hooks <> Model.no_hooks then raise (Outside "hooks");
    let cfg_exp = int_of_n cfg.Model.c_session_expiry in
    let window = int_of_n cfg.Model.c_max_inflight in
    if int_of_n cfg.Model.c_message_expiry <> 0 then raise (Outside "message_expiry");
    if window < 32 || int_of_nat cfg.Model.c_max_queued < 100 || int_of_n cfg.Model.c_recv_max < 32 then raise (Outside "limits");
    if int_of_n cfg.Model.c_max_qos <> 2 || not cfg.Model.c_wildcard || int_of_n cfg.Model.c_max_packet < 1000 then raise (Outside "cfg");
    let onlyonce = cfg.Model.c_onlyonce in
    let socks : (int, sock) Hashtbl.t = Hashtbl.create 16 in
    let sessions : (string, sess) Hashtbl.t = Hashtbl.create 8 in
    let clock = ref 0 in
    let grave : (string, string) Hashtbl.t = Hashtbl.create 8 in      (* how the last session of a client id ended (coverage only) *)
    let sock c = match Hashtbl.find_opt socks c with Some s -> s | None -> raise (Outside "unknown_socket") in
    let is_live c = match Hashtbl.find_opt socks c with Some s -> s.live && s.sopen | None -> false in
    (* the session's network connection ended now *)
    let on_close c =
      let s = sock c in
      s.sopen <- false; s.live <- false;
      match Hashtbl.find_opt sessions s.cid with
      | Some ss when ss.att = Some c ->
        ss.att <- None;
        if ss.e = 0 then (Hashtbl.remove sessions s.cid; Hashtbl.replace grave s.cid "z") else ss.off_since <- (if mutant = 5 then ss.conn_at else !clock)
      | _ -> () in
    List.iteri (fun i ((step, obs), rawstep) ->
        let where = Printf.sprintf "step %d %s: " i (let s = Sexp.to_string step in if String.length s > 70 then String.sub s 0 70 else s) in
        (match rawstep with
         | Sexp.L (Sexp.A "s" :: es) ->
           if List.exists (fun e -> match e with Sexp.L [Sexp.A ("hang" | "aborted")] -> true | _ -> false) es then
             raise (Fail ("-", where ^ "the broker hung"))
         | _ -> ());
        let pkts c = match List.find_opt (fun (c', _, _) -> c' = c) obs with Some (_, p, _) -> p | None -> [] in
        let obs_open c = match List.find_opt (fun (c', _, _) -> c' = c) obs with Some (_, _, o) -> o | None -> false in
        (* expectations of this step *)
        let must : (int * (bool option * int * string * string) * entry option) list ref = ref [] in
        let may : (int * (bool * int * string * string)) list ref = ref [] in
        let rels : (int * int) list ref = ref [] in
        let may_close : int list ref = ref [] in
        let context = ref "subs" in
        let route topic payload qos src =
          Hashtbl.iter (fun cid ss ->
              let ms = List.filter (fun (f, sb) -> matches topic f && not (sb.nl && src = Some cid)) ss.subs in
              let copies =
                if ms = [] then []
                else if onlyonce then [List.fold_left (fun acc (_, sb) -> max acc (min qos sb.sq)) 0 ms]
                else List.map (fun (_, sb) -> min qos sb.sq) ms in
              let live = match ss.att with Some c -> is_live c | None -> false in
              if live && ms = [] && List.exists (fun f -> matches topic f) ss.ghost then tag "f";
              if live && List.exists (fun (_, sb) -> Some sb.born <> ss.att) ms then tag "s";
              List.iter (fun q ->
                  if q = 0 then begin
                    match ss.att with
                    | Some c when live -> must := (c, (Some false, 0, topic, payload), None) :: !must
                    | _ -> ss.may0 <- (topic, payload) :: ss.may0
                  end else begin
                    let en = { topic; payload; qos = q; st = (if ss.att <> None && not live then Limbo else Queued) } in
                    ss.out <- ss.out @ [en];
                    if List.length ss.out > window - 2 then raise (Outside "window");
                    match ss.att with
                    | Some c when live -> must := (c, (Some false, q, topic, payload), Some en) :: !must
                    | _ -> ()
                  end) copies) sessions in
        let code_of c kind pid =
          List.find_map (fun p -> match p with
              | Sexp.L [Sexp.A k; p'; code; _] when k = kind && ios p' = pid -> Some (ios code)
              | _ -> None) (pkts c) in
        (match Sexp.list step with
         | Sexp.A "connect" :: c :: ver :: rest ->
           let c = ios c and ver = ios ver in
           let x = Sexp.L rest in
           if Hashtbl.mem socks c then raise (Outside "label_reused");
           if Sexp.field_opt "will" x <> None || Sexp.field_opt "user" x <> None || Sexp.field_opt "pass" x <> None
              || Sexp.field_opt "connflags" x <> None then raise (Outside "connect_options");
           if S_wire.field_n "keepalive" x (n_of_int 0) <> n_of_int 0 then raise (Outside "keepalive");
           let cid = a (Sexp.field1 "cid" x) in
           if cid = "x" then raise (Outside "empty_cid");
           let clean = bool_of_sx (Sexp.field1 "clean" x) in
           let props = Sexp.field "props" x in
           let req = ref None in
           List.iter (fun p -> match p with
               | Sexp.L [Sexp.A "sei"; n] -> req := Some (ios n)
               | _ -> raise (Outside "connect_props")) props;
           if ver <> 3 && ver <> 4 && ver <> 5 then raise (Outside "version");
           (* one connection per client id *)
           let took_over = ref false in
           (match Hashtbl.find_opt sessions cid with
            | Some ss ->
              (match ss.att with
               | Some o ->
                 took_over := true;
                 if (sock o).live then tag "k" else tag "d";
                 if obs_open o then raise (Fail ("-", where ^ Printf.sprintf "takeover: socket %d still holds client id %s and is open after the newer CONNECT was handled" o cid));
                 if pkts o <> [] then raise (Fail ("-", where ^ Printf.sprintf "takeover: displaced socket %d received %s" o (Sexp.to_string (Sexp.L (pkts o)))));
                 on_close o
               | None -> ())
            | None -> ());
           (* does a session exist that has not ended? *)
           let verdict e_of =
             match Hashtbl.find_opt sessions cid with
             | None -> `Gone
             | Some ss ->
               let e = e_of ss in
               let elapsed = !clock - ss.off_since in
               if mutant = 1 then `Alive
               else if e = 0 then `Gone
               else if elapsed > e * 1000 then (if e = u32max then `Unknown else `Gone)
               else if e * 1000 - elapsed <= margin_ms then `Unknown
               else `Alive in
           let v = verdict (fun ss -> ss.e) and v_unc = verdict (fun ss -> ss.e_unc) in
           if v = `Unknown then raise (Outside (match Hashtbl.find_opt sessions cid with Some ss when ss.e = u32max -> "never_expires" | _ -> "expiry_boundary"));
           let resume = (v = `Alive) && (not clean || mutant = 2) in
           (match Hashtbl.find_opt sessions cid with
            | None -> if not clean then tag (match Hashtbl.find_opt grave cid with Some g -> g | None -> "n")
            | Some ss ->
              let elapsed = !clock - ss.off_since in
              if clean then tag "c"
              else if v = `Alive then (tag "r"; if elapsed > 0 && not !took_over then tag "b")
              else if ss.e = 0 then tag "z" else tag "x");
           (* CONNACK *)
           let sp, cprops = match pkts c with
             | Sexp.L [Sexp.A "connack"; sp; code; Sexp.L (Sexp.A "props" :: ps)] :: _ ->
               if ios code <> 0 then raise (Fail ("-", where ^ "connack: a well-formed CONNECT was refused with code " ^ a code));
               (bool_of_sx sp, ps)
             | _ -> raise (Fail ("-", where ^ "connack: no CONNACK as first packet on socket " ^ string_of_int c)) in
           if sp <> resume then begin
             let resume_unc = (v_unc = `Alive) && not clean in
             let kf = if v_unc <> `Unknown && resume_unc = sp && v_unc <> v then "kf_disconnect_sei_uncapped" else "-" in
             raise (Fail (kf, where ^ Printf.sprintf "sp: Session Present %d, expected %d (clean %d; session %s%s)" (if sp then 1 else 0) (if resume then 1 else 0)
                            (if clean then 1 else 0)
                            (match Hashtbl.find_opt sessions cid with
                             | None -> "does not exist"
                             | Some ss -> Printf.sprintf "offline for %d ms with expiry interval %d s" (!clock - ss.off_since) ss.e)
                            (if kf <> "-" then "; the DISCONNECT interval exceeds the configured maximum and was not capped" else "")))
           end;
           let eff = if ver < 5 then (if clean then 0 else cfg_exp) else min (match !req with Some r -> r | None -> 0) cfg_exp in
           let eff = if mutant = 3 && ver = 5 then (match !req with Some r -> r | None -> 0) else eff in
           if ver = 5 then begin
             match List.find_map (fun p -> match p with Sexp.L [Sexp.A "sei"; n] -> Some (ios n) | _ -> None) cprops with
             | Some n -> if n <> eff then raise (Fail ("-", where ^ Printf.sprintf "sei: CONNACK announces Session Expiry Interval %d, expected min(requested, configured) = %d" n eff))
             | None -> if Some eff <> !req && not (eff = 0 && !req = None) then raise (Fail ("-", where ^ Printf.sprintf "sei: CONNACK without Session Expiry Interval although %d is used instead of the requested one" eff))
           end;
           let ss =
             if resume then Hashtbl.find sessions cid
             else begin
               let ghost, had = match Hashtbl.find_opt sessions cid with
                 | Some old -> (List.map fst old.subs, old.out <> [])
                 | None -> ([], false) in
               if had then tag "e";
               let ss = { subs = []; out = []; may0 = []; e = 0; e_unc = 0; att = None; off_since = 0; ghost; conn_at = 0 } in
               Hashtbl.replace sessions cid ss; ss
             end in
           ss.e <- eff; ss.e_unc <- eff; ss.att <- Some c; ss.conn_at <- !clock;
           if resume && mutant = 7 then ss.subs <- [];
           Hashtbl.replace socks c { cid; ver; sopen = true; live = true };
           context := if resume then "resume" else "fresh";
           if resume then begin
             List.iter (fun en -> match en.st with
                 | Sent (_, _) -> tag "i"; must := (c, (Some (mutant <> 4), en.qos, en.topic, en.payload), Some en) :: !must
                 | Queued when mutant = 6 -> ()
                 | Queued -> tag "q"; must := (c, (Some false, en.qos, en.topic, en.payload), Some en) :: !must
                 | Limbo -> tag "m"; must := (c, (None, en.qos, en.topic, en.payload), Some en) :: !must
                 | Rec (_, pid) -> tag "l"; rels := (c, pid) :: !rels; en.st <- Rec (c, pid)) ss.out;
             List.iter (fun (t, p) -> may := (c, (false, 0, t, p)) :: !may) ss.may0
           end;
           ss.may0 <- []
         | [Sexp.A "send"; c; p] ->
           let c = ios c in
           (match S_wire.sent_of_step rawstep with
            | Some None -> ()                       (* (skipped): nothing was sent *)
            | sent ->
              let p = match sent with Some (Some p') -> p' | _ -> p in
              let s = sock c in
              if not (s.live && s.sopen) then raise (Outside "send_on_dead_socket");
              let ss = match Hashtbl.find_opt sessions s.cid with Some ss when ss.att = Some c -> ss | _ -> raise (Outside "send_without_session") in
              (match Sexp.list p with
               | Sexp.A "subscribe" :: pid :: Sexp.L (Sexp.A "props" :: sps) :: ts ->
                 List.iter (fun pr -> match pr with Sexp.L (Sexp.A ("subid" | "user") :: _) -> () | _ -> raise (Outside "subscribe_props")) sps;
                 let codes = List.find_map (fun q -> match q with
                     | Sexp.L [Sexp.A "suback"; pid'; Sexp.L (Sexp.A "codes" :: cs); _] when ios pid' = ios pid -> Some (List.map ios cs)
                     | _ -> None) (pkts c) in
                 (match codes with
                  | None -> raise (Outside "no_suback")
                  | Some cs ->
                    if List.length cs <> List.length ts then raise (Outside "suback_length");
                    List.iter2 (fun t code -> match Sexp.list t with
                        | [Sexp.A "t"; f; _; nl; _; _] ->
                          let f = a f in
                          if starts_with f share_prefix then raise (Outside "shared");
                          if code > 2 then raise (Outside "suback_failure");
                          ss.subs <- (f, { sq = code; nl = bool_of_sx nl && s.ver = 5; born = c }) :: List.remove_assoc f ss.subs
                        | _ -> raise (Outside "topic_req")) ts cs)
               | Sexp.A "unsubscribe" :: pid :: _ :: fs ->
                 if not (List.exists (fun q -> match q with Sexp.L (Sexp.A "unsuback" :: pid' :: _) -> ios pid' = ios pid | _ -> false) (pkts c)) then raise (Outside "no_unsuback");
                 List.iter (fun f -> ss.subs <- List.remove_assoc (a f) ss.subs) fs
               | [Sexp.A "publish"; _; q; r; t; pl; pid; Sexp.L (Sexp.A "props" :: pps)] ->
                 if bool_of_sx r then raise (Outside "retain");
                 if pps <> [] then raise (Outside "publish_props");
                 let q = ios q in
                 (match q with
                  | 1 -> (match code_of c "puback" (ios pid) with Some code when code < 128 -> () | _ -> raise (Outside "publish_not_accepted"))
                  | 2 -> (match code_of c "pubrec" (ios pid) with Some code when code < 128 -> () | _ -> raise (Outside "publish_not_accepted"))
                  | _ -> ());
                 route (a t) (a pl) q (Some s.cid)
               | [Sexp.A "pubrel"; _; _; _] -> ()
               | [Sexp.A "puback"; pid; code; _] ->
                 if ios code <> 0 then raise (Outside "ack_code");
                 (match List.find_opt (fun en -> en.st = Sent (c, ios pid)) ss.out with
                  | Some en when en.qos = 1 -> ss.out <- List.filter (fun e' -> e' != en) ss.out
                  | _ -> raise (Outside "ack_mismatch"))
               | [Sexp.A "pubrec"; pid; code; _] ->
                 if ios code <> 0 then raise (Outside "ack_code");
                 (match List.find_opt (fun en -> en.st = Sent (c, ios pid)) ss.out with
                  | Some en when en.qos = 2 -> en.st <- Rec (c, ios pid)
                  | _ -> raise (Outside "ack_mismatch"))
               | [Sexp.A "pubcomp"; pid; code; _] ->
                 if ios code <> 0 then raise (Outside "ack_code");
                 (match List.find_opt (fun en -> en.st = Rec (c, ios pid)) ss.out with
                  | Some en -> ss.out <- List.filter (fun e' -> e' != en) ss.out
                  | None -> raise (Outside "ack_mismatch"))
               | [Sexp.A "pingreq"] -> ()
               | [Sexp.A "disconnect"; code; Sexp.L (Sexp.A "props" :: dps)] ->
                 if ios code <> 0 then raise (Outside "disconnect_code");
                 s.live <- false;
                 List.iter (fun pr -> match pr with
                     | Sexp.L [Sexp.A "sei"; n] when s.ver = 5 ->
                       let n = ios n in
                       if ss.e = 0 && n <> 0 then (tag "p"; may_close := c :: !may_close)   (* protocol error: interval stays 0 *)
                       else begin
                         tag "u";
                         ss.e <- min n cfg_exp; ss.e_unc <- n
                       end
                     | Sexp.L [Sexp.A "sei"; _] -> ()
                     | _ -> raise (Outside "disconnect_props")) dps
               | _ -> raise (Outside "packet")))
         | [Sexp.A "close"; c] ->
           let c = ios c in
           if Hashtbl.mem socks c then may_close := c :: !may_close
         | [Sexp.A "api_publish"; m] ->
           (match Sexp.list m with
            | [Sexp.A "m"; _; q; r; t; pl; _; _; _; ex; _; _; _; _] ->
              if bool_of_sx r then raise (Outside "retain");
              if ios ex <> 0 then raise (Outside "message_expiry");
              route (a t) (a pl) (ios q) None
            | _ -> raise (Outside "msg"))
         | [Sexp.A "terminate"; cid] ->
           let cid = a cid in
           (match Hashtbl.find_opt sessions cid with
            | Some ss ->
              tag "t";
              (match ss.att with
               | Some o ->
                 if obs_open o then raise (Fail ("-", where ^ Printf.sprintf "terminate: socket %d of the terminated session is still open" o));
                 on_close o
               | None -> ());
              if mutant <> 8 then Hashtbl.remove sessions cid; Hashtbl.replace grave cid "T"
            | None -> ())
         | [Sexp.A "advance"; ms] -> clock := !clock + ios ms
         | [Sexp.A "expire_check"] | [Sexp.A "inspect"] -> ()
         | _ -> raise (Outside "step"));
        (* ---- what every socket received in this step against the expectation *)
        List.iter (fun (c, ps, _) ->
            List.iter (fun p -> match p with
                | Sexp.L [Sexp.A "publish"; d; q; _; t; pl; pid; _] ->
                  let key = (bool_of_sx d, ios q, a t, a pl) and pid = ios pid in
                  let cands = List.filter (fun (c', (d', q', t', p'), _) -> c' = c && (q', t', p') = (ios q, a t, a pl) && (d' = None || d' = Some (bool_of_sx d))) !must in
                  (* prefer the entry that had this packet id before *)
                  let pick = match List.find_opt (fun (_, _, en) -> match en with Some { st = Sent (_, old); _ } -> old = pid | _ -> false) cands with
                    | Some x -> Some x | None -> (match cands with x :: _ -> Some x | [] -> None) in
                  (match pick with
                   | Some ((_, _, en) as x) ->
                     must := List.filter (fun y -> y != x) !must;
                     (match en with
                      | Some en ->
                        (match en.st with
                         | Sent (_, old) when old <> pid ->
                           raise (Fail ("-", where ^ Printf.sprintf "%s: socket %d: %s|%s retransmitted with packet id %d, was %d" !context c (a t) (a pl) pid old))
                         | _ -> ());
                        en.st <- Sent (c, pid)
                      | None -> ())
                   | None ->
                     if List.mem (c, key) !may then
                       may := (let rec rm = function [] -> [] | y :: r -> if y = (c, key) then r else y :: rm r in rm !may)
                     else
                       raise (Fail ("-", where ^ Printf.sprintf "%s: socket %d (client %s) received an unexpected %s; still expected there: [%s]" !context c
                                      (match Hashtbl.find_opt socks c with Some s -> s.cid | None -> "?")
                                      (Sexp.to_string p)
                                      (String.concat " " (List.filter_map (fun (c', (d, q, t, pl), _) -> if c' = c then Some (Printf.sprintf "dup%s,q%d,%s,%s" (match d with Some true -> "1" | Some false -> "0" | None -> "?") q t pl) else None) !must)))))
                | Sexp.L [Sexp.A "pubrel"; pid; _; _] when List.mem (c, ios pid) !rels ->
                  rels := List.filter (fun y -> y <> (c, ios pid)) !rels
                | _ -> ()) ps) obs;
        (match !must with
         | (c, (d, q, t, pl), _) :: _ ->
           raise (Fail ("-", where ^ Printf.sprintf "%s: socket %d did not receive PUBLISH dup=%d qos=%d %s|%s (got %s)" !context c (match d with Some true -> 1 | _ -> 0) q t pl (Sexp.to_string (Sexp.L (pkts c)))))
         | [] -> ());
        (match !rels with
         | (c, pid) :: _ -> raise (Fail ("-", where ^ Printf.sprintf "resume: socket %d did not receive PUBREL %d for the message it had answered with PUBREC" c pid))
         | [] -> ());
        (* ---- sockets that are closed now *)
        Hashtbl.iter (fun c s ->
            if s.sopen && not (obs_open c) then begin
              if not (List.mem c !may_close) then raise (Outside "unexpected_close");
              on_close c
            end) (Hashtbl.copy socks))
      (List.combine (List.combine steps iobs) raw);
    last_cls := cls (); (true, "-", "")
  with
  | Outside w -> last_cls := "outside_" ^ w; (true, "-", "")
  | Fail (kf, why) -> last_cls := cls (); (false, kf, why)

let run input impl = last_cls := ""; let v = S_wire.run_with oracle input impl in if !last_cls = "" then v else { v with Verdict.cls = !last_cls }
