(* what a suite reports for one case *)
type t = {
  agree : bool;          (* model observable = implementation observable *)
  oracle : bool;         (* property oracle on the implementation's observable *)
  kf : string;           (* name of the known-finding predicate that matches, or "-" *)
  nontrivial : bool;
  cls : string;          (* distribution class of the case *)
  model : Sexp.t;        (* the model's observable *)
  why : string;          (* free text (no spaces) explaining an oracle failure, "" otherwise *)
}
