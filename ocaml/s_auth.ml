(* suites auth (plugin at component level) and authwire (broker over TCP) for C19 *)
open Model
open Conv

(* ---- the digests the section variables H / bverify are instantiated with ---- *)
let string_of_bytes (l : n list) : string =
  let b = Buffer.create 64 in
  List.iter (fun x -> Buffer.add_char b (Char.chr (int_of_n x))) l; Buffer.contents b
let bytes_of_string (s : string) : n list = List.init (String.length s) (fun i -> n_of_int (Char.code s.[i]))
let str_of_sx x = string_of_bytes (bytes_of_sx x)

(* SHA-256 (FIPS 180-4), written here so that the model does not take the digest from Go *)
let sha256_hex (msg : string) : string =
  let k = [|
    0x428a2f98; 0x71374491; 0xb5c0fbcf; 0xe9b5dba5; 0x3956c25b; 0x59f111f1; 0x923f82a4; 0xab1c5ed5;
    0xd807aa98; 0x12835b01; 0x243185be; 0x550c7dc3; 0x72be5d74; 0x80deb1fe; 0x9bdc06a7; 0xc19bf174;
    0xe49b69c1; 0xefbe4786; 0x0fc19dc6; 0x240ca1cc; 0x2de92c6f; 0x4a7484aa; 0x5cb0a9dc; 0x76f988da;
    0x983e5152; 0xa831c66d; 0xb00327c8; 0xbf597fc7; 0xc6e00bf3; 0xd5a79147; 0x06ca6351; 0x14292967;
    0x27b70a85; 0x2e1b2138; 0x4d2c6dfc; 0x53380d13; 0x650a7354; 0x766a0abb; 0x81c2c92e; 0x92722c85;
    0xa2bfe8a1; 0xa81a664b; 0xc24b8b70; 0xc76c51a3; 0xd192e819; 0xd6990624; 0xf40e3585; 0x106aa070;
    0x19a4c116; 0x1e376c08; 0x2748774c; 0x34b0bcb5; 0x391c0cb3; 0x4ed8aa4a; 0x5b9cca4f; 0x682e6ff3;
    0x748f82ee; 0x78a5636f; 0x84c87814; 0x8cc70208; 0x90befffa; 0xa4506ceb; 0xbef9a3f7; 0xc67178f2 |] in
  let m32 = 0xFFFFFFFF in
  let rotr x c = ((x lsr c) lor (x lsl (32 - c))) land m32 in
  let len = String.length msg in
  let padlen = let r = (len + 9) mod 64 in if r = 0 then 0 else 64 - r in
  let total = len + 9 + padlen in
  let data = Bytes.make total '\000' in
  Bytes.blit_string msg 0 data 0 len;
  Bytes.set data len '\x80';
  let bits = len * 8 in
  for i = 0 to 7 do Bytes.set data (total - 1 - i) (Char.chr ((bits lsr (8 * i)) land 0xff)) done;
  let h = [| 0x6a09e667; 0xbb67ae85; 0x3c6ef372; 0xa54ff53a; 0x510e527f; 0x9b05688c; 0x1f83d9ab; 0x5be0cd19 |] in
  let w = Array.make 64 0 in
  for blk = 0 to total / 64 - 1 do
    for i = 0 to 15 do
      let o = blk * 64 + i * 4 in
      w.(i) <- (Char.code (Bytes.get data o) lsl 24) lor (Char.code (Bytes.get data (o + 1)) lsl 16)
               lor (Char.code (Bytes.get data (o + 2)) lsl 8) lor Char.code (Bytes.get data (o + 3))
    done;
    for i = 16 to 63 do
      let s0 = rotr w.(i - 15) 7 lxor rotr w.(i - 15) 18 lxor (w.(i - 15) lsr 3) in
      let s1 = rotr w.(i - 2) 17 lxor rotr w.(i - 2) 19 lxor (w.(i - 2) lsr 10) in
      w.(i) <- (w.(i - 16) + s0 + w.(i - 7) + s1) land m32
    done;
    let a = ref h.(0) and b = ref h.(1) and c = ref h.(2) and d = ref h.(3)
    and e = ref h.(4) and f = ref h.(5) and g = ref h.(6) and hh = ref h.(7) in
    for i = 0 to 63 do
      let s1 = rotr !e 6 lxor rotr !e 11 lxor rotr !e 25 in
      let ch = (!e land !f) lxor ((lnot !e) land m32 land !g) in
      let t1 = (!hh + s1 + ch + k.(i) + w.(i)) land m32 in
      let s0 = rotr !a 2 lxor rotr !a 13 lxor rotr !a 22 in
      let mj = (!a land !b) lxor (!a land !c) lxor (!b land !c) in
      let t2 = (s0 + mj) land m32 in
      hh := !g; g := !f; f := !e; e := (!d + t1) land m32;
      d := !c; c := !b; b := !a; a := (t1 + t2) land m32
    done;
    h.(0) <- (h.(0) + !a) land m32; h.(1) <- (h.(1) + !b) land m32; h.(2) <- (h.(2) + !c) land m32;
    h.(3) <- (h.(3) + !d) land m32; h.(4) <- (h.(4) + !e) land m32; h.(5) <- (h.(5) + !f) land m32;
    h.(6) <- (h.(6) + !g) land m32; h.(7) <- (h.(7) + !hh) land m32
  done;
  String.concat "" (Array.to_list (Array.map (Printf.sprintf "%08x") h))

let md5_hex (s : string) : string = Digest.to_hex (Digest.string s)

exception Hash_oracle of string

(* H: computed here (OCaml Digest for MD5, the function above for SHA-256) and cross-checked
   against the digest table the Go side sent with the case *)
let make_h (input : Sexp.t) : halg -> n list -> n list =
  let tbl = Hashtbl.create 16 in
  List.iter (fun r -> match Sexp.list r with
      | [p; d] -> Hashtbl.replace tbl (str_of_sx p) (str_of_sx d)
      | _ -> failwith "hash row") (match Sexp.field_opt "hash" input with Some l -> l | None -> []);
  let memo = Hashtbl.create 16 in
  fun a p ->
    let ps = string_of_bytes p in
    let key = (a, ps) in
    match Hashtbl.find_opt memo key with
    | Some d -> d
    | None ->
      let d = match a with MD5 -> md5_hex ps | SHA256 -> sha256_hex ps | Plain | Bcrypt -> ps in
      (match a, Hashtbl.find_opt tbl ps with
       | (MD5 | SHA256), Some d' when d' <> d -> raise (Hash_oracle ("digest_differs_from_go_for_" ^ atom_of_bytes p))
       | _ -> ());
      let r = bytes_of_string d in
      Hashtbl.replace memo key r; r

(* bverify: the table of bcrypt.CompareHashAndPassword results the Go side evaluated *)
let make_bv (impl : Sexp.t) : n list -> n list -> bool =
  let tbl = Hashtbl.create 16 in
  List.iter (fun r -> match Sexp.list r with
      | [h; p; b] -> Hashtbl.replace tbl (Sexp.atom h, Sexp.atom p) (bool_of_sx b)
      | _ -> failwith "bv row") (match Sexp.field_opt "bv" impl with Some l -> l | None -> []);
  fun h p ->
    match Hashtbl.find_opt tbl (atom_of_bytes h, atom_of_bytes p) with
    | Some b -> b
    | None -> raise (Hash_oracle "bcrypt_pair_not_in_table")

let alg_of_sx x = match Sexp.atom x with
  | "plain" -> Plain | "md5" -> MD5 | "sha256" -> SHA256 | "bcrypt" -> Bcrypt | s -> failwith ("alg " ^ s)

let opt_bytes = function Sexp.A "none" -> None | x -> Some (bytes_of_sx x)

(* (ver cid uflag pflag user pass am ad) *)
let connect_of_sx x = match Sexp.list x with
  | [v; cid; uf; pf; u; p; am; ad] ->
    { ac_version = n_of_sx v; ac_cid = bytes_of_sx cid; ac_uflag = bool_of_sx uf; ac_pflag = bool_of_sx pf;
      ac_user = bytes_of_sx u; ac_pass = bytes_of_sx p; ac_authmethod = opt_bytes am; ac_authdata = opt_bytes ad }
  | _ -> failwith "connect"

let account_of_sx x = match Sexp.list x with [u; h] -> (bytes_of_sx u, bytes_of_sx h) | _ -> failwith "account"
let sx_account (u, h) = Sexp.L [sx_bytes u; sx_bytes h]

let authres_of_sx = function
  | Sexp.A "ok" -> HkOk
  | Sexp.L [Sexp.A "err"; c] -> HkErr (n_of_sx c)
  | _ -> failwith "authres"

(* the operation; [g] = what the implementation's bcrypt generation produced *)
let op_of_sx (x : Sexp.t) (iout : Sexp.t option) : aop = match Sexp.list x with
  | [Sexp.A "update"; u; p] ->
    let g = match iout with Some (Sexp.L [Sexp.A "ok"; h]) -> Some (bytes_of_sx h) | _ -> None in
    OUpdate (bytes_of_sx u, bytes_of_sx p, g)
  | [Sexp.A "delete"; u] -> ODelete (bytes_of_sx u)
  | [Sexp.A "get"; u] -> OGet (bytes_of_sx u)
  | [Sexp.A "list"; pg; sz] -> OList (n_of_sx pg, n_of_sx sz)
  | [Sexp.A "chdir"; d; _] -> OChdir (n_of_sx d)      (* a live or a deleted directory: no matter *)
  | [Sexp.A "break"; b] -> OBreak (bool_of_sx b)
  | [Sexp.A "validate"; u; p] -> OValidate (bytes_of_sx u, bytes_of_sx p)
  | [Sexp.A "auth"; pre; v; c] -> OAuth (authres_of_sx pre, n_of_sx v, connect_of_sx c)
  | [Sexp.A "reload"; _] -> OReload
  | [Sexp.A "file"] -> OFile
  | _ -> failwith "aop"

let out_of_sx (x : Sexp.t) : aout = match Sexp.list x with
  | [Sexp.A "ok"] | [Sexp.A "ok"; _] -> XOk
  | [Sexp.A "invalid"] -> XInvalid
  | [Sexp.A "err"] -> XErr
  | [Sexp.A "notfound"] -> XNotFound
  | [Sexp.A "account"; h] -> XAccount (bytes_of_sx h)
  | Sexp.A "list" :: total :: rows -> XList (List.map account_of_sx rows, n_of_sx total)
  | [Sexp.A "bool"; b] -> XBool (bool_of_sx b)
  | [Sexp.A "auth"; Sexp.A "ok"] -> XAuth HkOk
  | [Sexp.A "auth"; Sexp.A "err"; c] -> XAuth (HkErr (n_of_sx c))
  | Sexp.A "loaded" :: rows -> XLoaded (Some (List.map account_of_sx rows))
  | [Sexp.A "loaderr"] -> XLoaded None
  | Sexp.A "file" :: rows -> XFile (Some (List.map account_of_sx rows))
  | [Sexp.A "nofile"] -> XFile None
  | Sexp.A k :: _ -> failwith ("impl_out_" ^ k)
  | _ -> failwith "impl_out"

let sx_out = function
  | XOk -> Sexp.L [Sexp.A "ok"] | XInvalid -> Sexp.L [Sexp.A "invalid"] | XErr -> Sexp.L [Sexp.A "err"]
  | XNotFound -> Sexp.L [Sexp.A "notfound"]
  | XAccount h -> Sexp.L [Sexp.A "account"; sx_bytes h]
  | XList (l, t) -> Sexp.L (Sexp.A "list" :: sx_n t :: List.map sx_account l)
  | XBool b -> Sexp.L [Sexp.A "bool"; sx_bool b]
  | XAuth HkOk -> Sexp.L [Sexp.A "auth"; Sexp.A "ok"]
  | XAuth (HkErr c) -> Sexp.L [Sexp.A "auth"; Sexp.A "err"; sx_n c]
  | XLoaded None -> Sexp.L [Sexp.A "loaderr"]
  | XLoaded (Some l) -> Sexp.L (Sexp.A "loaded" :: List.map sx_account l)
  | XFile None -> Sexp.L [Sexp.A "nofile"]
  | XFile (Some l) -> Sexp.L (Sexp.A "file" :: List.map sx_account l)

let alg_name = function Plain -> "plain" | MD5 -> "md5" | SHA256 -> "sha256" | Bcrypt -> "bcrypt"

(* ---- suite auth ---- *)
let run_auth (input : Sexp.t) (impl : Sexp.t) : Verdict.t =
  let h = make_h input and bv = make_bv impl in
  let alg = alg_of_sx (Sexp.field1 "alg" input) in
  let form = Sexp.atom (Sexp.field1 "pfform" input) in
  let cfg = { a_alg = alg; a_pf = bytes_of_sx (Sexp.field1 "pf" input);
              a_pfdir = (if form = "abs" then Some (n_of_int 2) else None); a_cfgdir = n_of_int 0 } in
  let cwd = n_of_sx (Sexp.field1 "cwd" input) in
  let init = Option.map (List.map account_of_sx) (Sexp.field_opt "init" input) in
  let started = (Sexp.field1 "start" impl = Sexp.A "ok") in
  let iouts_sx = if started then Sexp.field "outs" impl else [] in
  let ops_sx = Sexp.field "ops" input in
  let ops = List.mapi (fun i o -> op_of_sx o (List.nth_opt iouts_sx i)) ops_sx in
  let iouts = if started then Some (List.map out_of_sx iouts_sx) else None in
  let mouts = au_model_outs h bv cfg init cwd ops in
  let oracle = c19_ok h bv cfg init ops iouts in
  (* the first operation whose answer the statement does not allow *)
  let failing =
    match iouts, (match init with None -> Some [] | Some d -> if file_wf d then Some d else None) with
    | Some outs, Some m0 ->
      let rec go av m ops outs = match ops, outs with
        | o :: ops', x :: outs' ->
          (match o_step h bv alg av m o x with Some m' -> go (o_avail av o) m' ops' outs' | None -> Some o)
        | _, _ -> None in
      go true m0 ops outs
    | _, _ -> None in
  (* no open known finding at component level (kf_pwfile_cwd: repaired in 54a09b0,
     kf_unknown_version: repaired in bb4907e) *)
  let kf = "-" in
  let outs_l = match iouts with Some l -> l | None -> [] in
  let acc = List.exists (function XBool true | XAuth HkOk -> true | _ -> false) outs_l in
  let rej = List.exists (function XBool false | XAuth (HkErr _) -> true | _ -> false) outs_l in
  let upd = List.exists2 (fun o x -> match o, x with OUpdate _, XOk -> true | _ -> false) ops
      (if List.length outs_l = List.length ops then outs_l else List.map (fun _ -> XErr) ops) in
  let rollback = List.exists (fun x -> x = XErr) outs_l in
  let long = List.exists (fun o -> match o with
      | OUpdate (u, p, _) | OValidate (u, p) -> List.length u > 1000 || List.length p > 1000
      | OAuth (_, _, c) -> List.length c.ac_user > 1000 || List.length c.ac_pass > 1000
      | _ -> false) ops in
  { Verdict.agree = (mouts = iouts); oracle; kf;
    nontrivial = upd && acc && rej;
    cls = Printf.sprintf "%s_%s_cwd%d%s%s%s%s" (alg_name alg) form (int_of_n cwd)
        (if init = None then "" else "_init") (if started then "" else "_loaderr")
        (if rollback then "_apierr" else "") (if long then "_long" else "");
    model = (match mouts with None -> Sexp.A "loaderr" | Some l -> Sexp.L (List.map sx_out l));
    why = (if oracle then "" else match failing with
        | Some OFile -> "file_differs_from_accounts" | Some OReload -> "restart_loads_other_accounts"
        | Some (OAuth _) -> "hook_decision" | Some (OValidate _) -> "validate_decision"
        | Some (OUpdate _) -> "update" | Some (ODelete _) -> "delete" | Some (OGet _) -> "get" | Some (OList _) -> "list"
        | Some (OChdir _) -> "chdir" | Some (OBreak _) -> "break" | None -> "start") }

(* ---- suite authwire ---- *)
let strs_of k x = List.map str_of_sx (Sexp.field k x)

let run_authwire (input : Sexp.t) (impl : Sexp.t) : Verdict.t =
  let h = make_h input and bv = make_bv impl in
  let alg = alg_of_sx (Sexp.field1 "alg" input) in
  let allow0 = bool_of_sx (Sexp.field1 "allow_zero" input) in
  let cfg = { a_alg = alg; a_pf = bytes_of_string "pw.yml"; a_pfdir = Some (n_of_int 0); a_cfgdir = n_of_int 0 } in
  let s0 = match au_start cfg None (n_of_int 0) with Some s -> s | None -> failwith "start" in
  let api s o = fst (au_step h bv cfg s o) in
  (* setup through the account API, then the broker's own instance loads the file *)
  let s1 = List.fold_left2 (fun s acc out ->
      match Sexp.list acc with
      | [u; p] -> api s (op_of_sx (Sexp.L [Sexp.A "update"; u; p]) (Some out))
      | _ -> failwith "account") s0 (Sexp.field "accounts" input) (Sexp.field "setup" impl) in
  let s1 = match au_load cfg s1.s_fs with
    | (fs, Some t) -> { s1 with s_tab = t; s_fs = fs }
    | (_, None) -> failwith "reload" in
  let steps = Sexp.field "steps" input and outs = Sexp.field "outs" impl in
  let agree = ref true and oracle = ref true in
  let fail_am = ref 0 and fail_other = ref 0 in
  let accepted = ref [] and mouts = ref [] in
  let n_ok = ref 0 and n_rej = ref 0 and n_stray = ref 0 and n_am = ref 0 and n_lost = ref 0 and n_open = ref 0 in
  let s = ref s1 in
  List.iter2 (fun st out ->
      match Sexp.list st with
      | Sexp.A "api" :: Sexp.A kind :: args ->
        let o = op_of_sx (Sexp.L (Sexp.A kind :: args)) (Some out) in
        let (s', x) = au_step h bv cfg !s o in
        s := s';
        mouts := sx_out x :: !mouts;
        if out_of_sx out <> x then agree := false;
        if x <> XOk then (oracle := false; incr fail_other)
      | Sexp.A "sock" :: _ ->
        let c = connect_of_sx (Sexp.field1 "conn" st) in
        let has k = match Sexp.field_opt k st with Some (_ :: _) -> true | _ -> false in
        let pre = has "pre" in
        if pre || has "post" || has "late" then incr n_stray;
        let first = match Sexp.list out with [_; f; e] -> (if e = Sexp.A "open" && f <> Sexp.L [Sexp.A "connack"; Sexp.A "0"] then incr n_open); f | _ -> failwith "sock out" in
        let code = match first with
          | Sexp.L [Sexp.A "connack"; c] -> Some (int_of_sx c)
          | _ -> None in
        let acc = (code = Some 0) in
        if acc then (accepted := string_of_bytes c.ac_cid :: !accepted; incr n_ok) else incr n_rej;
        let plain_connect = (not pre) && known_version c.ac_version in
        if plain_connect then begin
          let m = broker_connect h bv allow0 alg (!s).s_tab c in
          mouts := (match m with None -> Sexp.A "accept" | Some e -> Sexp.L [Sexp.A "refuse"; sx_n e]) :: !mouts;
          (* the error CONNACK races with the shutdown of the connection's writer and may be lost:
             compared are accept/refuse and, when a CONNACK arrived, its code *)
          (match code, m with
           | Some 0, None -> ()
           | Some e, Some e' when e <> 0 && n_of_int e = e' -> ()
           | None, Some _ -> incr n_lost
           | _, _ -> agree := false);
          if connect_servable allow0 c then begin
            let want_ok = c19_connect_ok h bv alg (!s).s_tab c (if acc then None else Some (n_of_int 1)) in
            if not want_ok then begin
              oracle := false;
              if kf_authmethod_present c && not acc then incr fail_am else incr fail_other
            end;
            if kf_authmethod_present c then incr n_am
          end else if acc then (oracle := false; incr fail_other)
        end else begin
          (* something other than a CONNECT came first, or an unknown protocol level: never accepted *)
          mouts := Sexp.A "refuse" :: !mouts;
          if acc then (agree := false; oracle := false; incr fail_other)
        end
      | _ -> failwith "step") steps outs;
  let want_sessions = List.sort compare ("observer" :: !accepted) in
  let insp = Sexp.L (Sexp.field "inspect" impl) in
  let fin = Sexp.L (Sexp.field "final" impl) in
  (* the services hold exactly what the accepted clients did; the observer (subscribed to "#")
     received the publish of the authenticated publisher and nothing before it *)
  let inert =
    strs_of "sessions" insp = want_sessions && strs_of "clients" insp = want_sessions
    && strs_of "subs" insp = ["observer|#"] && strs_of "retained" insp = []
    && (try strs_of "observer_got" impl = ["ok/t"] with _ -> false) in
  let live = (try strs_of "retained" fin = ["ok/t"] with _ -> false) in
  if not inert then (agree := false; oracle := false; incr fail_other);
  if not live then agree := false;
  let kf = if !oracle || not !agree then "-" else if !fail_other = 0 && !fail_am > 0 then "kf_authmethod_present" else "-" in
  { Verdict.agree = !agree; oracle = !oracle; kf;
    nontrivial = !n_ok > 0 && !n_rej > 0 && !n_stray > 0;
    cls = Printf.sprintf "%s_ok%d_rej%d%s%s%s%s%s" (alg_name alg) (min !n_ok 3) (min !n_rej 3)
        (if !n_stray > 0 then "_stray" else "") (if !n_am > 0 then "_authmethod" else "")
        (if !n_lost > 0 then "_connacklost" else "") (if !n_open > 0 then "_leftopen" else "")
        (if bool_of_sx (Sexp.field1 "stats_anon" insp) then "_anonstats" else "");
    model = Sexp.L (List.rev !mouts);
    why = (if !oracle then "" else
             Printf.sprintf "authmethod_refused:%d_other:%d%s" !fail_am !fail_other (if inert then "" else "_state_touched")) }
