open Model
open Conv

let msg_of_sx x = match Sexp.list x with
  | [Sexp.A "m"; dup; qos; ret; topic; payload; pid; ctype; corr; expiry; pfmt; resp; ids; ups] ->
    { m_dup = bool_of_sx dup; m_qos = n_of_sx qos; m_retained = bool_of_sx ret; m_topic = bytes_of_sx topic;
      m_payload = bytes_of_sx payload; m_pid = n_of_sx pid; m_ctype = bytes_of_sx ctype; m_corr = bytes_of_sx corr;
      m_expiry = n_of_sx expiry; m_pfmt = n_of_sx pfmt; m_resp = bytes_of_sx resp;
      m_subids = List.map n_of_sx (Sexp.list ids);
      m_uprops = List.map (fun u -> match Sexp.list u with [k; v] -> (bytes_of_sx k, bytes_of_sx v) | _ -> failwith "uprop") (Sexp.list ups) }
  | _ -> failwith "msg"

let sx_msg m =
  Sexp.L [Sexp.A "m"; sx_bool m.m_dup; sx_n m.m_qos; sx_bool m.m_retained; sx_bytes m.m_topic; sx_bytes m.m_payload; sx_n m.m_pid;
          sx_bytes m.m_ctype; sx_bytes m.m_corr; sx_n m.m_expiry; sx_n m.m_pfmt; sx_bytes m.m_resp;
          Sexp.L (List.map sx_n m.m_subids); Sexp.L (List.map (fun (k, v) -> Sexp.L [sx_bytes k; sx_bytes v]) m.m_uprops)]

let sorted_msgs l =
  List.sort (fun a b -> compare (Sexp.to_string a) (Sexp.to_string b)) (List.map sx_msg l)
