(* reads lines `(suite id input implobs)`, prints one verdict line per case *)
let suites : (string * (Sexp.t -> Sexp.t -> Verdict.t)) list = [
  "c18", S_c18.run;
  "c18w", S_c18.run_c18w;
  "sub", S_sub.run `C02;
  "subsh", S_sub.run `C11;
  "tm", S_sub.run_tm;
  "ret", S_ret.run;
  "queue", S_queue.run;
  "wire", S_wire.run;
  "wv", S_wire.run;
  "w_c03", O_c03.run;
  "w_c04", O_c04.run;
  "w_c05", O_c05.run;
  "w_c07", O_c07.run;
  "w_c08", O_c08.run;
  "w_c11", O_c11.run;
  "w_c12", O_c12.run;
  "w_c13", O_c13.run;
  "w_c14", O_c14.run;
  "w_c20", O_c20.run;
  "c20r", O_c20.run_c20r;
  "codec", S_codec.run;
  "cenc", S_codec.run_enc;
  "ctopic", S_codec.run_topic;
  "cmsg", S_codec.run_msg;
  "ctb", S_codec.run_tb;
  "rsub", S_redis.run_rsub;
  "runack", S_redis.run_runack;
  "rqueue", S_redis.run_rqueue;
  "crash", S_redis.run_crash;
  "penc", S_penc.run_penc;
  "rsess", S_rsess.run_rsess;
  "cfgv", S_cfgv.run_cfgv;
  "auth", S_auth.run_auth;
  "authwire", S_auth.run_authwire;
  "fedq", S_fed.run_fedq;
  "fedr", S_fed.run_fedr;
  "w_c01", O_c01.run;
  "lim", S_comp.run_lim;
  "alias", S_comp.run_alias;
  "unack", S_comp.run_unack;
]

let () =
  try
    while true do
      let line = input_line stdin in
      if String.length line > 0 then begin
        match Sexp.parse line with
        | Sexp.L [Sexp.A suite; Sexp.A id; input; impl] ->
          let f = try List.assoc suite suites with Not_found -> failwith ("unknown suite " ^ suite) in
          (match (try Ok (f input impl) with e -> Error (Printexc.to_string e)) with
           | Ok v ->
             let why = String.map (fun c -> if c = ' ' || c = '\n' || c = '\t' then '_' else c) v.Verdict.why in
             Printf.printf "%s %s agree=%d oracle=%d kf=%s nontrivial=%d class=%s why=%s model=%s\n"
               suite id (if v.Verdict.agree then 1 else 0) (if v.Verdict.oracle then 1 else 0)
               v.Verdict.kf (if v.Verdict.nontrivial then 1 else 0) v.Verdict.cls (if why = "" then "-" else why) (Sexp.to_string v.Verdict.model)
           | Error e -> Printf.printf "%s %s error=%s\n" suite id (String.map (fun c -> if c = ' ' || c = '\n' then '_' else c) e))
        | _ -> Printf.printf "? ? error=bad_line\n"
      end
    done
  with End_of_file -> ()
