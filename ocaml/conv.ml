(* conversions between OCaml values and the extracted Coq datatypes *)
open Model

let rec nat_of_int (i : int) : nat = if i <= 0 then O else S (nat_of_int (i - 1))
let rec int_of_nat = function O -> 0 | S n -> 1 + int_of_nat n

let rec pos_of_int (i : int) : positive =
  if i <= 1 then XH else if i land 1 = 0 then XO (pos_of_int (i lsr 1)) else XI (pos_of_int (i lsr 1))
let n_of_int (i : int) : n = if i <= 0 then N0 else Npos (pos_of_int i)
let rec int_of_pos = function XH -> 1 | XO p -> 2 * int_of_pos p | XI p -> 2 * int_of_pos p + 1
let int_of_n = function N0 -> 0 | Npos p -> int_of_pos p

let hexval c = match c with
  | '0'..'9' -> Char.code c - 48 | 'a'..'f' -> Char.code c - 87 | 'A'..'F' -> Char.code c - 55
  | _ -> failwith "hex"

(* atom "x0a0b" -> byte list *)
let bytes_of_atom (s : string) : n list =
  if String.length s = 0 || s.[0] <> 'x' then failwith ("bytes atom: " ^ s);
  let k = (String.length s - 1) / 2 in
  List.init k (fun i -> n_of_int (hexval s.[1 + 2*i] * 16 + hexval s.[2 + 2*i]))

let atom_of_bytes (l : n list) : string =
  let b = Buffer.create 64 in
  Buffer.add_char b 'x';
  List.iter (fun x -> Buffer.add_string b (Printf.sprintf "%02x" (int_of_n x))) l;
  Buffer.contents b

let sx_bytes l = Sexp.A (atom_of_bytes l)
let sx_int i = Sexp.A (string_of_int i)
let sx_n x = sx_int (int_of_n x)
let sx_bool b = Sexp.A (if b then "1" else "0")
let int_of_sx x = int_of_string (Sexp.atom x)
let n_of_sx x = n_of_int (int_of_sx x)
let nat_of_sx x = nat_of_int (int_of_sx x)
let bytes_of_sx x = bytes_of_atom (Sexp.atom x)
let bool_of_sx x = (Sexp.atom x) <> "0"
