(* Oracle for property C08 - "the will message is published exactly when, and only when, it should be".

   Written from the statement (and MQTT 3.1.2.5 / 3.1.3.2 for what "its QoS / retain flag / properties" mean on
   the wire of a subscriber), evaluated on the packets the real broker sent.  Family: harness/w_c08.go.

   Abstract state: per socket the CONNECT's will / delay / session expiry / DISCONNECT received, per will-client id the
   session (attached, or off-line since T with expiry E), the pending (delayed) wills, the retained store as far as wills
   feed it, per observer the subscriptions as confirmed by SUBACK, and a nominal clock (sum of the (sleep)s).

   Clauses decided, per step and per socket (multiset of PUBLISH packets received must equal the expectation):
     - a connection that ENDS (the socket's open flag drops, whoever closed it) with a will and without a suppressing
       DISCONNECT publishes the will AT THAT STEP when min(delay, session expiry) = 0 or the session is terminated there;
     - otherwise the will is published in the (sleep) step in which min(delay, expiry) elapses, or earlier at the step that
       ends the session (CONNECT clean / CONNECT after the expiry / TerminateSession), exactly once;
     - never after DISCONNECT 0x00 (v3: any DISCONNECT), never when a CONNECT resumes the session first, never twice,
       never to a will client, never to an observer without a matching subscription at that moment;
     - each copy: DUP 0, topic, payload, QoS = min(will QoS, granted QoS) (overlap: one copy per matching subscription;
       onlyonce: one copy per client, maximum QoS), RETAIN = will retain AND Retain-As-Published, v5: exactly the will's
       properties (+ the subscription identifiers), fresh packet id; one member per matching share group;
     - a retained will becomes the retained message of its topic (final (inspect), and replays on later SUBSCRIBEs:
       Retain Handling, granted QoS, RETAIN 1);
     - an OnWillPublish hook's drop / rewrite is honoured.
   Not decided: see w_c08.go "deliberately excluded"; the order of packets inside one step. *)
open Conv

exception Oof of string (* outside the family: no verdict *)

type will = { wt : string; wp : string; wq : int; wr : bool; wprops : Sexp.t list; wdelay : int }
type sub = { s_full : string; s_share : bool; s_filter : string; s_qos : int; s_rap : bool; s_subid : int option }
type sock = {
  mutable ver : int; mutable cid : string; mutable obs : bool; mutable up : bool;
  mutable will : will option; mutable e : int; mutable disc : int option; mutable dsei : int option;
  mutable subs : sub list; mutable pids : int list }
type sess = { mutable se : int; mutable off_since : int option }
type pend = { p_cid : string; p_will : will; p_t0 : int; p_d : int; mutable p_orphan : bool }

(* the deviations of the real broker this oracle knows (all off = the statement):
   late_term       TerminateSession of an off-line session leaves its delayed will to the timer
   stale_exp       a forwarded Message Expiry Interval arrives as 1 (clock taken before a blocking queue read)
   replay_rap0     a retained message replayed on SUBSCRIBE carries RETAIN only under Retain-As-Published
   replay_nosubid  ... and never the subscription identifier
   shared_dollar   $share/g/# and $share/g/+.. match topic names that begin with $
   A failing scenario is re-evaluated with every subset of these switched on (smallest first, everything else
   stays strict); the names of the smallest subset that makes it pass are returned, joined by '+' when the
   scenario shows more than one deviation; "-" when no subset explains the failure. *)
type dev = { late_term : bool; stale_exp : bool; replay_rap0 : bool; replay_nosubid : bool; shared_dollar : bool }
let no_dev = { late_term = false; stale_exp = false; replay_rap0 = false; replay_nosubid = false; shared_dollar = false }

(* mutation switches for testing the oracle itself (O_C08_MUT=n): 1 QoS max instead of min, 2 RETAIN regardless of
   Retain-As-Published, 3 DISCONNECT 0x04 suppresses the will, 4 the session expiry does not cap the delay, 5 every
   subscription matches, 6 a resumed session still gets its will published, 7 DISCONNECT 0x00 does not suppress,
   8 the delay is ignored *)
let mutant = match Sys.getenv_opt "O_C08_MUT" with Some s -> (try int_of_string s with _ -> 0) | None -> 0

let cov : (string, int) Hashtbl.t = Hashtbl.create 16
let last_cls = ref ""

let str_of_atom a = let b = bytes_of_atom a in String.init (List.length b) (fun i -> Char.chr (int_of_n (List.nth b i)))
let atom_of_str s = "x" ^ String.concat "" (List.init (String.length s) (fun i -> Printf.sprintf "%02x" (Char.code s.[i])))
let has_prefix p s = String.length s >= String.length p && String.sub s 0 (String.length p) = p

let field_int k x d = match Sexp.field_opt k x with Some [v] -> int_of_sx v | _ -> d
let prop_int k props = List.find_map (fun p -> match p with Sexp.L [Sexp.A k'; v] when k' = k -> Some (int_of_sx v) | _ -> None) props

let split_share full = (* "$share/g/filter" -> (true, filter) *)
  let s = str_of_atom full in
  if has_prefix "$share/" s then
    (match String.index_from_opt s 7 '/' with
     | Some i -> (true, atom_of_str (String.sub s (i + 1) (String.length s - i - 1)))
     | None -> raise (Oof "bad share filter"))
  else (false, full)

let matches topic filter = Model.topic_match (bytes_of_atom topic) (bytes_of_atom filter)

(* the canonical text of a PUBLISH as the subscriber should see it (packet id blanked) *)
let pub_text ~ver ~qos ~retain ~topic ~payload ~(props : Sexp.t list) =
  let props = if ver = 5 then List.filter (fun p -> p <> Sexp.L [Sexp.A "pfmt"; Sexp.A "0"]) props else [] in
  Sexp.to_string (Sexp.L [Sexp.A "publish"; Sexp.A "0"; sx_int qos; sx_bool retain; Sexp.A topic; Sexp.A payload; Sexp.A "_";
                          S_wire.canon_props (Sexp.L (Sexp.A "props" :: props))])

let oracle_dev (dev : dev) (cfg : Model.cfg) (hooks : Model.hooks) (steps : Sexp.t list)
    (obs : (int * Sexp.t list * bool) list list) (raw : Sexp.t list) : bool * string =
  Hashtbl.reset cov;
  let hit k = Hashtbl.replace cov k (1 + (try Hashtbl.find cov k with Not_found -> 0)) in
  let onlyonce = cfg.Model.c_onlyonce in
  let cfg_se = int_of_n cfg.Model.c_session_expiry in
  let socks : (int, sock) Hashtbl.t = Hashtbl.create 8 in
  let sessions : (string, sess) Hashtbl.t = Hashtbl.create 4 in
  let pending : pend list ref = ref [] in
  let retained : (string, int * will list) Hashtbl.t = Hashtbl.create 4 in (* topic -> step of last change, candidates *)
  let clock = ref 0 in
  let fail = ref None in
  let set_fail k msg = if !fail = None then fail := Some (Printf.sprintf "step %d: %s" k msg) in
  let observers () = List.sort compare (Hashtbl.fold (fun l s acc -> if s.obs && s.up then (l, s) :: acc else acc) socks []) in

  (* ---- what one application message owes to the observers: a list of obligations, each a list of options
     (socket, acceptable texts); exactly one option of every obligation is realised *)
  let exp_alts v msgexp f = (* f : props -> text ; stale_exp: a Message Expiry Interval may arrive as 1 *)
    let base = f in
    match msgexp with
    | Some _ when dev.stale_exp && v = 5 -> [base false; base true]
    | _ -> [base false] in
  let will_props (w : will) ~stale ~(subids : int list) =
    List.map (fun p -> match p with Sexp.L [Sexp.A "msgexpiry"; _] when stale -> Sexp.L [Sexp.A "msgexpiry"; Sexp.A "1"] | _ -> p) w.wprops
    @ List.map (fun i -> Sexp.L [Sexp.A "subid"; sx_int i]) subids in
  let qmin a b = if mutant = 1 then max a b else min a b in
  let deliver (w : will) : (int * string list) list list =
    let mexp = prop_int "msgexpiry" w.wprops in
    let obl = ref [] in
    let groups : (string, (int * string list) list) Hashtbl.t = Hashtbl.create 4 in
    List.iter (fun (l, s) ->
        let m = List.filter (fun sb ->
            if sb.s_share && dev.shared_dollar then Model.lm (Model.split (bytes_of_atom w.wt)) (Model.split (bytes_of_atom sb.s_filter))
            else matches w.wt sb.s_filter) s.subs in
        let m = if mutant = 5 then s.subs else m in
        let plain = List.filter (fun sb -> not sb.s_share) m and shared = List.filter (fun sb -> sb.s_share) m in
        let one sb subids qos =
          exp_alts s.ver mexp (fun stale ->
              pub_text ~ver:s.ver ~qos ~retain:(if mutant = 2 then w.wr else w.wr && sb.s_rap) ~topic:w.wt ~payload:w.wp
                ~props:(will_props w ~stale ~subids)) in
        let ids sb = match sb.s_subid with Some i -> [i] | None -> [] in
        if plain <> [] then begin
          if onlyonce then begin
            let mq = List.fold_left (fun a sb -> max a sb.s_qos) 0 plain in
            let subids = List.concat_map ids plain in
            let alts = List.concat_map (fun sb -> if sb.s_qos = mq then one sb subids (qmin w.wq mq) else []) plain in
            obl := [(l, alts)] :: !obl
          end else
            List.iter (fun sb -> obl := [(l, one sb (ids sb) (qmin w.wq sb.s_qos))] :: !obl) plain
        end;
        List.iter (fun sb ->
            let prev = try Hashtbl.find groups sb.s_full with Not_found -> [] in
            Hashtbl.replace groups sb.s_full (prev @ [(l, one sb (ids sb) (qmin w.wq sb.s_qos))])) shared) (observers ());
    Hashtbl.iter (fun _ opts -> obl := opts :: !obl) groups;
    !obl in

  let step_obl : (int * string list) list list ref = ref [] in
  let cur_step = ref 0 in
  let fire (w : will) (cid : string) (why : string) =
    hit why;
    let w' =
      if not hooks.Model.h_will_on then Some w else
        match List.find_opt (fun (c, _) -> c = bytes_of_atom cid) hooks.Model.h_will with
        | None | Some (_, Model.MAccept) -> Some w
        | Some (_, Model.MDrop) -> hit "H"; None
        | Some (_, Model.MRewrite (t, p, q)) -> hit "H"; Some { w with wt = atom_of_bytes t; wp = atom_of_bytes p; wq = int_of_n q mod 4; wr = (match int_of_n q / 4 with 0 -> w.wr | 1 -> false | _ -> true) }
        | Some (_, Model.MReject _) -> raise (Oof "reject in will hook") in
    match w' with
    | None -> ()
    | Some w ->
      let o = deliver w in
      if o = [] then hit "0" else hit "n";
      step_obl := !step_obl @ o;
      if w.wr then begin
        hit "R";
        match Hashtbl.find_opt retained w.wt with
        | Some (k, l) when k = !cur_step -> Hashtbl.replace retained w.wt (k, w :: l)
        | _ -> Hashtbl.replace retained w.wt (!cur_step, [w])
      end in

  (* ---- the end of a network connection *)
  let end_conn (l : int) (s : sock) ~(terminated : bool) ~(in_sleep : bool) (why : string) =
    if s.obs then raise (Oof "observer connection ended");
    s.up <- false;
    let e = match s.dsei with Some v -> v | None -> s.e in
    let suppressed = (match s.disc with Some 0 -> mutant <> 7 | Some 4 -> (mutant = 3) | Some _ -> raise (Oof "disconnect code") | None -> false) in
    ignore l;
    (match s.will with
     | Some w when not suppressed ->
       let d = if terminated then 0 else min w.wdelay e in
       let d = if mutant = 4 then w.wdelay else if mutant = 8 then 0 else d in
       if d = 0 then fire w s.cid ("i" ^ why ^ (match s.disc with Some 4 -> "4" | _ -> ""))
       else begin
         if in_sleep && d < 50 then raise (Oof "1 s timer started inside a sleep");
         pending := !pending @ [{ p_cid = s.cid; p_will = w; p_t0 = !clock; p_d = d; p_orphan = false }]
       end
     | Some _ -> hit "N"
     | None -> ());
    if terminated || e = 0 then Hashtbl.remove sessions s.cid
    else begin
      if in_sleep && e < 50 then raise (Oof "1 s session expiry started inside a sleep");
      match Hashtbl.find_opt sessions s.cid with
      | Some ss -> ss.se <- e; ss.off_since <- Some !clock
      | None -> raise (Oof "connection without session")
    end in

  let alive se elapsed =
    if se >= 4_000_000 then true
    else if elapsed <= se * 1000 - 550 then true
    else if elapsed >= se * 1000 + 250 then false
    else raise (Oof "session expiry too close to call") in

  (* the session of cid ends (not through the end of an attached connection) *)
  let session_ends cid why ~by_terminate =
    Hashtbl.remove sessions cid;
    let (mine, others) = List.partition (fun p -> p.p_cid = cid && not p.p_orphan) !pending in
    if by_terminate && dev.late_term then List.iter (fun p -> p.p_orphan <- true) mine
    else begin
      pending := others;
      List.iter (fun p -> fire p.p_will cid why) mine
    end in

  let step_one k step (ob : (int * Sexp.t list * bool) list) (rw : Sexp.t) =
    cur_step := k;
    step_obl := [];
    let entries = match rw with Sexp.L (Sexp.A "s" :: es) -> es | _ -> raise (Oof "raw step") in
    if List.mem (Sexp.L [Sexp.A "hang"]) entries || List.mem (Sexp.L [Sexp.A "aborted"]) entries then raise (Oof "hang");
    if List.mem (Sexp.L [Sexp.A "skipped"]) entries then raise (Oof "skipped");
    let pkts_of l = match List.find_opt (fun (c, _, _) -> c = l) ob with Some (_, p, _) -> p | None -> [] in
    let open_of l = match List.find_opt (fun (c, _, _) -> c = l) ob with Some (_, _, o) -> o | None -> false in
    (* connections seen ending in this step (other than a label being connected now) *)
    let closings ~except ~terminated ~in_sleep why =
      Hashtbl.fold (fun l s acc -> if s.up && l <> except && not (open_of l) then (l, s) :: acc else acc) socks []
      |> List.sort compare
      |> List.iter (fun (l, s) -> end_conn l s ~terminated:(terminated s) ~in_sleep why) in
    let never _ = false in
    (match Sexp.list step with
     | Sexp.A "connect" :: c :: ver :: rest ->
       let l = int_of_sx c and ver = int_of_sx ver and x = Sexp.L rest in
       (match Hashtbl.find_opt socks l with Some s when s.up -> raise (Oof "connect on a live label") | _ -> ());
       let cid = Sexp.atom (Sexp.field1 "cid" x) in
       let clean = bool_of_sx (Sexp.field1 "clean" x) in
       let props = Sexp.field "props" x in
       let connack = List.find_map (fun p -> match p with Sexp.L [Sexp.A "connack"; _; code; Sexp.L (Sexp.A "props" :: ps)] -> Some (int_of_sx code, ps) | _ -> None) (pkts_of l) in
       let ack_props = (match connack with Some (0, ps) -> ps | Some _ -> raise (Oof "connect refused") | None -> raise (Oof "no connack")) in
       if not (open_of l) then raise (Oof "closed right after connack");
       let is_obs = has_prefix "x6f" cid in
       let will = match Sexp.field_opt "will" x with
         | None -> None
         | Some w ->
           let w = Sexp.L w in
           let ps = Sexp.field "props" w in
           let payload = Sexp.atom (Sexp.field1 "payload" w) in
           if payload = "x" then raise (Oof "empty will payload");
           Some { wt = Sexp.atom (Sexp.field1 "topic" w); wp = payload; wq = int_of_sx (Sexp.field1 "qos" w);
                  wr = bool_of_sx (Sexp.field1 "retain" w);
                  wprops = List.filter (fun p -> S_wire.prop_name p <> "willdelay") ps;
                  wdelay = (if ver = 5 then (match prop_int "willdelay" ps with Some d -> d | None -> 0) else 0) } in
       if is_obs then begin
         if will <> None || Hashtbl.mem socks l then raise (Oof "observer with will / reconnecting");
         if Hashtbl.fold (fun _ s a -> a || s.cid = cid) socks false then raise (Oof "observer id reused");
         closings ~except:l ~terminated:never ~in_sleep:false "t";
         Hashtbl.replace socks l { ver; cid; obs = true; up = true; will = None; e = 0; disc = None; dsei = None; subs = []; pids = [] }
       end else begin
         (match will with Some { wr = true; wprops; _ } when prop_int "msgexpiry" wprops <> None -> raise (Oof "retained will with expiry") | _ -> ());
         (* 1. a live connection of the same client id is taken over: it ends first *)
         closings ~except:l ~terminated:never ~in_sleep:false "t";
         if Hashtbl.fold (fun _ s a -> a || (s.up && s.cid = cid)) socks false then raise (Oof "take-over left the old connection open");
         (* 2. resume or end the session *)
         let resumed = (not clean) && (match Hashtbl.find_opt sessions cid with
             | Some { off_since = Some t0; se } -> alive se (!clock - t0)
             | Some { off_since = None; _ } -> raise (Oof "session still attached")
             | None -> false) in
         if resumed then begin
           let (mine, others) = List.partition (fun p -> p.p_cid = cid && not p.p_orphan) !pending in
           if mutant = 6 then List.iter (fun p -> fire p.p_will cid "S") mine;
           if mine <> [] then hit "C";
           pending := others
         end else session_ends cid "S" ~by_terminate:false;
         let e =
           if ver = 5 then (match prop_int "sei" ack_props with Some v -> v | None -> (match prop_int "sei" props with Some v -> v | None -> 0))
           else if clean then 0 else cfg_se in
         Hashtbl.replace sessions cid { se = e; off_since = None };
         Hashtbl.replace socks l { ver; cid; obs = false; up = true; will; e; disc = None; dsei = None; subs = []; pids = [] }
       end
     | [Sexp.A "send"; c; p] ->
       let l = int_of_sx c in
       let s = (match Hashtbl.find_opt socks l with Some s when s.up -> s | _ -> raise (Oof "send on a dead socket")) in
       (match Sexp.list p with
        | Sexp.A "subscribe" :: _ :: Sexp.L (Sexp.A "props" :: sps) :: ts ->
          if not s.obs then raise (Oof "will client subscribes");
          let codes = (match List.find_map (fun q -> match q with Sexp.L [Sexp.A "suback"; _; Sexp.L (Sexp.A "codes" :: cs); _] -> Some (List.map int_of_sx cs) | _ -> None) (pkts_of l) with
              | Some cs when List.length cs = List.length ts -> cs
              | _ -> raise (Oof "no suback")) in
          let subid = if s.ver = 5 then prop_int "subid" sps else None in
          let fl = List.map (fun t -> match Sexp.list t with Sexp.A "t" :: f :: _ -> Sexp.atom f | _ -> raise (Oof "subscribe entry")) ts in
          if List.length (List.sort_uniq compare fl) <> List.length fl then raise (Oof "same filter twice in one SUBSCRIBE");
          List.iter2 (fun t code ->
              match Sexp.list t with
              | [Sexp.A "t"; f; _; _; rap; rh] when code < 128 ->
                let full = Sexp.atom f in
                let (share, filter) = split_share full in
                let is_new = not (List.exists (fun sb -> sb.s_full = full) s.subs) in
                let sb = { s_full = full; s_share = share; s_filter = filter; s_qos = code; s_rap = (s.ver = 5 && bool_of_sx rap); s_subid = subid } in
                s.subs <- List.filter (fun x -> x.s_full <> full) s.subs @ [sb];
                let rh = if s.ver = 5 then int_of_sx rh else 0 in
                if (not share) && (rh = 0 || (rh = 1 && is_new)) then
                  Hashtbl.iter (fun topic (_, cands) ->
                      if matches topic filter then begin
                        hit "r";
                        let alts = List.concat_map (fun (m : will) ->
                            let mk retain with_id = pub_text ~ver:s.ver ~qos:(min m.wq code) ~retain ~topic:m.wt ~payload:m.wp
                                ~props:(m.wprops @ (match subid with Some i when with_id -> [Sexp.L [Sexp.A "subid"; sx_int i]] | _ -> [])) in
                            List.concat_map (fun r -> List.map (fun i -> mk r i) (if dev.replay_nosubid then [true; false] else [true]))
                              (if dev.replay_rap0 then [true; sb.s_rap] else [true])) cands in
                        step_obl := !step_obl @ [[(l, alts)]]
                      end) retained
              | [Sexp.A "t"; _; _; _; _; _] -> ()
              | _ -> raise (Oof "subscribe entry")) ts codes
        | Sexp.A "unsubscribe" :: _ :: _ :: fs ->
          if not s.obs then raise (Oof "will client unsubscribes");
          if not (List.exists (fun q -> match q with Sexp.L (Sexp.A "unsuback" :: _) -> true | _ -> false) (pkts_of l)) then raise (Oof "no unsuback");
          List.iter (fun f -> s.subs <- List.filter (fun sb -> sb.s_full <> Sexp.atom f) s.subs) fs
        | [Sexp.A "disconnect"; code; Sexp.L (Sexp.A "props" :: dps)] ->
          if s.obs || s.disc <> None then raise (Oof "disconnect");
          let code = if s.ver = 5 then int_of_sx code else 0 in
          if code <> 0 && code <> 4 then raise (Oof "disconnect code");
          s.disc <- Some code;
          if s.ver = 5 then (match prop_int "sei" dps with
              | Some v -> if s.e = 0 && v <> 0 then raise (Oof "disconnect raises a zero session expiry");
                (* like the interval requested at CONNECT, the one given at DISCONNECT is min(requested, configured) *)
                s.dsei <- Some (min v cfg_se)
              | None -> ())
        | [Sexp.A "publish"; _; _; _; t; _; _; Sexp.L (Sexp.A "props" :: pps)] ->
          let ts = str_of_atom (Sexp.atom t) in
          if s.obs || s.disc <> None then raise (Oof "publish");
          if not (String.contains ts '+' || String.contains ts '#' || (s.ver = 5 && prop_int "alias" pps = Some 0)) then raise (Oof "valid publish")
        | [Sexp.A "auth"; _; _] -> if s.obs || s.disc <> None || s.ver = 5 then raise (Oof "auth")  (* v3/v4: an unknown packet type *)
        | [Sexp.A "pingreq"] -> ()
        | _ -> raise (Oof "packet kind"));
       closings ~except:(-1) ~terminated:never ~in_sleep:false "p"
     | [Sexp.A "close"; c] ->
       let l = int_of_sx c in
       (match Hashtbl.find_opt socks l with Some s when s.up && open_of l -> ignore s; raise (Oof "close left the socket open") | _ -> ());
       closings ~except:(-1) ~terminated:never ~in_sleep:false "c"
     | [Sexp.A "terminate"; cid] ->
       let cid = Sexp.atom cid in
       if has_prefix "x6f" cid then raise (Oof "terminate observer");
       let attached = Hashtbl.fold (fun l s a -> if s.up && s.cid = cid then Some l else a) socks None in
       (match attached with
        | Some l ->
          if open_of l then raise (Oof "terminate left the connection open");
          closings ~except:(-1) ~terminated:(fun s -> s.cid = cid) ~in_sleep:false "x"
        | None ->
          closings ~except:(-1) ~terminated:never ~in_sleep:false "c";
          if Hashtbl.mem sessions cid then begin
            (* an expired session is no session any more *)
            let live = (match Hashtbl.find sessions cid with { off_since = Some t0; se } -> alive se (!clock - t0) | _ -> true) in
            if live then session_ends cid "T" ~by_terminate:true else Hashtbl.remove sessions cid
          end)
     | [Sexp.A "sleep"; ms] ->
       clock := !clock + int_of_sx ms;
       closings ~except:(-1) ~terminated:never ~in_sleep:true "k";
       let (due, rest) = List.partition (fun p ->
           let el = !clock - p.p_t0 in
           if el >= p.p_d * 1000 + 250 then true
           else if el > p.p_d * 1000 - 550 then raise (Oof "will timer too close to call")
           else false) !pending in
       pending := rest;
       List.iter (fun p -> fire p.p_will p.p_cid "D") due
     | [Sexp.A "inspect"] ->
       closings ~except:(-1) ~terminated:never ~in_sleep:false "c";
       (match List.find_opt (fun e -> match e with Sexp.L (Sexp.A "inspect" :: _) -> true | _ -> false) entries with
        | Some insp ->
          let got = List.sort compare (List.map Sexp.to_string (Sexp.field "retained" insp)) in
          let user_pairs (w : will) = List.filter_map (fun p -> match p with Sexp.L [Sexp.A "user"; k; v] -> Some (Sexp.L [k; v]) | _ -> None) w.wprops in
          let bytes_prop k (w : will) = (match List.find_map (fun p -> match p with Sexp.L [Sexp.A k'; v] when k' = k -> Some v | _ -> None) w.wprops with Some v -> v | None -> Sexp.A "x") in
          let m_of (w : will) = Sexp.to_string (Sexp.L [Sexp.A "m"; Sexp.A "0"; sx_int w.wq; Sexp.A "1"; Sexp.A w.wt; Sexp.A w.wp; Sexp.A "0";
                                                        bytes_prop "ctype" w; bytes_prop "corr" w; Sexp.A "0";
                                                        sx_int (match prop_int "pfmt" w.wprops with Some v -> v | None -> 0); bytes_prop "resp" w;
                                                        Sexp.L []; Sexp.L (user_pairs w)]) in
          let topics = Hashtbl.fold (fun t (_, c) a -> (t, c) :: a) retained [] in
          (* some choice of one candidate per topic must give exactly the stored set *)
          let rec choose = function
            | [] -> [[]]
            | (_, cands) :: r -> List.concat_map (fun c -> List.map (fun tl -> m_of c :: tl) (choose r)) cands in
          if topics <> [] then hit "Ri";
          if not (List.exists (fun sel -> List.sort compare sel = got) (choose topics)) then
            set_fail k (Printf.sprintf "retained store: expected one of the wills %s per topic, store holds %s"
                          (String.concat " | " (List.map (fun (t, c) -> t ^ ":" ^ String.concat "," (List.map (fun (w : will) -> w.wp) c)) topics)) (String.concat " " got))
        | None -> raise (Oof "inspect missing"))
     | _ -> raise (Oof ("step kind " ^ Sexp.to_string step)));
    (* ---- compare: what arrived in this step *)
    let remaining = ref [] in
    List.iter (fun (l, pk, _) ->
        let pubs = List.filter (fun p -> S_wire.is_publish p) pk in
        match Hashtbl.find_opt socks l with
        | Some s when s.obs ->
          List.iter (fun p -> match p with
              | Sexp.L [Sexp.A "publish"; d; q; _; _; _; pid; _] ->
                let q = int_of_sx q and pid = int_of_sx pid in
                if bool_of_sx d then set_fail k (Printf.sprintf "socket %d: DUP set on a first delivery" l);
                if (q = 0) <> (pid = 0) then set_fail k (Printf.sprintf "socket %d: packet id %d with QoS %d" l pid q);
                if q > 0 then begin
                  if List.mem pid s.pids then set_fail k (Printf.sprintf "socket %d: packet id %d reused while unacknowledged" l pid);
                  s.pids <- pid :: s.pids
                end
              | _ -> ()) pubs;
          remaining := (l, List.map (fun p -> Sexp.to_string (S_wire.strip_pid p)) pubs) :: !remaining
        | _ -> if pubs <> [] then set_fail k (Printf.sprintf "socket %d (not an observer) received %s" l (Sexp.to_string (List.hd pubs)))) ob;
    let remove_one a l = let rec go = function [] -> [] | x :: r -> if x = a then r else x :: go r in go l in
    let rec solve obls rem =
      match obls with
      | [] -> List.for_all (fun (_, l) -> l = []) rem
      | opts :: rest ->
        List.exists (fun (l, alts) ->
            match List.assoc_opt l rem with
            | None -> false
            | Some got ->
              List.exists (fun a -> List.mem a got && solve rest ((l, remove_one a got) :: List.remove_assoc l rem)) (List.sort_uniq compare alts)) opts in
    if not (solve !step_obl !remaining) then
      set_fail k (Printf.sprintf "%s: expected %s got %s" (Sexp.to_string (match step with Sexp.L (a :: b :: _) -> Sexp.L [a; b] | x -> x))
                    (if !step_obl = [] then "no PUBLISH" else
                       String.concat " AND " (List.map (fun opts -> String.concat " XOR " (List.map (fun (l, alts) -> Printf.sprintf "@%d:%s" l (String.concat "/" (List.sort_uniq compare alts))) opts)) !step_obl))
                    (let g = List.concat_map (fun (l, ps) -> List.map (fun p -> Printf.sprintf "@%d:%s" l p) ps) (List.sort compare !remaining) in
                     if g = [] then "no PUBLISH" else String.concat " " g)) in
  let rec walk k steps obs raw =
    match steps, obs, raw with
    | st :: s', ob :: o', rw :: r' -> step_one k st ob rw; walk (k + 1) s' o' r'
    | _ -> () in
  walk 0 steps obs raw;
  if !pending <> [] then hit "P";
  match !fail with None -> (true, "") | Some m -> (false, m)

let cls_of_cov () =
  let l = Hashtbl.fold (fun k _ a -> k :: a) cov [] in
  if l = [] then "none" else String.concat "." (List.sort compare l)

let kf_names = [ ("kf_will_late_after_terminate", (fun d -> d.late_term));
                 ("kf_msgexpiry_stale_clock", (fun d -> d.stale_exp));
                 ("kf_retained_replay_rap0", (fun d -> d.replay_rap0));
                 ("kf_retained_replay_no_subid", (fun d -> d.replay_nosubid));
                 ("kf_shared_filter_matches_dollar_topic", (fun d -> d.shared_dollar)) ]

let oracle : S_wire.oracle_fn = fun cfg hooks steps obs raw ->
  try
    let (ok, why) = oracle_dev no_dev cfg hooks steps obs raw in
    last_cls := cls_of_cov ();
    if ok then (true, "-", "")
    else begin
      (* is the failure exactly one of the known deviation classes (or a combination)?  smallest set first *)
      let devs = List.init 32 (fun i -> { late_term = i land 1 <> 0; stale_exp = i land 2 <> 0; replay_rap0 = i land 4 <> 0;
                                          replay_nosubid = i land 8 <> 0; shared_dollar = i land 16 <> 0 }) in
      let size d = List.length (List.filter (fun (_, f) -> f d) kf_names) in
      let devs = List.sort (fun x y -> compare (size x) (size y)) (List.filter (fun d -> d <> no_dev) devs) in
      match List.find_opt (fun d -> try fst (oracle_dev d cfg hooks steps obs raw) with Oof _ -> false) devs with
      | Some d -> (false, String.concat "+" (List.filter_map (fun (n, f) -> if f d then Some n else None) kf_names), why)
      | None -> (false, "-", why)
    end
  with Oof what -> last_cls := "oof"; (true, "-", "out_of_family:" ^ what)

let run (input : Sexp.t) (impl : Sexp.t) : Verdict.t =
  last_cls := "";
  let v = S_wire.run_with oracle input impl in
  if !last_cls = "" then v else { v with Verdict.cls = !last_cls }
