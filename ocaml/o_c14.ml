(* Oracle for property C14 - "hook decisions are enforced; each hook fires exactly once per event".

   Written from the statement (plus MQTT for what a forwarded copy looks like on a subscriber's wire and the doc
   comments of server/hook.go for what the "event" of a hook kind is), evaluated on the packets the real broker sent
   and on its (inspect) dumps.  Family: harness/w_c14.go.  The verdict of every hook is computed from the (hooks ..)
   tables of the scenario exactly as WIRE.md section 5 defines them.

   Abstract state: per socket the CONNECT (version, client id, will, session expiry) and whether the authentication hook
   accepted it; per observer client the subscriptions the OnSubscribe verdict lets through; the retained store; the set
   of sessions; the QoS 2 packet ids a publisher still owes a PUBREL for; the multiset of hook calls owed so far.

   Clauses decided (per step, multiset of PUBLISH packets per socket must equal the expectation; per (inspect), the
   dump must equal the abstract state):
     A  CONNECT refused by OnBasicAuth / OnEnhancedAuth: CONNACK with session-present 0 and the hook's reason code
        (3.x: the code when it is a 3.x return code, else any 3.x failure code); nothing else happens: no take-over of a
        live connection with that client id, no session / on-line entry / will / subscription / retained message (inspect),
        whatever the refused socket sends afterwards has no effect and is not answered, its will is never published;
     B  SUBSCRIBE: SUBACK carries, per entry, the hook's reason code (3.x: 0x80) / the granted QoS / the requested QoS;
        rejected entries are not installed (inspect, no forwarding, no retained replay), granted ones are installed with
        the hook's QoS (inspect, forwarding at min(message QoS, granted QoS), replay); "reject all" rejects all;
     C  PUBLISH: rejected or dropped by OnMsgArrived: nobody receives anything in that step, the retained store is
        unchanged (inspect, later replays), v5 publisher: the ack carries the hook's reason code; rewritten: subscribers of
        the NEW topic get the NEW payload at min(NEW QoS, granted QoS), the retained store holds the rewritten message
        (empty new payload: the entry is cleared); a QoS 2 retransmission before PUBREL is not a new event;
     D  will: published when the connection ends without a suppressing DISCONNECT, after OnWillPublish: dropped -> nothing
        (and no OnWillPublished), rewritten -> the new topic / payload / QoS (retain flag and properties of the will);
     E  exactly once: for every (inspect) with a call log, the multiset of calls so far equals the multiset owed:
        on_accept per TCP connection, on_basic_auth / on_enhanced_auth per CONNECT (with the CONNECT's id, user, password),
        on_connected, on_session_created | on_session_resumed per accepted CONNECT, on_session_terminated per ended session,
        on_closed per ended accepted connection, on_subscribe per SUBSCRIBE (requested entries), on_subscribed per installed
        entry (as installed), on_unsubscribe per UNSUBSCRIBE, on_unsubscribed per removed subscription (optional when
        there was none), on_msg_arrived per PUBLISH (the message as sent, not per retransmission), on_will_publish per due
        will (original), on_will_published per published will (as published), on_delivered per PUBLISH packet a client
        actually received, never on_msg_dropped / on_reauth / on_stop.
   Not decided: the order of packets inside a step and the order of calls; packet ids (only: fresh, non-zero iff QoS>0);
   the RETAIN flag and the subscription identifier of a retained REPLAY (other properties); the reason code in the ack of
   an accepted or dropped PUBLISH (0x00 / 0x10); PUBCOMP; the session-present flag of an accepted CONNECT; the reason
   argument of on_session_terminated, the error argument of on_closed, an on_closed for a refused connection.

   Known finding (returned as kf only when every failure of the scenario is of this class, everything else stays strict):
     kf_connack3_carries_v5_code   a 3.1 / 3.1.1 CONNECT refused by the hook with a v5 reason code (>= 0x80) is answered
                                   with return code 0x87 (135), which is not a 3.x return code (sendErrConnack overrides
                                   with codes.NotAuthorized instead of codes.V3NotAuthorized = 5). *)
open Conv

exception Oof of string (* outside the family: no verdict *)

type msg = { mt : string; mp : string; mq : int; mr : bool; mprops : Sexp.t list }
type sub = { s_full : string; s_share : string option; s_filter : string; s_qos : int; s_req : int; s_nl : bool; s_rap : bool; s_rh : int; s_subid : int option }
type state = Live | Rejected | Dead
type sock = {
  label : int; ver : int; cid : string; is_obs : bool; mutable st : state; will : msg option; e : int;
  mutable disc : int option; mutable pids : int list; mutable quiet_from : int }

(* mutation switches for testing the oracle itself (O_C14_MUT=n): 1 a rejected subscription is installed, 2 the hook's
   granted QoS is ignored (requested QoS), 3 a rejected / dropped PUBLISH is delivered, 4 a rewrite is ignored, 5 a dropped
   will is published, 6 the will of a refused CONNECT is published at close, 7 on_msg_arrived fires for retransmissions too,
   8 the retained store takes the message as sent (before the hook), 9 a refused CONNECT takes the live connection over,
   10 reason codes are not carried (SUBACK 0x80 / CONNACK 0x87 always) *)
let mutant = match Sys.getenv_opt "O_C14_MUT" with Some s -> (try int_of_string s with _ -> 0) | None -> 0

let cov : (string, int) Hashtbl.t = Hashtbl.create 16
let last_cls = ref ""

let str_of_atom a = let b = bytes_of_atom a in String.init (List.length b) (fun i -> Char.chr (int_of_n (List.nth b i)))
let atom_of_str s = "x" ^ String.concat "" (List.init (String.length s) (fun i -> Printf.sprintf "%02x" (Char.code s.[i])))
let has_prefix p s = String.length s >= String.length p && String.sub s 0 (String.length p) = p

let prop_int k props = List.find_map (fun p -> match p with Sexp.L [Sexp.A k'; v] when k' = k -> Some (int_of_sx v) | _ -> None) props
let prop_atom k props = match List.find_map (fun p -> match p with Sexp.L [Sexp.A k'; v] when k' = k -> Some v | _ -> None) props with Some v -> v | None -> Sexp.A "x"

let split_share full = (* "$share/g/filter" -> (Some g, filter) *)
  let s = str_of_atom full in
  if has_prefix "$share/" s then
    (match String.index_from_opt s 7 '/' with
     | Some i -> (Some (atom_of_str (String.sub s 7 (i - 7))), atom_of_str (String.sub s (i + 1) (String.length s - i - 1)))
     | None -> raise (Oof "bad share filter"))
  else (None, full)

let matches topic filter = Model.topic_match (bytes_of_atom topic) (bytes_of_atom filter)

(* the canonical text of a PUBLISH as the subscriber should see it (packet id blanked) *)
let pub_text ~ver ~qos ~retain ~topic ~payload ~(props : Sexp.t list) =
  let props = if ver = 5 then props else [] in
  Sexp.to_string (Sexp.L [Sexp.A "publish"; Sexp.A "0"; sx_int qos; sx_bool retain; Sexp.A topic; Sexp.A payload; Sexp.A "_";
                          S_wire.canon_props (Sexp.L (Sexp.A "props" :: props))])

(* (m dup qos retained topic payload pid ctype corr expiry pfmt resp (subids..) ((k v)..)) with dup and pid blanked *)
let m_text ?(pid = "_") (m : msg) =
  let ups = List.filter_map (fun p -> match p with Sexp.L [Sexp.A "user"; k; v] -> Some (Sexp.L [k; v]) | _ -> None) m.mprops in
  Sexp.to_string (Sexp.L [Sexp.A "m"; Sexp.A "_"; sx_int m.mq; sx_bool m.mr; Sexp.A m.mt; Sexp.A m.mp; Sexp.A pid;
                          prop_atom "ctype" m.mprops; prop_atom "corr" m.mprops; Sexp.A "0";
                          sx_int (match prop_int "pfmt" m.mprops with Some v -> v | None -> 0); prop_atom "resp" m.mprops;
                          Sexp.L []; Sexp.L ups])
let mask_m ?(keep_pid = false) (x : Sexp.t) = match x with
  | Sexp.L (Sexp.A "m" :: _ :: q :: r :: t :: p :: pid :: rest) ->
    Sexp.to_string (Sexp.L (Sexp.A "m" :: Sexp.A "_" :: q :: r :: t :: p :: (if keep_pid then pid else Sexp.A "_") :: rest))
  | _ -> Sexp.to_string x

let oracle_run (cfg : Model.cfg) (hooks : Model.hooks) (steps : Sexp.t list)
    (obs : (int * Sexp.t list * bool) list list) (raw : Sexp.t list) : bool * string * string =
  Hashtbl.reset cov;
  let hit k = Hashtbl.replace cov k (1 + (try Hashtbl.find cov k with Not_found -> 0)) in
  let onlyonce = cfg.Model.c_onlyonce in
  let cfg_se = int_of_n cfg.Model.c_session_expiry in
  let socks : (int, sock) Hashtbl.t = Hashtbl.create 8 in
  let subs : (string, sub list) Hashtbl.t = Hashtbl.create 4 in          (* observer client id -> installed *)
  let refused_subs : (string, sub list) Hashtbl.t = Hashtbl.create 4 in  (* what the hook rejected (coverage, mutant 1) *)
  let sessions : (string, int) Hashtbl.t = Hashtbl.create 4 in           (* client id -> session expiry *)
  let retained : (string, msg) Hashtbl.t = Hashtbl.create 4 in
  let q2tbl : (string, int list) Hashtbl.t = Hashtbl.create 4 in         (* session -> QoS 2 packet ids received, PUBREL outstanding *)
  let q2_of cid = try Hashtbl.find q2tbl cid with Not_found -> [] in
  let q2_add cid pid = if not (List.mem pid (q2_of cid)) then Hashtbl.replace q2tbl cid (pid :: q2_of cid) in
  let owed : (string, int) Hashtbl.t = Hashtbl.create 32 in
  let optional : (string, int) Hashtbl.t = Hashtbl.create 4 in
  let received : (string, int) Hashtbl.t = Hashtbl.create 32 in          (* PUBLISH packets clients received, as on_delivered keys *)
  let bump tbl k = Hashtbl.replace tbl k (1 + (try Hashtbl.find tbl k with Not_found -> 0)) in
  let owe name args = bump owed (Sexp.to_string (Sexp.L (Sexp.A name :: args))) in
  let fails : (string * string) list ref = ref [] in
  let set_fail_kf kf k msg = fails := !fails @ [(kf, Printf.sprintf "step %d: %s" k msg)] in
  let set_fail k msg = set_fail_kf "-" k msg in
  let live_socks () = List.sort compare (Hashtbl.fold (fun l s acc -> if s.st = Live then (l, s) :: acc else acc) socks []) in
  let observers () = List.filter (fun (_, s) -> s.is_obs) (live_socks ()) in
  let subs_of cid = try Hashtbl.find subs cid with Not_found -> [] in

  (* ---- verdicts of the scripted hooks (WIRE.md section 5) *)
  let auth_verdict user pass =
    match hooks.Model.h_auth with
    | None -> 0
    | Some (tbl, dflt) ->
      (match List.find_opt (fun ((u, p), _) -> u = bytes_of_atom user && p = bytes_of_atom pass) tbl with
       | Some (_, c) -> int_of_n c
       | None -> int_of_n dflt) in
  let sub_verdict cid full =
    match hooks.Model.h_sub_all with
    | Some c -> Model.SReject c
    | None ->
      List.fold_left (fun acc ((c, f), a) -> if c = bytes_of_atom cid && f = bytes_of_atom full then a else acc) Model.SAccept hooks.Model.h_sub in
  let msg_verdict topic =
    if not hooks.Model.h_msg_on then Model.MAccept else
      match List.find_opt (fun (t, _) -> t = bytes_of_atom topic) hooks.Model.h_msg with Some (_, a) -> a | None -> Model.MAccept in
  let will_verdict cid =
    if not hooks.Model.h_will_on then Model.MAccept else
      match List.find_opt (fun (c, _) -> c = bytes_of_atom cid) hooks.Model.h_will with Some (_, a) -> a | None -> Model.MAccept in

  (* ---- what one application message owes to the observers: a list of obligations, each a list of options
     (socket, acceptable texts); exactly one option of every obligation is realised *)
  let deliver (m : msg) (from_cid : string) : (int * string list) list list =
    let obl = ref [] in
    let groups : (string, (int * string list) list) Hashtbl.t = Hashtbl.create 4 in
    List.iter (fun (l, s) ->
        let mine = subs_of s.cid in
        let mine = if mutant = 1 then mine @ (try Hashtbl.find refused_subs s.cid with Not_found -> []) else mine in
        let m_subs = List.filter (fun sb -> matches m.mt sb.s_filter && not (sb.s_nl && s.cid = from_cid)) mine in
        (* coverage: the hook's verdict decides this delivery *)
        if List.exists (fun sb -> matches m.mt sb.s_filter && not (List.exists (fun x -> x.s_full = sb.s_full) mine))
            (try Hashtbl.find refused_subs s.cid with Not_found -> []) then hit "Sx";
        if List.exists (fun sb -> sb.s_qos <> sb.s_req && min m.mq sb.s_qos <> min m.mq sb.s_req) m_subs then hit "Sq";
        let gq sb = if mutant = 2 then sb.s_req else sb.s_qos in
        let plain = List.filter (fun sb -> sb.s_share = None) m_subs and shared = List.filter (fun sb -> sb.s_share <> None) m_subs in
        let ids sb = match sb.s_subid with Some i -> [i] | None -> [] in
        let one sb subids qos =
          [pub_text ~ver:s.ver ~qos ~retain:(m.mr && sb.s_rap) ~topic:m.mt ~payload:m.mp
             ~props:(m.mprops @ List.map (fun i -> Sexp.L [Sexp.A "subid"; sx_int i]) subids)] in
        if plain <> [] then begin
          if onlyonce then begin
            let mq = List.fold_left (fun a sb -> max a (gq sb)) 0 plain in
            let subids = List.concat_map ids plain in
            let alts = List.concat_map (fun sb -> if gq sb = mq then one sb subids (min m.mq mq) else []) plain in
            obl := [(l, alts)] :: !obl
          end else
            List.iter (fun sb -> obl := [(l, one sb (ids sb) (min m.mq (gq sb)))] :: !obl) plain
        end;
        List.iter (fun sb ->
            let prev = try Hashtbl.find groups sb.s_full with Not_found -> [] in
            Hashtbl.replace groups sb.s_full (prev @ [(l, one sb (ids sb) (min m.mq (gq sb)))])) shared) (observers ());
    Hashtbl.iter (fun _ opts -> obl := opts :: !obl) groups;
    !obl in

  let step_obl : (int * string list) list list ref = ref [] in
  let store_retained (m : msg) =
    if m.mr then begin
      if m.mp = "x" then (hit "Rc"; Hashtbl.remove retained m.mt) else Hashtbl.replace retained m.mt m
    end in

  (* ---- the end of an accepted network connection *)
  let end_conn (s : sock) =
    s.st <- Dead;
    owe "on_closed" [Sexp.A s.cid; Sexp.A "_"];
    let suppressed = (match s.disc with Some 0 -> true | Some 4 -> false | Some _ -> raise (Oof "disconnect code") | None -> false) in
    (match s.will with
     | Some w when not suppressed ->
       owe "on_will_publish" [Sexp.A s.cid; Sexp.A (m_text w)];
       let w' = match will_verdict s.cid with
         | Model.MAccept -> (if hooks.Model.h_will_on && List.exists (fun (c, _) -> c = bytes_of_atom s.cid) hooks.Model.h_will then hit "Wa" else hit "W"); Some w
         | Model.MDrop -> hit "Wd"; if mutant = 5 then Some w else None
         | Model.MRewrite (t, p, q) -> hit "Ww"; Some { w with mt = atom_of_bytes t; mp = atom_of_bytes p; mq = int_of_n q mod 4; mr = (match int_of_n q / 4 with 0 -> w.mr | 1 -> false | _ -> true) }
         | Model.MReject _ -> raise (Oof "reject in will hook") in
       (match w' with
        | None -> ()
        | Some w ->
          owe "on_will_published" [Sexp.A s.cid; Sexp.A (m_text w)];
          store_retained w;
          if w.mr then hit "Wr";
          step_obl := !step_obl @ deliver w s.cid)
     | Some _ -> hit "W0"
     | None -> ());
    if s.e = 0 then begin
      Hashtbl.remove sessions s.cid;
      Hashtbl.remove q2tbl s.cid;
      owe "on_session_terminated" [Sexp.A s.cid; Sexp.A "_"]
    end in

  let carry : (int * Sexp.t list * bool) list ref = ref [] in
  let carry_label = ref (-1) in

  let step_one k step (ob : (int * Sexp.t list * bool) list) (rw : Sexp.t) =
    step_obl := [];
    let entries = match rw with Sexp.L (Sexp.A "s" :: es) -> es | _ -> raise (Oof "raw step") in
    if List.mem (Sexp.L [Sexp.A "hang"]) entries || List.mem (Sexp.L [Sexp.A "aborted"]) entries then raise (Oof "hang");
    if List.mem (Sexp.L [Sexp.A "skipped"]) entries then raise (Oof "skipped");
    (* packets of a DISCONNECT step are judged together with the close that follows it *)
    let ob = if !carry = [] then ob else
        List.map (fun (l, pk, o) -> match List.find_opt (fun (l', _, _) -> l' = l) !carry with Some (_, pk', _) -> (l, pk' @ pk, o) | None -> (l, pk, o)) ob in
    let carried = !carry_label in
    carry := []; carry_label := -1;
    let pkts_of l = match List.find_opt (fun (c, _, _) -> c = l) ob with Some (_, p, _) -> p | None -> [] in
    let open_of l = match List.find_opt (fun (c, _, _) -> c = l) ob with Some (_, _, o) -> o | None -> false in
    (match Sexp.list step with
     | [Sexp.A "close"; c] when carried >= 0 && int_of_sx c = carried -> ()
     | _ when carried >= 0 -> raise (Oof "DISCONNECT not followed by close")
     | _ -> ());
    let deferred = ref false in
    (match Sexp.list step with
     | Sexp.A "connect" :: c :: ver :: rest ->
       let l = int_of_sx c and ver = int_of_sx ver and x = Sexp.L rest in
       (match Hashtbl.find_opt socks l with Some s when s.st <> Dead -> raise (Oof "connect on a live label") | _ -> ());
       let cid = Sexp.atom (Sexp.field1 "cid" x) in
       if cid = "x" then raise (Oof "empty client id");
       let clean = bool_of_sx (Sexp.field1 "clean" x) in
       let props = Sexp.field "props" x in
       let opt k = match Sexp.field_opt k x with Some [v] -> Sexp.atom v | _ -> "x" in
       let user = opt "user" and pass = opt "pass" in
       let is_obs = has_prefix "x6f" cid in
       let will = match Sexp.field_opt "will" x with
         | None -> None
         | Some w ->
           let w = Sexp.L w in
           let ps = Sexp.field "props" w in
           (match prop_int "willdelay" ps with Some d when d <> 0 -> raise (Oof "will delay") | _ -> ());
           if prop_int "msgexpiry" ps <> None then raise (Oof "will expiry");
           Some { mt = Sexp.atom (Sexp.field1 "topic" w); mp = Sexp.atom (Sexp.field1 "payload" w); mq = int_of_sx (Sexp.field1 "qos" w);
                  mr = bool_of_sx (Sexp.field1 "retain" w);
                  mprops = (if ver = 5 then List.filter (fun p -> S_wire.prop_name p <> "willdelay") ps else []) } in
       owe "on_accept" [];
       let enhanced = ver = 5 && List.exists (fun p -> S_wire.prop_name p = "authmethod") props in
       let code =
         if enhanced then begin
           owe "on_enhanced_auth" [Sexp.A cid; prop_atom "authmethod" props; prop_atom "authdata" props];
           hit "Ce"; -1
         end else begin
           owe "on_basic_auth" [Sexp.A cid; Sexp.A user; Sexp.A pass];
           auth_verdict user pass
         end in
       let connack = List.find_map (fun p -> match p with Sexp.L [Sexp.A "connack"; sp; code; _] -> Some (bool_of_sx sp, int_of_sx code) | _ -> None) (pkts_of l) in
       let old = List.find_opt (fun (_, s) -> s.cid = cid) (live_socks ()) in
       let e =
         if ver = 5 then (match prop_int "sei" props with Some v -> min v cfg_se | None -> 0)
         else if clean then 0 else cfg_se in
       let mk st = { label = l; ver; cid; is_obs; st; will; e; disc = None; pids = []; quiet_from = k + 1 } in
       if code <> 0 then begin
         (* clause A: refused *)
         if not enhanced then hit "Cr";
         if will <> None then hit "Cw";
         if old <> None then hit "Cx";
         if is_obs && old = None then raise (Oof "observer refused");
         (match connack with
          | None -> set_fail k (Printf.sprintf "A: CONNECT on socket %d refused by the hook (code %d) but no CONNACK arrived" l code)
          | Some (sp, got) ->
            let want_ok =
              if enhanced then got >= 128 || (ver <> 5 && got >= 1 && got <= 5)
              else if mutant = 10 then got = 135
              else if ver = 5 then (if code < 128 then raise (Oof "3.x return code for a v5 client") else got = code)
              else if code <= 5 then got = code
              else got >= 1 && got <= 5 in
            if not want_ok then
              set_fail_kf (if ver <> 5 && code >= 128 && got = 135 then "kf_connack3_carries_v5_code" else "-") k
                (Printf.sprintf "A: CONNECT (MQTT %s) on socket %d refused by the hook with code %d, CONNACK carries %d" (if ver = 5 then "5" else "3.x") l code got);
            if sp then set_fail k (Printf.sprintf "A: refused CONNECT on socket %d answered with session present" l));
         Hashtbl.replace socks l (mk Rejected);
         if mutant = 9 then (match old with Some (_, o) when open_of o.label -> set_fail k "mutant: the refused CONNECT should have taken the live connection over" | _ -> ())
       end else begin
         (match connack with
          | Some (_, 0) -> ()
          | Some (_, c) -> set_fail k (Printf.sprintf "A: CONNECT on socket %d accepted by the hook, CONNACK carries %d" l c)
          | None -> set_fail k (Printf.sprintf "A: CONNECT on socket %d accepted by the hook, no CONNACK" l));
         if not (open_of l) then raise (Oof "closed right after connack");
         (match old with
          | Some (_, o) ->
            if o.is_obs then raise (Oof "observer taken over");
            if open_of o.label then raise (Oof "take-over left the old connection open");
            if o.e = 0 && not clean then raise (Oof "take-over resuming a session that ends with its connection");
            hit "T";
            end_conn o
          | None -> ());
         owe "on_connected" [Sexp.A cid];
         if Hashtbl.mem sessions cid then begin
           if clean then begin
             owe "on_session_terminated" [Sexp.A cid; Sexp.A "_"];
             owe "on_session_created" [Sexp.A cid];
             Hashtbl.remove q2tbl cid
           end else (hit "Sr_"; owe "on_session_resumed" [Sexp.A cid])
         end else (owe "on_session_created" [Sexp.A cid]; Hashtbl.remove q2tbl cid);
         Hashtbl.replace sessions cid e;
         if is_obs && Hashtbl.mem subs cid then raise (Oof "observer reconnects");
         Hashtbl.replace socks l (mk Live)
       end
     | [Sexp.A "send"; c; p] ->
       let l = int_of_sx c in
       let s = (match Hashtbl.find_opt socks l with Some s -> s | None -> raise (Oof "send on an unknown socket")) in
       (match s.st with
        | Dead -> raise (Oof "send on a dead socket")
        | Rejected -> hit "Cf" (* clause A: whatever a refused client sends has no effect; checked below: nobody receives anything *)
        | Live ->
          if s.disc <> None then raise (Oof "send after DISCONNECT");
          (match Sexp.list p with
           | Sexp.A "subscribe" :: _ :: Sexp.L (Sexp.A "props" :: sps) :: ts ->
             if not s.is_obs then raise (Oof "actor subscribes");
             let subid = if s.ver = 5 then prop_int "subid" sps else None in
             let ents = List.map (fun t -> match Sexp.list t with
                 | [Sexp.A "t"; f; q; nl; rap; rh] -> (Sexp.atom f, int_of_sx q, bool_of_sx nl, bool_of_sx rap, int_of_sx rh)
                 | _ -> raise (Oof "subscribe entry")) ts in
             let fl = List.map (fun (f, _, _, _, _) -> f) ents in
             if List.length (List.sort_uniq compare fl) <> List.length fl then raise (Oof "same filter twice in one SUBSCRIBE");
             owe "on_subscribe" (Sexp.A s.cid :: List.map (fun (f, q, _, _, _) -> Sexp.L [Sexp.A "t"; Sexp.A f; sx_int q]) ents);
             if hooks.Model.h_sub_all <> None then hit "Sa";
             let want = List.map (fun (f, q, _, _, _) ->
                 match sub_verdict s.cid f with
                 | Model.SAccept -> q
                 | Model.SQos g -> let g = int_of_n g in (if g < q then hit "Sd" else if g > q then hit "Su"); g
                 | Model.SReject c ->
                   let c = int_of_n c in
                   if c < 128 then raise (Oof "subscribe rejected with a success code");
                   if hooks.Model.h_sub_all = None then hit "Sj";
                   if s.ver = 5 && mutant <> 10 then c else 128) ents in
             (match List.find_map (fun q -> match q with Sexp.L [Sexp.A "suback"; _; Sexp.L (Sexp.A "codes" :: cs); _] -> Some (List.map int_of_sx cs) | _ -> None) (pkts_of l) with
              | Some cs when cs = want -> ()
              | Some cs -> set_fail k (Printf.sprintf "B: SUBACK on socket %d carries (%s), the hook decided (%s)" l
                                         (String.concat " " (List.map string_of_int cs)) (String.concat " " (List.map string_of_int want)))
              | None -> set_fail k (Printf.sprintf "B: no SUBACK on socket %d" l));
             List.iter2 (fun (full, q, nl, rap, rh) code ->
                 let (share, filter) = split_share full in
                 let v5 = s.ver = 5 in
                 let sb = { s_full = full; s_share = share; s_filter = filter; s_qos = (if code < 128 then code else q); s_req = q;
                            s_nl = v5 && nl; s_rap = v5 && rap; s_rh = (if v5 then rh else 0); s_subid = subid } in
                 if code >= 128 then
                   Hashtbl.replace refused_subs s.cid (List.filter (fun x -> x.s_full <> full) (try Hashtbl.find refused_subs s.cid with Not_found -> []) @ [sb])
                 else begin
                   let cur = subs_of s.cid in
                   let is_new = not (List.exists (fun x -> x.s_full = full) cur) in
                   Hashtbl.replace subs s.cid (List.filter (fun x -> x.s_full <> full) cur @ [sb]);
                   owe "on_subscribed" [Sexp.A s.cid; Sexp.L [Sexp.A "s"; Sexp.A (match share with Some g -> g | None -> "x"); Sexp.A filter;
                                                               sx_int (match subid with Some i -> i | None -> 0); sx_int sb.s_qos;
                                                               sx_bool sb.s_nl; sx_bool sb.s_rap; sx_int sb.s_rh]];
                   if share = None && (sb.s_rh = 0 || (sb.s_rh = 1 && is_new)) then
                     Hashtbl.iter (fun topic (m : msg) ->
                         if matches topic filter then begin
                           hit "Rp";
                           let gq = if mutant = 2 then q else sb.s_qos in
                           let mk retain with_id = pub_text ~ver:s.ver ~qos:(min m.mq gq) ~retain ~topic:m.mt ~payload:m.mp
                               ~props:(m.mprops @ (match subid with Some i when with_id -> [Sexp.L [Sexp.A "subid"; sx_int i]] | _ -> [])) in
                           step_obl := !step_obl @ [[(l, [mk true true; mk true false; mk false true; mk false false])]]
                         end) retained
                 end) ents want
           | Sexp.A "unsubscribe" :: _ :: _ :: fs ->
             if not s.is_obs then raise (Oof "actor unsubscribes");
             if not (List.exists (fun q -> match q with Sexp.L (Sexp.A "unsuback" :: _) -> true | _ -> false) (pkts_of l)) then raise (Oof "no unsuback");
             owe "on_unsubscribe" (Sexp.A s.cid :: fs);
             List.iter (fun f ->
                 let f = Sexp.atom f in
                 let cur = subs_of s.cid in
                 let key = Sexp.to_string (Sexp.L [Sexp.A "on_unsubscribed"; Sexp.A s.cid; Sexp.A f]) in
                 if List.exists (fun sb -> sb.s_full = f) cur then bump owed key else bump optional key;
                 Hashtbl.replace subs s.cid (List.filter (fun sb -> sb.s_full <> f) cur)) fs
           | [Sexp.A "disconnect"; code; Sexp.L (Sexp.A "props" :: dps)] ->
             if s.is_obs then raise (Oof "observer disconnects");
             if dps <> [] then raise (Oof "disconnect properties");
             let code = if s.ver = 5 then int_of_sx code else 0 in
             if code <> 0 && code <> 4 then raise (Oof "disconnect code");
             s.disc <- Some code;
             deferred := true
           | [Sexp.A "publish"; dup; q; r; t; pl; pid; Sexp.L (Sexp.A "props" :: pps)] ->
             let q = int_of_sx q and pid = int_of_sx pid and topic = Sexp.atom t in
             let ts = str_of_atom topic in
             if ts = "" || String.contains ts '+' || String.contains ts '#' || ts.[0] = '$' then raise (Oof "topic name");
             if List.exists (fun p -> List.mem (S_wire.prop_name p) ["alias"; "msgexpiry"; "subid"]) pps then raise (Oof "publish property");
             let m = { mt = topic; mp = Sexp.atom pl; mq = q; mr = bool_of_sx r; mprops = (if s.ver = 5 then pps else []) } in
             let acks = List.filter_map (fun x -> match x with
                 | Sexp.L [Sexp.A ("puback" | "pubrec" as kind); p'; code; _] when int_of_sx p' = pid -> Some (kind, int_of_sx code)
                 | _ -> None) (pkts_of l) in
             let want_kind = if q = 1 then "puback" else "pubrec" in
             let check_ack ok what =
               if q > 0 then
                 (match acks with
                  | [(kind, code)] when kind = want_kind ->
                    if s.ver = 5 && not (ok code) then set_fail k (Printf.sprintf "C: %s for packet %d on socket %d carries reason code %d, expected %s" kind pid l code what)
                  | [] -> set_fail k (Printf.sprintf "C: no %s for packet %d on socket %d" want_kind pid l)
                  | _ -> set_fail k (Printf.sprintf "C: wrong acknowledgements for packet %d on socket %d" pid l)) in
             if q = 2 && List.mem pid (q2_of s.cid) && mutant <> 7 then begin
               (* the packet id of a message whose PUBREL is outstanding (also from before a session resumption): not a new event *)
               ignore dup;
               hit "Q2";
               check_ack (fun _ -> true) ""
             end else begin
               owe "on_msg_arrived" [Sexp.A s.cid; Sexp.A (m_text m)];
               let verdict = msg_verdict topic in
               let would () = deliver m s.cid <> [] in
               let go (m' : msg) =
                 store_retained (if mutant = 8 then m else m');
                 step_obl := !step_obl @ deliver m' s.cid;
                 if q = 2 then q2_add s.cid pid;
                 check_ack (fun c -> c = 0 || c = 16) "0 or 16" in
               (match verdict with
                | Model.MReject c ->
                  let c = int_of_n c in
                  hit "Mj"; if would () then hit "Mj+"; if m.mr then hit "MjR";
                  if mutant = 3 then go m else begin
                    (* a v5 PUBREC with a failure code ends the exchange; a 3.x PUBREC cannot say so: the id stays in use until PUBREL *)
                    if q = 2 && (c < 128 || s.ver <> 5) then q2_add s.cid pid;
                    check_ack (fun g -> g = c) (string_of_int c)
                  end
                | Model.MDrop ->
                  hit "Md"; if would () then hit "Md+"; if m.mr then hit "MdR";
                  if mutant = 3 then go m else begin
                    if q = 2 then q2_add s.cid pid;
                    check_ack (fun c -> c = 0 || c = 16) "0 or 16"
                  end
                | Model.MRewrite (t', p', q') ->
                  hit "Mw"; if m.mr then hit "MwR";
                  let m' = { m with mt = atom_of_bytes t'; mp = atom_of_bytes p'; mq = int_of_n q' mod 4; mr = (match int_of_n q' / 4 with 0 -> m.mr | 1 -> false | _ -> true) } in
                  if m'.mr <> m.mr then hit "MwF";
                  if would () || deliver m' s.cid <> [] then hit "Mw+";
                  go (if mutant = 4 then m else m')
                | Model.MAccept -> hit "Ma"; go m)
             end
           | [Sexp.A "pubrel"; pid; _; _] -> Hashtbl.replace q2tbl s.cid (List.filter (fun p -> p <> int_of_sx pid) (q2_of s.cid))
           | [Sexp.A "pingreq"] -> ()
           | _ -> raise (Oof "packet kind")))
     | [Sexp.A "close"; c] ->
       let l = int_of_sx c in
       (match Hashtbl.find_opt socks l with
        | Some s when s.st = Live ->
          if open_of l then raise (Oof "close left the socket open");
          if s.is_obs then raise (Oof "observer closed");
          end_conn s
        | Some s when s.st = Rejected ->
          (* clause A: the refused CONNECT left no will behind *)
          s.st <- Dead;
          if s.will <> None then hit "Cw0";
          (match s.will with Some w when mutant = 6 -> step_obl := !step_obl @ deliver w s.cid | _ -> ())
        | _ -> ())
     | [Sexp.A "inspect"] ->
       (match List.find_opt (fun e -> match e with Sexp.L (Sexp.A "inspect" :: _) -> true | _ -> false) entries with
        | None -> raise (Oof "inspect missing")
        | Some insp ->
          let cmp what want got =
            let want = List.sort compare want and got = List.sort compare got in
            if want <> got then set_fail k (Printf.sprintf "inspect %s: expected (%s) got (%s)" what (String.concat " " want) (String.concat " " got)) in
          (* subscriptions *)
          let want_subs = Hashtbl.fold (fun cid l acc ->
              List.map (fun sb -> Sexp.to_string (Sexp.L [Sexp.A cid; Sexp.L [Sexp.A "s"; Sexp.A (match sb.s_share with Some g -> g | None -> "x"); Sexp.A sb.s_filter;
                                                                                sx_int (match sb.s_subid with Some i -> i | None -> 0); sx_int sb.s_qos;
                                                                                sx_bool sb.s_nl; sx_bool sb.s_rap; sx_int sb.s_rh]])) l @ acc) subs [] in
          cmp "subs" want_subs (List.map Sexp.to_string (Sexp.field "subs" insp));
          (* retained store *)
          cmp "retained" (Hashtbl.fold (fun _ m acc -> m_text { m with mr = true } :: acc) retained [])
            (List.map (fun x -> mask_m x) (Sexp.field "retained" insp));
          if Hashtbl.length retained > 0 then hit "Ri";
          (* sessions, on-line, off-line, pending wills *)
          let lives = List.map (fun (_, s) -> s.cid) (live_socks ()) in
          cmp "online" lives (List.map Sexp.atom (Sexp.field "online" insp));
          let all_sess = Hashtbl.fold (fun c _ a -> c :: a) sessions [] in
          cmp "offline" (List.filter (fun c -> not (List.mem c lives)) all_sess) (List.map Sexp.atom (Sexp.field "offline" insp));
          cmp "pending wills" [] (List.map Sexp.atom (Sexp.field "wills" insp));
          let got_sess = List.map (fun x -> match x with Sexp.L [c; e; w] -> (Sexp.atom c, int_of_sx e, bool_of_sx w) | _ -> raise (Oof "session entry")) (Sexp.field "sessions" insp) in
          cmp "sessions" all_sess (List.map (fun (c, _, _) -> c) got_sess);
          List.iter (fun (_, s) ->
              match List.find_opt (fun (c, _, _) -> c = s.cid) got_sess with
              | Some (_, e, w) ->
                if e <> s.e || w <> (s.will <> None) then
                  set_fail k (Printf.sprintf "inspect session of %s: expected expiry %d will %b, got expiry %d will %b" s.cid s.e (s.will <> None) e w)
              | None -> ()) (live_socks ());
          (* clause E: the call log *)
          (match Sexp.field_opt "calls" insp with
           | None -> ()
           | Some calls ->
             hit "K";
             let got : (string, int) Hashtbl.t = Hashtbl.create 32 in
             let delivered : (string, int) Hashtbl.t = Hashtbl.create 32 in
             List.iter (fun c -> match c with
                 | Sexp.L [Sexp.A "on_delivered"; cid; Sexp.L (Sexp.A "m" :: _ :: q :: r :: t :: p :: _)] ->
                   bump delivered (Sexp.to_string (Sexp.L [cid; q; r; t; p]))
                 | Sexp.L [Sexp.A "on_closed"; Sexp.A "x"; _] -> ()
                 | Sexp.L [Sexp.A ("on_closed" | "on_session_terminated" as n); cid; _] -> bump got (Sexp.to_string (Sexp.L [Sexp.A n; cid; Sexp.A "_"]))
                 | Sexp.L [Sexp.A ("on_will_publish" | "on_will_published" as n); cid; m] -> bump got (Sexp.to_string (Sexp.L [Sexp.A n; cid; Sexp.A (mask_m m)]))
                 | Sexp.L [Sexp.A "on_msg_arrived"; cid; m] -> bump got (Sexp.to_string (Sexp.L [Sexp.A "on_msg_arrived"; cid; Sexp.A (mask_m m)]))
                 | x -> bump got (Sexp.to_string x)) calls;
             let keys = List.sort_uniq compare (Hashtbl.fold (fun k _ a -> k :: a) got (Hashtbl.fold (fun k _ a -> k :: a) owed [])) in
             List.iter (fun key ->
                 let g = (try Hashtbl.find got key with Not_found -> 0) and w = (try Hashtbl.find owed key with Not_found -> 0)
                 and o = (try Hashtbl.find optional key with Not_found -> 0) in
                 if g < w || g > w + o then set_fail k (Printf.sprintf "E: hook call %s fired %d times, %d event(s)" key g w)) keys;
             let keys = List.sort_uniq compare (Hashtbl.fold (fun k _ a -> k :: a) delivered (Hashtbl.fold (fun k _ a -> k :: a) received [])) in
             List.iter (fun key ->
                 let g = (try Hashtbl.find delivered key with Not_found -> 0) and w = (try Hashtbl.find received key with Not_found -> 0) in
                 if g <> w then set_fail k (Printf.sprintf "E: on_delivered %s fired %d times, %d PUBLISH packet(s) received" key g w)) keys))
     | _ -> raise (Oof ("step kind " ^ Sexp.to_string step)));
    if !deferred then begin
      carry := ob;
      carry_label := (match Sexp.list step with [_; c; _] -> int_of_sx c | _ -> -1)
    end else begin
      (* ---- nothing but the scripted ends may end a connection; a refused connection is not talked to *)
      Hashtbl.iter (fun l s ->
          if s.st = Live && not (open_of l) then set_fail k (Printf.sprintf "connection %d (%s) was closed by the broker" l s.cid);
          if s.st = Rejected && s.quiet_from <= k then
            (match pkts_of l with
             | [] -> ()
             | p :: _ -> set_fail k (Printf.sprintf "A: refused connection %d received %s" l (Sexp.to_string p)))) socks;
      (* ---- compare: the PUBLISH packets that arrived in this step *)
      let remaining = ref [] in
      List.iter (fun (l, pk, _) ->
          let pubs = List.filter (fun p -> S_wire.is_publish p) pk in
          match Hashtbl.find_opt socks l with
          | Some s when s.is_obs && s.st = Live ->
            List.iter (fun p -> match p with
                | Sexp.L [Sexp.A "publish"; d; q; r; t; pl; pid; _] ->
                  let qi = int_of_sx q and pid = int_of_sx pid in
                  if bool_of_sx d then set_fail k (Printf.sprintf "socket %d: DUP set on a first delivery" l);
                  if (qi = 0) <> (pid = 0) then set_fail k (Printf.sprintf "socket %d: packet id %d with QoS %d" l pid qi);
                  if qi > 0 then begin
                    if List.mem pid s.pids then set_fail k (Printf.sprintf "socket %d: packet id %d reused while unacknowledged" l pid);
                    s.pids <- pid :: s.pids
                  end;
                  bump received (Sexp.to_string (Sexp.L [Sexp.A s.cid; q; r; t; pl]))
                | _ -> ()) pubs;
            remaining := (l, List.map (fun p -> Sexp.to_string (S_wire.strip_pid p)) pubs) :: !remaining
          | Some s -> if pubs <> [] then
              set_fail k (Printf.sprintf "socket %d (%s, not a subscriber) received %s" l s.cid (Sexp.to_string (List.hd pubs)))
          | None -> if pubs <> [] then set_fail k (Printf.sprintf "unknown socket %d received a PUBLISH" l)) ob;
      let remove_one a l = let rec go = function [] -> [] | x :: r -> if x = a then r else x :: go r in go l in
      let rec solve obls rem =
        match obls with
        | [] -> List.for_all (fun (_, l) -> l = []) rem
        | opts :: rest ->
          List.exists (fun (l, alts) ->
              match List.assoc_opt l rem with
              | None -> false
              | Some got ->
                List.exists (fun a -> List.mem a got && solve rest ((l, remove_one a got) :: List.remove_assoc l rem)) (List.sort_uniq compare alts)) opts in
      if not (solve !step_obl !remaining) then
        set_fail k (Printf.sprintf "%s: expected %s got %s" (Sexp.to_string (match step with Sexp.L [a; b; Sexp.L (c :: _)] -> Sexp.L [a; b; c] | Sexp.L (a :: b :: _) -> Sexp.L [a; b] | x -> x))
                      (if !step_obl = [] then "no PUBLISH" else
                         String.concat " AND " (List.map (fun opts -> String.concat " XOR " (List.map (fun (l, alts) -> Printf.sprintf "@%d:%s" l (String.concat "/" (List.sort_uniq compare alts))) opts)) !step_obl))
                      (let g = List.concat_map (fun (l, ps) -> List.map (fun p -> Printf.sprintf "@%d:%s" l p) ps) (List.sort compare !remaining) in
                       if g = [] then "no PUBLISH" else String.concat " " g))
    end in
  let rec walk k steps obs raw =
    match steps, obs, raw with
    | st :: s', ob :: o', rw :: r' -> step_one k st ob rw; walk (k + 1) s' o' r'
    | _ -> () in
  walk 0 steps obs raw;
  match !fails with
  | [] -> (true, "-", "")
  | (_, m) :: _ as l ->
    let kfs = List.sort_uniq compare (List.map fst l) in
    ((false, (if List.mem "-" kfs then "-" else String.concat "+" kfs), (match List.find_opt (fun (k, _) -> k = "-") l with Some (_, m') -> m' | None -> m)))

let cls_of_cov () =
  let l = Hashtbl.fold (fun k _ a -> k :: a) cov [] in
  if l = [] then "none" else String.concat "." (List.sort compare l)

let oracle : S_wire.oracle_fn = fun cfg hooks steps obs raw ->
  try
    let r = oracle_run cfg hooks steps obs raw in
    last_cls := cls_of_cov ();
    r
  with Oof what -> last_cls := "oof_" ^ (String.map (fun c -> if c = ' ' then '_' else c) what); (true, "-", "out_of_family:" ^ what)

let run (input : Sexp.t) (impl : Sexp.t) : Verdict.t =
  last_cls := "";
  let v = S_wire.run_with oracle input impl in
  if !last_cls = "" then v else { v with Verdict.cls = !last_cls }
