(* suite rsess of properties C09 / C05: the session store against the abstract machine of Model/SessStore.v *)
open Model
open Conv
open Msgconv

let sess_of_sx x = match Sexp.list x with
  | [Sexp.A "ss"; cid; will; delay; at; expiry] ->
    { ss_cid = bytes_of_sx cid; ss_will = (match will with Sexp.A "none" -> None | m -> Some (msg_of_sx m));
      ss_delay = n_of_sx delay; ss_at = n_of_sx at; ss_expiry = n_of_sx expiry }
  | _ -> failwith "sess"

let sx_sess s =
  Sexp.L [Sexp.A "ss"; sx_bytes s.ss_cid; (match s.ss_will with None -> Sexp.A "none" | Some m -> sx_msg m);
          sx_n s.ss_delay; sx_n s.ss_at; sx_n s.ss_expiry]

let op_of_sx x = match Sexp.list x with
  | [Sexp.A "set"; s] -> SsSet (sess_of_sx s)
  | [Sexp.A "get"; c] -> SsGet (bytes_of_sx c)
  | [Sexp.A "remove"; c] -> SsRemove (bytes_of_sx c)
  | [Sexp.A "setexp"; c; e] -> SsSetExpiry (bytes_of_sx c, n_of_sx e)
  | [Sexp.A "iterate"] -> SsIterate
  | [Sexp.A "restart"] -> SsRestart
  | _ -> failwith "ssop"

(* an answer the machine cannot give (error, panic) is mapped to an Iterate of an impossible size *)
exception Bad_out
let out_of_sx x = match Sexp.list x with
  | [Sexp.A "unit"] -> SoUnit
  | [Sexp.A "get"; Sexp.A "none"] -> SoGet None
  | [Sexp.A "get"; s] -> SoGet (Some (sess_of_sx s))
  | Sexp.A "iter" :: l -> if List.exists (fun s -> s = Sexp.A "none") l then raise Bad_out else SoIter (List.map sess_of_sx l)
  | _ -> raise Bad_out

let sx_out = function
  | SoUnit -> Sexp.L [Sexp.A "unit"]
  | SoGet None -> Sexp.L [Sexp.A "get"; Sexp.A "none"]
  | SoGet (Some s) -> Sexp.L [Sexp.A "get"; sx_sess s]
  | SoIter l ->
    let l = List.sort (fun a b -> compare a.ss_cid b.ss_cid) l in
    Sexp.L (Sexp.A "iter" :: List.map sx_sess l)

let run_rsess (input : Sexp.t) (impl : Sexp.t) : Verdict.t =
  let backend = Sexp.atom (Sexp.field1 "backend" input) in
  let ops = List.map op_of_sx (Sexp.field "ops" input) in
  let iouts_sx = Sexp.field "outs" impl in
  let (_, mouts) = ss_run [] ops in
  let iouts = try Some (List.map out_of_sx iouts_sx) with Bad_out -> None in
  let agree = match iouts with
    | Some io -> List.length io = List.length mouts && List.for_all2 ssout_eqb mouts io
    | None -> false in
  let oracle = match iouts with Some io -> ss_ok [] ops io | None -> false in
  let nset = List.length (List.filter (function SsSet _ -> true | _ -> false) ops) in
  let hit = List.exists (function SoGet (Some _) -> true | _ -> false) mouts in
  let restart = List.exists (function SsRestart -> true | _ -> false) ops in
  { Verdict.agree; oracle; kf = "-"; nontrivial = nset > 0 && hit;
    cls = Printf.sprintf "%s_set%s_%s%s" backend (if nset = 0 then "0" else if nset < 4 then "lt4" else "ge4") (if hit then "hit" else "nohit") (if restart then "_restart" else "");
    model = Sexp.L [Sexp.L (Sexp.A "outs" :: List.map sx_out mouts)];
    why = if oracle then "" else "an answer of the session store is not what the history implies" }
