(* Oracle of property C12: "message expiry is honoured and the remaining lifetime is forwarded".

   Written from the statement of the property. It is evaluated on the packets the real broker
   sent; it never looks at the Coq model.

   FAMILY it decides (everything else: verdict true, class outside_<why>): disjoint publishers and
   subscribers; one non-shared subscription per subscriber session (as granted by SUBACK);
   PUBLISH with retain 0, dup 0 and a payload that is unique in the scenario; persistent subscriber
   sessions that are resumed with clean 0; positive acknowledgements that fit what is in flight; time
   passes through (advance) and (sleep) only and every waiting time is 50..500 ms past a whole second
   (real time can only add to it);
   no wills, take-overs, aliases, packet size limits, queue overflow, hooks with rules.

   STATE: the clock (ms); per publication its Message Expiry Interval, lifetime = interval capped by
   the configured maximum, and time of publication; per subscriber session the FIFO of copies that
   wait, the copies in flight (unacknowledged), the in-flight window min(max_inflight, Receive
   Maximum) and whether a connection is attached.

   CLAUSES checked
   A  a copy whose lifetime elapsed while it waited is never delivered (first transmission);
   A' ... nor transmitted again after a reconnect (class kf_redelivery_after_expiry);
   B  a v5 subscriber gets Message Expiry Interval = original - whole seconds waited (at least 1),
      a copy published without interval carries none; same for retransmissions (B');
   C  a copy that expired is dropped and reported: OnMsgDropped(client, message, "the message is
      expired") exactly once and the client's DroppedTotal.Expired counters add up;
   L  (non-vacuity of A and C) a copy that has not expired and that the subscriber can take
      (connection attached, window not full, everything queued before it resolved) IS delivered in
      the step in which that became true, and nothing that still waits is reported as dropped. *)
open Model
open Conv

exception Outside of string
exception Fail of string

type pubn = {
  payload : string;
  topic : n list;
  mei : int option;        (* as published; Some 0 possible *)
  life : int option;       (* seconds; None = never expires *)
  t0 : int;                (* ms *)
  capped : bool;           (* the configured maximum is what limits the lifetime *)
}

type pair = {
  pb : pubn;
  mutable stale : int option;   (* the interval a retransmission would carry if it were not aged *)
  mutable waited_first : int;
}

type entry = { pr : pair; mutable pid : int; mutable rel : bool; eqos : int }

type sess = {
  cid : string;
  mutable sub : (n list * int) option;
  mutable pend : pair list;
  mutable out : entry list;
  mutable w : int;
  mutable sock : int option;
  mutable ver : int;
  mutable persistent : bool;
  mutable park : int;            (* real time (sleeps only) at which the sender side last became idle *)
  mutable is_pub : bool;
  mutable dropped : string list; (* payloads of copies that must have been dropped as expired *)
}

type sock = { sver : int; scid : string; mutable limbo : bool }

(* class counters *)
type cnt = {
  mutable prompt_iv : int; mutable aged_iv : int; mutable noiv : int; mutable v3deliv : int;
  mutable drops : int; mutable drops_offline : int; mutable drops_window : int; mutable cap_decides : int;
  mutable survived : int; mutable redeliv : int; mutable reported : int; mutable nearmiss : int;
}

let last_cls = ref "-"

let atom_int x = int_of_string (Sexp.atom x)
let str_of_hexatom a =
  let l = bytes_of_atom a in String.init (List.length l) (fun i -> Char.chr (int_of_n (List.nth l i)))

let props_list x = match x with Sexp.L (Sexp.A "props" :: ps) -> ps | _ -> raise (Outside "props")
let prop_int name ps =
  List.fold_left (fun acc p -> match p with Sexp.L [Sexp.A n; Sexp.A v] when n = name && acc = None -> Some (int_of_string v) | _ -> acc) None ps
let has_prop name ps = List.exists (fun p -> match p with Sexp.L (Sexp.A n :: _) -> n = name | _ -> false) ps

let oracle : S_wire.oracle_fn = fun cfg hooks steps iobs raw ->
  let c = { prompt_iv = 0; aged_iv = 0; noiv = 0; v3deliv = 0; drops = 0; drops_offline = 0; drops_window = 0; cap_decides = 0;
            survived = 0; redeliv = 0; reported = 0; nearmiss = 0 } in
  let kfs : (string * string) list ref = ref [] in
  let kf name why = kfs := (name, why) :: !kfs in
  (* class = which clauses the scenario exercised (1 = at least once):
     P  clause B on a copy that did not wait (v5 subscriber, interval forwarded unchanged)
     W  clause B on a copy that waited >= 1 s (interval reduced)
     N  v5 subscriber, copy published without interval (must carry none)
     V  delivery to a v3/v4 subscriber (clause A only)
     X  a copy expired while waiting and had to be dropped (clauses A, C); Xo after a reconnect, Xw behind a full window
     C  ... and the configured maximum (not the publisher's interval) was what made it expire
     S  a copy waited (> 0 ms) and was still delivered in time (clauses A, L); M within 1 s of its deadline
     R  a retransmission after a reconnect was looked at (A', B')
     D  drop reports compared with the OnMsgDropped log and the counters (clause C) *)
  let cls () =
    let f b = if b > 0 then "1" else "0" in
    Printf.sprintf "P%sW%sN%sV%sX%sXo%sXw%sC%sS%sM%sR%sD%s" (f c.prompt_iv) (f c.aged_iv) (f c.noiv) (f c.v3deliv) (f c.drops) (f c.drops_offline)
      (f c.drops_window) (f c.cap_decides) (f c.survived) (f c.nearmiss) (f c.redeliv) (f c.reported) in
  try
    (* ---- family: configuration *)
    if hooks.h_auth <> None || hooks.h_sub_all <> None || hooks.h_sub <> [] || hooks.h_msg_on || hooks.h_will_on then raise (Outside "hooks");
    if int_of_nat cfg.c_max_queued < 200 then raise (Outside "max_queued");
    let mp = int_of_n cfg.c_max_packet in
    if mp <> 0 && mp < 100000 then raise (Outside "max_packet");
    if int_of_n cfg.c_max_qos <> 2 then raise (Outside "max_qos");
    let maxlife = int_of_n cfg.c_message_expiry in
    let max_inflight = int_of_n cfg.c_max_inflight in
    let sess_exp = int_of_n cfg.c_session_expiry in
    let now = ref 0 and real = ref 0 in
    let sessions : (string, sess) Hashtbl.t = Hashtbl.create 8 in
    let socks : (int, sock) Hashtbl.t = Hashtbl.create 8 in
    let payloads : (string, unit) Hashtbl.t = Hashtbl.create 16 in
    let nsteps = List.length steps in
    let lifetime mei =
      let l = match mei, maxlife with
        | None, 0 -> None | None, m -> Some m | Some e, 0 -> Some e | Some e, m -> Some (min e m) in
      l in
    let expired (p : pubn) el = match p.life with
      | None -> false
      | Some l -> el > l * 1000 in
    (* real time only adds to a scripted waiting time: decidable when the scripted time is clear of the whole
       second below it and at least half a second of real time away from the next one *)
    let boundary el = if el <> 0 && (el mod 1000 < 50 || el mod 1000 > 500) then raise (Outside "boundary") in
    let expect_iv e el = let v = e - el / 1000 in if v < 1 then 1 else v in
    let iv_of ps = prop_int "msgexpiry" ps in
    let sx_o = function None -> "absent" | Some v -> string_of_int v in

    (* first transmission of a copy *)
    let deliver i (s : sess) (pr : pair) (qos, pid, ps) =
      let p = pr.pb in
      let el = !now - p.t0 in
      boundary el;
      let got = iv_of ps in
      if expired p el then begin
        (match p.mei with
         | Some 0 when not (maxlife > 0 && el > maxlife * 1000) ->
           kf "kf_expiry_zero_treated_as_absent"
             (Printf.sprintf "step %d: %s published with Message Expiry Interval 0 reached %s after waiting %d ms" i p.payload s.cid el)
         | _ ->
           raise (Fail (Printf.sprintf "step %d: clause A: %s delivered to %s after waiting %d ms, lifetime %s s (interval %s, maximum %d)"
                          i p.payload s.cid el (sx_o p.life) (sx_o p.mei) maxlife)))
      end else begin
        if el > 0 then begin
          c.survived <- c.survived + 1;
          (match p.life with Some l when l * 1000 - el < 1000 -> c.nearmiss <- c.nearmiss + 1 | _ -> ())
        end;
        if s.ver = 5 then begin
          match p.mei with
          | Some 0 -> ()
          | Some e ->
            let want = expect_iv e el in
            if el >= 1000 then c.aged_iv <- c.aged_iv + 1 else c.prompt_iv <- c.prompt_iv + 1;
            if got <> Some want then begin
              (* the class: a copy that did not wait at all reaches an attached, idle subscriber with interval 1.
                 (It needs >= 1 s of REAL time since the subscriber's connection last sent something: a scripted
                 (sleep), or simply a slow machine - the observable carries no wall clock, so the scripted idle
                 time is only quoted.) *)
              if got = Some 1 && el = 0 && want > 1 then
                kf "kf_idle_subscriber_interval_one"
                  (Printf.sprintf "step %d: %s delivered at once to %s (scripted real idle time %d ms) with interval 1 instead of %d" i p.payload s.cid (!real - s.park) want)
              else
                raise (Fail (Printf.sprintf "step %d: clause B: %s to %s waited %d ms, published with interval %d: expected %d, got %s" i p.payload s.cid el e want (sx_o got)))
            end
          | None ->
            c.noiv <- c.noiv + 1;
            if got <> None then raise (Fail (Printf.sprintf "step %d: clause B: %s was published without interval but reaches %s with %s" i p.payload s.cid (sx_o got)))
        end else c.v3deliv <- c.v3deliv + 1
      end;
      pr.waited_first <- el;
      pr.stale <- (if s.ver = 5 then got else p.mei);
      if qos > 0 then s.out <- s.out @ [{ pr; pid; rel = false; eqos = qos }];
      s.park <- !real in

    (* retransmission (DUP) of a copy in flight *)
    let redeliver i (s : sess) (payload, pid, ps) =
      match List.find_opt (fun e -> e.pr.pb.payload = payload && not e.rel) s.out with
      | None -> raise (Fail (Printf.sprintf "step %d: %s receives a DUP publish %s that is not in flight" i s.cid payload))
      | Some e ->
        e.pid <- pid;
        c.redeliv <- c.redeliv + 1;
        let p = e.pr.pb in
        let el = !now - p.t0 in
        boundary el;
        if expired p el then begin
          if p.mei <> Some 0 then
            kf "kf_redelivery_after_expiry"
              (Printf.sprintf "step %d: %s transmitted again to %s %d ms after publication, lifetime %s s" i payload s.cid el (sx_o p.life))
        end else if s.ver = 5 then begin
          let got = iv_of ps in
          match p.mei with
          | Some 0 -> ()
          | Some m ->
            let want = expect_iv m el in
            if got <> Some want then begin
              if got = e.pr.stale && got <> None then
                kf "kf_redelivery_interval_not_aged"
                  (Printf.sprintf "step %d: %s transmitted again to %s %d ms after publication (first sent after %d ms) with interval %s instead of %d"
                     i payload s.cid el e.pr.waited_first (sx_o got) want)
              else raise (Fail (Printf.sprintf "step %d: clause B': retransmission of %s to %s after %d ms: expected %d, got %s" i payload s.cid el want (sx_o got)))
            end
          | None -> if got <> None then raise (Fail (Printf.sprintf "step %d: clause B': retransmission of %s carries interval %s, published without" i payload (sx_o got)))
        end in

    (* what a subscriber with an attached connection must have got by the end of step i *)
    let drain i (s : sess) (firsts : (string * (int * int * Sexp.t list)) list) why_waited =
      let avail = ref firsts in
      let rec loop () =
        if List.length s.out >= s.w then ()
        else match s.pend with
          | [] -> ()
          | pr :: rest ->
            let el = !now - pr.pb.t0 in
            (match List.assoc_opt pr.pb.payload !avail with
             | Some pk ->
               avail := List.remove_assoc pr.pb.payload !avail;
               s.pend <- rest;
               deliver i s pr pk;
               loop ()
             | None ->
               boundary el;
               if expired pr.pb el then begin
                 s.pend <- rest;
                 s.dropped <- pr.pb.payload :: s.dropped;
                 c.drops <- c.drops + 1;
                 if why_waited = `Offline then c.drops_offline <- c.drops_offline + 1 else c.drops_window <- c.drops_window + 1;
                 if pr.pb.capped then c.cap_decides <- c.cap_decides + 1;
                 loop ()
               end else
                 raise (Fail (Printf.sprintf "step %d: clause L: %s (waited %d ms, lifetime %s s) not delivered to %s although %d of %d in flight"
                                i pr.pb.payload el (sx_o pr.pb.life) s.cid (List.length s.out) s.w)))
      in
      loop ();
      List.iter (fun (pl, _) ->
          if List.exists (fun pr -> pr.pb.payload = pl) s.pend then
            raise (Fail (Printf.sprintf "step %d: %s delivered to %s out of turn (window %d, in flight %d)" i pl s.cid s.w (List.length s.out)))
          else raise (Fail (Printf.sprintf "step %d: %s receives %s which is not waiting for it" i s.cid pl))) !avail in

    let find_sess cid = Hashtbl.find_opt sessions cid in
    let sess_of_sock l = match Hashtbl.find_opt socks l with
      | Some k -> (match find_sess k.scid with Some s when s.sock = Some l -> Some s | _ -> None)
      | None -> None in
    let no_limbo () = Hashtbl.iter (fun _ k -> if k.limbo then raise (Outside "after_disconnect")) socks in

    List.iteri (fun i (st, (obs, rw)) ->
        let pkts_of l = match List.find_opt (fun (c', _, _) -> c' = l) obs with Some (_, pk, _) -> pk | None -> [] in
        let why = ref `Window in
        (match rw with
         | Sexp.L (Sexp.A "s" :: es) when List.exists (fun e -> e = Sexp.L [Sexp.A "hang"] || e = Sexp.L [Sexp.A "aborted"]) es -> raise (Outside "hang")
         | _ -> ());
        (match Sexp.list st with
         | Sexp.A "connect" :: l :: ver :: rest ->
           no_limbo ();
           let l = atom_int l and ver = atom_int ver in
           let x = Sexp.L rest in
           if Sexp.field_opt "will" x <> None || Sexp.field_opt "user" x <> None || Sexp.field_opt "pass" x <> None || Sexp.field_opt "connflags" x <> None then raise (Outside "connect_options");
           if (match Sexp.field_opt "keepalive" x with Some [Sexp.A "0"] -> false | _ -> true) then raise (Outside "keepalive");
           let cid = Sexp.atom (Sexp.field1 "cid" x) in
           if cid = "x" then raise (Outside "empty_cid");
           let clean = Sexp.atom (Sexp.field1 "clean" x) <> "0" in
           let ps = Sexp.field "props" x in
           if Hashtbl.mem socks l then raise (Outside "label_reused_while_open");
           Hashtbl.iter (fun _ k -> if k.scid = cid then raise (Outside "take_over")) socks;
           if has_prop "maxpkt" ps || has_prop "authmethod" ps then raise (Outside "connect_props");
           (match prop_int "aliasmax" ps with Some a when a > 0 -> raise (Outside "aliasmax") | _ -> ());
           let sp = (match pkts_of l with
               | Sexp.L [Sexp.A "connack"; sp; Sexp.A "0"; _] :: _ -> Sexp.atom sp <> "0"
               | _ -> raise (Outside "connect_refused")) in
           let persistent =
             sess_exp > 0 && (if ver = 5 then (match prop_int "sei" ps with Some v -> v > 0 | None -> false) else not clean) in
           let w = match (if ver = 5 then prop_int "recvmax" ps else None) with Some r when r < max_inflight -> r | _ -> max_inflight in
           let s = match find_sess cid with
             | Some s when s.sub <> None ->
               if clean then raise (Outside "clean_restart");
               if not sp then raise (Outside "session_lost");
               s
             | _ ->
               let s = { cid; sub = None; pend = []; out = []; w; sock = None; ver; persistent; park = !real; is_pub = false; dropped = [] } in
               Hashtbl.replace sessions cid s; s in
           s.w <- w; s.sock <- Some l; s.ver <- ver; s.persistent <- persistent; s.park <- !real;
           Hashtbl.replace socks l { sver = ver; scid = cid; limbo = false };
           why := `Offline
         | [Sexp.A "send"; l; p] ->
           let l = atom_int l in
           let k = match Hashtbl.find_opt socks l with Some k -> k | None -> raise (Outside "send_on_closed") in
           let sent = match S_wire.sent_of_step rw with Some None -> None | Some (Some p') -> Some p' | None -> Some p in
           let is_disc = (match p with Sexp.L (Sexp.A "disconnect" :: _) -> true | _ -> false) in
           if not is_disc then no_limbo ();
           if k.limbo then raise (Outside "after_disconnect");
           let s = match sess_of_sock l with Some s -> s | None -> raise (Outside "send_without_session") in
           (match sent with
            | None -> ()
            | Some p ->
              (match Sexp.list p with
               | [Sexp.A "publish"; dup; qos; ret; topic; payload; _; ps] ->
                 let ps = props_list ps in
                 if Sexp.atom dup <> "0" || Sexp.atom ret <> "0" then raise (Outside "dup_or_retain");
                 if s.sub <> None then raise (Outside "publisher_subscribes");
                 if has_prop "alias" ps || has_prop "subid" ps then raise (Outside "publish_props");
                 let t = bytes_of_sx topic in
                 let ts = str_of_hexatom (Sexp.atom topic) in
                 if ts = "" || String.contains ts '+' || String.contains ts '#' || ts.[0] = '$' then raise (Outside "topic");
                 let pl = Sexp.atom payload in
                 if Hashtbl.mem payloads pl then raise (Outside "payload_not_unique");
                 Hashtbl.replace payloads pl ();
                 (* refused by the broker? *)
                 List.iter (fun a -> match a with
                     | Sexp.L [Sexp.A ("puback" | "pubrec"); _; Sexp.A code; _] when int_of_string code >= 128 -> raise (Outside "publish_refused")
                     | Sexp.L (Sexp.A "disconnect" :: _) -> raise (Outside "publisher_disconnected")
                     | _ -> ()) (pkts_of l);
                 s.is_pub <- true;
                 let mei = if k.sver = 5 then prop_int "msgexpiry" ps else None in
                 let life = lifetime mei in
                 let capped = (match mei, life with Some e, Some l -> l < e | None, Some _ -> true | _ -> false) in
                 let pb = { payload = pl; topic = t; mei; life; t0 = !now; capped } in
                 let q = atom_int qos in
                 Hashtbl.iter (fun _ (r : sess) ->
                     match r.sub with
                     | Some (f, granted) when topic_match t f ->
                       let eq = min q granted in
                       if eq = 0 && q > 0 && r.sock = None && not cfg.c_queue_qos0 then raise (Outside "qos0_by_downgrade_while_offline")
                       else if eq = 0 && r.sock = None && not cfg.c_queue_qos0 then ()
                       else r.pend <- r.pend @ [{ pb; stale = None; waited_first = 0 }]
                     | _ -> ()) sessions
               | [Sexp.A "pubrel"; _; _; _] -> if s.sub <> None then raise (Outside "subscriber_pubrel")
               | Sexp.A "subscribe" :: _ :: _ :: ts ->
                 if s.sub <> None || s.is_pub then raise (Outside "second_subscribe");
                 (match ts with
                  | [Sexp.L [Sexp.A "t"; f; _; _; _; _]] ->
                    let fs = str_of_hexatom (Sexp.atom f) in
                    if String.length fs >= 6 && String.sub fs 0 6 = "$share" then raise (Outside "shared");
                    (match List.find_opt (fun a -> match a with Sexp.L (Sexp.A "suback" :: _) -> true | _ -> false) (pkts_of l) with
                     | Some (Sexp.L [Sexp.A "suback"; _; Sexp.L [Sexp.A "codes"; Sexp.A code]; _]) ->
                       let code = int_of_string code in
                       if code < 128 then s.sub <- Some (bytes_of_sx f, code)
                     | _ -> raise (Outside "no_suback"))
                  | _ -> raise (Outside "subscribe_shape"))
               | [Sexp.A (("puback" | "pubrec" | "pubcomp") as kind); pid; code; ps] ->
                 if k.sver = 5 && (atom_int code <> 0 || props_list ps <> []) then raise (Outside "ack_code");
                 let pid = atom_int pid in
                 (match List.find_opt (fun e -> e.pid = pid) s.out with
                  | None -> raise (Outside "odd_ack")
                  | Some e ->
                    let full = List.length s.out >= s.w in
                    let release () =
                      s.out <- List.filter (fun e' -> e' != e) s.out;
                      if full then s.park <- !real in
                    (match kind with
                     | "puback" when e.eqos = 1 && not e.rel -> release ()
                     | "pubrec" when e.eqos = 2 && not e.rel -> e.rel <- true
                     | "pubcomp" when e.eqos = 2 && e.rel -> release ()
                     | _ -> raise (Outside "odd_ack")))
               | [Sexp.A "disconnect"; code; ps] ->
                 if atom_int code <> 0 || props_list ps <> [] then raise (Outside "disconnect_options");
                 if List.exists (fun e -> e.rel) s.out then raise (Outside "pubcomp_owed_at_close");
                 k.limbo <- true
               | [Sexp.A "pingreq"] -> ()
               | _ -> raise (Outside "packet_kind")))
         | [Sexp.A "close"; l] ->
           let l = atom_int l in
           (match Hashtbl.find_opt socks l with
            | None -> raise (Outside "close_of_closed")
            | Some k ->
              Hashtbl.iter (fun l' k' -> if k'.limbo && l' <> l then raise (Outside "after_disconnect")) socks;
              (match sess_of_sock l with
               | Some s ->
                 if List.exists (fun e -> e.rel) s.out then raise (Outside "pubcomp_owed_at_close");
                 s.sock <- None;
                 List.iter (fun e -> e.pid <- -1) s.out;
                 if not s.persistent then begin
                   if s.sub <> None then raise (Outside "subscriber_session_not_persistent");
                   Hashtbl.remove sessions s.cid
                 end
               | None -> ());
              ignore k;
              Hashtbl.remove socks l)
         | [Sexp.A "advance"; ms] -> no_limbo (); now := !now + atom_int ms
         | [Sexp.A "sleep"; ms] -> no_limbo (); now := !now + atom_int ms; real := !real + atom_int ms
         | [Sexp.A "inspect"] -> no_limbo ()
         | _ -> raise (Outside "step_kind"));

        (* ---- what arrived in this step *)
        List.iter (fun (l, pk, opn) ->
            match Hashtbl.find_opt socks l with
            | None -> ()
            | Some k ->
              if not opn then raise (Outside "closed_by_broker");
              let s = sess_of_sock l in
              let firsts = ref [] in
              List.iter (fun p -> match p with
                  | Sexp.L [Sexp.A "publish"; dup; qos; _; _; payload; pid; ps] ->
                    let pl = Sexp.atom payload in
                    (match s with
                     | Some s when s.sub <> None && not k.limbo ->
                       if Sexp.atom dup <> "0" then redeliver i s (pl, atom_int pid, props_list ps)
                       else begin
                         if List.mem_assoc pl !firsts then raise (Fail (Printf.sprintf "step %d: %s receives %s twice" i s.cid pl));
                         firsts := !firsts @ [(pl, (atom_int qos, atom_int pid, props_list ps))]
                       end
                     | _ -> raise (Fail (Printf.sprintf "step %d: socket %d (%s) has no subscription but receives %s" i l k.scid pl)))
                  | Sexp.L (Sexp.A "disconnect" :: _) -> raise (Outside "disconnected_by_broker")
                  | _ -> ()) pk;
              (match s with
               | Some s when s.sub <> None && not k.limbo -> drain i s !firsts !why
               | _ -> ())) obs;

        (* ---- the report, at the final inspect *)
        if i = nsteps - 1 then begin
          let entries = match rw with Sexp.L (Sexp.A "s" :: es) -> es | _ -> [] in
          match List.find_opt (fun e -> match e with Sexp.L (Sexp.A "inspect" :: _) -> true | _ -> false) entries with
          | None -> ()
          | Some insp ->
            let expected = Hashtbl.fold (fun _ (s : sess) acc -> List.map (fun pl -> (s.cid, pl)) s.dropped @ acc) sessions [] in
            (match Sexp.field_opt "calls" insp with
             | None -> ()
             | Some calls ->
               let reported = List.filter_map (fun cl -> match cl with
                   | Sexp.L [Sexp.A "on_msg_dropped"; Sexp.A cid; Sexp.L (Sexp.A "m" :: _ :: _ :: _ :: _ :: Sexp.A pl :: _); Sexp.A err] -> Some ((cid, pl), err)
                   | _ -> None) calls in
               List.iter (fun ((cid, pl), err) ->
                   let txt = (try str_of_hexatom err with _ -> err) in
                   if not (List.mem (cid, pl) expected) then
                     raise (Fail (Printf.sprintf "clause L: %s reported as dropped for %s (%s) but its lifetime had not elapsed when it could be sent, or it was delivered" pl cid txt));
                   if txt <> "the message is expired" then
                     raise (Fail (Printf.sprintf "clause C: %s for %s reported with reason '%s'" pl cid txt));
                   if List.length (List.filter (fun (k', _) -> k' = (cid, pl)) reported) <> 1 then
                     raise (Fail (Printf.sprintf "clause C: %s for %s reported more than once" pl cid))) reported;
               List.iter (fun (cid, pl) ->
                   if not (List.mem_assoc (cid, pl) reported) then
                     raise (Fail (Printf.sprintf "clause C: %s expired while waiting for %s and was not delivered, but no OnMsgDropped report" pl cid))
                   else c.reported <- c.reported + 1) expected);
            (match Sexp.field_opt "cstats" insp with
             | None -> ()
             | Some cst ->
               List.iter (fun e -> match e with
                   | Sexp.L (Sexp.A cid :: (Sexp.L _ :: _ as fields)) ->
                     (match find_sess cid with
                      | Some s when s.sub <> None ->
                        let sum suffix = List.fold_left (fun acc f -> match f with
                            | Sexp.L [Sexp.A name; Sexp.A v] when String.length name > 13 && String.sub name 0 13 = "MessageStats." &&
                                                                    (let ls = String.length suffix and ln = String.length name in ln >= ls && String.sub name (ln - ls) ls = suffix) -> acc + int_of_string v
                            | _ -> acc) 0 fields in
                        let want = List.length s.dropped in
                        let got = sum ".DroppedTotal.Expired" in
                        if got <> want then raise (Fail (Printf.sprintf "clause C: DroppedTotal.Expired of %s is %d, %d copies expired" cid got want));
                        List.iter (fun suf -> if sum suf <> 0 then raise (Outside ("other_drops" ^ suf)))
                          [".DroppedTotal.QueueFull"; ".DroppedTotal.ExceedsMaxPacketSize"; ".DroppedTotal.Internal"; ".DroppedTotal.InflightExpired"]
                      | _ -> ())
                   | _ -> ()) cst)
        end)
      (List.combine steps (List.combine iobs raw));
    last_cls := cls ();
    (* several known findings in one scenario: the name of the gravest one, all explanations *)
    let rank = ["kf_idle_subscriber_interval_one"; "kf_redelivery_interval_not_aged"; "kf_expiry_zero_treated_as_absent"; "kf_redelivery_after_expiry"] in
    (match List.rev !kfs with
     | [] -> (true, "-", "")
     | l ->
       let name = List.find (fun n -> List.mem_assoc n l) rank in
       let names = List.sort_uniq compare (List.map fst l) in
       (false, name, List.assoc name l ^ (if List.length names > 1 then " [also: " ^ String.concat "," (List.filter (fun n -> n <> name) names) ^ "]" else "")))
  with
  | Outside why -> last_cls := "outside_" ^ why; (true, "-", "")
  | Fail why -> last_cls := cls (); (false, "-", why)

let run input impl =
  last_cls := "-";
  let v = S_wire.run_with oracle input impl in
  if String.length v.Verdict.cls >= 11 && String.sub v.Verdict.cls 0 11 = "unsupported" then v else { v with Verdict.cls = !last_cls }
