(* minimal s-expressions: atoms are [^ \t\n()]+ *)
type t = A of string | L of t list

exception Parse_error of string

let parse (s : string) : t =
  let n = String.length s in
  let pos = ref 0 in
  let rec skip () = if !pos < n && (s.[!pos] = ' ' || s.[!pos] = '\t' || s.[!pos] = '\n' || s.[!pos] = '\r') then (incr pos; skip ()) in
  let rec item () =
    skip ();
    if !pos >= n then raise (Parse_error "eof");
    if s.[!pos] = '(' then begin
      incr pos;
      let acc = ref [] in
      let rec loop () =
        skip ();
        if !pos >= n then raise (Parse_error "unclosed");
        if s.[!pos] = ')' then incr pos
        else (acc := item () :: !acc; loop ()) in
      loop (); L (List.rev !acc)
    end else if s.[!pos] = ')' then raise (Parse_error "unexpected )")
    else begin
      let st = !pos in
      while !pos < n && not (s.[!pos] = ' ' || s.[!pos] = '\t' || s.[!pos] = '\n' || s.[!pos] = '\r' || s.[!pos] = '(' || s.[!pos] = ')') do incr pos done;
      A (String.sub s st (!pos - st))
    end in
  let r = item () in
  skip ();
  if !pos <> n then raise (Parse_error "trailing");
  r

let rec to_buf b = function
  | A s -> Buffer.add_string b s
  | L l ->
    Buffer.add_char b '(';
    List.iteri (fun i x -> if i > 0 then Buffer.add_char b ' '; to_buf b x) l;
    Buffer.add_char b ')'

let to_string x = let b = Buffer.create 256 in to_buf b x; Buffer.contents b

(* association access: (key v...) inside a list *)
let field (k : string) (x : t) : t list =
  match x with
  | L l ->
    let rec go = function
      | [] -> raise (Parse_error ("missing field " ^ k))
      | L (A k' :: v) :: _ when k' = k -> v
      | _ :: r -> go r in
    go l
  | _ -> raise (Parse_error ("field on atom " ^ k))

let field1 k x = match field k x with [v] -> v | _ -> raise (Parse_error ("field1 " ^ k))
let field_opt k x = try Some (field k x) with Parse_error _ -> None
let atom = function A s -> s | L _ -> raise (Parse_error "expected atom")
let list = function L l -> l | A a -> raise (Parse_error ("expected list, got " ^ a))
