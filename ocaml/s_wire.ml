(* wire-level scenarios: the extracted Broker model against the observables of the real broker *)
open Model
open Conv
open Msgconv

let prop_of_sx x = match Sexp.list x with
  | [Sexp.A "sei"; n] -> PSei (n_of_sx n) | [Sexp.A "recvmax"; n] -> PRecvMax (n_of_sx n)
  | [Sexp.A "maxpkt"; n] -> PMaxPkt (n_of_sx n) | [Sexp.A "aliasmax"; n] -> PAliasMax (n_of_sx n)
  | [Sexp.A "alias"; n] -> PAlias (n_of_sx n) | [Sexp.A "msgexpiry"; n] -> PMsgExpiry (n_of_sx n)
  | [Sexp.A "pfmt"; n] -> PPfmt (n_of_sx n) | [Sexp.A "ctype"; s] -> PCtype (bytes_of_sx s)
  | [Sexp.A "resp"; s] -> PResp (bytes_of_sx s) | [Sexp.A "corr"; s] -> PCorr (bytes_of_sx s)
  | [Sexp.A "subid"; n] -> PSubId (n_of_sx n) | [Sexp.A "user"; k; v] -> PUser (bytes_of_sx k, bytes_of_sx v)
  | [Sexp.A "reason"; s] -> PReason (bytes_of_sx s) | [Sexp.A "assigned"; s] -> PAssigned (bytes_of_sx s)
  | [Sexp.A "maxqos"; n] -> PMaxQos (n_of_sx n) | [Sexp.A "retainavail"; n] -> PRetainAvail (n_of_sx n)
  | [Sexp.A "wildcard"; n] -> PWildcard (n_of_sx n) | [Sexp.A "subidavail"; n] -> PSubIdAvail (n_of_sx n)
  | [Sexp.A "sharedavail"; n] -> PSharedAvail (n_of_sx n) | [Sexp.A "keepalive"; n] -> PKeepAlive (n_of_sx n)
  | [Sexp.A "respinfo"; s] -> PRespInfo (bytes_of_sx s) | [Sexp.A "authmethod"; s] -> PAuthMethod (bytes_of_sx s)
  | [Sexp.A "authdata"; s] -> PAuthData (bytes_of_sx s) | [Sexp.A "willdelay"; n] -> PWillDelay (n_of_sx n)
  | [Sexp.A "reqprob"; n] -> PReqProb (n_of_sx n) | [Sexp.A "reqresp"; n] -> PReqResp (n_of_sx n)
  | [Sexp.A "serverref"; s] -> PServerRef (bytes_of_sx s)
  | _ -> failwith ("prop " ^ Sexp.to_string x)

let sx_prop = function
  | PSei n -> Sexp.L [Sexp.A "sei"; sx_n n] | PRecvMax n -> Sexp.L [Sexp.A "recvmax"; sx_n n]
  | PMaxPkt n -> Sexp.L [Sexp.A "maxpkt"; sx_n n] | PAliasMax n -> Sexp.L [Sexp.A "aliasmax"; sx_n n]
  | PAlias n -> Sexp.L [Sexp.A "alias"; sx_n n] | PMsgExpiry n -> Sexp.L [Sexp.A "msgexpiry"; sx_n n]
  | PPfmt n -> Sexp.L [Sexp.A "pfmt"; sx_n n] | PCtype s -> Sexp.L [Sexp.A "ctype"; sx_bytes s]
  | PResp s -> Sexp.L [Sexp.A "resp"; sx_bytes s] | PCorr s -> Sexp.L [Sexp.A "corr"; sx_bytes s]
  | PSubId n -> Sexp.L [Sexp.A "subid"; sx_n n] | PUser (k, v) -> Sexp.L [Sexp.A "user"; sx_bytes k; sx_bytes v]
  | PReason s -> Sexp.L [Sexp.A "reason"; sx_bytes s] | PAssigned s -> Sexp.L [Sexp.A "assigned"; sx_bytes s]
  | PMaxQos n -> Sexp.L [Sexp.A "maxqos"; sx_n n] | PRetainAvail n -> Sexp.L [Sexp.A "retainavail"; sx_n n]
  | PWildcard n -> Sexp.L [Sexp.A "wildcard"; sx_n n] | PSubIdAvail n -> Sexp.L [Sexp.A "subidavail"; sx_n n]
  | PSharedAvail n -> Sexp.L [Sexp.A "sharedavail"; sx_n n] | PKeepAlive n -> Sexp.L [Sexp.A "keepalive"; sx_n n]
  | PRespInfo s -> Sexp.L [Sexp.A "respinfo"; sx_bytes s] | PAuthMethod s -> Sexp.L [Sexp.A "authmethod"; sx_bytes s]
  | PAuthData s -> Sexp.L [Sexp.A "authdata"; sx_bytes s] | PWillDelay n -> Sexp.L [Sexp.A "willdelay"; sx_n n]
  | PReqProb n -> Sexp.L [Sexp.A "reqprob"; sx_n n] | PReqResp n -> Sexp.L [Sexp.A "reqresp"; sx_n n]
  | PServerRef s -> Sexp.L [Sexp.A "serverref"; sx_bytes s]

let prop_name x = match x with Sexp.L (Sexp.A n :: _) -> n | _ -> ""
(* canonical: sorted by property name, repeated properties keep their order *)
let sx_props ps =
  let l = List.map sx_prop ps in
  (* subscription identifiers are a set (their order is map-iteration order in the broker) *)
  let key x = if prop_name x = "subid" then Sexp.to_string x else prop_name x in
  let keycmp a b = let ka = key a and kb = key b in
    if prop_name a = "subid" && prop_name b = "subid" then compare (int_of_string (Sexp.atom (List.nth (Sexp.list a) 1))) (int_of_string (Sexp.atom (List.nth (Sexp.list b) 1)))
    else compare (prop_name a) (prop_name b) |> fun c -> if c <> 0 then c else (ignore ka; ignore kb; 0) in
  Sexp.L (Sexp.A "props" :: List.stable_sort keycmp l)
let props_of_sx x = match x with
  | Sexp.L (Sexp.A "props" :: ps) -> List.map prop_of_sx ps
  | _ -> failwith ("props " ^ Sexp.to_string x)
let canon_props x = sx_props (props_of_sx x)

exception Unsupported_pkt of string
let pkt_of_sx x : pkt = match Sexp.list x with
  | [Sexp.A "connack"; sp; code; ps] -> KConnack (bool_of_sx sp, n_of_sx code, props_of_sx ps)
  | [Sexp.A "publish"; d; q; r; t; p; pid; ps] ->
    KPublish (bool_of_sx d, n_of_sx q, bool_of_sx r, bytes_of_sx t, bytes_of_sx p, n_of_sx pid, props_of_sx ps)
  | [Sexp.A "puback"; pid; c; ps] -> KPuback (n_of_sx pid, n_of_sx c, props_of_sx ps)
  | [Sexp.A "pubrec"; pid; c; ps] -> KPubrec (n_of_sx pid, n_of_sx c, props_of_sx ps)
  | [Sexp.A "pubrel"; pid; c; ps] -> KPubrel (n_of_sx pid, n_of_sx c, props_of_sx ps)
  | [Sexp.A "pubcomp"; pid; c; ps] -> KPubcomp (n_of_sx pid, n_of_sx c, props_of_sx ps)
  | Sexp.A "subscribe" :: pid :: ps :: ts ->
    KSubscribe (n_of_sx pid, props_of_sx ps,
                List.map (fun t -> match Sexp.list t with
                    | [Sexp.A "t"; f; q; nl; rap; rh] ->
                      { tq_name = bytes_of_sx f; tq_qos = n_of_sx q; tq_nl = bool_of_sx nl; tq_rap = bool_of_sx rap; tq_rh = n_of_sx rh }
                    | _ -> failwith "topic_req") ts)
  | [Sexp.A "suback"; pid; Sexp.L (Sexp.A "codes" :: cs); ps] -> KSuback (n_of_sx pid, List.map n_of_sx cs, props_of_sx ps)
  | Sexp.A "unsubscribe" :: pid :: ps :: ts -> KUnsubscribe (n_of_sx pid, props_of_sx ps, List.map bytes_of_sx ts)
  | [Sexp.A "unsuback"; pid; Sexp.L (Sexp.A "codes" :: cs); ps] -> KUnsuback (n_of_sx pid, List.map n_of_sx cs, props_of_sx ps)
  | [Sexp.A "pingreq"] -> KPingreq
  | [Sexp.A "pingresp"] -> KPingresp
  | [Sexp.A "disconnect"; c; ps] -> KDisconnect (n_of_sx c, props_of_sx ps)
  | [Sexp.A "auth"; c; ps] -> KAuth (n_of_sx c, props_of_sx ps)
  | Sexp.A "raw" :: _ -> raise (Unsupported_pkt "raw")
  | Sexp.A "connect" :: _ -> raise (Unsupported_pkt "connect_in_send")
  | _ -> failwith ("pkt " ^ Sexp.to_string x)

let sx_pkt (p : pkt) : Sexp.t = match p with
  | KConnack (sp, code, ps) -> Sexp.L [Sexp.A "connack"; sx_bool sp; sx_n code; sx_props ps]
  | KPublish (d, q, r, t, pl, pid, ps) ->
    Sexp.L [Sexp.A "publish"; sx_bool d; sx_n q; sx_bool r; sx_bytes t; sx_bytes pl; sx_n pid; sx_props ps]
  | KPuback (pid, c, ps) -> Sexp.L [Sexp.A "puback"; sx_n pid; sx_n c; sx_props ps]
  | KPubrec (pid, c, ps) -> Sexp.L [Sexp.A "pubrec"; sx_n pid; sx_n c; sx_props ps]
  | KPubrel (pid, c, ps) -> Sexp.L [Sexp.A "pubrel"; sx_n pid; sx_n c; sx_props ps]
  | KPubcomp (pid, c, ps) -> Sexp.L [Sexp.A "pubcomp"; sx_n pid; sx_n c; sx_props ps]
  | KSuback (pid, cs, ps) -> Sexp.L [Sexp.A "suback"; sx_n pid; Sexp.L (Sexp.A "codes" :: List.map sx_n cs); sx_props ps]
  | KUnsuback (pid, cs, ps) -> Sexp.L [Sexp.A "unsuback"; sx_n pid; Sexp.L (Sexp.A "codes" :: List.map sx_n cs); sx_props ps]
  | KPingresp -> Sexp.L [Sexp.A "pingresp"]
  | KDisconnect (c, ps) -> Sexp.L [Sexp.A "disconnect"; sx_n c; sx_props ps]
  | KAuth (c, ps) -> Sexp.L [Sexp.A "auth"; sx_n c; sx_props ps]
  | KPingreq -> Sexp.L [Sexp.A "pingreq"]
  | KSubscribe _ -> Sexp.L [Sexp.A "subscribe"]
  | KUnsubscribe _ -> Sexp.L [Sexp.A "unsubscribe"]

(* re-print an implementation packet canonically (properties sorted) *)
let canon_pkt x = try sx_pkt (pkt_of_sx x) with Failure _ | Unsupported_pkt _ -> x

let field_n k x d = match Sexp.field_opt k x with Some [v] -> n_of_sx v | _ -> d
let field_b k x d = match Sexp.field_opt k x with Some [v] -> bool_of_sx v | _ -> d

let cfg_of_sx x : cfg =
  { c_onlyonce = (match Sexp.field_opt "delivery" x with Some [Sexp.A "overlap"] -> false | _ -> true);
    c_max_inflight = field_n "max_inflight" x (n_of_int 100);
    c_max_queued = nat_of_int (int_of_n (field_n "max_queued" x (n_of_int 1000)));
    c_queue_qos0 = field_b "queue_qos0" x true;
    c_session_expiry = field_n "session_expiry" x (n_of_int 7200);
    c_message_expiry = field_n "message_expiry" x (n_of_int 7200);
    c_recv_max = field_n "recv_max" x (n_of_int 100);
    c_alias_max = field_n "alias_max" x (n_of_int 10);
    c_max_packet = field_n "max_packet" x (n_of_int 268435456);
    c_max_qos = field_n "max_qos" x (n_of_int 2);
    c_retain_avail = field_b "retain_avail" x true; c_wildcard = field_b "wildcard" x true;
    c_subid = field_b "subid" x true; c_shared = field_b "shared" x true;
    c_max_keepalive = field_n "max_keepalive" x (n_of_int 300);
    c_allow_zero_len = field_b "allow_zero_len" x true;
    c_inflight_expiry = field_n "inflight_expiry" x (n_of_int 30) }

let msg_action_of_sx x = match Sexp.list x with
  | [Sexp.A "accept"] -> MAccept
  | [Sexp.A "reject"; c] -> MReject (n_of_sx c)
  | [Sexp.A "drop"] -> MDrop
  | [Sexp.A "rewrite"; t; p; q] -> MRewrite (bytes_of_sx t, bytes_of_sx p, n_of_sx q)
  | _ -> failwith "msg_action"

let hooks_of_sx (x : Sexp.t option) : hooks =
  match x with
  | None -> no_hooks
  | Some h ->
    let auth = match Sexp.field_opt "basic_auth" h with
      | None -> None
      | Some l ->
        let dflt = ref (n_of_int 0) in
        let tbl = List.filter_map (fun e -> match Sexp.list e with
            | [Sexp.A "default"; c] -> dflt := n_of_sx c; None
            | [u; p; c] -> Some ((bytes_of_sx u, bytes_of_sx p), n_of_sx c)
            | _ -> failwith "basic_auth") l in
        Some (tbl, !dflt) in
    let sub_all = ref None in
    let sub = match Sexp.field_opt "subscribe" h with
      | None -> []
      | Some l -> List.filter_map (fun e -> match Sexp.list e with
          | [Sexp.A "all"; Sexp.L [Sexp.A "reject"; c]] -> sub_all := Some (n_of_sx c); None
          | [c; f; a] -> Some ((bytes_of_sx c, bytes_of_sx f),
                               (match Sexp.list a with
                                | [Sexp.A "accept"] -> SAccept
                                | [Sexp.A "reject"; c] -> SReject (n_of_sx c)
                                | [Sexp.A "qos"; q] -> SQos (n_of_sx q)
                                | _ -> failwith "sub_action"))
          | _ -> failwith "subscribe hook") l in
    let tbl k = match Sexp.field_opt k h with
      | None -> ([], false)
      | Some l -> (List.map (fun e -> match Sexp.list e with [t; a] -> (bytes_of_sx t, msg_action_of_sx a) | _ -> failwith k) l, true) in
    let (msg, msg_on) = tbl "msg_arrived" in
    let (will, will_on) = tbl "will_publish" in
    { h_auth = auth; h_sub_all = !sub_all; h_sub = sub; h_msg = msg; h_msg_on = msg_on; h_will = will; h_will_on = will_on }

let opt_bytes k x = match Sexp.field_opt k x with Some [v] -> Some (bytes_of_sx v) | _ -> None

let connect_of_sx ver rest : connect =
  let x = Sexp.L rest in
  let will = match Sexp.field_opt "will" x with
    | None -> None
    | Some w -> let w = Sexp.L w in
      Some { w_topic = bytes_of_sx (Sexp.field1 "topic" w); w_payload = bytes_of_sx (Sexp.field1 "payload" w);
             w_qos = n_of_sx (Sexp.field1 "qos" w); w_retain = bool_of_sx (Sexp.field1 "retain" w);
             w_props = List.map prop_of_sx (Sexp.field "props" w) } in
  { cn_ver = n_of_sx ver; cn_cid = bytes_of_sx (Sexp.field1 "cid" x); cn_clean = bool_of_sx (Sexp.field1 "clean" x);
    cn_keepalive = field_n "keepalive" x (n_of_int 0); cn_user = opt_bytes "user" x; cn_pass = opt_bytes "pass" x;
    cn_will = will; cn_props = List.map prop_of_sx (Sexp.field "props" x) }

(* the packet actually sent in a step, after the runner resolved symbolic ids: (sent C PKT) in the step's entries *)
let sent_of_step (step_obs : Sexp.t) : Sexp.t option option =
  let entries = match step_obs with Sexp.L (Sexp.A "s" :: es) -> es | _ -> [] in
  if List.exists (fun e -> e = Sexp.L [Sexp.A "skipped"]) entries then Some None
  else
    match List.find_opt (fun e -> match e with Sexp.L (Sexp.A "sent" :: _) -> true | _ -> false) entries with
    | Some (Sexp.L (Sexp.A "sent" :: _ :: p :: _)) -> Some (Some p)
    | _ -> None

(* with (opts (sizes 1)) the runner also reports the encoded size of the packet it sent: (sent C PKT SIZE) *)
let sent_size_of_step (step_obs : Sexp.t) : Sexp.t option =
  let entries = match step_obs with Sexp.L (Sexp.A "s" :: es) -> es | _ -> [] in
  match List.find_opt (fun e -> match e with Sexp.L (Sexp.A "sent" :: _) -> true | _ -> false) entries with
  | Some (Sexp.L [Sexp.A "sent"; _; _; sz]) -> Some sz
  | _ -> None

let event_of_sx (step : Sexp.t) (step_obs : Sexp.t) : event option = match Sexp.list step with
  | Sexp.A "connect" :: c :: ver :: rest ->
    (* the model covers protocol levels 3 (3.1), 4 (3.1.1) and 5; the decoder refuses any other level before the
       broker sees a CONNECT (the socket is closed without CONNACK): outside the model's domain *)
    (match int_of_string_opt (Sexp.atom ver) with
     | Some (3 | 4 | 5) -> ()
     | _ -> raise (Unsupported_pkt "protocol_level"));
    Some (EConnect (n_of_sx c, connect_of_sx ver rest))
  | [Sexp.A "open"; c] -> Some (EOpen (n_of_sx c))
  | [Sexp.A "send"; c; p] ->
    (match sent_of_step step_obs with
     | Some None -> None
     | Some (Some p') ->
       (match sent_size_of_step step_obs with
        | Some sz -> Some (ESendSz (n_of_sx c, pkt_of_sx p', n_of_sx sz))
        | None -> Some (ESend (n_of_sx c, pkt_of_sx p')))
     | None -> Some (ESend (n_of_sx c, pkt_of_sx p)))
  | [Sexp.A "close"; c] -> Some (EClose (n_of_sx c))
  | [Sexp.A "api_publish"; m] -> Some (EApiPublish (msg_of_sx m))
  | [Sexp.A "terminate"; cid] -> Some (ETerminate (bytes_of_sx cid))
  | [Sexp.A "advance"; ms] -> Some (EAdvance (n_of_sx ms))
  | [Sexp.A "expire_check"] -> Some EExpireCheck
  | [Sexp.A "sleep"; ms] -> Some (ESleep (n_of_sx ms))
  | [Sexp.A "inspect"] -> Some EInspect
  | _ -> failwith ("step " ^ Sexp.to_string step)

(* per-socket canonical form of one step of the model *)
let conn_ids (s : st) = List.map (fun (c, _) -> int_of_n c) s.b_conns
let conn_open (s : st) (c : int) =
  match List.find_opt (fun (c', _) -> int_of_n c' = c) s.b_conns with
  | Some (_, k) -> (match k.k_phase with PhClosed -> false | _ -> true)
  | None -> false

let model_step_obs (s_after : st) (outs : out list) : (int * Sexp.t list * bool) list =
  List.map (fun c ->
      let pk = List.filter_map (fun o -> match o with OSend (c', p) when int_of_n c' = c -> Some (sx_pkt p) | _ -> None) outs in
      (c, pk, conn_open s_after c)) (List.sort compare (conn_ids s_after))

(* the take-over DISCONNECT (0x8E) races with the close of the old socket and is normally lost: not compared *)
let not_takeover x = match x with Sexp.L [Sexp.A "disconnect"; Sexp.A "142"; _] -> false | _ -> true

let impl_step_obs (step_obs : Sexp.t) : (int * Sexp.t list * bool) list =
  let entries = match step_obs with Sexp.L (Sexp.A "s" :: es) -> es | _ -> failwith "step obs" in
  List.sort compare (List.filter_map (fun e -> match e with
      | Sexp.L (c :: Sexp.L (Sexp.A "pkts" :: ps) :: Sexp.L [Sexp.A "open"; o] :: _) when (match c with Sexp.A a -> a <> "sent" && a <> "inspect" | _ -> false) ->
        Some (int_of_sx c, List.filter not_takeover (List.map canon_pkt ps), bool_of_sx o)
      | _ -> None) entries)

(* copies of one application message queued for one client by a single delivery come in map
   iteration order: sort maximal runs of PUBLISH packets with equal topic and payload, ignoring ids *)
let strip_pid x = match x with
  | Sexp.L [Sexp.A "publish"; d; q; r; t; p; _; ps] -> Sexp.L [Sexp.A "publish"; d; q; r; t; p; Sexp.A "_"; ps]
  | _ -> x
let rec strip_pid_all x = match x with
  | Sexp.L [Sexp.A "publish"; d; q; r; t; p; _; ps] -> Sexp.L [Sexp.A "publish"; d; q; r; t; p; Sexp.A "_"; ps]
  | Sexp.L [Sexp.A "pubrel"; _; c; ps] -> Sexp.L [Sexp.A "pubrel"; Sexp.A "_"; c; ps]
  | _ -> x
let key_tp x = match x with Sexp.L [Sexp.A "publish"; _; _; _; t; p; _; _] -> Some (t, p) | _ -> None
let is_publish x = key_tp x <> None
let is_suback x = match x with Sexp.L (Sexp.A "suback" :: _) -> true | _ -> false
let cmp_nopid a b = compare (Sexp.to_string (strip_pid a)) (Sexp.to_string (strip_pid b))
let rec sort_runs (l : Sexp.t list) : Sexp.t list =
  match l with
  | [] -> []
  | x :: rest when is_suback x ->
    let rec take acc = function y :: r when is_publish y -> take (y :: acc) r | r -> (List.rev acc, r) in
    let (run, rest') = take [] rest in
    x :: (List.sort cmp_nopid run @ sort_runs rest')
  | x :: _ ->
    (match key_tp x with
     | None -> x :: sort_runs (List.tl l)
     | Some k ->
       let rec take acc = function
         | y :: r when key_tp y = Some k -> take (y :: acc) r
         | r -> (List.rev acc, r) in
       let (run, rest) = take [] l in
       List.sort (fun a b -> compare (Sexp.to_string (strip_pid a)) (Sexp.to_string (strip_pid b))) run @ sort_runs rest)

(* the packet handler (acks, SUBACK) and the poll loop (PUBLISH) of one connection race: compare the
   two sub-sequences, each in its own order *)
let is_flow x = match x with Sexp.L (Sexp.A ("publish" | "pubrel") :: _) -> true | _ -> false
let split_flows pk = List.filter (fun x -> not (is_flow x)) pk @ List.filter is_flow pk

(* outbound topic aliases: which copy of a burst carries the topic depends on queue order; restore the
   topic from the per-socket alias table so that copies compare equal (alias values are kept) *)
let resolve_aliases (steps : (int * Sexp.t list * bool) list list) =
  let tbl : (int * string, Sexp.t) Hashtbl.t = Hashtbl.create 16 in
  List.map (fun step -> List.map (fun (c, pk, o) ->
      (c, List.map (fun x -> match x with
           | Sexp.L [Sexp.A "publish"; d; q; r; t; p; pid; Sexp.L (Sexp.A "props" :: ps)] ->
             (match List.find_opt (fun pr -> prop_name pr = "alias") ps with
              | Some (Sexp.L [_; Sexp.A a]) ->
                if t = Sexp.A "x" then
                  (match Hashtbl.find_opt tbl (c, a) with
                   | Some t' -> Sexp.L [Sexp.A "publish"; d; q; r; t'; p; pid; Sexp.L (Sexp.A "props" :: ps)]
                   | None -> x)
                else (Hashtbl.replace tbl (c, a) t; x)
              | _ -> x)
           | _ -> x) pk, o)) step) steps

(* copies that are identical but for the packet id (e.g. retransmissions, which have lost their subscription
   identifiers) are interchangeable: after the renaming, order each maximal run of such twins by id *)
let rec sort_twins (l : Sexp.t list) : Sexp.t list =
  match l with
  | [] -> []
  | x :: _ when is_publish x ->
    let k = strip_pid x in
    let rec take acc = function
      | y :: r when is_publish y && strip_pid y = k -> take (y :: acc) r
      | r -> (List.rev acc, r) in
    let (run, rest) = take [] l in
    let pidnum y = match y with
      | Sexp.L [Sexp.A "publish"; _; _; _; _; _; Sexp.A pid; _] ->
        (try int_of_string (String.sub pid 1 (String.length pid - 1)) with _ -> 0)
      | _ -> 0 in
    List.stable_sort (fun a b -> compare (pidnum a) (pidnum b)) run @ sort_twins rest
  | x :: rest -> x :: sort_twins rest

(* rename broker-assigned packet ids per socket by first appearance (outbound flows) *)
let rename_pids (steps : (int * Sexp.t list * bool) list list) : (int * Sexp.t list * bool) list list =
  let steps = resolve_aliases steps in
  (* A socket label can carry several connections one after the other, and every connection numbers its packets
     from 1 again: the table of a label starts afresh at each CONNACK.  Only retransmissions (DUP=1 PUBLISH, PUBREL)
     keep the name their id had on the previous connection of that label, so that "same packet identifier" is still
     compared; a first transmission never inherits a name (which copy of a burst got which id is schedule dependent). *)
  let tbl : (int * string, string) Hashtbl.t = Hashtbl.create 16 in
  let old : (int * string, string) Hashtbl.t = Hashtbl.create 16 in
  let cnt : (int, int) Hashtbl.t = Hashtbl.create 16 in
  let new_connection c =
    Hashtbl.filter_map_inplace (fun (c', pid) r -> if c' = c then (Hashtbl.replace old (c, pid) r; None) else Some r) tbl in
  let ren ~retx c pid =
    if pid = "0" then pid else
      match Hashtbl.find_opt tbl (c, pid) with
      | Some r -> r
      | None ->
        (match (if retx then Hashtbl.find_opt old (c, pid) else None) with
         | Some r -> Hashtbl.replace tbl (c, pid) r; r
         | None ->
           let n = (try Hashtbl.find cnt c with Not_found -> 0) + 1 in
           Hashtbl.replace cnt c n; let r = "p" ^ string_of_int n in Hashtbl.replace tbl (c, pid) r; r) in
  List.map (fun step -> List.map (fun (c, pk, o) ->
      if List.exists (fun x -> match x with Sexp.L (Sexp.A "connack" :: _) -> true | _ -> false) pk then new_connection c;
      (c, List.map (fun x -> match x with
           | Sexp.L [Sexp.A "publish"; d; q; r; t; p; Sexp.A pid; ps] ->
             let retx = (match d with Sexp.A "1" -> true | _ -> false) in
             Sexp.L [Sexp.A "publish"; d; q; r; t; p; Sexp.A (ren ~retx c pid); ps]
           | Sexp.L [Sexp.A "pubrel"; Sexp.A pid; cd; ps] -> Sexp.L [Sexp.A "pubrel"; Sexp.A (ren ~retx:true c pid); cd; ps]
           | _ -> x) (sort_runs (split_flows pk)), o)) step) steps
  |> List.map (fun step -> List.map (fun (c, pk, o) -> (c, sort_twins pk, o)) step)

let sx_steps steps =
  Sexp.L (List.map (fun step -> Sexp.L (Sexp.A "s" :: List.map (fun (c, pk, o) ->
      Sexp.L [sx_int c; Sexp.L (Sexp.A "pkts" :: pk); Sexp.L [Sexp.A "open"; sx_bool o]]) step)) steps)

type oracle_fn = cfg -> hooks -> Sexp.t list (* scenario steps *) -> (int * Sexp.t list * bool) list list (* impl obs *) -> Sexp.t list (* raw impl steps *) -> bool * string * string   (* ok, known-finding name or "-", explanation *)

exception Unsupported of string

let rec run_with (oracle : oracle_fn) (input : Sexp.t) (impl : Sexp.t) : Verdict.t =
  try run_with' oracle input impl
  with Unsupported what ->
    { Verdict.agree = true; oracle = true; kf = "-"; nontrivial = false; cls = "unsupported_" ^ what; model = Sexp.A "unsupported"; why = "" }

and run_with' (oracle : oracle_fn) (input : Sexp.t) (impl : Sexp.t) : Verdict.t =
  let cfg = cfg_of_sx (Sexp.L (Sexp.field "cfg" input)) in
  let hooks = hooks_of_sx (match Sexp.field_opt "hooks" input with Some h -> Some (Sexp.L h) | None -> None) in
  let steps = Sexp.field "steps" input in
  let isteps = Sexp.field "steps" impl in
  let n = min (List.length steps) (List.length isteps) in
  let steps = List.filteri (fun i _ -> i < n) steps and isteps = List.filteri (fun i _ -> i < n) isteps in
  let events = List.map2 (fun step so -> try event_of_sx step so with Unsupported_pkt w -> raise (Unsupported w)) steps isteps in
  let iraw = List.map impl_step_obs isteps in
  let iobs = rename_pids iraw in
  let blank_aliased x = match x with
    | Sexp.L [Sexp.A "publish"; d; q; r; _; p; pid; (Sexp.L (Sexp.A "props" :: ps) as pp)] when List.exists (fun pr -> prop_name pr = "alias") ps ->
      Sexp.L [Sexp.A "publish"; d; q; r; Sexp.A "_"; p; pid; pp]
    | _ -> x in
  (* the pick search matches steps with the Message Expiry values blanked (see the tolerance below) *)
  let rec blank_expiry x = match x with
    | Sexp.L [Sexp.A "msgexpiry"; _] -> Sexp.L [Sexp.A "msgexpiry"; Sexp.A "_"]
    | Sexp.L l -> Sexp.L (List.map blank_expiry l)
    | a -> a in
  let mask step = List.map (fun (c, pk, o) -> (c, List.sort compare (List.map (fun x -> blank_expiry (blank_aliased (strip_pid_all x))) (split_flows pk)), o)) step in
  let imasked = List.map mask iraw in
  (* the broker's random choices (member of a share group, which of several equal-QoS subscriptions an
     onlyonce copy goes through) are resolved from its own trace: breadth-first over the choices, keeping
     the model states whose step output matches the implementation's (packet ids masked) *)
  let choice_vectors = [[]; [1]; [2]; [0; 1]; [0; 2]; [1; 0]; [1; 1]; [1; 2]; [2; 0]; [2; 1]; [2; 2]; [0; 0; 1]; [0; 1; 1]; [1; 0; 1]; [1; 1; 1]] in
  let run_path (s0 : st) =
    let rec go frontier evs ims =
      match evs, ims with
      | [], _ | _, [] -> frontier
      | e :: evs', im :: ims' ->
        let next = List.concat_map (fun (s, acc) ->
            match e with
            | None -> if mask (model_step_obs s []) = im then [(s, model_step_obs s [] :: acc)] else []
            | Some ev ->
              let try_cv cv =
                let s1 = set_picks_tag (List.map nat_of_int cv) s.b_tag s in
                let (s', outs) = Model.step s1 ev in
                if Sys.getenv_opt "WIRE_MODEL_DEBUG" <> None then begin
                  List.iter (fun (cid, q) -> prerr_endline (Printf.sprintf "  [model] queue %s cur=%d drained=%b: %s" (atom_of_bytes cid) (int_of_nat q.q_cur) q.q_drained
                    (String.concat " " (List.map (fun e -> match e.e_body with QPub m -> Printf.sprintf "pub(%s,q%d,id%d,exp%s)" (atom_of_bytes m.m_payload) (int_of_n m.m_qos) (int_of_n m.m_pid) (match e.e_expiry with None -> "none" | Some x -> string_of_int (int_of_n x)) | QRel p -> Printf.sprintf "rel(%d)" (int_of_n p)) q.q_l)))) s'.b_queues;
                  prerr_endline (Printf.sprintf "  [model] now=%d" (int_of_n s'.b_now)) end;
                if Sys.getenv_opt "WIRE_MODEL_DEBUG" <> None then
                  List.iter (fun o -> match o with
                      | ODropped (cid, m, r) -> prerr_endline (Printf.sprintf "  [model] dropped cid=%s payload=%s reason=%s" (atom_of_bytes cid) (atom_of_bytes m.m_payload)
                                                                 (match r with DFull -> "full" | DExpired -> "expired" | DExpiredInflight -> "expired_inflight" | DExceedsMax -> "exceeds"))
                      | _ -> ()) outs;
                let o = model_step_obs s' outs in
                if mask o = im then Some (s', o :: acc) else None in
              let (s_probe, _) = Model.step (set_picks_tag [] s.b_tag s) ev in
              let k = int_of_n s_probe.b_npick - int_of_n s.b_npick in
              if k = 0 then (match try_cv [] with Some r -> [r] | None -> [])
              else if k <= 5 then
                (* every vector of k picks over 0..3 (a pick is taken modulo the number of candidates) *)
                let rec vecs k = if k = 0 then [[]] else List.concat_map (fun v -> List.map (fun x -> x :: v) [0; 1; 2; 3]) (vecs (k - 1)) in
                List.filter_map try_cv (vecs k)
              else List.filter_map try_cv choice_vectors) frontier in
        (* different picks often lead to the same state: keep one of each, and at most 64 *)
        let next = List.sort_uniq (fun (s1, a1) (s2, a2) -> compare (List.hd a1, s1) (List.hd a2, s2)) next in
        let next = List.filteri (fun i _ -> i < 64) next in
        if next = [] then
          (* no choice explains this step: continue on the default path so that the report shows the first difference *)
          (match frontier with
           | (s, acc) :: _ ->
             let (s', o) = (match e with None -> (s, model_step_obs s []) | Some ev -> let (s', outs) = Model.step s ev in (s', model_step_obs s' outs)) in
             go [(s', o :: acc)] evs' ims'
           | [] -> [])
        else go next evs' ims' in
    go [(s0, [])] events imasked in
  let paths = run_path (st_init cfg hooks []) in
  let cands = List.map (fun (_, acc) -> rename_pids (List.rev acc)) paths in
  (* The broker ages the forwarded Message Expiry Interval with the real clock, the model with the scripted one: when
     the machine is busy a scenario can take a second or two of wall time, so the implementation may report up to 2 s
     less than the model (never more).  Everything else is compared exactly. *)
  let rec near (m : Sexp.t) (i : Sexp.t) : bool = match m, i with
    | Sexp.L [Sexp.A "msgexpiry"; Sexp.A a], Sexp.L [Sexp.A "msgexpiry"; Sexp.A b] ->
      (match int_of_string_opt a, int_of_string_opt b with
       | Some ma, Some ib -> ib <= ma && ma - ib <= 2 && ib >= 1
       | _ -> a = b)
    | Sexp.L l1, Sexp.L l2 -> List.length l1 = List.length l2 && List.for_all2 near l1 l2
    | Sexp.A a, Sexp.A b -> a = b
    | _ -> false in
  let near_obs (m : (int * Sexp.t list * bool) list list) (i : (int * Sexp.t list * bool) list list) =
    List.length m = List.length i &&
    List.for_all2 (fun sm si -> List.length sm = List.length si &&
                                List.for_all2 (fun (c1, p1, o1) (c2, p2, o2) -> c1 = c2 && o1 = o2 && List.length p1 = List.length p2 && List.for_all2 near p1 p2) sm si) m i in
  let mobs = match List.find_opt (fun m -> m = iobs) cands with
    | Some m -> m
    | None -> (match List.find_opt (fun m -> near_obs m iobs) cands with Some m -> m | None -> (match cands with m :: _ -> m | [] -> [])) in
  let agree = (mobs = iobs) || near_obs mobs iobs in
  let (ok, kf, why) = oracle cfg hooks steps (List.map impl_step_obs isteps) isteps in
  let npub = List.length (List.filter (fun st -> List.exists (fun (_, pk, _) -> List.exists (fun p -> key_tp p <> None) pk) st) iobs) in
  { Verdict.agree; oracle = ok; kf; nontrivial = npub >= 1 && n >= 5;
    cls = Printf.sprintf "steps%s_pub%s" (if n < 12 then "lt12" else "ge12") (if npub = 0 then "0" else if npub < 4 then "lt4" else "ge4");
    model = (if agree then Sexp.A "same" else
               let rec first k a b = match a, b with
                 | x :: a', y :: b' -> if x = y then first (k + 1) a' b' else Some (k, [x], [y])
                 | [], [] -> None
                 | _, _ -> Some (k, [], []) in
               match first 0 iobs mobs with
               | Some (k, i, m) -> Sexp.L [Sexp.A "first_diff_step"; sx_int k; Sexp.L [Sexp.A "impl"; sx_steps i]; Sexp.L [Sexp.A "model"; sx_steps m]]
               | None -> Sexp.A "lengths");
    why }

let no_oracle : oracle_fn = fun _ _ _ _ _ -> (true, "-", "")
let run = run_with no_oracle
