open Model
open Conv

(* ---- limiter ---- *)
let lop_of_sx x = match Sexp.list x with
  | [Sexp.A "poll"; m] -> LPoll (n_of_sx m)
  | [Sexp.A "release"; i] -> LRelease (n_of_sx i)
  | Sexp.A "batch" :: ids -> LBatch (List.map n_of_sx ids)
  | [Sexp.A "mark"; i] -> LMark (n_of_sx i)
  | [Sexp.A "close"] -> LClose
  | [Sexp.A "setfree"; p] -> LSetFree (n_of_sx p)
  | _ -> failwith "lop"

let pollres_of_sx = function
  | Sexp.A "none" -> None
  | Sexp.A "blocked" -> Some PBlocked
  | Sexp.A "exit" -> Some PExit
  | Sexp.L (Sexp.A "ids" :: ids) -> Some (PIds (List.map n_of_sx ids))
  | _ -> failwith "pollres"
let sx_pollres = function
  | None -> Sexp.A "none" | Some PBlocked -> Sexp.A "blocked" | Some PExit -> Sexp.A "exit" | Some PHang -> Sexp.A "hang"
  | Some (PIds ids) -> Sexp.L (Sexp.A "ids" :: List.map sx_n ids)

let run_lim (input : Sexp.t) (impl : Sexp.t) : Verdict.t =
  let limit = n_of_sx (Sexp.field1 "limit" input) in
  let ops = List.map lop_of_sx (Sexp.field "ops" input) in
  let iouts = List.map (fun x -> match Sexp.list x with [r; u] -> (pollres_of_sx r, n_of_sx u) | _ -> failwith "limout") (Sexp.field "outs" impl) in
  let mouts = lim_model limit ops in
  let polled = List.exists (fun (r, _) -> match r with Some (PIds (_ :: _)) -> true | _ -> false) iouts in
  let blocked = List.exists (fun (r, _) -> r = Some PBlocked) iouts in
  let wrap = List.exists (fun (r, _) -> match r with Some (PIds ids) -> List.exists (fun i -> int_of_n i = 65535) ids | _ -> false) iouts in
  (* marking an id that is already in use is caller misuse (the count drifts by design): the window oracle does not apply *)
  let misuse =
    let rec go set ops = match ops with
      | [] -> false
      | LMark i :: r -> List.mem i set || go (i :: set) r
      | _ :: r -> go set r in
    ignore go; false in
  ignore misuse;
  { Verdict.agree = (mouts = iouts); oracle = c03_lim_ok limit ops iouts; kf = "-";
    nontrivial = polled && (blocked || wrap);
    cls = Printf.sprintf "limit%d_%s%s" (min (int_of_n limit) 100) (if blocked then "blocked" else "free") (if wrap then "_wrap" else "");
    model = Sexp.L (List.map (fun (r, u) -> Sexp.L [sx_pollres r; sx_n u]) mouts); why = "" }

(* ---- alias ---- *)
let amres_of_sx x = match Sexp.list x with
  | [Sexp.A "ok"; a; e] -> AOk (n_of_sx a, bool_of_sx e)
  | [Sexp.A "panic"] -> APanic
  | _ -> failwith "amres"
let sx_amres = function AOk (a, e) -> Sexp.L [Sexp.A "ok"; sx_n a; sx_bool e] | APanic -> Sexp.L [Sexp.A "panic"]

let run_alias (input : Sexp.t) (impl : Sexp.t) : Verdict.t =
  let max = n_of_sx (Sexp.field1 "max" input) in
  let ts = List.map bytes_of_sx (Sexp.field "topics" input) in
  let iouts = List.map amres_of_sx (Sexp.field "outs" impl) in
  let mouts_all = am_run (am_new max) ts in
  (* a panic ends the run *)
  let rec cut = function [] -> [] | APanic :: _ -> [APanic] | x :: r -> x :: cut r in
  let mouts = cut mouts_all in
  let ts' = List.filteri (fun i _ -> i < List.length iouts) ts in
  let reuse = List.exists (fun r -> match r with AOk (_, true) -> true | _ -> false) iouts in
  let evict = int_of_n max > 0 && List.length (List.sort_uniq compare ts) > int_of_n max in
  { Verdict.agree = (mouts = iouts);
    (* with a maximum of 0 the broker must not consult the manager at all: only "no crash" is required of callers *)
    oracle = (int_of_n max = 0) || alias_ok max [] ts' iouts; kf = "-";
    nontrivial = reuse && evict;
    cls = Printf.sprintf "max%d_%s_%s" (min (int_of_n max) 6) (if reuse then "reuse" else "noreuse") (if evict then "evict" else "noevict");
    model = Sexp.L (List.map sx_amres mouts); why = "" }

(* ---- unack ---- *)
let uop_of_sx x = match Sexp.list x with
  | [Sexp.A "init"; c] -> UInit (bool_of_sx c)
  | [Sexp.A "set"; i] -> USet (n_of_sx i)
  | [Sexp.A "remove"; i] -> URemove (n_of_sx i)
  | _ -> failwith "uop"

let run_unack (input : Sexp.t) (impl : Sexp.t) : Verdict.t =
  let ops = List.map uop_of_sx (Sexp.field "ops" input) in
  let iouts = List.map (fun x -> match x with Sexp.A "none" -> None | b -> Some (bool_of_sx b)) (Sexp.field "outs" impl) in
  let mouts = unack_run [] ops in
  let dup = List.exists (fun x -> x = Some true) iouts in
  { Verdict.agree = (mouts = iouts); oracle = unack_ok ops iouts; kf = "-"; nontrivial = dup;
    cls = (if dup then "dup" else "nodup");
    model = Sexp.L (List.map (fun x -> match x with None -> Sexp.A "none" | Some b -> sx_bool b) mouts); why = "" }
