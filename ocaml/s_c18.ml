open Model
open Conv

let msg_of_sx x = match Sexp.list x with
  | [Sexp.A "b"; p] -> (Binary, bytes_of_sx p)
  | [Sexp.A "t"; p] -> (Text, bytes_of_sx p)
  | _ -> failwith "c18 msg"

let err_of_atom = function
  | "none" -> ENone | "eof" -> EEof | "type" -> EType | _ -> EOther
let atom_of_err = function ENone -> "none" | EEof -> "eof" | EType -> "type" | EOther -> "other"

let sx_obs (cs, e) =
  Sexp.L [Sexp.L (Sexp.A "chunks" :: List.map sx_bytes cs); Sexp.L [Sexp.A "err"; Sexp.A (atom_of_err e)]]

let run (input : Sexp.t) (impl : Sexp.t) : Verdict.t =
  let msgs = List.map msg_of_sx (Sexp.field "msgs" input) in
  let ps = List.map nat_of_sx (Sexp.field "reads" input) in
  let iobs = (List.map bytes_of_sx (Sexp.field "chunks" impl), err_of_atom (Sexp.atom (Sexp.field1 "err" impl))) in
  let mobs = model_obs msgs ps in
  let total = List.fold_left (fun a (_, p) -> a + List.length p) 0 msgs in
  let nreads = List.length ps in
  let straddle = List.exists (fun (_, p) -> List.exists (fun r -> let r = int_of_nat r in r > 0 && r < List.length p) ps) msgs in
  { Verdict.agree = c18_obs_eqb mobs iobs;
    oracle = c18_ok msgs ps iobs;
    kf = "-";
    nontrivial = total > 0 && nreads > 1 && straddle;
    cls = Printf.sprintf "msgs%d_%s" (min (List.length msgs) 4) (atom_of_err (snd mobs));
    model = sx_obs mobs; why = "" }

(* ---- suite c18w: the same MQTT byte stream over TCP and, cut into binary messages, over WebSocket: by the theorem of
   C18 the broker reads the concatenation, so its answers must be the same; the TCP answers are the expectation *)
let run_c18w (input : Sexp.t) (impl : Sexp.t) : Verdict.t =
  (match Sexp.field_opt "harness_error" impl with Some [e] -> failwith ("harness: " ^ Sexp.to_string e) | _ -> ());
  let tcp = Sexp.field1 "tcp" impl and ws = Sexp.field1 "ws" impl in
  let same = Sexp.to_string tcp = Sexp.to_string ws in
  let complete = (match Sexp.field "end" ws with [Sexp.A "pingresp"] -> true | _ -> false) in
  let ncuts = List.length (Sexp.field "cuts" input) in
  { Verdict.agree = same; oracle = same && complete; kf = "-"; nontrivial = ncuts > 0;
    cls = Printf.sprintf "v%s_cuts%s_%s" (Sexp.atom (Sexp.field1 "v" input)) (if ncuts = 0 then "0" else if ncuts < 10 then "lt10" else "ge10")
        (if int_of_sx (Sexp.field1 "maxpkt" input) < 1000000 then "smallmax" else "defaultmax");
    model = tcp; why = if same && complete then "" else "the broker's answers over WebSocket differ from its answers to the same bytes over TCP" }
