(* suite penc of property C09: the byte encodings the redis backend stores (Model/PersistEnc.v) *)
open Model
open Conv
open Msgconv

let time_of_sx x = match be64 (bytes_of_sx x) with Ok v -> v | _ -> failwith "time"
let sx_time v = sx_bytes (put64 v)

let pelem_of_sx x = match Sexp.list x with
  | [Sexp.A "pe"; at; exp; body] ->
    let b = match Sexp.list body with
      | [Sexp.A "pub"; m] -> QPub (msg_of_sx m)
      | [Sexp.A "rel"; p] -> QRel (n_of_sx p)
      | _ -> failwith "pbody" in
    { e_tag = N0; e_at = time_of_sx at; e_expiry = (match exp with Sexp.A "none" -> None | _ -> Some (time_of_sx exp)); e_body = b }
  | _ -> failwith "pelem"

let sx_pelem e =
  Sexp.L [Sexp.A "pe"; sx_time e.e_at; (match e.e_expiry with None -> Sexp.A "none" | Some v -> sx_time v);
          (match e.e_body with QPub m -> Sexp.L [Sexp.A "pub"; sx_msg m] | QRel p -> Sexp.L [Sexp.A "rel"; sx_n p])]

let sx_res f = function
  | Ok v -> Sexp.L [Sexp.A "ok"; f v]
  | Err _ -> Sexp.L [Sexp.A "err"]
  | Panic -> Sexp.L [Sexp.A "panic"]
  | OutOfFuel -> Sexp.L [Sexp.A "outoffuel"]

let run_penc (input : Sexp.t) (impl : Sexp.t) : Verdict.t =
  let kind = Sexp.atom (Sexp.field1 "kind" input) in
  let raws = List.map bytes_of_sx (Sexp.field "raws" input) in
  let ienc = Sexp.field1 "enc" impl and idec = Sexp.field1 "dec" impl and iraws = Sexp.field "raws" impl in
  let ienc_b = bytes_of_sx ienc in
  let menc, mdec, mraws, oracle, wf, big =
    match kind with
    | "elem" ->
      let e = pelem_of_sx (Sexp.field1 "v" input) in
      let dec b = sx_res sx_pelem (dec_elem b) in
      let iv = (match Sexp.list idec with [Sexp.A "ok"; v] -> (try Some (pelem_of_sx v) with _ -> None) | _ -> None) in
      let big = (match e.e_body with QPub m -> List.length m.m_payload >= 65535 | _ -> false) in
      sx_bytes (enc_elem e), dec ienc_b, List.map dec raws, penc_elem_ok e iv, wf_pelem e, big
    | "sub" ->
      let s = S_sub.sub_of_sx (Sexp.field1 "v" input) in
      let dec b = sx_res S_sub.sx_sub (dec_sub b) in
      let iv = (match Sexp.list idec with [Sexp.A "ok"; v] -> (try Some (S_sub.sub_of_sx v) with _ -> None) | _ -> None) in
      sx_bytes (enc_sub s), dec ienc_b, List.map dec raws, penc_sub_ok s iv, wf_psub s, false
    | k -> failwith ("penc kind " ^ k) in
  let model = Sexp.L [Sexp.L [Sexp.A "enc"; menc]; Sexp.L [Sexp.A "dec"; mdec]; Sexp.L (Sexp.A "raws" :: mraws)] in
  let agree = Sexp.to_string menc = Sexp.to_string ienc && Sexp.to_string mdec = Sexp.to_string idec
              && List.length mraws = List.length iraws
              && List.for_all2 (fun a b -> Sexp.to_string a = Sexp.to_string b) mraws iraws in
  let nok = List.length (List.filter (fun r -> match r with Sexp.L (Sexp.A "ok" :: _) -> true | _ -> false) iraws) in
  (* for the evidence, a long payload is not echoed in the model observable *)
  let model = if big then Sexp.L [Sexp.A "long-payload-case"; Sexp.L [Sexp.A "agree"; sx_bool agree]] else model in
  { Verdict.agree; oracle; kf = "-"; nontrivial = wf;
    cls = Printf.sprintf "%s_%s%s_rawok%d" kind (if wf then "wf" else "nonwf") (if big then "_big" else "") (min nok 3);
    model; why = if oracle then "" else "decode(encode v) is not v" }
