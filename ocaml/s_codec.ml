(* suites codec / cenc / ctopic / cmsg of property C06 (packet codec) *)
open Model
open Conv
open Msgconv

(* ---------------------------------------------------------------- packets <-> s-expressions *)
let fh_of_sx = function
  | Sexp.A "-" -> None
  | Sexp.L [Sexp.A "fh"; t; f; rl] -> Some { fh_type = n_of_sx t; fh_flags = n_of_sx f; fh_rl = n_of_sx rl }
  | _ -> failwith "fh"

let props_of_sx = function
  | Sexp.A "nil" -> None
  | Sexp.L (Sexp.A "props" :: es) ->
    let singles = ref [] and subid = ref [] and user = ref [] in
    List.iter (fun e -> match Sexp.list e with
        | [id; Sexp.A "b"; v] -> singles := (n_of_sx id, PVByte (n_of_sx v)) :: !singles
        | [id; Sexp.A "w"; v] -> singles := (n_of_sx id, PVU16 (n_of_sx v)) :: !singles
        | [id; Sexp.A "d"; v] -> singles := (n_of_sx id, PVU32 (n_of_sx v)) :: !singles
        | [id; Sexp.A "s"; v] -> singles := (n_of_sx id, PVStr (bytes_of_sx v)) :: !singles
        | _ :: Sexp.A "v" :: vs -> subid := !subid @ List.map n_of_sx vs
        | _ :: Sexp.A "u" :: us ->
          user := !user @ List.map (fun u -> match Sexp.list u with [k; v] -> (bytes_of_sx k, bytes_of_sx v) | _ -> failwith "uprop") us
        | _ -> failwith "prop entry") es;
    Some { pr_single = List.rev !singles; pr_subid = !subid; pr_user = !user }
  | _ -> failwith "props"

let ack_type = function "puback" -> 4 | "pubrec" -> 5 | "pubcomp" -> 7 | _ -> failwith "ack"
let ack_name t = match int_of_n t with 4 -> "puback" | 5 -> "pubrec" | 7 -> "pubcomp" | k -> "ack" ^ string_of_int k

let packet_of_sx x : packet =
  let mk fh b = { p_fh = fh_of_sx fh; p_body = b } in
  match Sexp.list x with
  | [Sexp.A "connect"; fh; ver; level; uflag; pname; pflag; wretain; wqos; wflag; wtopic; wmsg; clean; ka; cid; user; pass; pr; wpr] ->
    mk fh (BConnect { c_version = n_of_sx ver; c_level = n_of_sx level; c_uflag = bool_of_sx uflag; c_pname = bytes_of_sx pname;
                      c_pflag = bool_of_sx pflag; c_wretain = bool_of_sx wretain; c_wqos = n_of_sx wqos; c_wflag = bool_of_sx wflag;
                      c_wtopic = bytes_of_sx wtopic; c_wmsg = bytes_of_sx wmsg; c_clean = bool_of_sx clean; c_keepalive = n_of_sx ka;
                      c_cid = bytes_of_sx cid; c_user = bytes_of_sx user; c_pass = bytes_of_sx pass;
                      c_props = props_of_sx pr; c_wprops = props_of_sx wpr })
  | [Sexp.A "connack"; fh; ver; code; sp; pr] -> mk fh (BConnack (n_of_sx ver, n_of_sx code, bool_of_sx sp, props_of_sx pr))
  | [Sexp.A "publish"; fh; ver; dup; qos; retain; topic; pid; payload; pr] ->
    mk fh (BPublish (n_of_sx ver, bool_of_sx dup, n_of_sx qos, bool_of_sx retain, bytes_of_sx topic, n_of_sx pid, bytes_of_sx payload, props_of_sx pr))
  | [Sexp.A ("puback" | "pubrec" | "pubcomp" as nm); fh; ver; pid; code; pr] ->
    mk fh (BAck (n_of_int (ack_type nm), n_of_sx ver, n_of_sx pid, n_of_sx code, props_of_sx pr))
  | [Sexp.A "pubrel"; fh; pid; code; pr] -> mk fh (BPubrel (n_of_sx pid, n_of_sx code, props_of_sx pr))
  | [Sexp.A "subscribe"; fh; ver; pid; ts; pr] ->
    let t x = match Sexp.list x with
      | [name; qos; rh; nl; rap] -> { st_name = bytes_of_sx name; st_qos = n_of_sx qos; st_rh = n_of_sx rh; st_nl = bool_of_sx nl; st_rap = bool_of_sx rap }
      | _ -> failwith "subtopic" in
    mk fh (BSubscribe (n_of_sx ver, n_of_sx pid, List.map t (Sexp.list ts), props_of_sx pr))
  | [Sexp.A "suback"; fh; ver; pid; pl; pr] -> mk fh (BSuback (n_of_sx ver, n_of_sx pid, bytes_of_sx pl, props_of_sx pr))
  | [Sexp.A "unsubscribe"; fh; ver; pid; ts; pr] ->
    mk fh (BUnsubscribe (n_of_sx ver, n_of_sx pid, List.map bytes_of_sx (Sexp.list ts), props_of_sx pr))
  | [Sexp.A "unsuback"; fh; ver; pid; pl; pr] -> mk fh (BUnsuback (n_of_sx ver, n_of_sx pid, bytes_of_sx pl, props_of_sx pr))
  | [Sexp.A "pingreq"; fh] -> mk fh BPingreq
  | [Sexp.A "pingresp"; fh] -> mk fh BPingresp
  | [Sexp.A "disconnect"; fh; ver; code; pr] -> mk fh (BDisconnect (n_of_sx ver, n_of_sx code, props_of_sx pr))
  | [Sexp.A "auth"; fh; code; pr] -> mk fh (BAuth (n_of_sx code, props_of_sx pr))
  | _ -> failwith ("packet: " ^ Sexp.to_string x)

let sx_fh = function
  | None -> Sexp.A "-"
  | Some h -> Sexp.L [Sexp.A "fh"; sx_n h.fh_type; sx_n h.fh_flags; sx_n h.fh_rl]

let sx_props = function
  | None -> Sexp.A "nil"
  | Some p ->
    let single (id, v) =
      (int_of_n id, match v with
        | PVByte x -> Sexp.L [sx_n id; Sexp.A "b"; sx_n x]
        | PVU16 x -> Sexp.L [sx_n id; Sexp.A "w"; sx_n x]
        | PVU32 x -> Sexp.L [sx_n id; Sexp.A "d"; sx_n x]
        | PVStr s -> Sexp.L [sx_n id; Sexp.A "s"; sx_bytes s]) in
    let es = List.map single p.pr_single in
    let es = if p.pr_subid = [] then es else es @ [(11, Sexp.L (Sexp.A "11" :: Sexp.A "v" :: List.map sx_n p.pr_subid))] in
    let es = if p.pr_user = [] then es
      else es @ [(38, Sexp.L (Sexp.A "38" :: Sexp.A "u" :: List.map (fun (k, v) -> Sexp.L [sx_bytes k; sx_bytes v]) p.pr_user))] in
    let es = List.stable_sort (fun (a, _) (b, _) -> compare a b) es in
    Sexp.L (Sexp.A "props" :: List.map snd es)

let sx_packet (p : packet) : Sexp.t =
  let fh = sx_fh p.p_fh in
  let a s = Sexp.A s in
  match p.p_body with
  | BConnect c ->
    Sexp.L [a "connect"; fh; sx_n c.c_version; sx_n c.c_level; sx_bool c.c_uflag; sx_bytes c.c_pname; sx_bool c.c_pflag;
            sx_bool c.c_wretain; sx_n c.c_wqos; sx_bool c.c_wflag; sx_bytes c.c_wtopic; sx_bytes c.c_wmsg; sx_bool c.c_clean;
            sx_n c.c_keepalive; sx_bytes c.c_cid; sx_bytes c.c_user; sx_bytes c.c_pass; sx_props c.c_props; sx_props c.c_wprops]
  | BConnack (ver, code, sp, pr) -> Sexp.L [a "connack"; fh; sx_n ver; sx_n code; sx_bool sp; sx_props pr]
  | BPublish (ver, dup, qos, retain, topic, pid, payload, pr) ->
    Sexp.L [a "publish"; fh; sx_n ver; sx_bool dup; sx_n qos; sx_bool retain; sx_bytes topic; sx_n pid; sx_bytes payload; sx_props pr]
  | BAck (t, ver, pid, code, pr) -> Sexp.L [a (ack_name t); fh; sx_n ver; sx_n pid; sx_n code; sx_props pr]
  | BPubrel (pid, code, pr) -> Sexp.L [a "pubrel"; fh; sx_n pid; sx_n code; sx_props pr]
  | BSubscribe (ver, pid, ts, pr) ->
    let t x = Sexp.L [sx_bytes x.st_name; sx_n x.st_qos; sx_n x.st_rh; sx_bool x.st_nl; sx_bool x.st_rap] in
    Sexp.L [a "subscribe"; fh; sx_n ver; sx_n pid; Sexp.L (List.map t ts); sx_props pr]
  | BSuback (ver, pid, pl, pr) -> Sexp.L [a "suback"; fh; sx_n ver; sx_n pid; sx_bytes pl; sx_props pr]
  | BUnsubscribe (ver, pid, ts, pr) -> Sexp.L [a "unsubscribe"; fh; sx_n ver; sx_n pid; Sexp.L (List.map sx_bytes ts); sx_props pr]
  | BUnsuback (ver, pid, pl, pr) -> Sexp.L [a "unsuback"; fh; sx_n ver; sx_n pid; sx_bytes pl; sx_props pr]
  | BPingreq -> Sexp.L [a "pingreq"; fh]
  | BPingresp -> Sexp.L [a "pingresp"; fh]
  | BDisconnect (ver, code, pr) -> Sexp.L [a "disconnect"; fh; sx_n ver; sx_n code; sx_props pr]
  | BAuth (code, pr) -> Sexp.L [a "auth"; fh; sx_n code; sx_props pr]

(* ---------------------------------------------------------------- outcomes <-> s-expressions *)
let err_of_sx = function
  | [Sexp.A "eof"] -> EEOF
  | [Sexp.A "ueof"] -> EUnexpectedEOF
  | [Sexp.A "code"; c] -> ECode (n_of_sx c)
  | [Sexp.A "dup"; c] -> EDup (n_of_sx c)
  | l -> failwith ("unmodelled error value: " ^ Sexp.to_string (Sexp.L l))
let sx_err = function
  | EEOF -> Sexp.L [Sexp.A "err"; Sexp.A "eof"]
  | EUnexpectedEOF -> Sexp.L [Sexp.A "err"; Sexp.A "ueof"]
  | ECode c -> Sexp.L [Sexp.A "err"; Sexp.A "code"; sx_n c]
  | EDup c -> Sexp.L [Sexp.A "err"; Sexp.A "dup"; sx_n c]

let dec1_of_sx x = match Sexp.list x with
  | [Sexp.A "ok"; p; c] -> D1Ok (packet_of_sx p, n_of_sx c)
  | Sexp.A "err" :: e -> D1Err (err_of_sx e)
  | [Sexp.A "panic"] -> D1Panic
  | _ -> failwith "dec1"
let sx_dec1 = function
  | D1Ok (p, c) -> Sexp.L [Sexp.A "ok"; sx_packet p; sx_n c]
  | D1Err e -> sx_err e
  | D1Panic -> Sexp.L [Sexp.A "panic"]
  | D1Fuel -> Sexp.L [Sexp.A "outoffuel"]

let reenc_of_sx x = match Sexp.list x with
  | [Sexp.A "bytes"; b; tb; d] -> RtBytes (bytes_of_sx b, n_of_sx tb, dec1_of_sx d)
  | Sexp.A "err" :: e -> RtErr (err_of_sx e)
  | [Sexp.A "panic"] -> RtPanic
  | _ -> failwith "reenc"
let sx_reenc = function
  | RtBytes (b, tb, d) -> Sexp.L [Sexp.A "bytes"; sx_bytes b; sx_n tb; sx_dec1 d]
  | RtErr e -> sx_err e
  | RtPanic -> Sexp.L [Sexp.A "panic"]
  | RtFuel -> Sexp.L [Sexp.A "outoffuel"]

let step_of_sx x = match Sexp.list x with
  | [Sexp.A "ok"; p; c; tb; Sexp.L [Sexp.A "re"; r]] -> StOk (packet_of_sx p, n_of_sx c, n_of_sx tb, reenc_of_sx r)
  | Sexp.A "err" :: e -> StErr (err_of_sx e)
  | [Sexp.A "panic"] -> StPanic
  | _ -> failwith "step"
let sx_step = function
  | StOk (p, c, tb, r) -> Sexp.L [Sexp.A "ok"; sx_packet p; sx_n c; sx_n tb; Sexp.L [Sexp.A "re"; sx_reenc r]]
  | StErr e -> sx_err e
  | StPanic -> Sexp.L [Sexp.A "panic"]
  | StFuel -> Sexp.L [Sexp.A "outoffuel"]

let type_name bs = match bs with
  | [] -> "empty"
  | f :: _ -> (match int_of_n f / 16 with
      | 0 -> "reserved" | 1 -> "connect" | 2 -> "connack" | 3 -> "publish" | 4 -> "puback" | 5 -> "pubrec" | 6 -> "pubrel"
      | 7 -> "pubcomp" | 8 -> "subscribe" | 9 -> "suback" | 10 -> "unsubscribe" | 11 -> "unsuback" | 12 -> "pingreq"
      | 13 -> "pingresp" | 14 -> "disconnect" | _ -> "auth")

let err_class = function
  | EEOF -> "eof" | EUnexpectedEOF -> "ueof" | ECode c -> "e" ^ string_of_int (int_of_n c) | EDup _ -> "edup"

(* ---------------------------------------------------------------- suite codec *)
let decode_kfs : (string * (n -> n list -> bool)) list = [
  "kf_auth_v3", kf_auth_v3;
  "kf_pubrel_v3", kf_pubrel_v3;
]

let rec drop k l = if k <= 0 then l else match l with [] -> [] | _ :: r -> drop (k - 1) r

(* the (version, remaining input) in front of the first step on which the oracle fails *)
let rec failing_step v bs steps = match steps with
  | [] -> None
  | s :: rest ->
    if not (stream_ok v bs [s]) then Some (v, bs)
    else (match s with
        | StOk (p, c, _, _) -> failing_step (next_version v p.p_body) (drop (int_of_n c) bs) rest
        | _ -> None)

let run (input : Sexp.t) (impl : Sexp.t) : Verdict.t =
  let v = n_of_sx (Sexp.field1 "v" input) in
  let bs = bytes_of_sx (Sexp.field1 "b" input) in
  let src = Sexp.atom (Sexp.field1 "src" input) in
  let isteps = List.map step_of_sx (Sexp.field "dec" impl) in
  let ialloc = n_of_sx (Sexp.field1 "alloc" impl) in
  let msteps = model_stream (nat_of_int 4) v bs in
  let malloc = model_stream_alloc (nat_of_int 4) v bs in
  let agree = (msteps = isteps) && alloc_agree bs malloc ialloc in
  (* the value the harness encoded with its own encoder, when the case carries it *)
  let want_ok = match Sexp.field_opt "pkt" input with
    | Some [p] ->
      let b = (packet_of_sx p).p_body in
      (match spec_decode v bs with
       | SOk (sb, []) -> body_eqb sb b && wf_packet b && spec_encode b <> []
       | _ -> false)
    | _ -> true in
  let oracle = c06_decode_ok v bs isteps ialloc && want_ok in
  let kf =
    if oracle then "-"
    else begin
      match failing_step v bs isteps with
      | Some (cv, cbs) ->
        (try fst (List.find (fun (_, f) -> f cv cbs) decode_kfs) with Not_found -> "-")
      | None ->
        "-"
    end in
  let outcome = match isteps with
    | StOk _ :: _ -> "ok" | StErr e :: _ -> err_class e | StPanic :: _ -> "panic" | _ -> "none" in
  { Verdict.agree; oracle; kf;
    nontrivial = List.length bs >= 2;
    cls = Printf.sprintf "%s_v%d_%s_%s" src (int_of_n v) (type_name bs) outcome;
    model = Sexp.L [Sexp.L (Sexp.A "dec" :: List.map sx_step msteps); Sexp.L [Sexp.A "alloc"; sx_n malloc]]; why = "" }

(* ---------------------------------------------------------------- suite cenc *)
let run_enc (input : Sexp.t) (impl : Sexp.t) : Verdict.t =
  let v = n_of_sx (Sexp.field1 "v" input) in
  let b = (packet_of_sx (Sexp.field1 "pkt" input)).p_body in
  let ir = reenc_of_sx (Sexp.field1 "enc" impl) in
  let mr = model_reenc v b in
  let agree = (mr = ir) in
  let oracle = c06_encode_ok v b ir in
  let kf = "-" in
  let name = match Sexp.field1 "pkt" input with Sexp.L (Sexp.A n :: _) -> n | _ -> "?" in
  { Verdict.agree; oracle; kf; nontrivial = wf_packet b;
    cls = Printf.sprintf "v%d_%s_%s" (int_of_n v) name
        (match ir with RtBytes (_, _, D1Ok _) -> "ok" | RtBytes (_, _, D1Err e) -> "back_" ^ err_class e | RtErr e -> "packerr_" ^ err_class e | _ -> "panic");
    model = sx_reenc mr; why = "" }

(* ---------------------------------------------------------------- suite ctopic *)
let tbool_of_sx = function Sexp.A "panic" -> TBPanic | x -> TB (bool_of_sx x)
let sx_tbool = function TBPanic -> Sexp.A "panic" | TB b -> sx_bool b
let sx_topic_obs o =
  Sexp.L [Sexp.L [Sexp.A "utf8"; sx_tbool o.to_utf8]; Sexp.L [Sexp.A "name1"; sx_tbool o.to_name1]; Sexp.L [Sexp.A "name0"; sx_tbool o.to_name0];
          Sexp.L [Sexp.A "filter1"; sx_tbool o.to_filter1]; Sexp.L [Sexp.A "filter0"; sx_tbool o.to_filter0]; Sexp.L [Sexp.A "v5"; sx_tbool o.to_v5]]

let run_topic (input : Sexp.t) (impl : Sexp.t) : Verdict.t =
  let s = bytes_of_sx (Sexp.field1 "s" input) in
  let f k = tbool_of_sx (Sexp.field1 k impl) in
  let io = { to_utf8 = f "utf8"; to_name1 = f "name1"; to_name0 = f "name0"; to_filter1 = f "filter1"; to_filter0 = f "filter0"; to_v5 = f "v5" } in
  let mo = model_topic_obs s in
  let oracle = c06_topic_ok s io in
  let kf = "-" in
  let c k b = match b with TB true -> k | _ -> "" in
  { Verdict.agree = topic_obs_eqb mo io; oracle; kf;
    nontrivial = s <> [];
    cls = "t" ^ c "U" io.to_utf8 ^ c "N" io.to_name1 ^ c "n" io.to_name0 ^ c "F" io.to_filter1 ^ c "f" io.to_filter0 ^ c "S" io.to_v5;
    model = sx_topic_obs mo; why = "" }

(* ---------------------------------------------------------------- suite cmsg *)
let run_msg (input : Sexp.t) (impl : Sexp.t) : Verdict.t =
  let v = n_of_sx (Sexp.field1 "v" input) in
  let m = msg_of_sx (Sexp.field1 "m" input) in
  let itb = n_of_sx (Sexp.field1 "tb" impl) in
  let ipub = (packet_of_sx (Sexp.field1 "pub" impl)).p_body in
  let ienc = match Sexp.list (Sexp.field1 "enc" impl) with
    | [Sexp.A "bytes"; b; tb2] -> RtBytes (bytes_of_sx b, n_of_sx tb2, D1Fuel)
    | Sexp.A "err" :: e -> RtErr (err_of_sx e)
    | _ -> RtPanic in
  let ((mtb, mpub), menc) = model_msg_obs v m in
  (* MessageFromPublish of that packet: model = message_from_publish; oracle = what must survive (msg_core) *)
  let ifrom = (match Sexp.field_opt "from" impl with
      | Some [Sexp.A "panic"] -> None
      | Some [x] -> (try Some (Msgconv.msg_of_sx x) with _ -> None)
      | _ -> None) in
  let mfrom = message_from_publish mpub in
  let same a b = (match a, b with Some x, Some y -> msg_eqb x y | None, None -> true | _, _ -> false) in
  let agree = (mtb = itb) && (mpub = ipub) && (menc = ienc) && same mfrom ifrom in
  let oracle = c06_msg_ok v m itb ienc && same (Some (msg_core (int_of_n v = 5) m)) ifrom in
  let sz = match ienc with RtBytes (b, _, _) -> List.length b | _ -> -1 in
  { Verdict.agree; oracle; kf = "-"; nontrivial = true;
    cls = Printf.sprintf "v%d_qos%d_%s" (int_of_n v) (int_of_n m.m_qos) (if sz < 0 then "err" else if sz < 130 then "small" else if sz < 16390 then "mid" else "large");
    model = Sexp.L [Sexp.L [Sexp.A "tb"; sx_n mtb]; Sexp.L [Sexp.A "pub"; sx_packet { p_fh = None; p_body = mpub }];
                    Sexp.L [Sexp.A "enc"; (match menc with RtBytes (b, tb2, _) -> Sexp.L [Sexp.A "bytes"; sx_bytes b; sx_n tb2] | r -> sx_reenc r)]]; why = "" }

(* ---------------------------------------------------------------- suite ctb: packets.TotalBytes at the varint boundaries *)
let run_tb (input : Sexp.t) (impl : Sexp.t) : Verdict.t =
  let t = n_of_sx (Sexp.field1 "t" input) and rl = n_of_sx (Sexp.field1 "rl" input) in
  let itb = int_of_sx (Sexp.field1 "tb" impl) in
  let mtb = int_of_n (total_bytes { p_fh = Some { fh_type = t; fh_flags = N0; fh_rl = rl }; p_body = BPingreq }) in
  let r = int_of_n rl in
  (* the statement: one byte of type and flags, the variable byte integer of the Remaining Length, the body *)
  let spec = 1 + (if r < 128 then 1 else if r < 16384 then 2 else if r < 2097152 then 3 else 4) + r in
  { Verdict.agree = (mtb = itb); oracle = (itb = spec); kf = "-"; nontrivial = true;
    cls = (if r < 128 then "vbi1" else if r < 16384 then "vbi2" else if r < 2097152 then "vbi3" else "vbi4");
    model = Sexp.L [Sexp.L [Sexp.A "tb"; sx_int mtb]]; why = if itb = spec then "" else Printf.sprintf "TotalBytes = %d for Remaining Length %d, on the wire %d" itb r spec }
