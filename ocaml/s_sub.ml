open Model
open Conv

let sub_of_sx x = match Sexp.list x with
  | [Sexp.A "s"; sh; f; id; q; nl; rap; rh] ->
    { s_share = bytes_of_sx sh; s_filter = bytes_of_sx f; s_id = n_of_sx id; s_qos = n_of_sx q;
      s_nl = bool_of_sx nl; s_rap = bool_of_sx rap; s_rh = n_of_sx rh }
  | _ -> failwith "sub"

let sx_sub s = Sexp.L [Sexp.A "s"; sx_bytes s.s_share; sx_bytes s.s_filter; sx_n s.s_id; sx_n s.s_qos;
                       sx_bool s.s_nl; sx_bool s.s_rap; sx_n s.s_rh]

(* one call carrying several items is the sequence of the single-item operations *)
let ops_of_sx x = match Sexp.list x with
  | [Sexp.A "sub"; c; s] -> [OSub (bytes_of_sx c, sub_of_sx s)]
  | Sexp.A "subm" :: c :: ss -> List.map (fun s -> OSub (bytes_of_sx c, sub_of_sx s)) ss
  | Sexp.A "unsub" :: c :: ts -> List.map (fun t -> OUnsub (bytes_of_sx c, bytes_of_sx t)) ts
  | [Sexp.A "unsuball"; c] -> [OUnsubAll (bytes_of_sx c)]
  | _ -> failwith "op"

let q_of_sx x = match Sexp.list x with
  | [Sexp.A "q"; sys; sh; ns; c; t; mt] ->
    { io_sys = bool_of_sx sys; io_shared = bool_of_sx sh; io_nonshared = bool_of_sx ns;
      io_client = bytes_of_sx c; io_topic = bytes_of_sx t;
      io_mt = (match Sexp.atom mt with "name" -> MatchName | "filter" -> MatchFilter | _ -> MatchNone) }
  | _ -> failwith "query"

let ires_of_sx x = match Sexp.list x with
  | [Sexp.A "panic"] -> IPanic
  | Sexp.A "r" :: ents ->
    IOk (List.map (fun e -> match Sexp.list e with
        | [c; Sexp.A "nil"] -> (bytes_of_sx c, None)
        | [c; s] -> (bytes_of_sx c, Some (sub_of_sx s))
        | _ -> failwith "ent") ents)
  | _ -> failwith "ires"

let sx_ires = function
  | IPanic -> Sexp.L [Sexp.A "panic"]
  | IOk l ->
    let ents = List.map (fun (c, s) -> Sexp.L [sx_bytes c; (match s with None -> Sexp.A "nil" | Some s -> sx_sub s)]) l in
    let ents = List.sort (fun a b -> compare (Sexp.to_string a) (Sexp.to_string b)) ents in
    Sexp.L (Sexp.A "r" :: ents)

(* which: `C02 | `C11 selects the property oracle *)
let run which (input : Sexp.t) (impl : Sexp.t) : Verdict.t =
  let ops = List.concat_map ops_of_sx (Sexp.field "ops" input) in
  let qs = List.map q_of_sx (Sexp.field "queries" input) in
  let d = db_run ops in
  let sp = spec_run ops in
  let iresults = List.map ires_of_sx (Sexp.field "results" impl) in
  let mresults = List.map (fun q -> db_iterate q d) qs in
  let ialready = List.map (fun x -> Sexp.atom x <> "0") (Sexp.field "already" impl) in
  let malready = model_already db_init ops in
  let ig = match Sexp.field "gstats" impl with [a; b] -> (int_of_sx a, int_of_sx b) | _ -> failwith "gstats" in
  let mg = (int_of_n d.gstats.st_total, int_of_n d.gstats.st_cur) in
  let ics = List.map (fun x -> match Sexp.list x with
      | [c; Sexp.A "none"] -> (bytes_of_sx c, None)
      | [c; a; b] -> (bytes_of_sx c, Some (int_of_sx a, int_of_sx b))
      | _ -> failwith "cstats") (Sexp.field "cstats" impl) in
  let mcs = List.map (fun (c, _) -> (c, match db_client_stats c d with
      | None -> None | Some s -> Some (int_of_n s.st_total, int_of_n s.st_cur))) ics in
  let agree =
    List.length iresults = List.length mresults &&
    List.for_all2 ires_eqb mresults iresults && ialready = malready && ig = mg && ics = mcs && not d.panicked in
  let wf = wf_ops ops in
  let qok f = List.for_all2 (fun q r -> f sp q r) qs iresults in
  let counts_ok =
    let (et, ec) = expect_gstats ops in
    ig = (int_of_n et, int_of_n ec) &&
    List.for_all (fun (c, v) -> match expect_cstats ops c, v with
        | None, None -> true
        | Some (a, b), Some (x, y) -> int_of_n a = x && int_of_n b = y
        | _ -> false) ics &&
    ialready = expect_already [] ops in
  let oracle =
    (not wf) ||
    (match which with
     | `C02 -> qok c02_query_ok && counts_ok
     | `C11 -> qok c11_query_ok && qok mixed_query_ok) in
  let nshared = List.length (List.filter (fun o -> match o with OSub (_, s) -> s.s_share <> [] | _ -> false) ops) in
  let nonempty = List.exists (fun r -> match r with IOk (_ :: _) -> true | _ -> false) iresults in
  { Verdict.agree; oracle; kf = "-";
    nontrivial = List.length ops >= 3 && nonempty;
    cls = Printf.sprintf "ops%s_sp%s_sh%s_%s" (if List.length ops < 10 then "lt10" else "ge10")
        (if List.length sp < 4 then "lt4" else "ge4") (if nshared = 0 then "0" else "some") (if nonempty then "hit" else "nohit");
    model = Sexp.L [Sexp.L (Sexp.A "results" :: List.map sx_ires mresults);
                    Sexp.L [Sexp.A "gstats"; sx_int (fst mg); sx_int (snd mg)]]; why = "" }

let run_tm (input : Sexp.t) (impl : Sexp.t) : Verdict.t =
  let t = bytes_of_sx (Sexp.field1 "t" input) and f = bytes_of_sx (Sexp.field1 "f" input) in
  let r = bool_of_sx (Sexp.field1 "r" impl) in
  let m = tm_model t f in
  let valid = valid_name_spec t && valid_filter_spec f in
  { Verdict.agree = (m = Some r); oracle = tm_ok t f r; kf = "-";
    nontrivial = valid;
    cls = Printf.sprintf "%s_%s" (if valid then "valid" else "invalid") (if r then "match" else "nomatch");
    model = Sexp.A (match m with None -> "outoffuel" | Some true -> "1" | Some false -> "0"); why = "" }
