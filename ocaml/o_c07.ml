(* Oracle for property C07 (part: SUBSCRIBE-time replay and the RETAIN flag of live forwarding), written from the
   statement:

     The broker keeps, per topic, exactly the last message published with RETAIN=1 and a non-empty payload, and
     forgets it when a RETAIN=1 message with empty payload is accepted for that topic; lookups by filter return
     exactly the kept messages whose topic matches. When a non-shared subscription is made, the kept messages
     matching its filter are sent - always for v3 and Retain Handling 0, only if the subscription is new for Retain
     Handling 1, never for Retain Handling 2 and never for shared subscriptions - each once, at min(stored QoS,
     granted QoS), with RETAIN=1; live forwarding carries RETAIN only under Retain-As-Published.

   It is evaluated on the implementation's observations only. Abstract state:
     - kept : topic -> (payload, QoS) of the last accepted RETAIN=1 PUBLISH / will with a non-empty payload, removed
       by an accepted RETAIN=1 PUBLISH with an empty payload;
     - per client id its subscriptions (full filter as written, including a $share/<group>/ prefix -> granted QoS as
       confirmed by SUBACK, Retain As Published, No Local), emptied when a CONNACK says Session Present = 0, kept
       when it says 1, updated by SUBACK / UNSUBACK;
     - per socket: client id, version, alive, will;
     - per client the (topic, payload) of QoS>0 PUBLISHes it received (what a resumed session may retransmit).
   Clauses decided (names used in the explanations and in the class field):
     replay-set     in the step of a SUBSCRIBE the subscribing socket receives, for every accepted entry whose gate is
                    open (non-shared, and: v3 | RH 0 | RH 1 and the client did not have that filter), exactly one
                    PUBLISH per kept message whose topic matches the filter (Model.topic_match), DUP 0, and nothing else; an
                    entry whose gate is closed (RH 2, RH 1 on an existing subscription, shared, refused) yields nothing;
                    cleared or replaced messages are never seen again;
     replay-qos     the QoS of each such copy is min(stored QoS, granted QoS);
     replay-retain  each such copy has RETAIN=1  (known finding kf_retained_replay_rap0: the broker sets RETAIN on a
                    replayed copy only when the subscription has Retain As Published, so v3 clients never see it);
     live-retain    a live copy (in the step of the PUBLISH, or of the close that publishes a will) has RETAIN=1 iff
                    the message had RETAIN=1 and the subscription it was forwarded through has Retain As Published; to
                    attribute copies to subscriptions the oracle also derives the number of copies and their QoS:
                    overlap - one per matching non-shared subscription (No Local honoured); onlyonce - one per client,
                    through one of the matching subscriptions of maximal QoS; plus at most one per matching share
                    group the client is a member of (exactly one when it is the only member);
     quiet          no other step delivers a PUBLISH, except that a CONNECT that resumes a session (Session Present 1)
                    may be followed by retransmissions (DUP=1) of QoS>0 messages that client had received before;
     alive          the broker does not end a connection of the family.
   Order of packets within a step, packet ids, properties of forwarded messages and the acknowledgement flows are
   not looked at. Everything outside the family of harness/w_c07.go returns true (class outside_xxx).

   The failures are collected: strict failures win; when all failures are of the known-finding class the verdict
   carries its name and the first explanation. *)
open Conv

exception Outside of string
exception Fail of string

type sub = { q : int; rap : bool; nl : bool; made_on : int (* serial number of the connection of the SUBSCRIBE *) }
type client = {
  mutable subs : (string * sub) list;          (* full filter atom -> options *)
  mutable seen : (string * string) list;       (* QoS>0 (topic, payload) received *)
  mutable q2ids : int list;                    (* QoS 2 packet ids this client has used *)
  mutable former : (string * string) list;     (* filters it had and lost: by "unsub" or by "reset" of the session (coverage counters only) *)
}
type sock = {
  s_cid : string; s_ver : int;
  mutable s_alive : bool;
  s_will : (string * string * int * bool) option;   (* topic, payload, qos, retain *)
  mutable s_disc : bool;                              (* DISCONNECT sent *)
  s_serial : int;
}

let last_cls = ref "-"
(* mutation testing of the oracle itself (never set in normal runs): O_C07_MUTATE =
   qos_max (replay at max instead of min) | rh1_always (RH 1 replays even when the subscription exists) |
   rh2_replay (RH 2 replays) | shared_replay (shared subscriptions are replayed) | no_clear (an empty payload
   clears nothing) | first_value (the first retained message of a topic is kept) | live_retain_always (live copies
   keep RETAIN whatever RAP says) | live_retain_never | stored_qos_only (replay at the stored QoS) | no_dollar (the
   $-rule of 4.7.2 is ignored) | resume_forgets (a resumed session has no subscriptions) *)
let mutation = (match Sys.getenv_opt "O_C07_MUTATE" with Some m -> m | None -> "")

let outside w = raise (Outside w)
let a = Sexp.atom
let ios x = int_of_string (a x)
let str_of_atom (x : string) = String.concat "" (List.map (fun b -> String.make 1 (Char.chr (int_of_n b))) (bytes_of_atom x))
let has_prefix p s = String.length s >= String.length p && String.sub s 0 (String.length p) = p
let rec remove1 x = function [] -> None | y :: r -> if x = y then Some r else (match remove1 x r with Some r' -> Some (y :: r') | None -> None)
(* l1 minus l2 as multisets; None when l2 is not contained in l1 *)
let rec msub l1 l2 = match l2 with [] -> Some l1 | x :: r -> (match remove1 x l1 with Some l1' -> msub l1' r | None -> None)
let msort l = List.sort compare l

(* "$share/<group>/<filter>" -> Some filter *)
let shared_inner (f : string) : string option =
  if has_prefix "$share/" f then
    (let rest = String.sub f 7 (String.length f - 7) in
     match String.index_opt rest '/' with
     | Some i -> Some (String.sub rest (i + 1) (String.length rest - i - 1))
     | None -> Some "")
  else None

let bytes_of_string (s : string) = List.map (fun c -> n_of_int (Char.code c)) (List.init (String.length s) (String.get s))
let tmatch (topic : string) (filter : string) =
  if mutation = "no_dollar" then
    (let undollar s = String.map (fun c -> if c = '$' then 'S' else c) s in
     Model.topic_match (bytes_of_string (undollar topic)) (bytes_of_string (undollar filter)))
  else Model.topic_match (bytes_of_string topic) (bytes_of_string filter)

let oracle : S_wire.oracle_fn = fun cfg hooks steps iobs iraw ->
  let flags = Hashtbl.create 16 in
  let flag f = Hashtbl.replace flags f () in
  let cls () = String.concat "+" ((if cfg.Model.c_onlyonce then "once" else "ovl") :: List.sort compare (Hashtbl.fold (fun k () acc -> k :: acc) flags [])) in
  let strict = ref [] and kfs = ref [] in
  let fail_strict w = strict := w :: !strict in
  let kfnames = ref [] in
  let fail_kf names w = kfs := w :: !kfs; List.iter (fun n -> if not (List.mem n !kfnames) then kfnames := n :: !kfnames) names in
  let kfname () = String.concat "+" (List.sort compare !kfnames) in
  try
    if hooks <> Model.no_hooks then outside "hooks";
    if not cfg.Model.c_retain_avail then outside "retain_avail";
    if not (cfg.Model.c_wildcard && cfg.Model.c_shared && cfg.Model.c_subid) then outside "sub_features";
    if int_of_n cfg.Model.c_max_inflight < 100 then outside "window";
    if int_of_nat cfg.Model.c_max_queued < 200 then outside "max_queued";
    if int_of_n cfg.Model.c_recv_max < 100 then outside "recv_max";
    (let mp = int_of_n cfg.Model.c_max_packet in if mp <> 0 && mp < 100000 then outside "max_packet");
    (let me = int_of_n cfg.Model.c_message_expiry in if me <> 0 && me < 3600 then outside "message_expiry");
    let max_qos = int_of_n cfg.Model.c_max_qos in
    let total_adv = List.fold_left (fun acc st -> match st with Sexp.L [Sexp.A "advance"; ms] -> acc + ios ms | _ -> acc) 0 steps in
    if total_adv > 3000000 then outside "long_advance";
    (* ---- state *)
    let socks : (int, sock) Hashtbl.t = Hashtbl.create 8 in
    let clients : (string, client) Hashtbl.t = Hashtbl.create 8 in
    let client cid = match Hashtbl.find_opt clients cid with
      | Some c -> c
      | None -> let c = { subs = []; seen = []; q2ids = []; former = [] } in Hashtbl.replace clients cid c; c in
    let kept : (string, string * int) Hashtbl.t = Hashtbl.create 8 in       (* topic string -> payload atom, qos *)
    let gone : (string, unit) Hashtbl.t = Hashtbl.create 8 in               (* payload atoms replaced or cleared *)
    let was_kept : (string, unit) Hashtbl.t = Hashtbl.create 8 in           (* topics that had a kept message once *)
    let payloads : (string, unit) Hashtbl.t = Hashtbl.create 32 in
    let pkts_of obs c = match List.find_opt (fun (c', _, _) -> c' = c) obs with Some (_, p, _) -> p | None -> [] in
    let publishes pkts = List.filter_map (fun p -> match p with
        | Sexp.L [Sexp.A "publish"; d; q; r; t; pl; _; _] -> Some (a d <> "0", ios q, a r <> "0", str_of_atom (a t), a pl)
        | _ -> None) pkts in
    let show_copy (t, pl, q, r) = Printf.sprintf "%s|%s|q%d|r%d" t pl q (if r then 1 else 0) in
    let show l = "[" ^ String.concat "," (List.map show_copy (msort l)) ^ "]" in
    let members full = Hashtbl.fold (fun cid (cl : client) acc -> if List.mem_assoc full cl.subs then cid :: acc else acc) clients [] in
    let store topic payload qos =
      if payload = "x" then begin
        if mutation <> "no_clear" then begin
          (match Hashtbl.find_opt kept topic with Some (p, _) -> Hashtbl.replace gone p (); flag "clear_of_kept" | None -> flag "clear_of_nothing");
          Hashtbl.remove kept topic
        end
      end else begin
        (match Hashtbl.find_opt kept topic with
         | Some (p, _) -> if mutation <> "first_value" then (Hashtbl.replace gone p (); flag "replace")
         | None -> ());
        if not (mutation = "first_value" && Hashtbl.mem kept topic) then Hashtbl.replace kept topic (payload, qos);
        Hashtbl.replace was_kept topic ()
      end in
    (* ---- the copies of one application message every live socket must / may get in this step *)
    let check_live where obs ~src_cid ~topic ~payload ~qos ~retain =
      if retain then flag "live_of_retained";
      Hashtbl.iter (fun l (s : sock) ->
          if s.s_alive then begin
            let cl = client s.s_cid in
            let got_full = publishes (pkts_of obs l) in
            List.iter (fun (d, _, _, t, pl) ->
                if t <> topic || pl <> payload then fail_strict (Printf.sprintf "%squiet: socket %d received %s|%s in the step of message %s|%s" where l t pl topic payload)
                else if d then fail_strict (Printf.sprintf "%slive: socket %d received a live copy with DUP=1" where l)) got_full;
            let got = List.filter_map (fun (_, q, r, t, pl) -> if t = topic && pl = payload then Some (q, r) else None) got_full in
            List.iter (fun (q, _) -> if q > 0 && not (List.mem (topic, payload) cl.seen) then cl.seen <- (topic, payload) :: cl.seen) got;
            let copy_of sb = (min qos sb.q, (match mutation with "live_retain_always" -> retain | "live_retain_never" -> false | _ -> retain && sb.rap)) in
            let sh l = "[" ^ String.concat "," (List.map (fun (q, r) -> Printf.sprintf "q%d/r%d" q (if r then 1 else 0)) (msort l)) ^ "]" in
            (* w_dollar: the world of known finding kf_shared_filter_matches_dollar_topic, in which the filter of a shared
               subscription is matched without the $-rule of MQTT-4.7.2-1 *)
            let eval ~w_dollar =
              let matching = List.filter (fun (f, sb) ->
                  let m = (match shared_inner (str_of_atom f) with
                      | Some i -> if w_dollar && has_prefix "$" topic then tmatch ("S" ^ topic) (if has_prefix "$" i then "S" ^ i else i) else tmatch topic i
                      | None -> tmatch topic (str_of_atom f)) in
                  m && not (sb.nl && s.s_cid = src_cid)) cl.subs in
              let n_subs = List.filter (fun (f, _) -> shared_inner (str_of_atom f) = None) matching in
              let s_subs = List.filter (fun (f, _) -> shared_inner (str_of_atom f) <> None) matching in
              let optional = List.map (fun (_, sb) -> copy_of sb) s_subs in
              let sole = List.for_all (fun (f, _) -> members f = [s.s_cid]) s_subs in
              let alternatives =       (* the possible multisets of required copies *)
                if not cfg.Model.c_onlyonce then [List.map (fun (_, sb) -> copy_of sb) n_subs]
                else if n_subs = [] then [[]]
                else
                  let mq = List.fold_left (fun m (_, sb) -> max m sb.q) 0 n_subs in
                  List.sort_uniq compare (List.filter_map (fun (_, sb) -> if sb.q = mq then Some [copy_of sb] else None) n_subs) in
              let ok_gen er req = match msub (er got) (er req) with
                | Some rest -> (match msub (er optional) rest with Some left -> not sole || left = [] | None -> false)
                | None -> false in
              let ok = List.exists (ok_gen (fun x -> x)) alternatives in
              (* which clause: the same comparison with the RETAIN flags erased *)
              let ok_noretain = List.exists (ok_gen (List.map (fun (q, _) -> (q, false)))) alternatives in
              let descr = Printf.sprintf "required one of {%s} plus %s of optional shared %s" (String.concat ";" (List.map sh alternatives)) (if sole then "all" else "some") (sh optional) in
              (ok, ok_noretain, descr, matching, s_subs) in
            let (ok, ok_noretain, descr, matching, s_subs) = eval ~w_dollar:false in
            let count () =
              List.iter (fun (_, sb) -> if retain then flag (if sb.rap then "live_rap1_retain1" else "live_rap0_retain1") else flag "live_retain0") matching;
              if s_subs <> [] then flag "live_shared_member" in
            if ok then count ()
            else begin
              let clause = if ok_noretain then "live-retain" else "live-copies" in
              let text = Printf.sprintf "%s%s: socket %d (client %s) got %s for %s|%s (qos %d retain %b), %s"
                  where clause l (str_of_atom s.s_cid) (sh got) topic payload qos retain descr in
              let (ok', _, _, _, _) = eval ~w_dollar:true in
              if ok' then (flag "kf_shared_dollar"; fail_kf ["kf_shared_filter_matches_dollar_topic"] (text ^ ", which is what the known finding kf_shared_filter_matches_dollar_topic predicts"))
              else fail_strict text
            end
          end) socks in
    List.iteri (fun k ((step, obs), raw) ->
        let where = "step " ^ string_of_int k ^ " " in
        (* sockets whose PUBLISH packets have been accounted for in this step *)
        let handled_all = ref false in
        let handled = ref [] in
        let alive_sock c = match Hashtbl.find_opt socks c with Some s when s.s_alive -> s | _ -> outside "send_on_dead_socket" in
        (match Sexp.list step with
         | Sexp.A "connect" :: c :: ver :: rest ->
           let c = ios c and x = Sexp.L rest in
           let cid = a (Sexp.field1 "cid" x) in
           if cid = "x" then outside "empty_cid";
           if Sexp.field_opt "connflags" x <> None then outside "connflags";
           List.iter (fun p -> if S_wire.prop_name p <> "sei" then outside "connect_props") (Sexp.field "props" x);
           (match Hashtbl.find_opt socks c with Some s when s.s_alive -> outside "label_reused_while_open" | _ -> ());
           let will = match Sexp.field_opt "will" x with
             | None -> None
             | Some w -> let w = Sexp.L w in
               List.iter (fun p -> match p with
                   | Sexp.L [Sexp.A "willdelay"; _] -> outside "willdelay"
                   | Sexp.L [Sexp.A "msgexpiry"; n] when ios n < 10000 -> outside "msgexpiry"
                   | _ -> ()) (Sexp.field "props" w);
               let wq = ios (Sexp.field1 "qos" w) in
               if wq > max_qos then outside "will_qos";
               let wp = a (Sexp.field1 "payload" w) in
               if Hashtbl.mem payloads wp then outside "payload_not_unique";
               if wp <> "x" then Hashtbl.replace payloads wp ();
               Some (str_of_atom (a (Sexp.field1 "topic" w)), wp, wq, a (Sexp.field1 "retain" w) <> "0") in
           let sp = match List.find_opt (fun p -> match p with Sexp.L (Sexp.A "connack" :: _) -> true | _ -> false) (pkts_of obs c) with
             | Some (Sexp.L [_; sp; code; _]) -> if ios code <> 0 then outside "connack_refused"; a sp <> "0"
             | _ -> outside "no_connack" in
           (* a second connection of the same client: the first one is taken over *)
           Hashtbl.iter (fun _ s -> if s.s_cid = cid && s.s_alive then begin
                 flag "takeover"; if s.s_will <> None || will <> None then outside "will_takeover"; s.s_alive <- false end) socks;
           let cl = client cid in
           if sp && mutation <> "resume_forgets" then (if cl.subs <> [] then flag "resumed_with_subs")
           else (if cl.subs <> [] then flag "session_reset_with_subs";
                 cl.former <- List.map (fun (f, _) -> (f, "reset")) cl.subs @ cl.former;
                 cl.subs <- []; if not sp then cl.seen <- []);
           Hashtbl.replace socks c { s_cid = cid; s_ver = ios ver; s_alive = true; s_will = will; s_disc = false; s_serial = k };
           (* quiet: only retransmissions, and only into a resumed session *)
           List.iter (fun (d, q, _, t, pl) ->
               if not (sp && d && q > 0 && List.mem (t, pl) cl.seen) then
                 fail_strict (Printf.sprintf "%squiet: socket %d received %s|%s (dup %b qos %d) after CONNACK sp=%b" where c t pl d q sp)
               else flag "retransmission_on_resume") (publishes (pkts_of obs c));
           handled := c :: !handled
         | [Sexp.A "send"; c; p0] ->
           let c = ios c in
           (match S_wire.sent_of_step raw with
            | Some None -> ()                                    (* unresolved (rx K): nothing was sent *)
            | sent ->
              let p = (match sent with Some (Some p) -> p | _ -> p0) in
              let s = alive_sock c in
              let cl = client s.s_cid in
              (match Sexp.list p with
               | [Sexp.A "publish"; d; q; r; t; pl; pid; Sexp.L (Sexp.A "props" :: ps)] ->
                 let q = ios q and pid = ios pid and retain = a r <> "0" in
                 let topic = str_of_atom (a t) and payload = a pl in
                 if topic = "" || String.contains topic '+' || String.contains topic '#' || String.contains topic '\000' then outside "topic";
                 if has_prefix "$share/" topic then outside "topic";
                 List.iter (fun pr -> match pr with
                     | Sexp.L [Sexp.A ("alias" | "subid"); _] -> outside "publish_props"
                     | Sexp.L [Sexp.A "msgexpiry"; n] when ios n < 10000 -> outside "msgexpiry"
                     | _ -> ()) ps;
                 if q > max_qos then outside "qos_above_max";
                 if a d <> "0" then outside "dup_from_client";
                 if payload <> "x" then (if Hashtbl.mem payloads payload then outside "payload_not_unique"; Hashtbl.replace payloads payload ());
                 if q = 2 then (if List.mem pid cl.q2ids then outside "qos2_id_reused"; cl.q2ids <- pid :: cl.q2ids);
                 (* accepted? *)
                 List.iter (fun x -> match x with
                     | Sexp.L [Sexp.A ("puback" | "pubrec"); pid'; code; _] when ios pid' = pid && ios code >= 128 -> outside "publish_refused"
                     | _ -> ()) (pkts_of obs c);
                 if q > 0 && not (List.exists (fun x -> match x with Sexp.L (Sexp.A ("puback" | "pubrec") :: pid' :: _) -> ios pid' = pid | _ -> false) (pkts_of obs c)) then outside "publish_not_acked";
                 if retain then flag (if payload = "x" then "retained_clear" else "retained_publish");
                 if has_prefix "$" topic && retain then flag "retained_dollar_topic";
                 check_live where obs ~src_cid:s.s_cid ~topic ~payload ~qos:q ~retain;
                 if retain then store topic payload q;
                 handled_all := true
               | Sexp.A "subscribe" :: pid :: _ :: ts ->
                 let codes = match List.find_opt (fun x -> match x with Sexp.L (Sexp.A "suback" :: pid' :: _) -> pid' = pid | _ -> false) (pkts_of obs c) with
                   | Some (Sexp.L [_; _; Sexp.L (Sexp.A "codes" :: cs); _]) -> List.map ios cs
                   | _ -> outside "no_suback" in
                 if List.length codes <> List.length ts then outside "suback_codes";
                 let ents = ref [] in       (* per accepted entry: gate, gate if a 3.x shared subscription were an ordinary one, matches, rap, rap of the last entry with this filter *)
                 let seen_in_packet = ref [] in
                 let v5 = s.s_ver = 5 in
                 let rap_last full = List.fold_left (fun acc t -> match Sexp.list t with
                     | [Sexp.A "t"; f; _; _; rap; _] when a f = full -> v5 && a rap <> "0"
                     | _ -> acc) false ts in
                 List.iter2 (fun t code -> match Sexp.list t with
                     | [Sexp.A "t"; f; _; nl; rap; rh] ->
                       let full = a f in
                       let fs = str_of_atom full in
                       if fs = "" then outside "empty_filter";
                       let nl = v5 && a nl <> "0" and rap = v5 && a rap <> "0" and rh = (if v5 then ios rh else 0) in
                       if rh > 2 then outside "rh3";
                       let shared = shared_inner fs <> None in
                       if shared && nl then outside "shared_nolocal";
                       if List.mem full !seen_in_packet then flag "same_filter_twice_in_packet";
                       seen_in_packet := full :: !seen_in_packet;
                       if code >= 128 then flag "subscribe_refused"
                       else begin
                         if code > 2 then outside "suback_code";
                         let existed = List.mem_assoc full cl.subs in
                         if existed then flag "resubscribe";
                         let gate_plain = (not v5) || rh = 0 || (rh = 1 && (not existed || mutation = "rh1_always")) || (rh = 2 && mutation = "rh2_replay") in
                         let gate = (if shared then mutation = "shared_replay" else gate_plain) in
                         let inner = (match shared_inner fs with Some i -> i | None -> fs) in
                         let matches = Hashtbl.fold (fun topic (pl, sq) acc -> if tmatch topic inner then (topic, pl, sq) :: acc else acc) kept [] in
                         let stale = Hashtbl.fold (fun topic () acc -> acc || (tmatch topic inner && not (Hashtbl.mem kept topic))) was_kept false in
                         let copies = List.map (fun (topic, pl, sq) ->
                             (topic, pl, (match mutation with "qos_max" -> max sq code | "stored_qos_only" -> sq | _ -> min sq code))) matches in
                         ents := (gate, (shared && not v5 && gate_plain), copies, rap, rap_last full) :: !ents;
                         if gate then begin
                           if stale then flag "replay_skips_cleared";
                           List.iter (fun (topic, _, sq) ->
                               flag (if sq < code then "qos_stored_lt_granted" else if sq > code then "qos_granted_lt_stored" else "qos_equal");
                               if has_prefix "$" topic then flag "replay_dollar_topic";
                               if not rap then flag (if v5 then "replay_v5_rap0" else "replay_v3") else flag "replay_v5_rap1") matches;
                           if matches <> [] then begin
                             flag (if not v5 then "gate_v3" else if rh = 0 then (if existed then "gate_rh0_existing" else "gate_rh0_new") else "gate_rh1_new");
                             if v5 && rh = 1 then (match List.assoc_opt full cl.former with Some why -> flag ("gate_rh1_new_after_" ^ why) | None -> ());
                             List.iter (fun (topic, _, _) ->
                                 if has_prefix "/#" (String.sub inner (max 0 (String.length inner - 2)) (min 2 (String.length inner))) && topic = String.sub inner 0 (String.length inner - 2) then flag "replay_parent_match") matches
                           end
                           else flag "gate_open_nothing_matches";
                           if (has_prefix "+" inner || has_prefix "#" inner) && Hashtbl.fold (fun topic _ acc -> acc || (has_prefix "$" topic && tmatch ("S" ^ topic) inner)) kept false then flag "dollar_rule_excludes";
                           if List.length matches >= 2 then flag "replay_several"
                         end else if matches <> [] then
                           (flag (if shared then (if v5 then "closed_shared_v5" else "closed_shared_v3") else if rh = 2 then "closed_rh2" else "closed_rh1_existing");
                            if not shared && rh = 1 then (match List.assoc_opt full cl.subs with Some sb when sb.made_on <> s.s_serial -> flag "closed_rh1_existing_resumed" | _ -> ()));
                         cl.subs <- (full, { q = code; rap; nl; made_on = s.s_serial }) :: List.remove_assoc full cl.subs;
                         cl.former <- List.remove_assoc full cl.former
                       end
                     | _ -> outside "subscribe_entry") ts codes;
                 (* the expectation of the statement (no known finding), and what the known findings would make of it *)
                 let expect ~w_rap ~w_v3s ~w_lw =
                   List.concat_map (fun (gate, gate_v3s, copies, rap, rapl) ->
                       if gate || (w_v3s && gate_v3s) then
                         List.map (fun (t, pl, qq) -> (t, pl, qq, (if w_rap then (if w_lw then rapl else rap) else true))) copies
                       else []) !ents in
                 let strict_exp = expect ~w_rap:false ~w_v3s:false ~w_lw:false in
                 let worlds = [ (true, false, false, ["kf_retained_replay_rap0"]);
                                (false, true, false, ["kf_shared_replay_v3"]);
                                (true, true, false, ["kf_retained_replay_rap0"; "kf_shared_replay_v3"]);
                                (true, false, true, ["kf_retained_replay_rap0"; "kf_same_filter_twice_last_wins"]);
                                (true, true, true, ["kf_retained_replay_rap0"; "kf_same_filter_twice_last_wins"; "kf_shared_replay_v3"]) ] in
                 let got_full = publishes (pkts_of obs c) in
                 List.iter (fun (d, _, _, t, pl) -> if d then fail_strict (Printf.sprintf "%sreplay-set: socket %d received %s|%s with DUP=1" where c t pl)) got_full;
                 let got = List.map (fun (_, q, r, t, pl) -> (t, pl, q, r)) got_full in
                 List.iter (fun (t, pl, q, _) -> if q > 0 && not (List.mem (t, pl) cl.seen) then cl.seen <- (t, pl) :: cl.seen) got;
                 let tp l = msort (List.map (fun (t, pl, _, _) -> (t, pl)) l) and tpq l = msort (List.map (fun (t, pl, q, _) -> (t, pl, q)) l) in
                 let who = Printf.sprintf "socket %d (client %s v%d)" c (str_of_atom s.s_cid) s.s_ver in
                 if msort got = msort strict_exp then (if got <> [] then flag "replay_retain1_ok")
                 else begin
                   let clause = if tp got <> tp strict_exp then "replay-set" else if tpq got <> tpq strict_exp then "replay-qos" else "replay-retain" in
                   match List.find_opt (fun (w_rap, w_v3s, w_lw, _) -> msort got = msort (expect ~w_rap ~w_v3s ~w_lw)) worlds with
                   | Some (_, _, _, names) ->
                     List.iter (fun n -> flag n) names;
                     fail_kf names (Printf.sprintf "%s%s: %s expected %s got %s, which is what the known finding(s) %s predict" where clause who (show strict_exp) (show got) (String.concat "+" names))
                   | None ->
                     let stale = List.exists (fun (_, pl, _, _) -> Hashtbl.mem gone pl) got in
                     fail_strict (Printf.sprintf "%s%s: %s expected %s got %s%s" where clause who (show strict_exp) (show got)
                                    (if stale then " (a replaced or cleared message came back)" else ""))
                 end;
                 handled := c :: !handled
               | Sexp.A "unsubscribe" :: pid :: _ :: fs ->
                 if not (List.exists (fun x -> match x with Sexp.L (Sexp.A "unsuback" :: pid' :: _) -> pid' = pid | _ -> false) (pkts_of obs c)) then outside "no_unsuback";
                 List.iter (fun f -> if List.mem_assoc (a f) cl.subs then (flag "unsubscribe"; cl.former <- (a f, "unsub") :: cl.former); cl.subs <- List.remove_assoc (a f) cl.subs) fs
               | [Sexp.A "disconnect"; code; _] ->
                 if s.s_will <> None && s.s_ver = 5 && ios code <> 0 then outside "disconnect_with_will";
                 s.s_alive <- false; s.s_disc <- true
               | [Sexp.A ("puback" | "pubrec" | "pubrel" | "pubcomp"); _; _; _] | [Sexp.A "pingreq"] -> ()
               | _ -> outside "packet"))
         | [Sexp.A "close"; c] ->
           (match Hashtbl.find_opt socks (ios c) with
            | Some s ->
              let was_alive = s.s_alive in
              s.s_alive <- false;
              (match s.s_will with
               | Some (topic, payload, qos, retain) when was_alive && not s.s_disc ->
                 flag "will_published";
                 check_live where obs ~src_cid:s.s_cid ~topic ~payload ~qos ~retain;
                 if retain then store topic payload qos;
                 handled_all := true
               | _ -> ())
            | None -> ())
         | [Sexp.A "advance"; _] | [Sexp.A "expire_check"] | [Sexp.A "inspect"] -> ()
         | _ -> outside "step");
        (* ---- quiet / alive *)
        List.iter (fun (c, pkts, is_open) ->
            if not !handled_all && not (List.mem c !handled) then
              List.iter (fun (d, q, _, t, pl) ->
                  fail_strict (Printf.sprintf "%squiet: socket %d received %s|%s (dup %b qos %d) in a step that forwards nothing to it" where c t pl d q)) (publishes pkts);
            (match Hashtbl.find_opt socks c with
             | Some s when s.s_alive ->
               let dis = List.filter_map (fun p -> match p with Sexp.L (Sexp.A "disconnect" :: code :: _) -> Some (a code) | _ -> None) pkts in
               if not is_open || dis <> [] then begin
                 s.s_alive <- false;
                 fail_strict (Printf.sprintf "%salive: the broker ended the connection of socket %d%s" where c (String.concat "" (List.map (fun d -> " DISCONNECT " ^ d) dis)))
               end
             | _ -> ())) obs)
      (List.combine (List.combine steps iobs) iraw);
    last_cls := cls ();
    (match List.rev !strict, List.rev !kfs with
     | w :: _, _ -> (false, "-", w)
     | [], w :: _ -> (false, kfname (), w)
     | [], [] -> (true, "-", ""))
  with
  | Outside w ->
    (* what was decided before the scenario left the family stands *)
    (match List.rev !strict, List.rev !kfs with
     | f :: _, _ -> last_cls := cls () ^ "+left_family_" ^ w; (false, "-", f)
     | [], f :: _ -> last_cls := cls () ^ "+left_family_" ^ w; (false, kfname (), f)
     | [], [] -> last_cls := "outside_" ^ w; (true, "-", ""))

let run input impl = let v = S_wire.run_with oracle input impl in { v with Verdict.cls = !last_cls }
