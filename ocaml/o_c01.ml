(* Oracle for property C01, written from the property statement (not from the broker, not from the Coq model):

     Absent the documented drop conditions, each client receives every published application message whose
     topic matches its own non-shared subscriptions - one copy per matching subscription in overlap mode, a
     single copy at the highest matching granted QoS in onlyonce mode - at QoS min(published, granted), with
     RETAIN cleared unless Retain-As-Published, carrying the matching subscription identifiers, never through a
     No-Local subscription when it is itself the publisher, and it receives nothing that none of its
     subscriptions matches. Messages from one publisher reach a given subscriber in publication order, and
     every QoS 1/2 PUBLISH the broker accepts is acknowledged to its publisher with the same packet identifier.

   FAMILY (harness/w_c01.go). The oracle re-establishes membership from the scenario and the observation and
   answers "true" (class outside.<why>) for everything else: clients with distinct ids that stay connected,
   non-shared subscriptions, well-formed publishes (inbound topic aliases resolved as MQTT 3.3.2.3.4 says,
   a QoS 2 PUBLISH re-sent before its PUBREL is not a new message), correct acknowledgements only, no drop
   condition reachable (queue limit >= 1000, lifetimes >= 60 s, clock advances < 14 s, no small Maximum Packet
   Size), OnSubscribe hook rules only.

   STATE kept: per socket the subscription table as confirmed by SUBACK / UNSUBACK (filter -> granted QoS, NL,
   RAP, id), the list of copies the statement makes due and that have not arrived yet ("pending", in creation
   order), the QoS>0 deliveries not yet completed by the client (the flow-control window: min(max_inflight,
   Receive Maximum)), the unreleased inbound QoS 2 ids, both topic alias tables, and the retained store (only to
   account for the replays a SUBSCRIBE triggers: a client "receives nothing that none of its subscriptions
   matches", so every PUBLISH it gets must be accounted for).

   CHECKS, per step (every step ends with the runner's quiescence barrier):
     recv      every PUBLISH a client receives is one of its pending copies: same topic (outbound alias
               resolved), payload, application properties, QoS = min(published, granted), RETAIN = published
               RETAIN and RAP, subscription identifiers = ids of the matching subscription(s) as a set, DUP = 0;
               anything else is reported as unexpected / wrong qos / wrong retain / wrong subid / wrong props
     order     a copy may not overtake a pending copy of an earlier message of the same publisher
     missing   at quiescence nothing is pending for a client whose window is not full (a full window delays,
               it does not drop; QoS 0 copies queued behind a full window may wait as well)
     ack       a QoS 1 / QoS 2 PUBLISH of a client is answered in the same step, on the same socket, by exactly
               one PUBACK / PUBREC with the same packet id and a reason code < 0x80 (PUBREL -> PUBCOMP likewise);
               no other acknowledgement, SUBACK, UNSUBACK, DISCONNECT... arrives unasked; no connection is closed
   TOLERATED (and nothing else): order of the copies of one message for one client; order of retained replays;
   order between acknowledgements and forwarded publishes on one socket; broker-chosen packet ids (used only as
   keys); in onlyonce mode, when several matching subscriptions share the highest QoS and differ in RAP, either
   RETAIN value (the statement does not say which subscription the single copy goes through);
   Payload-Format-Indicator 0, empty content type / response topic / correlation data = property absent; the
   Message-Expiry-Interval value (another property); on retained REPLAYS the RETAIN flag and the subscription
   identifier (not part of this statement: counted in the class field as replay_r0 / replay_r1 and
   replay_sid_present / replay_sid_absent).
   Reason code 0x10 (no matching subscribers) in acknowledgements is not part of the statement either: only
   counted (ackcode_ok / ackcode_dev).

   ASSUMPTION beyond the statement: delivery of a QoS 2 message starts when its PUBLISH arrives (MQTT 4.3.3
   "method A"), not at PUBREL.

   C01_MUT=n (environment, default 0 = off) deliberately breaks the oracle's notion of the property, for
   mutation-testing it: 1 QoS max instead of min; 2 No-Local ignored; 3 RAP inverted; 4 delivery modes swapped;
   5 publication order reversed; 6 no subscription identifiers expected; 7 PUBACK expected for QoS 2; 8 window
   one slot larger; 9 UNSUBSCRIBE ignored; 10 PUBACK expected with another packet id. *)

module X = Sexp

exception Outside of string
exception Fail of string * string   (* clause, explanation *)

let mut = try int_of_string (Sys.getenv "C01_MUT") with _ -> 0

let last_cls = ref "-"

type sub = { s_qos : int; s_nl : bool; s_rap : bool; s_sid : int }

type item = {
  grp : int;                 (* publication event *)
  pubr : string;             (* publisher *)
  topic : string; payload : string;
  qos : int;
  retain : bool list;        (* allowed RETAIN values *)
  sids : int list option;    (* None: not checked *)
  props : X.t list;          (* canonical application properties *)
  replay : bool;
  rsid : int;                (* replays: the identifier of the subscription that caused it (only counted) *)
}

type sock = {
  label : int; ver : int; cid : string; limit : int; amax : int;
  mutable subs : (string * sub) list;
  mutable pending : item list;
  mutable outst : (string * int) list;       (* pid -> 1: QoS1 sent; 2: QoS2 sent; 3: PUBREC received, PUBREL sent *)
  mutable in_alias : (int * string) list;
  mutable out_alias : (string * string) list;
  mutable q2in : (string * X.t) list;
  mutable seen_from : (string * int) list;   (* publisher -> last group received (coverage only) *)
}

let txt (a : string) : string =
  (* readable form of an xHEX atom *)
  if String.length a >= 1 && a.[0] = 'x' then begin
    try
      let b = Conv.bytes_of_atom a in
      let s = String.concat "" (List.map (fun n -> String.make 1 (Char.chr (Conv.int_of_n n))) b) in
      if String.length s > 0 && List.for_all (fun n -> let c = Conv.int_of_n n in c > 32 && c < 127) b then "'" ^ s ^ "'" else if s = "" then "''" else a
    with _ -> a
  end else a

let atom x = match x with X.A s -> s | X.L _ -> raise (Outside "shape")
let int_of x = try int_of_string (atom x) with Failure _ -> raise (Outside "shape")
let bool_of x = atom x <> "0"

let has_prefix p s = String.length s >= String.length p && String.sub s 0 (String.length p) = p
let share_prefix = Conv.atom_of_bytes (List.map (fun c -> Conv.n_of_int (Char.code c)) ['$'; 's'; 'h'; 'a'; 'r'; 'e'; '/'])
let has_wild (t : string) = List.exists (fun n -> let c = Conv.int_of_n n in c = 35 || c = 43) (Conv.bytes_of_atom t)

let matches (filter : string) (topic : string) : bool = Model.topic_match (Conv.bytes_of_atom topic) (Conv.bytes_of_atom filter)

let uniq_sorted l = List.sort_uniq compare l

(* canonical application properties: PFMT 0 and empty strings = absent; expiry / alias / subscription ids removed *)
let app_props (ps : X.t list) : X.t list =
  let keep p = match p with
    | X.L [X.A "pfmt"; X.A "0"] -> false
    | X.L [X.A ("ctype" | "resp" | "corr"); X.A "x"] -> false
    | X.L (X.A ("pfmt" | "ctype" | "resp" | "corr" | "user") :: _) -> true
    | X.L (X.A ("msgexpiry" | "alias" | "subid") :: _) -> false
    | _ -> raise (Outside "publish_property") in
  match S_wire.canon_props (X.L (X.A "props" :: List.filter keep ps)) with
  | X.L (_ :: l) -> l
  | _ -> []

let props_of x = match x with X.L (X.A "props" :: ps) -> ps | _ -> raise (Outside "shape")
let prop_int name ps = List.find_map (fun p -> match p with X.L [X.A n; v] when n = name -> Some (int_of v) | _ -> None) ps

let show_item (i : item) =
  Printf.sprintf "%s%s/%s q%d r%s sid%s from %s" (if i.replay then "replay " else "") (txt i.topic) (txt i.payload) i.qos
    (String.concat "|" (List.map (fun b -> if b then "1" else "0") i.retain))
    (match i.sids with None -> "?" | Some l -> "[" ^ String.concat "," (List.map string_of_int l) ^ "]") i.pubr

let oracle : S_wire.oracle_fn = fun cfg hooks steps obs raw ->
  let flags : (string, unit) Hashtbl.t = Hashtbl.create 32 in
  let flag f = Hashtbl.replace flags f () in
  let cls prefix = prefix ^ String.concat "." (List.sort compare (Hashtbl.fold (fun k () a -> k :: a) flags [])) in
  try
    (* ---- family: configuration ---- *)
    if Conv.int_of_nat cfg.Model.c_max_queued < 1000 then raise (Outside "max_queued");
    let me = Conv.int_of_n cfg.Model.c_message_expiry in
    if me <> 0 && me < 60 then raise (Outside "message_expiry");
    if Conv.int_of_n cfg.Model.c_recv_max < 50 then raise (Outside "recv_max");
    let mp = Conv.int_of_n cfg.Model.c_max_packet in
    if mp <> 0 && mp < 100000 then raise (Outside "max_packet");
    if not (cfg.Model.c_retain_avail && cfg.Model.c_wildcard && cfg.Model.c_subid) then raise (Outside "feature_off");
    if Conv.int_of_n cfg.Model.c_inflight_expiry <> 0 && Conv.int_of_n cfg.Model.c_inflight_expiry < 30 then raise (Outside "inflight_expiry");
    if hooks.Model.h_auth <> None || hooks.Model.h_sub_all <> None || hooks.Model.h_msg_on || hooks.Model.h_will_on then raise (Outside "hooks");
    if List.length steps > 300 then raise (Outside "too_long");
    let onlyonce = if mut = 4 then not cfg.Model.c_onlyonce else cfg.Model.c_onlyonce in
    flag (if cfg.Model.c_onlyonce then "onlyonce" else "overlap");
    let cfg_inflight = Conv.int_of_n cfg.Model.c_max_inflight in
    let cfg_alias = Conv.int_of_n cfg.Model.c_alias_max in
    let socks : sock list ref = ref [] in
    let find c = List.find_opt (fun s -> s.label = c) !socks in
    let retained : (string * (string * int * X.t list)) list ref = ref [] in
    let grp = ref 0 in
    let advanced = ref 0 in
    (* ---- what the statement makes due when an application message is published ---- *)
    let publish_event (src : sock option) (pubr : string) (topic : string) (payload : string) (q : int) (r : bool) (ps : X.t list) =
      incr grp;
      let any = ref false in
      List.iter (fun s ->
          let own = (match src with Some p -> p == s | None -> false) in
          let m = List.filter (fun (f, _) -> matches f topic) s.subs in
          let m' = List.filter (fun (_, sb) -> not (sb.s_nl && own && mut <> 2)) m in
          if List.length m' < List.length m then flag "nolocal";
          if m = [] && s.subs <> [] then flag "neg";
          if m' <> [] then any := true;
          if List.length m' >= 2 then flag "multi";
          let v5 = s.ver = 5 in
          let qmin a b = if mut = 1 then max a b else min a b in
          let mk granted retain sids =
            let qos = qmin q granted in
            if granted < q then flag "min_is_granted";
            if q < granted then flag "min_is_published";
            { grp = !grp; pubr; topic; payload; qos; retain; sids = Some (if v5 && mut <> 6 then sids else []);
              props = (if v5 then ps else []); replay = false; rsid = 0 } in
          let rap sb = if mut = 3 then r && not sb.s_rap else r && sb.s_rap in
          let items =
            if onlyonce then
              (if m' = [] then [] else
                 let best = List.fold_left (fun a (_, sb) -> max a sb.s_qos) 0 m' in
                 let tops = List.filter (fun (_, sb) -> sb.s_qos = best) m' in
                 let rs = uniq_sorted (List.map (fun (_, sb) -> rap sb) tops) in
                 if List.length rs > 1 then flag "rap_ambiguous";
                 [mk best rs (uniq_sorted (List.filter (fun i -> i <> 0) (List.map (fun (_, sb) -> sb.s_sid) m')))])
            else List.map (fun (_, sb) -> mk sb.s_qos [rap sb] (if sb.s_sid <> 0 then [sb.s_sid] else [])) m' in
          s.pending <- s.pending @ items) !socks;
      !any in
    (* ---- one step ---- *)
    let do_step (k : int) (step : X.t) (ob : (int * X.t list * bool) list) (rw : X.t) =
      let entries = match rw with X.L (X.A "s" :: es) -> es | _ -> [] in
      if List.exists (fun e -> match e with X.L [X.A ("hang" | "aborted")] -> true | _ -> false) entries then raise (Fail ("hang", Printf.sprintf "step %d: the broker did not reach quiescence" k));
      let skipped = List.mem (X.L [X.A "skipped"]) entries in
      let sent = List.find_map (fun e -> match e with X.L (X.A "sent" :: _ :: p :: _) -> Some p | _ -> None) entries in
      let rcv c = match List.find_opt (fun (c', _, _) -> c' = c) ob with Some (_, pk, _) -> pk | None -> [] in
      (* control packets this step must bring: (socket, description, predicate) *)
      let due : (int * string * (X.t -> bool)) list ref = ref [] in
      let expect c d p = due := !due @ [(c, d, p)] in
      let ack_of kind pid = fun x -> (match x with X.L [X.A k'; X.A p; X.A code; _] -> k' = kind && p = pid && int_of_string code < 128 | _ -> false) in
      (match step with
       | X.L (X.A "connect" :: c :: ver :: rest) ->
         let c = int_of c and ver = int_of ver in
         let rest = X.L rest in
         if find c <> None then raise (Outside "reconnect");
         let cid = atom (X.field1 "cid" rest) in
         if cid = "x" || List.exists (fun s -> s.cid = cid) !socks then raise (Outside "client_id");
         if X.field_opt "will" rest <> None || X.field_opt "user" rest <> None || X.field_opt "connflags" rest <> None then raise (Outside "connect_options");
         (match X.field_opt "keepalive" rest with Some [X.A "0"] -> () | _ -> raise (Outside "keepalive"));
         let ps = X.field "props" rest in
         List.iter (fun p -> match p with
             | X.L [X.A ("sei" | "recvmax" | "aliasmax"); _] -> ()
             | X.L [X.A "maxpkt"; n] when int_of n >= 100000 -> ()
             | _ -> raise (Outside "connect_property")) ps;
         let limit = match (if ver = 5 then prop_int "recvmax" ps else None) with Some rm -> min rm cfg_inflight | None -> cfg_inflight in
         if limit < cfg_inflight then flag "recvmax";
         let amax = match (if ver = 5 then prop_int "aliasmax" ps else None) with Some a -> a | None -> 0 in
         (* the CONNACK decides whether the client is connected *)
         (match rcv c with
          | [X.L [X.A "connack"; _; X.A "0"; _]] -> ()
          | _ -> raise (Fail ("connect", Printf.sprintf "step %d: a well-formed CONNECT of a new client id on socket %d was not answered by exactly CONNACK(0)" k c)));
         expect c "connack" (fun x -> match x with X.L (X.A "connack" :: _) -> true | _ -> false);
         socks := !socks @ [{ label = c; ver; cid; limit; amax; subs = []; pending = []; outst = []; in_alias = []; out_alias = []; q2in = []; seen_from = [] }]
       | X.L [X.A "send"; c; _] ->
         if skipped then raise (Outside "skipped");
         let c = int_of c in
         let s = match find c with Some s -> s | None -> raise (Outside "send_on_unknown_socket") in
         let pkt = match sent with Some p -> p | None -> raise (Outside "no_sent_entry") in
         (match pkt with
          | X.L (X.A "subscribe" :: X.A pid :: ps :: ts) ->
            let ps = props_of ps in
            List.iter (fun p -> match p with X.L [X.A "subid"; _] -> () | _ -> raise (Outside "subscribe_property")) ps;
            let sid = if s.ver = 5 then (match prop_int "subid" ps with Some i -> i | None -> 0) else 0 in
            if prop_int "subid" ps = Some 0 then raise (Outside "subid0");
            let ts = List.map (fun t -> match t with
                | X.L [X.A "t"; X.A f; q; nl; rap; rh] ->
                  if has_prefix share_prefix f then raise (Outside "shared");
                  let v5 = s.ver = 5 in
                  if not v5 && (bool_of nl || bool_of rap || int_of rh <> 0) then raise (Outside "v3_subscription_options");
                  if int_of q > 2 || int_of rh > 2 then raise (Outside "subscription_options");
                  (f, int_of q, v5 && bool_of nl, v5 && bool_of rap, if v5 then int_of rh else 0)
                | _ -> raise (Outside "shape")) ts in
            if ts = [] || List.length (uniq_sorted (List.map (fun (f, _, _, _, _) -> f) ts)) <> List.length ts then raise (Outside "subscribe_filters");
            let codes = List.find_map (fun x -> match x with
                | X.L [X.A "suback"; X.A p; X.L (X.A "codes" :: cs); _] when p = pid -> Some (List.map int_of cs) | _ -> None) (rcv c) in
            let codes = match codes with
              | Some cs when List.length cs = List.length ts -> cs
              | _ -> raise (Fail ("suback", Printf.sprintf "step %d: SUBSCRIBE %s on socket %d not answered by a SUBACK with one code per filter" k pid c)) in
            expect c "suback" (fun x -> match x with X.L (X.A "suback" :: X.A p :: _) -> p = pid | _ -> false);
            incr grp;
            List.iter2 (fun (f, q, nl, rap, rh) code ->
                if code < 128 then begin
                  if code > 2 then raise (Fail ("suback", Printf.sprintf "step %d: SUBACK code %d" k code));
                  if code <> q then flag "granted_ne_requested";
                  let existed = List.mem_assoc f s.subs in
                  if existed then flag "resub";
                  s.subs <- (f, { s_qos = code; s_nl = nl; s_rap = rap; s_sid = sid }) :: List.remove_assoc f s.subs;
                  if sid <> 0 then flag "sub_with_id";
                  if nl then flag "sub_nl";
                  if rap then flag "sub_rap";
                  if rh = 0 || (rh = 1 && not existed) then
                    List.iteri (fun j (t, (pl, rq, rps)) ->
                        if matches f t then begin
                          flag "replay_due";
                          s.pending <- s.pending @ [{ grp = !grp; pubr = Printf.sprintf "retained#%d.%s.%d" !grp f j; topic = t; payload = pl;
                                                       qos = min rq code; retain = [true; false]; sids = None;
                                                       props = (if s.ver = 5 then rps else []); replay = true; rsid = sid }]
                        end) !retained
                end else flag "sub_refused") ts codes
          | X.L (X.A "unsubscribe" :: X.A pid :: _ :: fs) ->
            expect c "unsuback" (fun x -> match x with X.L (X.A "unsuback" :: X.A p :: _) -> p = pid | _ -> false);
            List.iter (fun f -> let f = atom f in if List.mem_assoc f s.subs then flag "unsub"; if mut <> 9 then s.subs <- List.remove_assoc f s.subs) fs
          | X.L [X.A "publish"; _; q; r; X.A t; X.A pl; X.A pid; ps] ->
            let q = int_of q and r = bool_of r in
            let ps = if s.ver = 5 then props_of ps else [] in
            if prop_int "subid" ps <> None then raise (Outside "publish_with_subid");
            let topic =
              match prop_int "alias" ps with
              | Some a ->
                if a < 1 || a > cfg_alias then raise (Outside "alias_range");
                if t = "x" then (match List.assoc_opt a s.in_alias with Some t' -> flag "alias_in"; t' | None -> raise (Outside "alias_unknown"))
                else (s.in_alias <- (a, t) :: List.remove_assoc a s.in_alias; t)
              | None -> t in
            if topic = "x" || has_wild topic then raise (Outside "topic_name");
            if q > 2 then raise (Outside "qos3");
            let retx = q = 2 && List.mem_assoc pid s.q2in in
            if retx && List.assoc pid s.q2in <> X.L [X.A topic; X.A pl; X.A (if r then "1" else "0"); X.L (app_props ps)] then raise (Outside "pid_in_use");
            if q > 0 && pid = "0" then raise (Outside "pid0");
            if q = 1 then (flag "ack1"; expect c ("PUBACK " ^ pid) (ack_of "puback" (if mut = 10 then string_of_int (int_of_string pid + 1) else pid)));
            if q = 2 then (flag "ack2"; expect c ("PUBREC " ^ pid) (ack_of (if mut = 7 then "puback" else "pubrec") pid));
            let code = List.find_map (fun x -> match x with X.L [X.A ("puback" | "pubrec"); X.A p; X.A cd; _] when p = pid -> Some (int_of_string cd) | _ -> None) (rcv c) in
            if retx then begin
              flag "retransmit";
              (match code with Some cd -> flag (Printf.sprintf "ackcode_retx_%d" cd) | None -> ())
            end else begin
              if q = 2 then s.q2in <- (pid, X.L [X.A topic; X.A pl; X.A (if r then "1" else "0"); X.L (app_props ps)]) :: s.q2in;
              if r then begin
                retained := List.remove_assoc topic !retained;
                if pl <> "x" then retained := !retained @ [(topic, (pl, q, app_props ps))]
              end;
              let any = publish_event (Some s) ("client " ^ txt s.cid) topic pl q r (app_props ps) in
              if s.ver = 5 && q > 0 then
                (match code with
                 | Some cd -> if cd = (if any then 0 else 16) then flag "ackcode_ok" else flag (Printf.sprintf "ackcode_dev_got%d_match%b" cd any)
                 | None -> ())
            end
          | X.L [X.A "puback"; X.A pid; X.A "0"; _] ->
            (match List.assoc_opt pid s.outst with
             | Some 1 -> s.outst <- List.remove_assoc pid s.outst
             | _ -> raise (Outside "wrong_ack"))
          | X.L [X.A "pubrec"; X.A pid; X.A "0"; _] ->
            (match List.assoc_opt pid s.outst with
             | Some 2 -> s.outst <- (pid, 3) :: List.remove_assoc pid s.outst;
               expect c ("PUBREL " ^ pid) (fun x -> match x with X.L [X.A "pubrel"; X.A p; _; _] -> p = pid | _ -> false)
             | _ -> raise (Outside "wrong_ack"))
          | X.L [X.A "pubcomp"; X.A pid; X.A "0"; _] ->
            (match List.assoc_opt pid s.outst with
             | Some 3 -> s.outst <- List.remove_assoc pid s.outst
             | _ -> raise (Outside "wrong_ack"))
          | X.L [X.A "pubrel"; X.A pid; X.A "0"; _] ->
            if not (List.mem_assoc pid s.q2in) then raise (Outside "pubrel_unknown");
            s.q2in <- List.remove_assoc pid s.q2in;
            expect c ("PUBCOMP " ^ pid) (ack_of "pubcomp" pid)
          | _ -> raise (Outside "packet_kind"))
       | X.L [X.A "api_publish"; X.L [X.A "m"; _; q; r; X.A t; X.A pl; _; ctype; corr; expiry; pfmt; resp; X.L ids; X.L ups]] ->
         if ids <> [] then raise (Outside "api_subids");
         if t = "x" || has_wild t then raise (Outside "topic_name");
         let e = int_of expiry in
         if e <> 0 && e < 60 then raise (Outside "expiry");
         let ps = [X.L [X.A "ctype"; ctype]; X.L [X.A "corr"; corr]; X.L [X.A "pfmt"; pfmt]; X.L [X.A "resp"; resp]]
                  @ List.map (fun u -> match u with X.L [k'; v] -> X.L [X.A "user"; k'; v] | _ -> raise (Outside "shape")) ups in
         flag "api";
         ignore (publish_event None "api" t pl (int_of q) (bool_of r) (app_props ps))
       | X.L [X.A "advance"; ms] ->
         advanced := !advanced + int_of ms;
         if !advanced > 14000 then raise (Outside "advance");
         flag "advance"
       | X.L [X.A "inspect"] -> ()
       | _ -> raise (Outside "step_kind"));
      (* ---- what arrived ---- *)
      List.iter (fun (c, pk, op) ->
          match find c with
          | None -> if pk <> [] then raise (Outside "traffic_on_unknown_socket")
          | Some s ->
            List.iter (fun x ->
                match x with
                | X.L [X.A "publish"; X.A d; q; r; X.A t; X.A pl; X.A pid; ps] ->
                  let q = int_of q and r = bool_of r and ps = props_of ps in
                  let where = Printf.sprintf "step %d socket %d (%s)" k c (txt s.cid) in
                  let t =
                    match List.find_map (fun p -> match p with X.L [X.A "alias"; X.A a] -> Some a | _ -> None) ps with
                    | Some a ->
                      flag "alias_out";
                      if int_of_string a < 1 || int_of_string a > s.amax then raise (Fail ("alias", Printf.sprintf "%s: outbound topic alias %s outside 1..%d" where a s.amax));
                      if t = "x" then (match List.assoc_opt a s.out_alias with Some t' -> t' | None -> raise (Fail ("alias", Printf.sprintf "%s: unknown outbound topic alias %s" where a)))
                      else (s.out_alias <- (a, t) :: List.remove_assoc a s.out_alias; t)
                    | None -> if t = "x" then raise (Fail ("alias", where ^ ": empty topic without alias")) else t in
                  let sids = uniq_sorted (List.filter_map (fun p -> match p with X.L [X.A "subid"; i] -> Some (int_of i) | _ -> None) ps) in
                  let aps = (try app_props ps with Outside _ -> raise (Fail ("props", where ^ ": unexpected property in a forwarded PUBLISH " ^ X.to_string x))) in
                  let got = Printf.sprintf "%s/%s q%d r%d sid[%s] props%s" (txt t) (txt pl) q (if r then 1 else 0) (String.concat "," (List.map string_of_int sids)) (X.to_string (X.L aps)) in
                  let same_msg i = i.topic = t && i.payload = pl in
                  let full i = same_msg i && i.qos = q && List.mem r i.retain && (match i.sids with None -> true | Some l -> l = sids) && i.props = aps in
                  (* publication order per publisher: an item is blocked by a pending item of an earlier message of its publisher *)
                  let rec pick before = function
                    | [] -> None
                    | i :: rest ->
                      if full i && not (List.exists (fun j -> j.pubr = i.pubr && j.grp <> i.grp) before) then Some (i, List.rev_append before rest)
                      else pick (i :: before) rest in
                  let pending = if mut = 5 then List.rev s.pending else s.pending in
                  (match pick [] pending with
                   | Some (i, rest) ->
                     s.pending <- (if mut = 5 then List.rev rest else rest);
                     flag "recv";
                     if List.exists (fun j -> j.pubr = i.pubr && j.grp <> i.grp) rest then flag "order_decisive";
                     flag (Printf.sprintf "recv_v%d" s.ver);
                     flag (Printf.sprintf "recv_q%d" q);
                     if i.replay then begin
                       flag (if r then "replay_r1" else "replay_r0");
                       if i.rsid <> 0 then flag (if sids = [i.rsid] then "replay_sid_present" else "replay_sid_absent")
                     end
                     else begin
                       if r then flag "retain_kept" else if i.retain = [false] then ();
                       if sids <> [] then flag "subid_recv";
                       if List.length sids >= 2 then flag "subid_many";
                       if i.props <> [] then flag "props_recv";
                       (match List.assoc_opt i.pubr s.seen_from with
                        | Some g when g <> i.grp -> flag "order_same_publisher"
                        | _ -> ());
                       if List.exists (fun (p, _) -> p <> i.pubr) s.seen_from then flag "order_many_publishers";
                       s.seen_from <- (i.pubr, i.grp) :: List.remove_assoc i.pubr s.seen_from
                     end;
                     if d <> "0" then raise (Fail ("dup", Printf.sprintf "%s: first delivery with DUP=1: %s" where got));
                     if q > 0 then begin
                       if List.mem_assoc pid s.outst then raise (Fail ("pid", Printf.sprintf "%s: packet id %s of an uncompleted delivery used again" where pid));
                       s.outst <- (pid, q) :: s.outst
                     end
                   | None ->
                     let cands = List.filter same_msg s.pending in
                     if List.exists full cands then
                       raise (Fail ("order", Printf.sprintf "%s: %s overtook an earlier message of the same publisher; pending: %s" where got (String.concat " ; " (List.map show_item s.pending))))
                     else if cands = [] then
                       raise (Fail ("unexpected", Printf.sprintf "%s: received %s which no subscription of the client accounts for (subscriptions: %s)" where got
                                      (String.concat " " (List.map (fun (f, sb) -> Printf.sprintf "%s:q%d%s%s#%d" (txt f) sb.s_qos (if sb.s_nl then "nl" else "") (if sb.s_rap then "rap" else "") sb.s_sid) s.subs))))
                     else begin
                       let clause =
                         if not (List.exists (fun i -> i.qos = q) cands) then "qos"
                         else if not (List.exists (fun i -> i.qos = q && List.mem r i.retain) cands) then "retain"
                         else if not (List.exists (fun i -> i.qos = q && List.mem r i.retain && (match i.sids with None -> true | Some l -> l = sids)) cands) then "subid"
                         else "props" in
                       raise (Fail (clause, Printf.sprintf "%s: received %s; due: %s" where got (String.concat " ; " (List.map (fun i -> show_item i ^ " props" ^ X.to_string (X.L i.props)) cands))))
                     end)
                | _ ->
                  let rec take = function
                    | [] -> None
                    | ((c', _, p) as e) :: rest -> if c' = c && p x then Some rest else (match take rest with Some r -> Some (e :: r) | None -> None) in
                  (match take !due with
                   | Some rest -> due := rest
                   | None -> raise (Fail ("unasked", Printf.sprintf "step %d socket %d: packet nobody asked for: %s" k c (X.to_string x))))) pk;
            if not op then raise (Fail ("closed", Printf.sprintf "step %d: the broker closed socket %d (%s)" k c (txt s.cid)))) ob;
      (match !due with
       | (c, d, _) :: _ -> raise (Fail ("ack", Printf.sprintf "step %d socket %d: no %s (with the id sent and a success code) within the step" k c d))
       | [] -> ());
      (* ---- quiescence: nothing may be pending unless flow control holds it back ---- *)
      List.iter (fun s ->
          if s.pending <> [] then begin
            if List.length s.outst < s.limit + (if mut = 8 then 1 else 0) then
              raise (Fail ("missing", Printf.sprintf "step %d socket %d (%s): not delivered although only %d of %d window slots are in use: %s" k s.label (txt s.cid)
                             (List.length s.outst) s.limit (String.concat " ; " (List.map show_item s.pending))))
            else (flag "window_full"; if s.limit >= 100 then flag "window_full_100")
          end) !socks in
    let rec go k steps obs raw = match steps, obs, raw with
      | st :: steps', ob :: obs', rw :: raw' -> do_step k st ob rw; go (k + 1) steps' obs' raw'
      | _ -> () in
    go 0 steps obs raw;
    last_cls := cls "in.";
    (true, "-", "")
  with
  | Outside w -> last_cls := "outside." ^ w; (true, "-", "")
  | Fail (clause, msg) -> last_cls := cls ("fail_" ^ clause ^ "."); (false, "-", clause ^ ": " ^ msg)
  | X.Parse_error w -> last_cls := "outside.parse_" ^ w; (true, "-", "")

let run input impl =
  last_cls := "-";
  let v = S_wire.run_with oracle input impl in
  { v with Verdict.cls = !last_cls }
