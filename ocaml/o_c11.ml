(* Oracle for property C11, written from the statement:

     Every message matching a shared subscription $share/<group>/<filter> is queued for exactly one of the
     sessions currently subscribed to that group and filter (and independently for all matching non-shared
     subscriptions), at min(published, that member's granted QoS). A member leaving the group - by
     UNSUBSCRIBE, session end, take-over with clean start or expiry - affects neither the other members'
     subscriptions nor other groups, and stops the leaver from being selected; no retained messages are
     sent on a shared subscribe.

   It is evaluated on the implementation's observations only. Abstract state:
     - per client id its session: exists / live connection / expiry interval / when it went offline, the
       subscriptions confirmed by SUBACK (full filter text -> granted QoS, No Local, Subscription Identifier),
       the non-shared copies queued while it was offline, the QoS>0 copies it received and did not acknowledge;
     - the set of WORLDS: the broker's choice of a member is random, so a message of a group that was not
       seen on any connected member must be held by one of the group's offline members; each world is one
       consistent account (client id, copy) of who holds what. Worlds are filtered when a holder resumes.
   A "copy" is (payload, QoS, sorted Subscription Identifiers); payloads are unique per application message
   in the family, so every forwarded PUBLISH is attributable to one message.

   Clauses decided (names used in the explanations):
     one       PUBLISH step: on every connected session the copies of the message are exactly its non-shared
               copies plus the copies of the (group, filter) pairs assigned to it, for SOME assignment of every
               matching (group, filter) with at least one member session to exactly one of its member sessions;
               copies of offline members are owed (worlds). Covers: exactly one per group and filter, never a
               non-member / leaver, other members and other groups unaffected by a leave, min(published,
               granted) QoS, independence from the non-shared copies (one per matching subscription in overlap
               mode, one per client at the maximum granted QoS in onlyonce mode, No Local honoured).
     resume    CONNECT step with Session Present 1: the new (DUP=0) copies are exactly the non-shared copies
               queued while offline plus what the session holds in at least one world; DUP=1 copies must be
               unacknowledged QoS>0 copies of that session. Session Present 0: nothing is delivered.
     retained  SUBSCRIBE step: every PUBLISH the subscriber receives is a retained message (published with
               RETAIN=1 earlier) and is attributable to a non-shared entry of that SUBSCRIBE packet (filter
               matches, Retain Handling <> 2); anything beyond that while a shared entry matches is a retained
               replay on a shared subscribe.
     stray     no PUBLISH arrives anywhere in any other kind of step, or on another socket.
     alive     the broker does not end a connection of the family.
   Not decided: RETAIN flag and properties (other than Subscription Identifier) of the copies, order of the
   packets within a step, packet ids, acknowledgements towards publishers, the retained store itself (whether
   a non-shared replay is complete), Retain Handling 1 newness, and what is queued for a session that never
   comes back. Everything outside the family of harness/w_c11.go returns true with class outside_<what>.

   Session model used (MQTT 5 3.1.2.11.2 / 3.1.1 Clean Session): the session ends when its connection ends
   with expiry 0 (3.x: Clean Session 1), with Clean Start 1 on the next CONNECT, or when it has been offline
   longer than its expiry interval at an expire_check / CONNECT; v5 interval = min(CONNECT/DISCONNECT Session
   Expiry Interval, configured session_expiry), absent = 0; 3.x with Clean Session 0 = configured
   session_expiry. A take-over is the end of the old connection followed by the CONNECT. If CONNACK's Session
   Present contradicts this model the scenario is outside (class outside_sp_mismatch).

   Known findings (returned only when the strict run fails and the run with exactly that tolerance passes,
   or gets further):
     kf_shared_filter_matches_dollar_topic   a shared filter beginning with a wildcard ($share/g/#, $share/g/+/..)
         matches topics beginning with '$' (MQTT-4.7.2-1 is not applied to the filter of a shared subscription);
     kf_shared_retained_replay_v3   a 3.1 / 3.1.1 client that subscribes to $share/g/F (which the broker treats as
         a shared subscription for every protocol version) is sent the retained messages matching F. *)
open Conv

exception Outside of string
exception Fail of string

type sub = { f : string; share : string; filt : string; q : int; nl : bool; sid : int }
type copy = { pay : string; cq : int; ids : int list }
type sess = {
  cid : string;
  mutable ver : int;
  mutable alive : bool;
  mutable sock : int;            (* label of the live connection, 0 = none *)
  mutable disc : bool;           (* DISCONNECT sent on the live connection, not closed yet *)
  mutable expiry : int;          (* seconds *)
  mutable off_at : int;          (* ms *)
  mutable subs : sub list;
  mutable pend_must : copy list;
  mutable pend_opt : copy list;
  mutable unacked : (int * copy) list;
  mutable q2out : int list;
}

let last_cls = ref "-"
(* mutation testing of the oracle itself (never set in normal runs), O_C11_MUTATE =
     maxqos     copies are expected at max(published, granted)
     all        every member of a group gets a copy (no "exactly one")
     leaver     UNSUBSCRIBE of a shared filter does not take the member out of the group
     unsub_all  UNSUBSCRIBE of $share/g/F by one member removes every member of that group and filter
     end_group  the end of a member's session dissolves the groups (and filters) it was in for everybody
     coupled    a client that gets a shared copy gets no non-shared copy (no independence)
     retained   a shared subscribe is expected to replay retained messages
     pergroup   one copy per group name, not per group and filter
     online_only  only connected members can be selected (an offline session is not a member)
     drop_held  what was queued for an offline member through a group is not delivered when it resumes *)
let mutation = (match Sys.getenv_opt "O_C11_MUTATE" with Some m -> m | None -> "")

let outside w = raise (Outside w)
let a = Sexp.atom
let ios x = int_of_string (a x)
let text x = String.concat "" (List.map (fun b -> String.make 1 (Char.chr (int_of_n b))) (bytes_of_atom x))
let rec remove1 x = function [] -> None | y :: r -> if x = y then Some r else (match remove1 x r with Some r' -> Some (y :: r') | None -> None)
(* l minus m as multisets; None when m is not contained in l *)
let rec msub l m = match m with [] -> Some l | x :: m' -> (match remove1 x l with Some l' -> msub l' m' | None -> None)
let starts_with s p = String.length s >= String.length p && String.sub s 0 (String.length p) = p

let split_share (f : string) : string * string =
  if starts_with f "$share/" then
    let rest = String.sub f 7 (String.length f - 7) in
    match String.index_opt rest '/' with
    | Some i -> (String.sub rest 0 i, String.sub rest (i + 1) (String.length rest - i - 1))
    | None -> ("", f)
  else ("", f)

let show_copy c = Printf.sprintf "%s:q%d%s" (text c.pay) c.cq (String.concat "" (List.map (fun i -> "#" ^ string_of_int i) c.ids))
let show_copies l = "[" ^ String.concat "," (List.map show_copy l) ^ "]"

let run_once ~tol_dollar ~tol_v3 (cfg : Model.cfg) hooks steps iobs iraw : (bool * string) * string =
  let flags = Hashtbl.create 16 in
  let flag f = Hashtbl.replace flags f () in
  let cls () = String.concat "+" (List.sort compare (Hashtbl.fold (fun k () acc -> k :: acc) flags [])) in
  let onlyonce = cfg.Model.c_onlyonce in
  let queue_q0 = cfg.Model.c_queue_qos0 in
  let cfg_exp = int_of_n cfg.Model.c_session_expiry in
  try
    if hooks <> Model.no_hooks then outside "hooks";
    if int_of_n cfg.Model.c_max_qos <> 2 then outside "max_qos";
    (let mp = int_of_n cfg.Model.c_max_packet in if mp <> 0 && mp < 100000 then outside "max_packet");
    if int_of_nat cfg.Model.c_max_queued < 200 then outside "max_queued";
    if int_of_n cfg.Model.c_max_inflight < 100 then outside "max_inflight";
    if int_of_n cfg.Model.c_recv_max < 100 then outside "recv_max";
    if not (cfg.Model.c_retain_avail && cfg.Model.c_wildcard && cfg.Model.c_subid) then outside "cfg_features";
    if List.length steps > 120 then outside "long";
    let sessions : (string, sess) Hashtbl.t = Hashtbl.create 8 in
    let by_label : (int, sess) Hashtbl.t = Hashtbl.create 8 in      (* label -> session of its last CONNECT *)
    let session cid = match Hashtbl.find_opt sessions cid with
      | Some s -> s
      | None -> let s = { cid; ver = 4; alive = false; sock = 0; disc = false; expiry = 0; off_at = 0; subs = []; pend_must = []; pend_opt = []; unacked = []; q2out = [] } in
        Hashtbl.replace sessions cid s; s in
    let all_sessions () = List.sort (fun x y -> compare x.cid y.cid) (Hashtbl.fold (fun _ s acc -> s :: acc) sessions []) in
    let worlds : (string * copy) list list ref = ref [[]] in
    let norm ws = List.sort_uniq compare (List.map (List.sort compare) ws) in
    let msgs : (string, string * bool) Hashtbl.t = Hashtbl.create 32 in   (* payload -> topic, published with RETAIN *)
    let now = ref 0 in
    let left : (string * string) list ref = ref [] in   (* (cid, full filter) of members that left a group; for the counters *)
    let matches ~shared topic filt =
      let t = bytes_of_atom topic and fb = List.map (fun ch -> n_of_int (Char.code ch)) (List.init (String.length filt) (String.get filt)) in
      if shared && tol_dollar then Model.lm (Model.split t) (Model.split fb) else Model.topic_match t fb in
    let end_session (s : sess) why =
      if s.alive then begin
        List.iter (fun sb -> if sb.share <> "" then (flag ("leave_" ^ why); left := (s.cid, sb.f) :: !left)) s.subs;
        if mutation = "end_group" then begin
          let fs = List.filter_map (fun sb -> if sb.share <> "" then Some sb.f else None) s.subs in
          Hashtbl.iter (fun _ (t : sess) -> t.subs <- List.filter (fun sb -> not (List.mem sb.f fs)) t.subs) sessions
        end;
        s.subs <- []; s.alive <- false;
        s.pend_must <- []; s.pend_opt <- []; s.unacked <- []; s.q2out <- [];
        worlds := norm (List.map (List.filter (fun (c, _) -> c <> s.cid)) !worlds)
      end in
    let conn_gone (s : sess) why =
      s.sock <- 0; s.disc <- false; s.off_at <- !now;
      if s.expiry = 0 then end_session s why
      else if List.exists (fun sb -> sb.share <> "") s.subs then flag "member_goes_offline" in
    let check_expiry (s : sess) =
      if s.alive && s.sock = 0 then begin
        let el = !now - s.off_at in
        if el > s.expiry * 1000 then end_session s "expiry"
        else if el > s.expiry * 1000 - 350 then outside "expiry_boundary"
      end in
    let pkts_of obs c = match List.find_opt (fun (c', _, _) -> c' = c) obs with Some (_, p, _) -> p | None -> [] in
    (* PUBLISH packets of a packet list: (dup, pid, topic, copy) *)
    let publishes pkts = List.filter_map (fun p -> match p with
        | Sexp.L [Sexp.A "publish"; d; q; _; t; pl; pid; Sexp.L (Sexp.A "props" :: ps)] ->
          let ids = List.sort compare (List.filter_map (fun pr -> match pr with Sexp.L [Sexp.A "subid"; n] -> Some (ios n) | _ -> None) ps) in
          Some (a d <> "0", ios pid, a t, { pay = a pl; cq = ios q; ids })
        | _ -> None) pkts in
    let no_publish_except where obs (allowed : int list) =
      List.iter (fun (c, pkts, _) ->
          if not (List.mem c allowed) then
            match publishes pkts with
            | (_, _, _, cp) :: _ -> raise (Fail (Printf.sprintf "%sstray: socket %d received %s in a step that forwards nothing to it" where c (show_copy cp)))
            | [] -> ()) obs in
    (* a 3.x connection cannot carry Subscription Identifiers (the session may have been subscribed through a v5 one) *)
    let adapt (t : sess) (cp : copy) = if t.ver < 5 then { cp with ids = [] } else cp in
    let record_unacked (s : sess) l = List.iter (fun (_, pid, _, cp) -> if cp.cq > 0 then s.unacked <- (pid, cp) :: List.remove_assoc pid s.unacked) l in
    let nsteps = List.length steps in
    let steps_arr = Array.of_list steps in
    List.iteri (fun k ((step, obs), raw) ->
        let where = "step " ^ string_of_int k ^ " " in
        let live_sock c = match Hashtbl.find_opt by_label c with
          | Some s when s.sock = c && not s.disc -> s
          | _ -> outside "send_on_dead_socket" in
        (match Sexp.list step with
         | Sexp.A "connect" :: c :: ver :: rest ->
           let c = ios c and x = Sexp.L rest in
           let cid = a (Sexp.field1 "cid" x) in
           if cid = "x" then outside "empty_cid";
           if Sexp.field_opt "will" x <> None || Sexp.field_opt "connflags" x <> None || Sexp.field_opt "user" x <> None then outside "connect_extras";
           let props = Sexp.field "props" x in
           List.iter (fun p -> if S_wire.prop_name p <> "sei" then outside "connect_props") props;
           (match Hashtbl.find_opt by_label c with Some s when s.sock = c -> outside "label_reused_while_open" | _ -> ());
           let clean = a (Sexp.field1 "clean" x) <> "0" and ver = ios ver in
           let sp = match List.find_opt (fun p -> match p with Sexp.L (Sexp.A "connack" :: _) -> true | _ -> false) (pkts_of obs c) with
             | Some (Sexp.L [_; sp; code; _]) -> if ios code <> 0 then outside "connack_refused"; a sp <> "0"
             | _ -> outside "no_connack" in
           let s = session cid in
           if s.disc then outside "connect_after_disconnect_without_close";
           let takeover = s.sock <> 0 in
           if takeover then begin
             let had_shared = List.exists (fun sb -> sb.share <> "") s.subs in
             conn_gone s "takeover0";
             if had_shared then flag (if clean then "takeover_clean" else "takeover_resume")
           end;
           check_expiry s;
           if clean then end_session s "cleanstart";
           if sp <> s.alive then outside "sp_mismatch";
           let sei = (match List.find_opt (fun p -> S_wire.prop_name p = "sei") props with Some (Sexp.L [_; n]) -> Some (int_of_string (a n)) | _ -> None) in
           s.expiry <- (if ver = 5 then (match sei with Some n -> min n cfg_exp | None -> 0) else if clean then 0 else cfg_exp);
           s.ver <- ver;
           let got = publishes (pkts_of obs c) in
           if not sp then begin
             (match got with (_, _, _, cp) :: _ -> raise (Fail (Printf.sprintf "%sresume: socket %d got %s with Session Present 0" where c (show_copy cp))) | [] -> ());
             s.alive <- true
           end else begin
             let dups = List.filter (fun (d, _, _, _) -> d) got and fresh = List.filter (fun (d, _, _, _) -> not d) got in
             let seen = ref [] in
             List.iter (fun (_, pid, _, cp) ->
                 (* a retransmission need not carry the Subscription Identifiers of the first transmission (MQTT 5 3.8.4) *)
                 let same = (match List.assoc_opt pid s.unacked with Some u -> u.pay = cp.pay && u.cq = cp.cq && (cp.ids = [] || cp.ids = u.ids) | None -> false) in
                 if List.mem pid !seen || not same then
                   raise (Fail (Printf.sprintf "%sresume: socket %d got the retransmission %s (id %d) of nothing this session has unacknowledged" where c (show_copy cp) pid));
                 seen := pid :: !seen; flag "retransmit") dups;
             let fresh_c = List.map (fun (_, _, _, cp) -> cp) fresh in
             s.pend_must <- List.map (adapt s) s.pend_must; s.pend_opt <- List.map (adapt s) s.pend_opt;
             let rest = match msub fresh_c s.pend_must with
               | Some r -> r
               | None -> raise (Fail (Printf.sprintf "%sresume: %s was owed the non-shared copies %s, got %s" where cid (show_copies s.pend_must) (show_copies fresh_c))) in
             let ok_worlds = List.filter_map (fun w ->
                 let held = List.filter_map (fun (c', cp) -> if c' = cid && mutation <> "drop_held" then Some (adapt s cp) else None) w in
                 match msub rest held with
                 | Some r2 -> (match msub s.pend_opt r2 with Some _ -> Some (List.filter (fun (c', _) -> c' <> cid) w, held) | None -> None)
                 | None -> None) !worlds in
             if ok_worlds = [] then begin
               let alts = List.sort_uniq compare (List.map (fun w -> show_copies (List.sort compare (List.filter_map (fun (c', cp) -> if c' = cid then Some cp else None) w))) !worlds) in
               raise (Fail (Printf.sprintf "%sresume: %s resumed and got %s beyond its non-shared copies %s; the group messages it can hold are one of %s" where cid (show_copies rest) (show_copies s.pend_must) (String.concat "|" alts)))
             end;
             if List.exists (fun (_, held) -> held <> []) ok_worlds then flag "held_resumed";
             if s.pend_must <> [] then flag "nonshared_resumed";
             worlds := norm (List.map fst ok_worlds);
             s.pend_must <- []; s.pend_opt <- [];
             record_unacked s fresh
           end;
           s.sock <- c; s.disc <- false;
           Hashtbl.replace by_label c s;
           if ver < 5 then flag "v3conn";
           no_publish_except where obs [c]
         | [Sexp.A "send"; c; p0] ->
           let c = ios c in
           (match S_wire.sent_of_step raw with
            | Some None -> no_publish_except where obs []
            | sent ->
              let p = (match sent with Some (Some p) -> p | _ -> p0) in
              let s = live_sock c in
              (match Sexp.list p with
               | [Sexp.A "publish"; _; q; r; t; pl; pid; Sexp.L (Sexp.A "props" :: ps)] ->
                 let q = ios q and pid = ios pid and topic = a t and pay = a pl in
                 let tstr = text topic in
                 if tstr = "" || String.contains tstr '+' || String.contains tstr '#' then outside "topic";
                 if pay = "x" then outside "empty_payload";
                 List.iter (fun pr -> match S_wire.prop_name pr with "alias" | "subid" | "msgexpiry" -> outside "publish_props" | _ -> ()) ps;
                 if q > 2 then outside "qos3";
                 if Hashtbl.mem msgs pay then outside "payload_not_unique";
                 Hashtbl.iter (fun _ (s' : sess) -> if s'.disc then outside "publish_while_disconnecting") sessions;
                 if q = 2 then (if List.mem pid s.q2out then outside "qos2_id_outstanding"; s.q2out <- pid :: s.q2out);
                 Hashtbl.replace msgs pay (topic, a r <> "0");
                 let mq x g = if mutation = "maxqos" then max x g else min x g in
                 let ss = List.filter (fun (t : sess) -> t.alive) (all_sessions ()) in
                 (* non-shared copies *)
                 let ns_of (t : sess) =
                   let m = List.filter (fun sb -> sb.share = "" && matches ~shared:false topic sb.filt && not (sb.nl && t.cid = s.cid)) t.subs in
                   if m = [] then []
                   else if onlyonce then
                     [{ pay; cq = mq q (List.fold_left (fun acc sb -> max acc sb.q) 0 m); ids = List.sort compare (List.filter_map (fun sb -> if sb.sid <> 0 then Some sb.sid else None) m) }]
                   else List.map (fun sb -> { pay; cq = mq q sb.q; ids = (if sb.sid <> 0 then [sb.sid] else []) }) m in
                 (* the (group, filter) pairs that match, with their member sessions *)
                 let key sb = if mutation = "pergroup" then sb.share else sb.f in
                 let gfs = List.sort_uniq compare (List.concat_map (fun (t : sess) -> List.filter_map (fun sb ->
                     if sb.share <> "" && matches ~shared:true topic sb.filt then Some (key sb) else None) t.subs) ss) in
                 let tokens = List.map (fun gf ->
                     (gf, List.concat_map (fun (t : sess) -> List.filter_map (fun sb ->
                          if sb.share <> "" && key sb = gf && matches ~shared:true topic sb.filt && not (mutation = "online_only" && t.sock = 0)
                          then Some (t, { pay; cq = mq q sb.q; ids = (if sb.sid <> 0 then [sb.sid] else []) }) else None) t.subs) ss)) gfs in
                 (* observations *)
                 let extras : (string, copy list) Hashtbl.t = Hashtbl.create 8 in
                 let ns_cache = List.map (fun (t : sess) -> (t.cid, ns_of t)) ss in
                 List.iter (fun (t : sess) ->
                     let ns = List.assoc t.cid ns_cache in
                     if t.sock <> 0 then begin
                       let got = publishes (pkts_of obs t.sock) in
                       List.iter (fun (d, _, tp, cp) ->
                           if cp.pay <> pay then raise (Fail (Printf.sprintf "%sstray: socket %d received %s while %s was published" where t.sock (show_copy cp) (text pay)));
                           if tp <> topic then raise (Fail (Printf.sprintf "%sone: socket %d received %s under another topic" where t.sock (show_copy cp)));
                           if d then raise (Fail (Printf.sprintf "%sone: socket %d received %s with DUP=1" where t.sock (show_copy cp)))) got;
                       let gc = List.map (fun (_, _, _, cp) -> cp) got in
                       let shared_here = List.exists (fun (_, cands) -> List.exists (fun ((t' : sess), _) -> t'.cid = t.cid) cands) tokens in
                       let ns = if mutation = "coupled" && shared_here then [] else List.map (adapt t) ns in
                       (match msub gc ns with
                        | Some r -> Hashtbl.replace extras t.cid r
                        | None -> raise (Fail (Printf.sprintf "%sone: %s (socket %d) must get the non-shared copies %s independently of any group, got %s" where t.cid t.sock (show_copies ns) (show_copies gc))));
                       record_unacked t got;
                       if ns <> [] && shared_here then flag "group_and_nonshared_same_client"
                     end else begin
                       List.iter (fun cp -> if cp.cq = 0 && not queue_q0 then t.pend_opt <- cp :: t.pend_opt else t.pend_must <- cp :: t.pend_must) ns;
                       if ns <> [] then flag "nonshared_offline"
                     end) ss;
                 (* sockets that belong to no live session must be silent *)
                 let live = List.filter_map (fun (t : sess) -> if t.sock <> 0 then Some t.sock else None) ss in
                 no_publish_except where obs live;
                 if Sys.getenv_opt "O_C11_DEBUG" <> None then
                   prerr_endline (Printf.sprintf "[o_c11] picks step=%d groups=%d maxmembers=%d" k (List.length tokens) (List.fold_left (fun acc (_, cands) -> max acc (List.length cands)) 0 tokens));
                 (* counters *)
                 if tokens <> [] then flag "group_msg";
                 if List.length tokens >= 2 then flag "groups2";
                 List.iter (fun (gf, cands) ->
                     let n = List.length cands in
                     if n >= 2 then flag "members2";
                     if List.length (List.filter (fun ((t : sess), _) -> t.sock <> 0) cands) >= 2 then flag "members2_online";
                     if List.exists (fun ((t : sess), _) -> t.sock = 0) cands then flag "member_offline";
                     if List.exists (fun (_, cp) -> cp.cq < q) cands then flag "min_granted";
                     if List.exists (fun (_, cp) -> cp.cq = q && q > 0) cands then flag "min_published";
                     if List.exists (fun ((t : sess), _) -> t.ver < 5) cands then flag "v3_member";
                     if tstr.[0] = '$' then flag "dollar_topic_group";
                     if List.exists (fun (cid', f') -> f' = gf && not (List.exists (fun ((t : sess), _) -> t.cid = cid') cands)) !left then flag "publish_after_leave";
                     if List.exists (fun (gf', cands') -> gf' <> gf && List.exists (fun ((t : sess), _) -> List.exists (fun ((t' : sess), _) -> t'.cid = t.cid) cands') cands) tokens then flag "client_in_2_groups";
                     if List.exists (fun (gf', _) -> gf' <> gf && snd (split_share gf') = snd (split_share gf)) tokens then flag "same_filter_2_groups") tokens;
                 if tstr.[0] = '$' && List.exists (fun (t : sess) -> List.exists (fun sb -> sb.share <> "" && sb.filt <> "" && (sb.filt.[0] = '#' || sb.filt.[0] = '+')) t.subs) ss then flag "dollar_vs_wild_group";
                 (* every (group, filter) goes to exactly one member *)
                 let results = ref [] in
                 let rec assign toks (ex : (string * copy list) list) held =
                   match toks with
                   | [] -> if List.for_all (fun (_, l) -> l = []) ex then results := held :: !results
                   | (_, cands) :: rest ->
                     if mutation = "all" then begin
                       (* every member gets its copy *)
                       let ok = ref true and ex' = ref ex and held' = ref held in
                       List.iter (fun ((t : sess), cp) ->
                           if t.sock <> 0 then (match remove1 (adapt t cp) (List.assoc t.cid !ex') with
                               | Some l -> ex' := (t.cid, l) :: List.remove_assoc t.cid !ex'
                               | None -> ok := false)
                           else held' := (t.cid, cp) :: !held') cands;
                       if !ok then assign rest !ex' !held'
                     end else
                       List.iter (fun ((t : sess), cp) ->
                           if t.sock <> 0 then
                             (match remove1 (adapt t cp) (List.assoc t.cid ex) with
                              | Some l -> assign rest ((t.cid, l) :: List.remove_assoc t.cid ex) held
                              | None -> ())
                           else begin
                             assign rest ex ((t.cid, cp) :: held);
                             if cp.cq = 0 && not queue_q0 then assign rest ex held
                           end) cands in
                 let ex0 = List.filter_map (fun (t : sess) -> if t.sock <> 0 then Some (t.cid, Hashtbl.find extras t.cid) else None) ss in
                 assign tokens ex0 [];
                 if !results = [] then begin
                   let n_extra = List.fold_left (fun acc (_, l) -> acc + List.length l) 0 ex0 in
                   let all_on = List.for_all (fun (_, cands) -> List.for_all (fun ((t : sess), _) -> t.sock <> 0) cands) tokens in
                   let hint = if n_extra > List.length tokens then "more copies than matching groups"
                     else if n_extra < List.length tokens && all_on then "a group with only connected members got no copy"
                     else "wrong member, QoS or identifier" in
                   raise (Fail (Printf.sprintf "%sone: %s (QoS %d, topic %s): %s; groups %s; copies beyond the non-shared ones: %s" where (text pay) q tstr hint
                                  (String.concat " " (List.map (fun (gf, cands) -> gf ^ "={" ^ String.concat "," (List.map (fun ((t : sess), cp) -> t.cid ^ (if t.sock = 0 then "(offline)" else "") ^ ":" ^ show_copy cp) cands) ^ "}") tokens))
                                  (String.concat " " (List.map (fun (cid', l) -> cid' ^ "=" ^ show_copies l) ex0))))
                 end;
                 let rs = List.sort_uniq compare (List.map (List.sort compare) !results) in
                 if List.exists (fun h -> h <> []) rs then flag "owed_to_offline";
                 worlds := norm (List.concat_map (fun w -> List.map (fun h -> w @ h) rs) !worlds);
                 if List.length !worlds > 3000 then outside "too_many_worlds"
               | [Sexp.A "pubrel"; pid; _; _] -> s.q2out <- List.filter (fun x -> x <> ios pid) s.q2out; no_publish_except where obs []
               | [Sexp.A ("puback" | "pubrec"); pid; _; _] ->
                 if List.mem_assoc (ios pid) s.unacked then flag "acked";
                 s.unacked <- List.remove_assoc (ios pid) s.unacked; no_publish_except where obs []
               | [Sexp.A "pubcomp"; _; _; _] -> no_publish_except where obs []
               | Sexp.A "subscribe" :: pid :: Sexp.L (Sexp.A "props" :: sps) :: ts ->
                 let codes = match List.find_opt (fun x -> match x with Sexp.L (Sexp.A "suback" :: pid' :: _) -> pid' = pid | _ -> false) (pkts_of obs c) with
                   | Some (Sexp.L [_; _; Sexp.L (Sexp.A "codes" :: cs); _]) -> List.map ios cs
                   | _ -> outside "no_suback" in
                 if List.length codes <> List.length ts then outside "suback_codes";
                 let sid = if s.ver = 5 then (match List.find_opt (fun pr -> S_wire.prop_name pr = "subid") sps with Some (Sexp.L [_; n]) -> ios n | _ -> 0) else 0 in
                 let entries = List.map2 (fun t code -> match Sexp.list t with
                     | [Sexp.A "t"; f; _; nl; _; rh] ->
                       let fs = text (a f) in
                       let (share, filt) = split_share fs in
                       if share <> "" && a nl <> "0" && s.ver = 5 then outside "nolocal_on_shared";
                       if starts_with fs "$share" && share = "" then outside "bad_share_filter";
                       ({ f = fs; share; filt; q = code; nl = (a nl <> "0" && s.ver = 5); sid }, (if s.ver = 5 then ios rh else 0), code)
                     | _ -> outside "subscribe_entry") ts codes in
                 (* retained replay *)
                 let got = publishes (pkts_of obs c) in
                 let by_pay = List.sort_uniq compare (List.map (fun (_, _, _, cp) -> cp.pay) got) in
                 List.iter (fun pay ->
                     let n = List.length (List.filter (fun (_, _, _, cp) -> cp.pay = pay) got) in
                     match Hashtbl.find_opt msgs pay with
                     | Some (topic, true) ->
                       let plain = List.length (List.filter (fun (sb, rh, code) -> code <= 2 && sb.share = "" && rh <> 2 && matches ~shared:false topic sb.filt) entries) in
                       let shared_m = List.filter (fun (sb, rh, code) -> code <= 2 && sb.share <> "" && (mutation = "retained" || (tol_v3 && s.ver < 5)) && rh <> 2 && matches ~shared:true topic sb.filt) entries in
                       if n > plain + List.length shared_m then begin
                         let sh = List.filter (fun (sb, _, code) -> code <= 2 && sb.share <> "" && Model.lm (Model.split (bytes_of_atom topic)) (Model.split (List.map (fun ch -> n_of_int (Char.code ch)) (List.init (String.length sb.filt) (String.get sb.filt))))) entries in
                         if sh <> [] then
                           raise (Fail (Printf.sprintf "%sretained: socket %d (MQTT v%d) received %d copies of the retained message %s, only %d non-shared entries of the SUBSCRIBE match it: retained replay on the shared subscribe %s"
                                          where c s.ver n (text pay) plain (String.concat "," (List.map (fun (sb, _, _) -> sb.f) sh))))
                         else raise (Fail (Printf.sprintf "%sstray: socket %d received %d copies of the retained message %s, %d entries of the SUBSCRIBE match it" where c n (text pay) plain))
                       end;
                       if mutation = "retained" && n < plain + List.length shared_m then
                         raise (Fail (Printf.sprintf "%sretained(mutant): expected a replay of %s for the shared entry" where (text pay)))
                     | _ -> raise (Fail (Printf.sprintf "%sstray: socket %d received %s in a SUBSCRIBE step, which is not a retained message" where c (text pay)))) by_pay;
                 record_unacked s got;
                 (* counters: a shared entry met a retained message *)
                 List.iter (fun (sb, _, code) ->
                     if code <= 2 && sb.share <> "" then begin
                       flag "shared_sub";
                       if Hashtbl.fold (fun _ (topic, ret) acc -> acc || (ret && matches ~shared:true topic sb.filt)) msgs false then flag "shared_sub_meets_retained";
                       if List.exists (fun (sb' : sub) -> sb'.f = sb.f) s.subs then flag "resubscribe_shared"
                     end;
                     if code >= 128 && sb.share <> "" then flag "shared_refused") entries;
                 List.iter (fun (sb, _, code) -> if code <= 2 then begin
                     s.subs <- sb :: List.filter (fun (sb' : sub) -> sb'.f <> sb.f) s.subs;
                     left := List.filter (fun (cid', f') -> not (cid' = s.cid && f' = sb.f)) !left
                   end) entries;
                 no_publish_except where obs [c]
               | Sexp.A "unsubscribe" :: pid :: _ :: fs ->
                 let codes = match List.find_opt (fun x -> match x with Sexp.L (Sexp.A "unsuback" :: pid' :: _) -> pid' = pid | _ -> false) (pkts_of obs c) with
                   | Some (Sexp.L [_; _; Sexp.L (Sexp.A "codes" :: cs); _]) -> List.map ios cs
                   | _ -> outside "no_unsuback" in
                 List.iteri (fun i f ->
                     let fs' = text (a f) in
                     let code = (match List.nth_opt codes i with Some cd -> cd | None -> 0) in
                     let had = List.exists (fun sb -> sb.f = fs') s.subs in
                     if code >= 128 then outside "unsubscribe_refused";
                     if had && code = 17 then raise (Fail (Printf.sprintf "%sone: UNSUBACK says %s had no subscription %s, SUBACK had confirmed it" where s.cid fs'));
                     if had then begin
                       let (share, filt) = split_share fs' in
                       if share <> "" then begin
                         flag "leave_unsub"; left := (s.cid, fs') :: !left;
                         if mutation = "unsub_all" then
                           Hashtbl.iter (fun _ (t : sess) -> t.subs <- List.filter (fun sb -> sb.f <> fs') t.subs) sessions
                       end else if List.exists (fun sb -> sb.share <> "" && sb.filt = filt) s.subs then flag "unsub_plain_keeps_shared";
                       if not (mutation = "leaver" && share <> "") then s.subs <- List.filter (fun sb -> sb.f <> fs') s.subs
                     end) fs;
                 no_publish_except where obs []
               | Sexp.A "disconnect" :: _ :: Sexp.L (Sexp.A "props" :: ps) :: _ ->
                 if s.ver = 5 then
                   (match List.find_opt (fun pr -> S_wire.prop_name pr = "sei") ps with
                    | Some (Sexp.L [_; n]) -> let n = int_of_string (a n) in if s.expiry = 0 && n > 0 then outside "sei_after_zero"; s.expiry <- min n cfg_exp
                    | _ -> ());
                 s.disc <- true;
                 no_publish_except where obs []
               | [Sexp.A "pingreq"] -> no_publish_except where obs []
               | _ -> outside "packet"))
         | [Sexp.A "close"; c] ->
           (match Hashtbl.find_opt by_label (ios c) with Some s when s.sock = ios c -> conn_gone s (if s.disc then "disconnect0" else "close0") | _ -> ());
           no_publish_except where obs []
         | [Sexp.A "advance"; ms] ->
           now := !now + ios ms;
           if not (k + 1 < nsteps && steps_arr.(k + 1) = Sexp.L [Sexp.A "expire_check"]) then outside "advance_without_expire_check";
           no_publish_except where obs []
         | [Sexp.A "expire_check"] ->
           Hashtbl.iter (fun _ s -> check_expiry s) sessions;
           no_publish_except where obs []
         | [Sexp.A "inspect"] -> no_publish_except where obs []
         | _ -> outside "step");
        (* alive: connections the family keeps open are open *)
        List.iter (fun (c, pkts, is_open) ->
            match Hashtbl.find_opt by_label c with
            | Some s when s.sock = c && not s.disc ->
              if not is_open || List.exists (fun p -> match p with Sexp.L (Sexp.A "disconnect" :: _) -> true | _ -> false) pkts then
                raise (Fail (Printf.sprintf "%salive: the broker ended the connection of socket %d (%s)" where c s.cid))
            | _ -> ()) obs)
      (List.combine (List.combine steps iobs) iraw);
    ((true, ""), cls ())
  with
  | Outside w -> ((true, ""), "outside_" ^ w)
  | Fail why -> ((false, why), cls ())

(* step number a failure explanation starts with *)
let fail_step why = try Scanf.sscanf why "step %d " (fun k -> k) with _ -> -1

let oracle : S_wire.oracle_fn = fun cfg hooks steps iobs iraw ->
  let go d v =
    let r = run_once ~tol_dollar:d ~tol_v3:v cfg hooks steps iobs iraw in
    if Sys.getenv_opt "O_C11_DEBUG" <> None then prerr_endline (Printf.sprintf "[o_c11] tol_dollar=%b tol_v3=%b -> %b %s (%s)" d v (fst (fst r)) (snd (fst r)) (snd r));
    r in
  let kf_d = "kf_shared_filter_matches_dollar_topic" and kf_v = "kf_shared_retained_replay_v3" in
  match go false false with
  | ((true, _), cls) -> last_cls := cls; (true, "-", "")
  | ((false, why), cls) ->
    last_cls := cls;
    (* the class (clause counters) of a known-finding case is that of the run that got through *)
    let ((ok_d, why_d), cls_d) = go true false in
    if ok_d then (last_cls := cls_d; (false, kf_d, why))
    else
      let ((ok_v, why_v), cls_v) = go false true in
      if ok_v then (last_cls := cls_v; (false, kf_v, why))
      else
        let ((ok_b, _), cls_b) = go true true in
        if ok_b then (last_cls := cls_b; false, (if fail_step why_d > fail_step why then kf_d else if fail_step why_v > fail_step why then kf_v else "-"), why)
        else (false, "-", why)

(* O_C11_ORACLE_ONLY=1 (mutation runs): skip the model comparison *)
let run input impl =
  if Sys.getenv_opt "O_C11_ORACLE_ONLY" <> None then begin
    let cfg = S_wire.cfg_of_sx (Sexp.L (Sexp.field "cfg" input)) in
    let hooks = S_wire.hooks_of_sx (match Sexp.field_opt "hooks" input with Some h -> Some (Sexp.L h) | None -> None) in
    let steps = Sexp.field "steps" input and isteps = Sexp.field "steps" impl in
    let n = min (List.length steps) (List.length isteps) in
    let steps = List.filteri (fun i _ -> i < n) steps and isteps = List.filteri (fun i _ -> i < n) isteps in
    let (ok, kf, why) = oracle cfg hooks steps (List.map S_wire.impl_step_obs isteps) isteps in
    { Verdict.agree = true; oracle = ok; kf; nontrivial = true; cls = !last_cls; model = Sexp.A "skipped"; why }
  end else
    let v = S_wire.run_with oracle input impl in { v with Verdict.cls = !last_cls }
