(* Oracle of property C20 - statistics are conserved: counters equal what actually happened.
   Generator: harness/w_c20.go.  Coq: Model/Stats.v (server/stats.go + queue_notifier.go as the code is),
   Oracle/C20O.v (ground truth `c20_truth`, boolean oracle, classification), Proofs/StatsP.v, Props/C20.v.

   The oracle walks the scenario and the observations and writes a LOG OF WHAT ACTUALLY HAPPENED (C20O.c20_gevent):
     packets     every packet the script sent on a connection the broker was reading (type, QoS, size as encoded by the
                 harness; CONNECT: size computed here from the MQTT encoding rules) and every packet the script
                 received (type, QoS, wire size); PINGREQ/PINGRESP are left out (the runner removes them from the
                 statistics because of its barrier pings)
     lifecycle   from the hook log of record mode (on_session_created / on_session_resumed / on_closed /
                 on_session_terminated), read at the (inspect) that follows every step, cross-checked against the
                 broker's own online / offline tables printed by (inspect)
     drops       from the hook log (on_msg_dropped: client, QoS of the dropped message, reason)
     queues      per session: in flight = PUBLISH packets with QoS>0 received by the client and not completed by its
                 PUBACK / PUBCOMP / (v5) PUBREC>=0x80 (nor dropped as expired in-flight); queued-not-sent = copies
                 routed to the session (plain subscriptions as printed by the previous (inspect), MQTT 4.7 matching by
                 the Coq `topic_match`, delivery mode, NoLocal, queue_qos0) minus what was sent, minus what was dropped.
                 Whenever the packets later contradict this prediction (more delivered than predicted, or a message held
                 back although the window has room) the scenario is declared outside the family (class oof_...).
   At every (inspect) two things are compared with the implementation's statistics:
     (a) correspondence  sts_run (flat_map c20_calls log) - the Coq model of stats.go as the code is (/repo af01428) - must
                 equal the implementation on EVERY field (global, connection, every client id).
     (b) property  c20_truth log must equal the implementation: per client and packet type packets/bytes both ways, per
                 QoS received / sent / dropped per reason, queued / in-flight gauges, connection counters and session
                 gauges (ActiveCurrent = number of online sessions printed by inspect, InactiveCurrent = offline),
                 global = sum over live sessions + final values of ended ones (gauges: live only), no gauge >= 2^63.
   The five deviations this oracle used to report under known-finding names (kf_client_qos_counters, kf_bytes_auth_copy,
   kf_global_inflight_add1, kf_gauge_leak_on_terminate, kf_over_quota_publish_uncounted) were repaired in /repo (8f7d148
   340ed8d 0565bc2 0045008 af01428; witnesses in corpus/C20/fixed.sx): every difference is a plain failure now.  The
   classification machinery stays (C20O.c20_class maps a differing field to a name; today always C20KfNone).
   Conventions (stated, not guessed): an acknowledgement of any kind that carries the id of an in-flight message ends
   it (PUBACK, PUBCOMP, v5 PUBREC >= 0x80), whatever the QoS of the message (class flag K when the kind was not the one
   the QoS calls for); the per-client statistics cover the client's current session (entries of ended sessions are
   gone).
   Class field: <in|oof_reason|fail|kf names>,<flags>: Q QoS>0 traffic, Df/De/Di/Dx a message dropped as queue full /
   expired / in-flight expired / exceeding the Maximum Packet Size, O message queued for an offline session, F some
   message in flight at an (inspect), T take-over, R session resumed, E session expired, N normal termination,
   V termination by a clean start, L a session ended while its queue was not empty (its share must leave the global
   gauges), W (unused since the repairs: a wrapped gauge is a failure), B a batch of >= 2 messages became in flight in one step, A AUTH sent, K acknowledgement of a kind
   other than the one the QoS calls for, S skipped (rx K) step, M acknowledgement of an id that is not in flight,
   H messages held back by a full window, G statistics entry without session, U PUBLISH over the receive quota,
   X packets written on a connection the broker had ended, I number of (inspect) comparisons / 10.
   Every (inspect) of an in-family scenario compares ALL observable fields (global, connection, every client id).
   Outside the family (verdict true, class oof_<reason>, explanation says at which step): see harness/w_c20.go; also a
   full queue whose overflow is resolved without any drop record, or the full queue of an online session that holds a
   PUBREL entry, or whose window was opened by the eviction of an in-flight entry (the broker silently discards an
   expired PUBREL entry - no hook, no counter - and reads the queue in the middle of the step), wills, shared subscriptions, retained or aliased publishes, failed CONNECTs.
   C20_SKIP_CORRESPONDENCE=1 in the environment disables part (a) (used to mutation-test part (b) alone). *)
module SM = Model              (* Model/Stats.v + Oracle/C20O.v are part of the merged extraction (items listed in coq/extract/ExtractStats.v) *)
open Conv

exception Oof of string
exception Viol of string

(* ---- conversions for the extracted numbers ---- *)
let rec sm_pos i : SM.positive = if i <= 1 then SM.XH else if i land 1 = 0 then SM.XO (sm_pos (i lsr 1)) else SM.XI (sm_pos (i lsr 1))
let sm_n i : SM.n = if i <= 0 then SM.N0 else SM.Npos (sm_pos i)
let sm_z i : SM.z = if i = 0 then SM.Z0 else if i > 0 then SM.Zpos (sm_pos i) else SM.Zneg (sm_pos (- i))
let rec sm_p64 = function SM.XH -> 1L | SM.XO p -> Int64.shift_left (sm_p64 p) 1 | SM.XI p -> Int64.logor (Int64.shift_left (sm_p64 p) 1) 1L
let sm_u64 = function SM.N0 -> 0L | SM.Npos p -> sm_p64 p
let sm_int (x : SM.n) = Int64.to_int (sm_u64 x)
let sm_str (x : SM.n) = Printf.sprintf "%Lu" (sm_u64 x)
let sm_n_of_u64s (s : string) : SM.n =
  let x = try Int64.of_string ("0u" ^ s) with _ -> raise (Oof "stat_value") in
  let rec pos (x : int64) : SM.positive =
    let hi = Int64.shift_right_logical x 1 and bit = Int64.logand x 1L in
    if hi = 0L then SM.XH else if bit = 0L then SM.XO (pos hi) else SM.XI (pos hi) in
  if x = 0L then SM.N0 else SM.Npos (pos x)
let sm_signed (x : SM.n) : int64 = sm_u64 x   (* two's complement reading *)

(* ---- field names as printed by the runner ---- *)
let ptype_name = function
  | SM.StsAuth -> "Auth" | SM.StsConnect -> "Connect" | SM.StsConnack -> "Connack" | SM.StsDisconnect -> "Disconnect"
  | SM.StsPingreq -> "Pingreq" | SM.StsPingresp -> "Pingresp" | SM.StsPuback -> "Puback" | SM.StsPubcomp -> "Pubcomp"
  | SM.StsPublish -> "Publish" | SM.StsPubrec -> "Pubrec" | SM.StsPubrel -> "Pubrel" | SM.StsSuback -> "Suback"
  | SM.StsSubscribe -> "Subscribe" | SM.StsUnsuback -> "Unsuback" | SM.StsUnsubscribe -> "Unsubscribe"
let qos_name = function SM.StsQ0 -> "Qos0" | SM.StsQ1 -> "Qos1" | SM.StsQ2 -> "Qos2"
let dropk_name = function
  | SM.StsDkInternal -> "Internal" | SM.StsDkExceeds -> "ExceedsMaxPacketSize" | SM.StsDkFull -> "QueueFull"
  | SM.StsDkExpired -> "Expired" | SM.StsDkInflightExpired -> "InflightExpired"
let ctr_name = function
  | SM.StsBytes (SM.StsRx, t) -> "PacketStats.BytesReceived." ^ ptype_name t
  | SM.StsBytes (SM.StsTx, t) -> "PacketStats.BytesSent." ^ ptype_name t
  | SM.StsBytesTotal SM.StsRx -> "PacketStats.BytesReceived.Total"
  | SM.StsBytesTotal SM.StsTx -> "PacketStats.BytesSent.Total"
  | SM.StsCount (SM.StsRx, t) -> "PacketStats.ReceivedTotal." ^ ptype_name t
  | SM.StsCount (SM.StsTx, t) -> "PacketStats.SentTotal." ^ ptype_name t
  | SM.StsCountTotal SM.StsRx -> "PacketStats.ReceivedTotal.Total"
  | SM.StsCountTotal SM.StsTx -> "PacketStats.SentTotal.Total"
  | SM.StsMsgRecv q -> "MessageStats." ^ qos_name q ^ ".ReceivedTotal"
  | SM.StsMsgSent q -> "MessageStats." ^ qos_name q ^ ".SentTotal"
  | SM.StsDropped (q, k) -> "MessageStats." ^ qos_name q ^ ".DroppedTotal." ^ dropk_name k
  | SM.StsInflight -> "MessageStats.InflightCurrent"
  | SM.StsQueued -> "MessageStats.QueuedCurrent"
let cctr_name = function
  | SM.StsConnectedTotal -> "ConnectionStats.ConnectedTotal" | SM.StsDisconnectedTotal -> "ConnectionStats.DisconnectedTotal"
  | SM.StsCreatedTotal -> "ConnectionStats.SessionCreatedTotal" | SM.StsTermTakenOver -> "ConnectionStats.SessionTerminated.TakenOver"
  | SM.StsTermExpired -> "ConnectionStats.SessionTerminated.Expired" | SM.StsTermNormal -> "ConnectionStats.SessionTerminated.Normal"
  | SM.StsActive -> "ConnectionStats.ActiveCurrent" | SM.StsInactive -> "ConnectionStats.InactiveCurrent"

let qos_of_int = function 0 -> SM.StsQ0 | 1 -> SM.StsQ1 | 2 -> SM.StsQ2 | _ -> raise (Oof "qos")
let ptype_of_head = function
  | "auth" -> SM.StsAuth | "connect" -> SM.StsConnect | "connack" -> SM.StsConnack | "disconnect" -> SM.StsDisconnect
  | "pingreq" -> SM.StsPingreq | "pingresp" -> SM.StsPingresp | "puback" -> SM.StsPuback | "pubcomp" -> SM.StsPubcomp
  | "publish" -> SM.StsPublish | "pubrec" -> SM.StsPubrec | "pubrel" -> SM.StsPubrel | "suback" -> SM.StsSuback
  | "subscribe" -> SM.StsSubscribe | "unsuback" -> SM.StsUnsuback | "unsubscribe" -> SM.StsUnsubscribe
  | _ -> raise (Oof "packet_kind")

(* ---- small helpers ---- *)
let a = function Sexp.A s -> s | Sexp.L _ -> raise (Oof "atom")
let int_a x = try int_of_string (a x) with Failure _ -> raise (Oof "int")
let str_of_atom x =
  let l = try bytes_of_atom x with _ -> raise (Oof "bytes") in
  let b = Buffer.create 16 in List.iter (fun c -> Buffer.add_char b (Char.chr (int_of_n c))) l; Buffer.contents b
let hexlen x = (String.length x - 1) / 2            (* length in bytes of an xHEX atom *)
let pname = S_wire.prop_name
let props_of = function Sexp.L (Sexp.A "props" :: ps) -> ps | _ -> raise (Oof "props")
let head = function Sexp.L (Sexp.A h :: _) -> h | _ -> raise (Oof "packet")

(* size of a CONNECT packet (MQTT 3.1 / 3.1.1 / 5 encoding rules); wills are outside the family *)
let varint_len n = if n < 128 then 1 else if n < 16384 then 2 else if n < 2097152 then 3 else 4
let connect_size ver (x : Sexp.t) =
  let f1 k = match Sexp.field_opt k x with Some [Sexp.A v] -> Some v | Some _ -> raise (Oof ("connect_" ^ k)) | None -> None in
  let prop_size p = match p with
    | Sexp.L [Sexp.A ("sei" | "maxpkt"); _] -> 5
    | Sexp.L [Sexp.A ("recvmax" | "aliasmax"); _] -> 3
    | Sexp.L [Sexp.A ("reqprob" | "reqresp"); _] -> 2
    | Sexp.L [Sexp.A "user"; Sexp.A k; Sexp.A v] -> 1 + 2 + hexlen k + 2 + hexlen v
    | Sexp.L [Sexp.A ("authmethod" | "authdata"); Sexp.A v] -> 1 + 2 + hexlen v
    | _ -> raise (Oof ("connect_prop_" ^ pname p)) in
  let name = if ver = 3 then 6 else 4 in
  let props = if ver = 5 then (let l = List.fold_left (fun s p -> s + prop_size p) 0 (Sexp.field "props" x) in varint_len l + l) else 0 in
  let cid = match f1 "cid" with Some c -> 2 + hexlen c | None -> raise (Oof "connect_cid") in
  let opt k = match f1 k with Some v -> 2 + hexlen v | None -> 0 in
  let rem = 2 + name + 1 + 1 + 2 + props + cid + opt "user" + opt "pass" in
  1 + varint_len rem + rem

type osess = {
  cid : string; idx : int;
  mutable live : bool; mutable online : bool;
  mutable outst : (int * int * string) list;      (* in flight: packet id, QoS, payload *)
  mutable pending : int;                          (* queued, not sent *)
  mutable q2 : int list;                          (* QoS 2 ids received from the client and not released *)
  mutable limit : int; mutable cur : int option;
  mutable was_open : bool;                        (* at the start of the step: online and the window has room *)
  mutable recs : int list;                        (* in-flight ids answered by PUBREC: the queue holds a PUBREL entry *)
  mutable full_try : bool;                        (* this step tried to add to the full queue of the (online) session *)
  mutable flowed : int;                           (* first transmissions to the session in this step *)
}
type osock = { label : int; s_cid : string; ver : int; mutable alive : bool; mutable sent_disc : bool }
type drop = { d_cid : string; d_qos : int; d_payload : string; d_kind : SM.sts_dropk; mutable used : bool }

type cov = { mutable qos12 : bool; mutable d_full : bool; mutable d_exp : bool; mutable d_iexp : bool; mutable d_exc : bool;
             mutable offq : bool; mutable infl : bool; mutable takeover : bool; mutable resume : bool; mutable expired : bool;
             mutable normal : bool; mutable tko : bool; mutable leak : bool; mutable wrap : bool; mutable batch : bool; mutable auth : bool;
             mutable wrongkind : bool; mutable skipped : int; mutable ackmiss : bool; mutable inspects : int; mutable npk : int;
             mutable blocked : bool; mutable ghost : bool; mutable quota : bool; mutable dead : bool }

let last_cls = ref ""

let oracle : S_wire.oracle_fn = fun cfg hooks steps _obs raw ->
  let k = { qos12 = false; d_full = false; d_exp = false; d_iexp = false; d_exc = false; offq = false; infl = false; takeover = false;
            resume = false; expired = false; normal = false; tko = false; leak = false; wrap = false; batch = false; auth = false;
            wrongkind = false; skipped = 0; ackmiss = false; inspects = 0; npk = 0; blocked = false; ghost = false; quota = false; dead = false } in
  let b x = if x then "1" else "0" in
  let set_cls tag =
    last_cls := Printf.sprintf "%s,Q%s,Df%s,De%s,Di%s,Dx%s,O%s,F%s,T%s,R%s,E%s,N%s,V%s,L%s,W%s,B%s,A%s,K%s,S%s,M%s,H%s,G%s,U%s,X%s,I%d" tag
        (b k.qos12) (b k.d_full) (b k.d_exp) (b k.d_iexp) (b k.d_exc) (b k.offq) (b k.infl) (b k.takeover) (b k.resume) (b k.expired)
        (b k.normal) (b k.tko) (b k.leak) (b k.wrap) (b k.batch) (b k.auth) (b k.wrongkind) (b (k.skipped > 0)) (b k.ackmiss) (b k.blocked)
        (b k.ghost) (b k.quota) (b k.dead) (min 9 (k.inspects / 10)) in
  let step_no = ref 0 in
  let kfs : (string, string) Hashtbl.t = Hashtbl.create 4 in       (* kf name -> first explanation *)
  try
    ignore hooks;
    let max_inflight = int_of_n cfg.Model.c_max_inflight and max_queued = int_of_nat cfg.Model.c_max_queued in
    if max_inflight < 1 || max_queued < 1 then raise (Oof "cfg");
    if int_of_n cfg.Model.c_max_qos <> 2 then raise (Oof "cfg_max_qos");
    if int_of_n cfg.Model.c_max_packet < 100000 then raise (Oof "cfg_max_packet");
    let steps_a = Array.of_list steps and raw_a = Array.of_list raw in
    let n = min (Array.length steps_a) (Array.length raw_a) in
    let entries i = match raw_a.(i) with Sexp.L (Sexp.A "s" :: es) -> es | _ -> [] in
    let sessions : (string, osess) Hashtbl.t = Hashtbl.create 8 in
    let socks : (int, osock) Hashtbl.t = Hashtbl.create 8 in
    let ncid = ref 0 in
    let sess_of cid = match Hashtbl.find_opt sessions cid with
      | Some s -> s
      | None -> incr ncid;
        let s = { cid; idx = !ncid; live = false; online = false; outst = []; pending = 0; q2 = []; limit = max_inflight; cur = None; was_open = false; recs = []; full_try = false; flowed = 0 } in
        Hashtbl.replace sessions cid s; s in
    let log = ref [] in                                      (* newest first *)
    let emit e = log := e :: !log in
    let emit_infl c kk =                                     (* the messages of one step that became in flight: one batch *)
      if kk > 0 then begin
        log := SM.C20Inflight (sm_n c, sm_z kk) :: !log;
        if kk > 1 then k.batch <- true
      end in
    let viol fmt = Printf.ksprintf (fun s -> raise (Viol (Printf.sprintf "step %d: %s" !step_no s))) fmt in
    let last_subs : (string * Model.n list * int * bool) list ref = ref [] in      (* cid, filter, qos, nolocal *)
    let calls_seen = ref 0 in
    let inspect_of i =
      if i >= n then raise (Oof "no_inspect_after_step");
      match List.find_opt (fun e -> match e with Sexp.L (Sexp.A "inspect" :: _) -> true | _ -> false) (entries i) with
      | Some x -> x | None -> raise (Oof "no_inspect_after_step") in
    let drop_kind txt = match txt with
      | "maximum packet size exceeded" -> SM.StsDkExceeds | "the message queue is full" -> SM.StsDkFull
      | "the message is expired" -> SM.StsDkExpired | "the inflight message is expired" -> SM.StsDkInflightExpired
      | _ -> SM.StsDkInternal in
    (* packets the script received in step i: (label, [(pkt, size)]) *)
    let rx_of i =
      List.filter_map (fun e -> match e with
          | Sexp.L (Sexp.A c :: Sexp.L (Sexp.A "pkts" :: ps) :: Sexp.L [Sexp.A "open"; _] :: rest) when c <> "sent" && c <> "inspect" ->
            let sz = match rest with [Sexp.L (Sexp.A "sizes" :: zs)] -> List.map int_a zs | _ -> raise (Oof "no_sizes") in
            if List.length sz <> List.length ps then raise (Oof "sizes_mismatch");
            Some (int_of_string c, List.combine ps sz)
          | _ -> None) (entries i) in
    (* one packet written by the broker to socket `label` *)
    let newinfl : (int, int) Hashtbl.t = Hashtbl.create 4 in
    let on_tx label (pkt, size) =
      let sk = match Hashtbl.find_opt socks label with Some sk -> sk | None -> raise (Oof "packet_on_unknown_socket") in
      let se = sess_of sk.s_cid in
      let h = head pkt in
      if h = "undecodable" then raise (Oof "undecodable");
      if h <> "pingresp" then begin
        let q = match pkt with Sexp.L (Sexp.A "publish" :: _ :: q :: _) -> int_a q | _ -> 0 in
        k.npk <- k.npk + 1;
        emit (SM.C20Sent (sm_n se.idx, ptype_of_head h, qos_of_int q, sm_n size));
        (match pkt with
         | Sexp.L [Sexp.A "publish"; Sexp.A dup; Sexp.A qos; _; _; Sexp.A payload; Sexp.A pid; _] ->
           let qos = int_of_string qos and pid = int_of_string pid in
           if se.cur <> Some label then raise (Oof "publish_on_old_socket");
           if dup <> "0" then begin
             if not (List.exists (fun (p, _, _) -> p = pid) se.outst) then raise (Oof "dup_of_unknown_id")
           end else begin
             se.pending <- se.pending - 1; se.flowed <- se.flowed + 1;
             if se.pending < 0 then raise (Oof "unpredicted_delivery");
             if qos = 0 then emit (SM.C20Queue (sm_n se.idx, sm_z (-1)))
             else begin
               k.qos12 <- true;
               if List.exists (fun (p, _, _) -> p = pid) se.outst then raise (Oof "id_reused");
               se.outst <- se.outst @ [(pid, qos, payload)];
               Hashtbl.replace newinfl se.idx ((try Hashtbl.find newinfl se.idx with Not_found -> 0) + 1)
             end
           end
         | _ -> ())
      end in
    let flush_infl () =
      let l = Hashtbl.fold (fun c kk acc -> (c, kk) :: acc) newinfl [] in
      Hashtbl.reset newinfl;
      List.iter (fun (c, kk) -> emit_infl c kk) (List.sort compare l) in
    (* copies of a message routed to the live sessions *)
    let route ~from_cid (drops : drop list) topic_atom pubqos =
      let topic = try bytes_of_atom topic_atom with _ -> raise (Oof "topic") in
      let ts = str_of_atom topic_atom in
      if ts = "" || String.contains ts '+' || String.contains ts '#' || ts.[0] = '$' then raise (Oof "topic_name");
      let ss = Hashtbl.fold (fun _ se acc -> se :: acc) sessions [] in
      List.iter (fun se ->
          if se.live then begin
            let ms = List.filter (fun (c, f, _, nl) -> c = se.cid && Model.topic_match topic f && not (nl && from_cid = Some se.cid)) !last_subs in
            let skip0 = (not cfg.Model.c_queue_qos0) && pubqos = 0 && not se.online in
            let copies =
              if ms = [] || skip0 then []
              else if cfg.Model.c_onlyonce then [min pubqos (List.fold_left (fun m (_, _, q, _) -> max m q) 0 ms)]
              else List.map (fun (_, _, q, _) -> min pubqos q) ms in
            List.iter (fun _q ->
                let len = List.length se.outst + se.pending in
                if len >= max_queued then begin
                  if se.was_open then raise (Oof "full_while_window_open");
                  (* an expired PUBREL entry is discarded silently (no hook, no counter) and frees the window *)
                  if se.online then begin se.full_try <- true; if se.recs <> [] then raise (Oof "full_queue_with_pubrel_entry") end;
                  match List.find_opt (fun d -> not d.used && d.d_cid = se.cid &&
                                                (d.d_kind = SM.StsDkFull || d.d_kind = SM.StsDkExpired || d.d_kind = SM.StsDkInflightExpired)) drops with
                  | None -> raise (Oof "full_queue_without_drop")
                  | Some d ->
                    d.used <- true;
                    if d.d_kind = SM.StsDkInflightExpired then begin
                      (match List.find_opt (fun (_, _, p) -> p = d.d_payload) se.outst with
                       | None -> raise (Oof "inflight_drop_of_unknown_message")
                       | Some ((p, _, _) as e) -> se.outst <- List.filter (fun e' -> e' != e) se.outst; se.recs <- List.filter (fun x -> x <> p) se.recs);
                      se.pending <- se.pending + 1;
                      emit (SM.C20Inflight (sm_n se.idx, sm_z (-1)))
                    end;
                    emit (SM.C20Dropped (sm_n se.idx, qos_of_int d.d_qos, d.d_kind))
                end else begin
                  se.pending <- se.pending + 1;
                  if not se.online then k.offq <- true;
                  emit (SM.C20Queue (sm_n se.idx, sm_z 1))
                end) copies
          end) (List.sort (fun x y -> compare x.idx y.idx) ss) in
    (* messages dropped while the queue was read: whatever the hook log shows beyond the full-queue drops *)
    let read_drops (drops : drop list) =
      List.iter (fun d ->
          if not d.used then begin
            d.used <- true;
            let se = sess_of d.d_cid in
            (match d.d_kind with
             | SM.StsDkExpired | SM.StsDkExceeds -> ()
             | SM.StsDkFull | SM.StsDkInflightExpired -> raise (Oof "drop_without_full_queue")
             | SM.StsDkInternal -> raise (Oof "internal_drop"));
            if not se.live then raise (Oof "drop_for_dead_session");
            se.pending <- se.pending - 1;
            if se.pending < 0 then raise (Oof "unpredicted_drop");
            emit (SM.C20Queue (sm_n se.idx, sm_z (-1)));
            emit (SM.C20Dropped (sm_n se.idx, qos_of_int d.d_qos, d.d_kind))
          end) drops in
    (* session life-cycle events of the step, in hook order *)
    let end_state se = se.live <- false; se.online <- false; se.outst <- []; se.pending <- 0; se.q2 <- []; se.recs <- [] in
    let rec life (l : (string * string * int) list) =
      match l with
      | [] -> ()
      | ("closed", cid, _) :: rest ->
        let se = sess_of cid in
        if not se.online then raise (Oof "closed_but_not_online");
        let rec scan acc = function
          | ("terminated", c, 0) :: r when c = cid -> Some (List.rev_append acc r)
          | (("created" | "resumed" | "closed"), c, _) :: _ when c = cid -> None
          | x :: r -> scan (x :: acc) r
          | [] -> None in
        (match se.cur with Some lb -> (match Hashtbl.find_opt socks lb with Some sk -> sk.alive <- false | None -> ()) | None -> ());
        (match scan [] rest with
         | Some rest' ->
           if se.pending > 0 || se.outst <> [] then k.leak <- true;
           k.normal <- true; end_state se; emit (SM.C20Disconnected (sm_n se.idx, false)); life rest'
         | None -> se.online <- false; emit (SM.C20Disconnected (sm_n se.idx, true)); life rest)
      | ("terminated", cid, r) :: rest ->
        let se = sess_of cid in
        if not se.live || se.online then raise (Oof "terminated_but_not_offline");
        if se.pending > 0 || se.outst <> [] then k.leak <- true;
        let reason = match r with 0 -> k.normal <- true; SM.StsRNormal | 1 -> k.tko <- true; SM.StsRTakenOver
                                  | 2 -> k.expired <- true; SM.StsRExpired | _ -> raise (Oof "reason") in
        end_state se; emit (SM.C20Ended (sm_n se.idx, reason)); life rest
      | ("created", cid, _) :: rest ->
        let se = sess_of cid in
        if se.live then raise (Oof "created_over_live_session");
        end_state se; se.live <- true; se.online <- true; emit (SM.C20Connected (sm_n se.idx, true)); life rest
      | ("resumed", cid, _) :: rest ->
        let se = sess_of cid in
        if not se.live || se.online then raise (Oof "resumed_but_not_offline");
        se.online <- true; k.resume <- true; emit (SM.C20Connected (sm_n se.idx, false)); life rest
      | _ :: rest -> life rest in
    (* ---- comparison at an (inspect) ---- *)
    let view_of_stats (l : Sexp.t list) : (string, SM.n) Hashtbl.t =
      let t = Hashtbl.create 128 in
      List.iter (fun e -> match e with Sexp.L [Sexp.A nm; Sexp.A v] -> Hashtbl.replace t nm (sm_n_of_u64s v) | _ -> raise (Oof "stats_entry")) l; t in
    let vec_of t : SM.sts_vec = fun c -> (try Hashtbl.find t (ctr_name c) with Not_found -> SM.N0) in
    let cvec_of t : SM.sts_cvec = fun c -> (try Hashtbl.find t (cctr_name c) with Not_found -> SM.N0) in
    let check_inspect insp =
      k.inspects <- k.inspects + 1;
      let x = Sexp.L (match insp with Sexp.L (_ :: r) -> r | _ -> []) in
      (* the broker's own session tables against the life-cycle derived from the hooks *)
      let names key = List.sort compare (List.map a (Sexp.field key x)) in
      let mine p = List.sort compare (Hashtbl.fold (fun _ se acc -> if p se then se.cid :: acc else acc) sessions []) in
      if names "online" <> mine (fun se -> se.live && se.online) || names "offline" <> mine (fun se -> se.live && not se.online) then raise (Oof "lifecycle_tracking");
      let g = view_of_stats (Sexp.field "gstats" x) in
      let cl = List.filter_map (fun e -> match e with
          | Sexp.L [Sexp.A cid; Sexp.A "none"] -> ignore (sess_of cid); None
          | Sexp.L (Sexp.A cid :: l) -> Some (sm_n (sess_of cid).idx, vec_of (view_of_stats l))
          | _ -> raise (Oof "cstats")) (Sexp.field "cstats" x) in
      let impl = { SM.stv_glob = vec_of g; stv_conn = cvec_of g; stv_clients = cl } in
      let l = List.rev !log in
      let truth = SM.c20_truth l in
      let model = SM.c20_model l in
      let cids = List.sort compare (Hashtbl.fold (fun _ se acc -> se :: acc) sessions []) in
      let scope_name = function None -> "global" | Some (se : osess) -> "client " ^ str_of_atom se.cid in
      (* (a) correspondence with the model of stats.go *)
      let model_diff = ref [] in
      let cmp_vec sc (iv : SM.sts_vec) (mv : SM.sts_vec) =
        List.iter (fun c ->
            let i = iv c and m = mv c in
            if i <> m then
              model_diff := Printf.sprintf "%s %s: implementation %s, stats model %s" (scope_name sc) (ctr_name c) (sm_str i) (sm_str m) :: !model_diff) SM.c20_obs_ctrs in
      cmp_vec None impl.SM.stv_glob model.SM.stv_glob;
      List.iter (fun c -> if impl.SM.stv_conn c <> model.SM.stv_conn c then
                    model_diff := Printf.sprintf "%s: implementation %s, stats model %s" (cctr_name c) (sm_str (impl.SM.stv_conn c)) (sm_str (model.SM.stv_conn c)) :: !model_diff) SM.sts_all_cctrs;
      List.iter (fun se ->
          let c = sm_n se.idx in
          match SM.sts_get c impl.SM.stv_clients, SM.sts_get c model.SM.stv_clients with
          | None, None -> ()
          | Some iv, Some mv -> cmp_vec (Some se) iv mv
          | Some _, None -> model_diff := Printf.sprintf "%s: the implementation has an entry, the stats model none" (scope_name (Some se)) :: !model_diff
          | None, Some _ -> model_diff := Printf.sprintf "%s: the implementation has no entry, the stats model has" (scope_name (Some se)) :: !model_diff) cids;
      (match List.rev !model_diff with
       | [] -> ()
       | _ when Sys.getenv_opt "C20_SKIP_CORRESPONDENCE" <> None -> ()      (* diagnosis / mutation tests of part (b) alone *)
       | d :: _ ->
         if Sys.getenv_opt "C20_DEBUG" <> None then List.iter prerr_endline (List.rev !model_diff);
         viol "correspondence: %s (%d fields differ)" d (List.length !model_diff));
      (* (b) the property: implementation against the ground truth *)
      let found name why = if not (Hashtbl.mem kfs name) then Hashtbl.replace kfs name (Printf.sprintf "step %d: %s" !step_no why) in
      let diff_vec sc (iv : SM.sts_vec) (tv : SM.sts_vec) =
        List.iter (fun c ->
            let i = iv c and t = tv c in
            let what = Printf.sprintf "%s %s: statistics say %s, actually %s" (scope_name sc) (ctr_name c) (sm_str i) (sm_str t) in
            let scope_n = match sc with None -> None | Some se -> Some (sm_n se.idx) in
            match SM.c20_class scope_n c with
            | SM.C20KfOpen id -> found (Printf.sprintf "kf_c20_%d" (sm_int id)) what
            | SM.C20KfNone ->
              viol "clause %s: %s" (match c with SM.StsInflight | SM.StsQueued -> "gauges" | SM.StsMsgRecv _ | SM.StsMsgSent _ | SM.StsDropped _ -> "messages" | _ -> "packets") what)
          (SM.c20_vec_diff iv tv) in
      diff_vec None impl.SM.stv_glob truth.SM.stv_glob;
      List.iter (fun c -> viol "clause sessions: %s: statistics say %s, actually %s" (cctr_name c) (sm_str (impl.SM.stv_conn c)) (sm_str (truth.SM.stv_conn c)))
        (SM.c20_cvec_diff impl.SM.stv_conn truth.SM.stv_conn);
      List.iter (fun se ->
          let c = sm_n se.idx in
          match SM.sts_get c impl.SM.stv_clients, SM.sts_get c truth.SM.stv_clients with
          | None, None -> ()
          | Some iv, Some tv -> diff_vec (Some se) iv tv
          | Some _, None -> k.ghost <- true; viol "clause per-client: %s has statistics but no session (and exchanged nothing since its session ended)" (scope_name (Some se))
          | None, Some _ -> viol "clause per-client: %s has no statistics although packets were exchanged in its session" (scope_name (Some se))) cids;
      (* no gauge wraps below zero *)
      let wrapped (v : SM.n) = Int64.compare (sm_signed v) 0L < 0 in
      if wrapped (impl.SM.stv_glob SM.StsInflight) || wrapped (impl.SM.stv_glob SM.StsQueued) || wrapped (impl.SM.stv_conn SM.StsActive) || wrapped (impl.SM.stv_conn SM.StsInactive)
         || List.exists (fun (_, v) -> wrapped (v SM.StsInflight) || wrapped (v SM.StsQueued)) impl.SM.stv_clients then
        viol "clause no-wrap: a gauge wrapped below zero";
      if List.exists (fun se -> se.outst <> []) cids then k.infl <- true;
      (* subscriptions for the routing of the next step *)
      last_subs := List.map (fun e -> match e with
          | Sexp.L [Sexp.A cid; Sexp.L [Sexp.A "s"; Sexp.A share; Sexp.A f; _; q; nl; _; _]] ->
            if share <> "x" then raise (Oof "shared_subscription");
            (cid, (try bytes_of_atom f with _ -> raise (Oof "filter")), int_a q, a nl <> "0")
          | _ -> raise (Oof "subs")) (Sexp.field "subs" x) in
    (* ---- the steps ---- *)
    let i = ref 0 in
    while !i < n do
      step_no := !i;
      let es = entries !i in
      if List.exists (fun e -> match e with Sexp.L [Sexp.A ("hang" | "aborted")] -> true | Sexp.L (Sexp.A "harness_panic" :: _) -> true | _ -> false) es then raise (Oof "hang");
      (match steps_a.(!i) with
       | Sexp.L [Sexp.A "inspect"] -> check_inspect (inspect_of !i)
       | step ->
         (* the hook calls of this step: those the next inspect shows beyond the ones seen so far *)
         let insp = inspect_of (!i + 1) in
         (match steps_a.(!i + 1) with Sexp.L [Sexp.A "inspect"] -> () | _ -> raise (Oof "no_inspect_after_step"));
         let calls = match Sexp.field_opt "calls" (Sexp.L (match insp with Sexp.L (_ :: r) -> r | _ -> [])) with Some l -> l | None -> raise (Oof "no_hook_log") in
         let fresh = List.filteri (fun j _ -> j >= !calls_seen) calls in
         calls_seen := List.length calls;
         let lifecycle = List.filter_map (fun e -> match e with
             | Sexp.L [Sexp.A "on_session_created"; Sexp.A c] -> Some ("created", c, 0)
             | Sexp.L [Sexp.A "on_session_resumed"; Sexp.A c] -> Some ("resumed", c, 0)
             | Sexp.L [Sexp.A "on_session_terminated"; Sexp.A c; r] -> Some ("terminated", c, int_a r)
             | Sexp.L (Sexp.A "on_closed" :: Sexp.A c :: _) -> Some ("closed", c, 0)
             | _ -> None) fresh in
         let drops = List.filter_map (fun e -> match e with
             | Sexp.L [Sexp.A "on_msg_dropped"; Sexp.A c; Sexp.L (Sexp.A "m" :: _ :: q :: _ :: _ :: Sexp.A p :: _); err] ->
               let kind = (match err with Sexp.A "nil" -> SM.StsDkInternal | Sexp.A t -> drop_kind (str_of_atom t) | _ -> SM.StsDkInternal) in
               (match kind with SM.StsDkFull -> k.d_full <- true | SM.StsDkExpired -> k.d_exp <- true | SM.StsDkInflightExpired -> k.d_iexp <- true
                              | SM.StsDkExceeds -> k.d_exc <- true | SM.StsDkInternal -> ());
               Some { d_cid = c; d_qos = int_a q; d_payload = p; d_kind = kind; used = false }
             | Sexp.L (Sexp.A "on_msg_dropped" :: _) -> raise (Oof "drop_record")
             | _ -> None) fresh in
         if List.exists (fun e -> match e with Sexp.L (Sexp.A ("on_will_publish" | "on_will_published") :: _) -> true | _ -> false) fresh then raise (Oof "will");
         let rx = rx_of !i in
         Hashtbl.iter (fun _ se -> se.was_open <- se.live && se.online && List.length se.outst < se.limit; se.full_try <- false; se.flowed <- 0) sessions;
         (* a socket on which DISCONNECT was sent must be closed next *)
         Hashtbl.iter (fun _ sk -> if sk.alive && sk.sent_disc then
                          (match step with Sexp.L [Sexp.A "close"; c] when int_a c = sk.label -> () | _ -> raise (Oof "after_disconnect"))) socks;
         let finish () =
           (* a blocked session whose full queue was added to: if the eviction hit an in-flight entry the window opened and the
              queue was read in the middle of the step - the order of additions and reads is then not observable *)
           Hashtbl.iter (fun _ se -> if se.full_try && (se.flowed > 0 || List.exists (fun d -> d.d_cid = se.cid && d.d_kind = SM.StsDkInflightExpired) drops)
                          then raise (Oof "window_opened_by_eviction")) sessions;
           flush_infl (); read_drops drops;
           if List.exists (fun d -> not d.used) drops then raise (Oof "unexplained_drop") in
         (match step with
          | Sexp.L (Sexp.A "connect" :: c :: ver :: rest) ->
            let c = int_a c and ver = int_a ver and x = Sexp.L rest in
            if ver < 3 || ver > 5 then raise (Oof "version");
            let cid = a (Sexp.field1 "cid" x) in
            if cid = "x" then raise (Oof "empty_cid");
            (match Sexp.field_opt "keepalive" x with Some [Sexp.A "0"] -> () | _ -> raise (Oof "keepalive"));
            List.iter (fun f -> if Sexp.field_opt f x <> None then raise (Oof ("connect_" ^ f))) ["will"; "connflags"];
            if ver < 5 && Sexp.field "props" x <> [] then raise (Oof "v3_props");
            let size = connect_size ver x in
            (match Hashtbl.find_opt socks c with Some sk when sk.alive -> raise (Oof "label_reused_while_open") | _ -> ());
            let se = sess_of cid in
            if se.online then k.takeover <- true;
            (* packets to other sockets (a take-over DISCONNECT) belong to the connection that ends *)
            List.iter (fun (lb, ps) -> if lb <> c then List.iter (on_tx lb) ps) rx;
            life lifecycle;
            let ack_ok = match List.assoc_opt c rx with
              | Some ((Sexp.L [Sexp.A "connack"; _; Sexp.A "0"; _], _) :: _) -> true | _ -> false in
            if not ack_ok || not (se.live && se.online) then raise (Oof "connect_failed");
            let prop nm = List.find_map (fun p -> match p with Sexp.L [Sexp.A n'; v] when n' = nm -> Some (int_a v) | _ -> None) (Sexp.field "props" x) in
            se.limit <- (match (if ver = 5 then prop "recvmax" else None) with Some 0 -> raise (Oof "recvmax0") | Some r -> min r max_inflight | None -> max_inflight);
            se.cur <- Some c;
            Hashtbl.replace socks c { label = c; s_cid = cid; ver; alive = true; sent_disc = false };
            k.npk <- k.npk + 1;
            emit (SM.C20Recv (sm_n se.idx, SM.StsConnect, SM.StsQ0, sm_n size));
            List.iter (fun (lb, ps) -> if lb = c then List.iter (on_tx lb) ps) rx;
            finish ()
          | Sexp.L [Sexp.A "send"; c; _] ->
            let c = int_a c in
            if List.exists (fun e -> e = Sexp.L [Sexp.A "skipped"]) es then begin
              k.skipped <- k.skipped + 1;
              List.iter (fun (lb, ps) -> List.iter (on_tx lb) ps) rx; finish (); life lifecycle
            end else begin
              let sk = match Hashtbl.find_opt socks c with Some sk -> sk | _ -> raise (Oof "send_on_unknown_socket") in
              if not sk.alive then begin
                (* the broker has ended this connection (on_closed was logged): what the script writes now is never read *)
                k.dead <- true;
                List.iter (fun (lb, ps) -> List.iter (on_tx lb) ps) rx; finish (); life lifecycle
              end else begin
              let se = sess_of sk.s_cid in
              if se.cur <> Some c then raise (Oof "send_on_old_socket");
              let (p, size) = match List.find_map (fun e -> match e with Sexp.L [Sexp.A "sent"; _; p; sz] -> Some (p, int_a sz) | _ -> None) es with
                | Some r -> r | None -> raise (Oof "no_sent_entry") in
              let h = head p in
              (* a PUBLISH answered by DISCONNECT 0x93: it exceeded the server's Receive Maximum *)
              let over_quota = h = "publish" && (match List.assoc_opt c rx with
                  | Some ps -> List.exists (fun (x, _) -> match x with Sexp.L [Sexp.A "disconnect"; Sexp.A "147"; _] -> true | _ -> false) ps
                  | None -> false) in
              if h <> "pingreq" then begin
                let q = match p with Sexp.L (Sexp.A "publish" :: _ :: q :: _) -> int_a q | _ -> 0 in
                k.npk <- k.npk + 1;
                if over_quota then begin k.quota <- true; emit (SM.C20RecvOverQuota (sm_n se.idx, qos_of_int q, sm_n size)) end
                else emit (SM.C20Recv (sm_n se.idx, ptype_of_head h, qos_of_int q, sm_n size))
              end;
              (match p with
               | Sexp.L (Sexp.A "publish" :: _) when over_quota -> ()      (* never handled: neither routed nor its id recorded *)
               | Sexp.L [Sexp.A "publish"; dup; qos; ret; topic; _; pid; props] ->
                 if a dup <> "0" || a ret <> "0" then raise (Oof "publish_flags");
                 List.iter (fun pr -> if not (List.mem (pname pr) ["msgexpiry"; "pfmt"; "ctype"; "resp"; "corr"; "user"]) then raise (Oof ("publish_prop_" ^ pname pr))) (props_of props);
                 let qos = int_a qos and pid = int_a pid in
                 if qos > 0 then k.qos12 <- true;
                 (match List.assoc_opt c rx with
                  | Some ps -> List.iter (fun (x, _) -> match x with
                      | Sexp.L (Sexp.A ("puback" | "pubrec") :: pid' :: code :: _) when int_a pid' = pid && int_a code >= 128 -> raise (Oof "publish_refused")
                      | Sexp.L (Sexp.A "disconnect" :: _) -> raise (Oof "publish_refused")
                      | _ -> ()) ps
                  | None -> ());
                 let dup2 = qos = 2 && List.mem pid se.q2 in
                 if qos = 2 && not dup2 then se.q2 <- pid :: se.q2;
                 if not dup2 then route ~from_cid:(Some se.cid) drops (a topic) qos
               | Sexp.L [Sexp.A "pubrel"; pid; _; _] -> se.q2 <- List.filter (fun x -> x <> int_a pid) se.q2
               | Sexp.L [Sexp.A kind; pid; code; _] when kind = "puback" || kind = "pubrec" || kind = "pubcomp" ->
                 let pid = int_a pid and code = if sk.ver = 5 then int_a code else 0 in
                 let completes = kind <> "pubrec" || code >= 128 in
                 (match List.find_opt (fun (p', _, _) -> p' = pid) se.outst with
                  | None -> k.ackmiss <- true
                  | Some ((_, q, _) as e) ->
                    if (kind = "puback") <> (q = 1) then k.wrongkind <- true;
                    if not completes && not (List.mem pid se.recs) then se.recs <- pid :: se.recs;
                    if completes then begin
                      se.outst <- List.filter (fun e' -> e' != e) se.outst; se.recs <- List.filter (fun x -> x <> pid) se.recs;
                      emit (SM.C20Queue (sm_n se.idx, sm_z (-1)));
                      emit (SM.C20Inflight (sm_n se.idx, sm_z (-1)))
                    end)
               | Sexp.L (Sexp.A ("subscribe" | "unsubscribe") :: _) -> ()
               | Sexp.L [Sexp.A "pingreq"] -> ()
               | Sexp.L [Sexp.A "disconnect"; _; _] -> sk.sent_disc <- true
               | Sexp.L [Sexp.A "auth"; _; _] -> k.auth <- true
               | _ -> raise (Oof "packet"));
              List.iter (fun (lb, ps) -> List.iter (on_tx lb) ps) rx;
              finish (); life lifecycle
              end
            end
          | Sexp.L [Sexp.A "api_publish"; Sexp.L [Sexp.A "m"; _; qos; ret; topic; _; _; _; _; _; _; _; _; _]] ->
            if a ret <> "0" then raise (Oof "api_retained");
            route ~from_cid:None drops (a topic) (int_a qos);
            List.iter (fun (lb, ps) -> List.iter (on_tx lb) ps) rx;
            finish (); life lifecycle
          | Sexp.L [Sexp.A ("close" | "terminate" | "advance" | "expire_check"); _] | Sexp.L [Sexp.A "expire_check"] ->
            List.iter (fun (lb, ps) -> List.iter (on_tx lb) ps) rx;
            finish (); life lifecycle
          | _ -> raise (Oof "step"));
         (* quiescent: nothing may be held back while the window has room (else the queue prediction is not reliable) *)
         Hashtbl.iter (fun _ se ->
             if se.live && se.online && se.pending > 0 then begin
               let blocked = List.length se.outst >= se.limit in
               let disc = match se.cur with Some lb -> (match Hashtbl.find_opt socks lb with Some sk -> sk.sent_disc | None -> false) | None -> false in
               if blocked then k.blocked <- true else if not disc then raise (Oof "held_back")
             end) sessions);
      incr i
    done;
    if Hashtbl.length kfs = 0 then begin set_cls "in"; (true, "-", "") end
    else begin
      let names = List.sort compare (Hashtbl.fold (fun nm _ acc -> nm :: acc) kfs []) in
      let kf = String.concat "+" names in
      set_cls kf;
      (false, kf, String.concat "; " (List.map (fun nm -> nm ^ ": " ^ Hashtbl.find kfs nm) names))
    end
  with
  | Oof w -> set_cls ("oof_" ^ w); (true, "-", Printf.sprintf "outside the family at step %d: %s" !step_no w)
  | Viol why -> set_cls "fail"; (false, "-", why)
  | Sexp.Parse_error w -> set_cls ("oof_parse_" ^ String.map (fun c -> if c = ' ' then '_' else c) w); (true, "-", "")

let run input impl =
  last_cls := "unsupported";
  let v = S_wire.run_with oracle input impl in
  { v with Verdict.cls = !last_cls }

(* ---- suite c20r: refused CONNECTs claiming the client id of a real session leave its per-client counters alone *)
let run_c20r (input : Sexp.t) (impl : Sexp.t) : Verdict.t =
  (match Sexp.field_opt "harness_error" impl with Some [e] -> failwith ("harness: " ^ Sexp.to_string e) | _ -> ());
  let rx = int_of_sx (Sexp.field1 "connect_rx" impl) and tx = int_of_sx (Sexp.field1 "connack_tx" impl) in
  let refused = int_of_sx (Sexp.field1 "refused" impl) in
  let ok = rx = 1 && tx = 1 in
  { Verdict.agree = ok; oracle = ok; kf = "-"; nontrivial = refused > 0;
    cls = Printf.sprintf "%s_v%s_refused%d" (Sexp.atom (Sexp.field1 "order" input)) (Sexp.atom (Sexp.field1 "v" input)) refused;
    model = Sexp.L [Sexp.L [Sexp.A "connect_rx"; Sexp.A "1"]; Sexp.L [Sexp.A "connack_tx"; Sexp.A "1"]];
    why = if ok then "" else Printf.sprintf "the client's counters show %d CONNECT received / %d CONNACK sent for one accepted connection (%d refused connections claimed its id)" rx tx refused }
