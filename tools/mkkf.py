#!/usr/bin/env python3
"""Maintenance tool (run by hand, never by a check): writes /verif/known_findings.json from the table below."""
import json
F = []


def fixed(p, commit, what, witness='-'):
    F.append({'property': p, 'kf': '-', 'status': 'fixed', 'commit': commit, 'witness': witness,
              'what': 'fixed: property=%s %s %s' % (p, commit, what)})


def openf(p, kf, what, witness, **extra):
    d = {'property': p, 'kf': kf, 'status': 'open', 'witness': witness, 'what': what}
    d.update(extra)
    F.append(d)


# ---------------- fixed (repaired in /repo by a "fix:" commit; the witness stays in corpus/ and must pass)
fixed('C18', '0a09ada', 'wsConn.Read dropped the last byte of a WebSocket message whenever a Read stopped one byte short of its end (witness: 2-byte binary message, read size 1)', 'corpus/C18/f1_last_byte.sx')
fixed('C11', 'b4ab53e', 'UnsubscribeAll of one member of a share group detached the other members (node pruned) and left the leaver selectable; unsubscribing from another group dropped the index entry', 'corpus/C11/f12_shared.sx')
fixed('C02', 'b4ab53e', 'one client in two share groups on one filter: SubscriptionsCurrent/Total and AlreadyExisted wrong (shared index keyed by filter only)', 'corpus/C02/f12_counts.sx')
fixed('C10', '9a90e8b', 'mem queue Add: an expired in-flight entry behind a never-expiring PUBREL (or awaiting redelivery) was not sacrificed first', 'corpus/C10/ladder_fixes.sx (k3)')
fixed('C10', '16fcb46', 'mem queue Add panicked on a full queue holding an in-flight PUBREL that had not been redelivered yet (Init(clean=false) before ReadInflight)', 'corpus/C10/ladder_fixes.sx (k2)')
fixed('C10', 'cd13741', 'mem queue Add dropped the incoming QoS>0 message instead of the oldest queued one while the in-flight entries had not been drained', 'corpus/C10/ladder_fixes.sx (k10)')
fixed('C10', '2a5e8fc', 'redis queue of a stored session had length 0 after a broker restart until the client reconnected, so messages added meanwhile ignored max_queued_messages', 'corpus/C10/redis_fixed.sx')
fixed('C10', 'c77f89a', 'redis queue Add treated every entry behind the read cursor as a queued PUBLISH: between Init(clean=false) and the redelivery of the in-flight entries a full queue dropped in-flight entries as queue-full or panicked on an in-flight PUBREL', 'corpus/C10/redis_fixed.sx')
fixed('C05', 'c518758', 'session expiry was counted from the connect time instead of the end of the last network connection when deciding whether a reconnecting client may resume', 'corpus/C05/fixed.sx')
fixed('C05', 'ed26f4c', 'a Session Expiry Interval sent in DISCONNECT was not capped by the configured session expiry', 'corpus/C05/fixed.sx')
fixed('C05', 'ae69d2a', 'lockDuplicatedID released srv.mu and re-acquired it without looking again: simultaneous CONNECTs for one client id with an offline session all registered (two connections attached to one client id, shared queue/unack store)', 'stress -probe same-id-storm')
fixed('C15', 'ae69d2a', 'simultaneous CONNECTs with one client id: data races on the shared queue/unack store and CONNECTs hanging in <-oldClient.closed (lockDuplicatedID window)', 'stress -probe same-id-storm')
fixed('C03', '317c8be', "a v5 client's Receive Maximum replaced the configured max_inflight instead of capping it, so more unacknowledged QoS>0 publishes than max_inflight could be sent", 'corpus/C03/fixed.sx')
fixed('C03', '75cdebf', 'packet ids of PUBREL entries retransmitted after a reconnect were not marked as in use: a new PUBLISH could reuse the id of a pending PUBREL and the PUBCOMP freed a window slot that was not taken', 'corpus/C03/fixed.sx')
fixed('C13', 'e408f4f', 'a topic alias equal to the advertised Topic Alias Maximum was rejected (0x94) and alias 0 accepted; the inbound alias table was sized by Receive Maximum instead of Topic Alias Maximum')
fixed('C12', '54c6d8f', 'the Message Expiry Interval forwarded to v5 subscribers was the elapsed time instead of the remaining lifetime, and the configured maximum message lifetime never capped the publisher interval (seconds compared with nanoseconds)', 'corpus/C12/hand.sx')
fixed('C12', '1c65077', 'the forwarded Message Expiry Interval was computed with a clock value taken before the blocking queue read; the stored message was overwritten so retransmissions aged twice', 'corpus/C12/hand.sx')
fixed('C08', '96f3f2c', 'the will lost its retain flag, a will rewritten by OnWillPublish was ignored, a retained will was not kept as retained message, and DISCONNECT 0x04 (Disconnect with Will Message) suppressed the will')
fixed('C08', '956ee63', 'a delayed will was not released when its session ended by TerminateSession or by expiry while the client was offline (a later resuming CONNECT of that id cancelled it)')
fixed('C14', '22f8dc8', 'the retained store was updated before OnMsgArrived ran and with the unmodified message: a rejected or dropped PUBLISH still changed the retained message, a rewritten one was retained in its original form')
fixed('C07', '22f8dc8', 'a retained clear sent through a topic alias (empty topic name on the wire) cleared nothing: the retained store was updated before the alias was resolved')
fixed('C14', '00ceffb', 'initPluginHooks collected OnReAuthWrapper from every plugin but never applied them to srv.hooks.OnReAuth (row OnReAuthWrapper of Gen/HookKinds.v: collected, not applied)', 'Gen/HookKinds.v row OnReAuthWrapper')
fixed('C04', 'f7c2112', 'every retransmission of a QoS 2 PUBLISH consumed one unit of the Receive Maximum quota for the rest of the connection, so a client within its quota was eventually disconnected with 0x93', 'corpus/C04/kf.sx')
fixed('C09', '41101f9', 'redis subscription store passed the topic slice to HDEL as one argument: UNSUBSCRIBE never removed anything from redis and the subscriptions came back after a restart', 'corpus/C09/redis_stores_fixed.sx')
fixed('C09', '9588927', 'redis subscription store stripped the characters s,u,b,: from the front of client ids (strings.TrimLeft with the key prefix) when loading subscriptions at start-up', 'corpus/C09/redis_stores_fixed.sx')
fixed('C09', '892f3ad', 'redis unack store did not reload the QoS 2 packet ids awaiting PUBREL when a session is resumed after a broker restart: a retransmitted PUBLISH was delivered a second time', 'corpus/C09/redis_stores_fixed.sx')
fixed('C06', 'b62395d', 'CONNECT password and Authentication Data were rejected unless valid UTF-8', 'corpus/C06/fixed.sx (fx_password_binary, fx_authdata_binary)')
fixed('C06', 'b17dbd8', 'ValidUTF8 refused the legal character U+FFFD', 'corpus/C06/fixed.sx (fx_fffd_userprop, fx_fffd_assigned_cid)')
fixed('C06', '8184ad8', 'ValidTopicFilter accepted "+a", "+a/#", "$share/g/+a" (wildcard not occupying a whole level)', 'corpus/C06/fixed.sx (fx_plus_a ...)')
fixed('C06', '75d6d66', 'Connect.Pack wrote 4 as protocol-name length, so a decoded MQTT 3.1 CONNECT did not re-encode', 'corpus/C06/fixed.sx (fx_connect31, fx_connect31_enc)')
fixed('C06', '831e7d8', 'Will QoS 3 accepted and re-encoded as 0', 'corpus/C06/fixed.sx (fx_will_qos3)')
fixed('C06', 'ce675a5', 'NewConnackPacket ignored its version argument: every CONNACK decoded as MQTT 5', 'corpus/C06/fixed.sx (fx_connack_v4, fx_connack_v4_enc)')
fixed('C06', '7d6154b', 'a variable byte integer ending at the end of the input or longer than 4 bytes was accepted (a lone 0xC0 decoded as PINGREQ)', 'corpus/C06/fixed.sx (fx_varint_eof ...)')
fixed('C06', '3766db3', 'follow-up to 7d6154b: a v5 ack/DISCONNECT carrying only a reason code (omitted Property Length) is accepted again', 'corpus/C06/fixed.sx (fx_puback_code_only, fx_disconnect_code_only)')
fixed('C17', '50cdceb', 'a federated retained message with empty payload was stored on the receiving node instead of clearing its retained message', 'corpus/C17/fixed.sx')
fixed('C19', '54a09b0', 'saveFileHandler wrote the password file relative to the working directory while Load reads it relative to the configuration directory: account changes were lost on restart; in a deleted working directory every Update/Delete failed', 'corpus/C19/fixed.sx (k_pwfile_cwd, k_pwfile_default, k_pwfile_deadcwd)')
fixed('C19', 'bb4907e', 'OnBasicAuthWrapper returned nil (accept) for wrong credentials when client.Version() was none of 3, 4, 5', 'corpus/C19/fixed.sx (k_unknown_version)')
fixed('C15', '66369ae', 'overlap delivery queued messages inside the TrieDB iterate callback: a dropped message re-entered the TrieDB read lock via the stats manager (recursive RLock, lock-order cycles queue<->trie, stats<->trie): broker-wide deadlock', 'stress -probe overlap-lock-cycle; Gen/LockOrder.v edges out of trie_mu')
fixed('C15', '6670bb6', 'readLoop blocked forever in client.in <- packet once readHandle had returned (DISCONNECT followed by more packets): client stayed registered, Stop hit its deadline, Unload/OnStop never ran', 'stress -probe flood-after-disconnect')
fixed('C15', 'b002260', 'setError sent the v5 DISCONNECT with a blocking write inside errOnce while the failed writer waited for the same Once: reader/writer deadlock, client stayed registered, Stop never completed', 'stress -probe once-deadlock')
fixed('C15', 'b236378', 'pollInflights held the packet id limiter lock across client.write; the lock is taken under srv.mu, so one non-reading resumed subscriber stalled every publisher and CONNECT', 'stress -probe slow-subscriber')

# ---------------- open (genuine defects recorded rather than repaired; see DESIGN.md "Findings")
RAP0 = ("retained messages replayed on SUBSCRIBE carry RETAIN=1 only when the subscription has Retain As Published set "
        "(property text: the replay always has RETAIN=1); the repository's own pinned tests assert the RAP-governed behaviour, "
        "so it cannot be repaired without editing them")
openf('C08', 'kf_retained_replay_rap0', 'a retained WILL replayed to a later subscriber without Retain-As-Published arrives with RETAIN=0: ' + RAP0, 'corpus/C08/kf.sx (kf_rap0)')
# repaired by b58c5a8
# openf('C08', 'kf_retained_replay_no_subid', 'a retained will replayed at SUBSCRIBE time does not carry the Subscription Identifier of the subscription that caused the replay (subscribeHandler builds the replayed message without it)', 'corpus/C08/kf.sx (kf_no_subid)')
# repaired by 8c233d3: openf('C08', 'kf_shared_filter_matches_dollar_topic', 'a wil...
openf('C03', 'kf_replay_exceeds_smaller_recvmax', "after a reconnect with a smaller Receive Maximum (or max_inflight) than the session had before, pollInflights retransmits ALL in-flight entries at once, exceeding the new connection's window", 'corpus/C03/kf.sx')
openf('C04', 'kf_recvmax_dup_qos2', 'a retransmitted (DUP) QoS 2 PUBLISH arriving while the Receive Maximum quota is used up is answered by DISCONNECT 0x93 although it is no new message (readLoop counts packets, not identifiers)', 'corpus/C04/kf.sx (kf_dup_at_full_quota)')
openf('C12', 'kf_redelivery_after_expiry', 'an in-flight QoS>0 message is retransmitted after a reconnect although its Message Expiry Interval has passed (ReadInflight does not check expiry)', 'corpus/C12/hand.sx (h_redeliv_expired)')
openf('C12', 'kf_expiry_zero_treated_as_absent', 'a PUBLISH with Message Expiry Interval 0 is kept and delivered like one without the property (0 is the internal "no expiry" value)', 'corpus/C12/hand.sx (h_zero)')
# repaired: openf('C10', 'kf_redis_queue_lrange_minus1', 'redis queue: Read with n...
fixed('C10', '309d247', 'redis queue ReadInflight(0): at cursor 0 it issued LRANGE 0 -1 and returned the whole list; at any other cursor the (necessarily empty) reply was taken for "no in-flight entries left", so the next Read handed out an in-flight entry still awaiting redelivery as a new message under a new packet id (found by the thorough tier: 8 unclassified deviations in 40 000 cases)', 'corpus/C10/redis_fixed.sx (fx_readinflight0, fx_readinflight0_cur0)')
# repaired: openf('C10', 'kf_redis_queue_stale_cache', 'redis queue: Remove of an ...
# repaired: openf('C10', 'kf_redis_queue_replace_cursor0', 'redis queue: Replace w...
openf('C16', 'kf_hello_reply_lost', 'federation: a Hello whose reply is lost while the peer created a fresh session leaves the sender with its old queue and the peer with an empty view (no full resynchronisation); a repair was tried and reverted because the pinned TestFederation_Hello asserts the current reply', 'corpus/C16/kf.sx')
openf('C16', 'kf_event_not_utf8', 'federation: an event that cannot be marshalled (binary Correlation Data / non UTF-8 topic in a proto3 string field) fails Send, the stream is re-established and the same event is retried for ever, blocking the queue', 'corpus/C16/kf.sx')
openf('C17', 'kf_shared_span', 'federation: a share group spanning nodes is served twice (a peer holding a member gets the message for another reason while the group turn went elsewhere) or not at all (another group remote turn makes the origin skip its own members): the drop / option rewrite is per message, not per group', 'corpus/C17/kf.sx')
openf('C19', 'kf_authmethod_present', 'a v5 CONNECT carrying an Authentication Method (even zero-length) is refused although user name and password are those of an account: connectHandler routes it to enhanced auth, no OnEnhancedAuth hook is installed, the auth plugin is never consulted (fails closed; only the "if" direction of accept-iff fails)', 'corpus/C19/kf.sx (k_authmethod)')
openf('C07', 'kf_retained_replay_rap0', 'a retained message replayed on SUBSCRIBE without Retain-As-Published (always the case for 3.x clients) arrives with RETAIN=0: ' + RAP0, 'corpus/C07/kf.sx (m1_rap0)')
openf('C07', 'kf_same_filter_twice_last_wins', 'a SUBSCRIBE listing the same filter twice processes both entries with the options (QoS, RAP) of the last one: SubscribeRequest.Subscriptions is a map keyed by filter name (part of the OnSubscribe hook API); e.g. QoS 0 requested first is granted QoS 2 and the replay loses RETAIN although that entry had RAP', 'corpus/C07/kf.sx (m3_twice)')
# repaired by 8c233d3: openf('C07', 'kf_shared_filter_matches_dollar_topic', 'live ...
fixed('C07', 'f3105bb', 'a 3.x client subscribing to $share/g/<filter> got the matching retained messages replayed (isShared was set only in the MQTT 5 branch of subscribeHandler)', 'corpus/C07/fixed.sx (fx_v3shared)')
fixed('C08', 'b58c5a8', 'retained messages (incl. retained wills) replayed on SUBSCRIBE did not carry the Subscription Identifier of the subscription that caused the replay', 'corpus/C08/fixed.sx (fx_no_subid)')
fixed('C01', '3c91d06', 'a PUBLISH with an empty topic name and no topic alias was accepted and queued for every subscription of every client (the store reads an empty TopicName as "no topic given")', 'Props/C01.v Example C01_empty_topic_reaches_everyone (model before the repair); corpus/C06/fixed.sx')
fixed('C06', '3c91d06', 'PUBLISH with an empty topic name and no v5 Topic Alias was accepted by the decoder', 'corpus/C06/fixed.sx')
fixed('C06', '90fcd9c', 'ValidTopicName/ValidTopicFilter/ValidV5Topic refused the legal character U+FFFD', 'corpus/C06/fixed.sx')
# repaired by 8c233d3: openf('C11', 'kf_shared_filter_matches_dollar_topic', 'a mes...
openf('C13', 'kf_retransmission_exceeds_max_packet_size', 'in-flight messages are retransmitted after a reconnect without regard to the Maximum Packet Size declared on the new connection (ReadInflight / pollInflights have no size filter)', 'corpus/C13/kf.sx')
openf('C13', 'kf_connack_exceeds_client_max_packet_size', 'the CONNACK (34 bytes with all its properties) is sent to a client that declared a smaller Maximum Packet Size', 'corpus/C13/kf.sx')
openf('C13', 'kf_resend_at_full_quota_disconnected', 'a client that repeats (DUP) a QoS 2 PUBLISH while all Receive Maximum slots are open is disconnected with 0x93 although it has no more than Receive Maximum identifiers outstanding (same cause as C04 kf_recvmax_dup_qos2)', 'corpus/C13/kf.sx')
fixed('C13', 'ef0c317', 'the Topic Alias property added by writeLoop after the size check pushed a PUBLISH of exactly the allowed size 3-4 bytes over the client Maximum Packet Size (follow-up 3ae2a13 counts subscription identifiers)', 'corpus/C13/fixed.sx')
openf('C14', 'kf_connack3_carries_v5_code', 'a 3.1/3.1.1 CONNECT refused by an auth hook with an MQTT 5 reason code (>= 0x80) is answered with return code 0x87, which is no 3.x return code (sendErrConnack assigns codes.NotAuthorized instead of codes.V3NotAuthorized); still a failing CONNACK; the pinned TestClient_connectWithTimeOut_BasicAuth asserts 0x87, so it cannot be repaired without editing it', 'corpus/C14/kf.sx')
fixed('C11', '8c233d3', 'shared subscriptions with a leading wildcard ($share/g/#, $share/g/+/..) matched topic names beginning with $: MQTT-4.7.2-1 was applied to the non-shared tries only (was kf_shared_filter_matches_dollar_topic under C07, C08, C11)', 'corpus/C11/fixed_dollar.sx, corpus/C07/fixed.sx, corpus/C08/fixed.sx')
openf('C13', 'kf_unknown_pubrel_refunds_quota', 'the PUBCOMP answering a PUBREL gives a unit of the Receive Maximum quota back even when that packet id was not open (writeLoop calls addServerQuota for every PUBCOMP; the unack store cannot tell whether Remove removed anything), so a client that sends PUBREL for unknown ids can hold more than Receive Maximum QoS 2 publishes without being disconnected with 0x93 (Coq: C13_quota_exact_refuted_by_unknown_pubrel)', 'corpus/C13/kf.sx (kf_unknown_pubrel)')
fixed('C06', '23f87b1', 'codec: the reserved fixed-header flags of PUBACK, PUBREC, PUBREL and PUBCOMP were not checked (was kf_ack_flags)', 'corpus/C06/fixed.sx (fx_ack_flags, fx_pubrel_flags0)')
fixed('C06', '3fb8d07', 'codec: a SUBSCRIBE with Retain Handling 3 was accepted (was kf_retain_handling_3)', 'corpus/C06/fixed.sx (fx_retain_handling_3)')
fixed('C06', '63ec0e9', 'codec: a shared subscription with the No Local option was accepted (was kf_nolocal_shared)', 'corpus/C06/fixed.sx (fx_nolocal_shared)')
fixed('C06', 'fb98e62', 'codec: PUBLISH (QoS 1 and 2), SUBSCRIBE and UNSUBSCRIBE packets with packet identifier 0 were accepted (was kf_pid_zero)', 'corpus/C06/fixed.sx (fx_pid_zero_*)')
fixed('C06', 'a393441', 'codec: an MQTT 3.1.1 CONNECT with the Password Flag set and the User Name Flag clear was accepted (was kf_v3_password_without_username)', 'corpus/C06/fixed.sx (fx_v3_password_without_username)')
fixed('C06', 'aeb6787', 'codec: an MQTT 5 UNSUBSCRIBE did not check the shared subscription syntax of its topic filters (was kf_unsub_share_syntax)', 'corpus/C06/fixed.sx (fx_unsub_share_syntax)')
fixed('C06', '7609f60', 'codec: the properties of a CONNECT packet could contain will and publish properties (was kf_connect_props_will)', 'corpus/C06/fixed.sx (fx_connect_props_will)')
fixed('C06', 'e37205a', 'codec: a Property Length larger than the rest of the packet was accepted (was kf_prop_len_overrun)', 'corpus/C06/fixed.sx (fx_prop_len_overrun)')
fixed('C06', '89fd555', 'codec: an MQTT 5 packet that ends before its mandatory Property Length was accepted (was kf_proplen_omitted)', 'corpus/C06/fixed.sx (fx_proplen_omitted)')
fixed('C06', '6dc1dd4', 'codec: bytes left over inside the Remaining Length of a packet were ignored (was kf_trailing)', 'corpus/C06/fixed.sx (fx_trailing_*)')
fixed('C06', '0ca990c', 'codec: variable byte integers that are longer than necessary were accepted (was kf_varint_noncanonical)', 'corpus/C06/fixed.sx (fx_varint_noncanonical)')
fixed('C06', '5f20c9d', 'codec: ValidTopicName accepted the empty string (was kf_name_empty)', 'corpus/C06/fixed.sx (fx_name_empty, fx_name_empty_s)')
fixed('C06', '264c0c1', 'codec: ValidTopicName, ValidTopicFilter and ValidV5Topic accepted the null character (was kf_topic_nul)', 'corpus/C06/fixed.sx (fx_topic_nul, fx_topic_nul_share)')
fixed('C06', 'e25d33d', 'codec: every Unpack allocated the declared Remaining Length before any of those bytes had arrived (was kf_alloc_upfront)', 'corpus/C06/fixed.sx (fx_alloc_upfront, fx_alloc_upfront_max)')
fixed('C10', '7cedd8c', 'redis queue Read with no packet ids at cursor 0 issued LRANGE 0 -1 and walked the whole list (QoS 0 messages handed out and removed, index-out-of-range panic on the first QoS>0 message); Read now returns at once when no ids are supplied (was kf_redis_queue_lrange_minus1)', 'corpus/C10/redis_fixed.sx (fx_read_noids)')
fixed('C10', '69a1f7d', 'redis queue Add sacrificed an expired in-flight entry but left it in readCache: a later Remove of that id removed nothing yet reported (queue -1)(inflight -1) and decremented len and current; Add now forgets the dropped entry in readCache (was kf_redis_queue_stale_cache)', 'corpus/C10/redis_fixed.sx (fx_stale_cache)')
fixed('C10', '7e1e0db', 'redis queue Replace with the read cursor at 0 (after Init(clean=false), before the replay) issued LRANGE 0 0 and overwrote the first entry, still awaiting redelivery; Replace now returns false when nothing is in front of the cursor (was kf_redis_queue_replace_cursor0)', 'corpus/C10/redis_fixed.sx (fx_replace_cursor0)')
C06 = {
    'kf_auth_v3': 'AUTH accepted on a 3.1/3.1.1 connection (4:f000); pinned by pkg/packets/auth_test.go TestReadWriteAuthPacket, which reads an AUTH packet through a default (3.1.1) Reader',
    'kf_pubrel_v3': 'a 3.1.1 PUBREL longer than 2 bytes is parsed in the MQTT 5 form (4:6203000100): Pubrel carries no protocol version; pinned by pubrel_test.go TestReadWritePubrelPacket',
}
for k, w in C06.items():
    openf('C06', k, 'codec: ' + w, 'corpus/C06/kf.sx')
fixed('C15', '1d02d65', 'Stop neither closed nor waited for a connection that had not completed CONNECT when it snapshotted srv.clients: after Stop returned the socket was still open, its goroutines alive, and a CONNECT sent afterwards was accepted (CONNACK 0) by the stopped broker (was kf_unregistered_survives)', 'stress -probe stop-during-connect; Coq: C15_stop_closes_all')
fixed('C15', '9fa9d46', 'a connection that Accept had returned but newClient had not yet recorded (OnAccept hook still running) when Stop listed the connections was neither closed nor waited for and stayed open with its goroutines after Stop returned nil; addConnecting now closes a connection it records after exit() (found by the StopLife model after the first repair)', 'stress -probe stop-vs-inflight-accept; Coq: C15_stop_all_closed, C15_stop_no_connection_left')

json.dump({'comment': 'Committed by hand (tools/mkkf.py); never written at run time. status=open entries are reported as KNOWN-FINDING lines, only when the failing case is of exactly that class AND the model reproduces the implementation on it; status=fixed entries suppress nothing (their witnesses stay in corpus/, so a regression is reported as a VIOLATION).',
           'findings': F}, open('/verif/known_findings.json', 'w'), indent=1)
print(len(F), 'entries')
