package main

// Suite w_c11 - scenario family for property C11 (shared subscriptions: each message goes to exactly
// one live member per group and filter, independently of the non-shared copies, at min(published,
// member QoS); every leaving mechanism; no retained replay on a shared subscribe). The oracle is
// ocaml/o_c11.ml.
//
// THE FAMILY
//   * 2-4 "member" clients m1..m4 (MQTT 3.1 / 3.1.1 / 5; labels 1..4, labels 11..14 for the connection
//     that takes a session over) and one pure publisher p (label 9, never leaves). keepalive 0.
//   * members SUBSCRIBE (1-3 entries per packet) to shared filters $share/{g,h,k}/F over overlapping F
//     (the same F in several groups, the same client in several groups on one F, groups whose F is
//     also subscribed non-shared, wildcard F, F beginning with a wildcard, '$' topics) and to non-shared
//     filters; every option bit for v5 (No Local only on non-shared entries), requested QoS 0..2,
//     re-subscription with another QoS, a Subscription Identifier (unique per packet and client) on
//     3/4 of the v5 SUBSCRIBE packets; 3.1/3.1.1 members use $share filters too (the broker treats
//     them as shared for every protocol version).
//   * members leave by every mechanism: UNSUBSCRIBE (existing and non-existing filters, the shared and
//     the non-shared spelling), DISCONNECT(+Session Expiry for v5) followed by close, plain close (the
//     session ends iff its expiry interval is 0, otherwise the member stays selectable while offline
//     and gets the queued messages when it resumes), take-over from a second connection with Clean
//     Start 1 or 0, expiry of the offline session by (advance)(expire_check), and come back with
//     Clean Start 0/1.
//   * publishes by p (mostly) and by members: QoS from a per-scenario set, application properties for v5
//     publishers (no Message Expiry, no alias), unique non-empty payloads (so that every forwarded
//     PUBLISH is attributable), topics a, a/b, b, c (never empty). In 1 of 3 scenarios RETAIN is set on
//     1/5 of the publishes and 0-2 retained messages are published before the members subscribe (the
//     retained clause; a 3.x member then meets kf_shared_retained_replay_v3); in 1 of 4 scenarios the
//     topic $s/x is used as well (filters beginning with a wildcard then meet
//     kf_shared_filter_matches_dollar_topic). Both findings end the strict oracle run early, hence the rationing.
//   * acknowledgements: a member whose forwarded copies can only be QoS 1 (resp. only QoS 2), given the QoS
//     values it ever requested in its session and the scenario's publish QoS set, now and then sends
//     PUBACK (rx K) (resp. PUBREC (rx K) / PUBCOMP (rxrel K)); other members never acknowledge. The oracle
//     accepts the retransmission (DUP=1) of unacknowledged copies on the next connection of the session.
//   * both delivery modes, queue_qos0 on/off, session_expiry 7200/60/2, message_expiry 7200/0,
//     shared subscriptions unavailable in 1 of 12 scenarios (v5 SUBACK 0x9E: not a member then).
//   * at most 2 clock advances (300 ms mod 1 s each, always directly followed by expire_check), so no
//     expiry comparison is closer than 400 ms to a whole second.
//
// DELIBERATELY EXCLUDED: hooks, wills, topic aliases, Message Expiry, small windows / Receive Maximum /
// Maximum Packet Size / queue limits (nothing ever waits for room or is dropped), max_qos < 2,
// empty topic names and empty payloads, No Local on shared entries (protocol error), api_publish,
// terminate, a PUBLISH between a DISCONNECT and the close of that socket (the broker keeps such a
// session attached), a Session Expiry in DISCONNECT after 0 at CONNECT, malformed packets.

import "strconv"

type c11Sub struct {
	qos int
}

type c11Mem struct {
	cid        string
	ver        int
	label, alt int
	cur        int // label of the live connection, 0 = none
	exists     bool
	expiry     int // seconds
	connSei    bool
	offAt      int
	subs       map[string]c11Sub
	order      []string
	qhist      map[int]bool
	pid        int // client-side packet ids: monotone over the whole scenario
	subid      int
	ack, rel   int // next (rx K) / (rxrel K) on the live connection
	recs       int
}

var c11Topics = []string{"a", "a", "a", "a/b", "a/b", "b", "$s/x", "c"}
var c11Shared = []string{"$share/g/a", "$share/g/a", "$share/g/a", "$share/g/a", "$share/g/a", "$share/g/a", "$share/h/a", "$share/h/a", "$share/h/a",
	"$share/g/#", "$share/g/#", "$share/h/#", "$share/g/+", "$share/g/a/+", "$share/g/a/+", "$share/k/a/#",
	"$share/g/+/b", "$share/g/$s/x", "$share/h/$s/#", "$share/k/b", "$share/k/a/b"}
var c11Plain = []string{"a", "a", "a/+", "#", "+", "a/b", "a/#", "$s/#", "$s/x", "b"}

func c11Gen(r *Rng, i int) *Sx {
	delivery := Pick(r, []string{"onlyonce", "overlap"})
	sessExp := Pick(r, []int{7200, 7200, 60, 2})
	cfg := K("cfg",
		K("delivery", A(delivery)),
		K("max_inflight", I(100)), K("max_queued", I(1000)),
		K("queue_qos0", Bool(!r.Chance(1, 4))),
		K("session_expiry", I(sessExp)),
		K("message_expiry", I(Pick(r, []int{7200, 7200, 0}))),
		K("recv_max", I(100)), K("alias_max", I(10)),
		K("max_packet", I(268435456)), K("max_qos", I(2)),
		K("retain_avail", Bool(true)), K("wildcard", Bool(true)), K("subid", Bool(true)), K("shared", Bool(!r.Chance(1, 12))),
		K("max_keepalive", I(300)), K("allow_zero_len", Bool(true)), K("inflight_expiry", I(30)))
	// '$' topics in 1 of 4 scenarios, RETAIN in 1 of 3 (both meet known findings that end the strict oracle run early)
	topics := c11Topics
	if !r.Chance(1, 4) {
		topics = []string{"a", "a", "a", "a/b", "a/b", "b", "c"}
	}
	retainDen := Pick(r, []int{0, 0, 5})
	pubQos := Pick(r, [][]int{{0, 1, 2}, {0, 1, 2}, {0, 1, 2}, {1}, {1}, {2}, {0, 1}, {0, 2}, {1, 2}})

	steps := []*Sx{}
	add := func(x *Sx) { steps = append(steps, x) }
	now, nadv, ctr := 0, 0, 0

	var mems []*c11Mem
	nm := r.Range(2, 4)
	for k := 1; k <= nm; k++ {
		mems = append(mems, &c11Mem{cid: "m" + strconv.Itoa(k), ver: Pick(r, []int{5, 5, 5, 5, 5, 4, 3}), label: k, alt: 10 + k,
			subs: map[string]c11Sub{}, qhist: map[int]bool{}})
	}
	pub := &c11Mem{cid: "p", ver: Pick(r, []int{5, 5, 4, 3}), label: 9, cur: 9}

	endSession := func(m *c11Mem) {
		m.exists = false
		m.subs = map[string]c11Sub{}
		m.order = nil
		m.qhist = map[int]bool{}
	}
	// the connection of m is gone (closed by the script or taken over)
	gone := func(m *c11Mem) {
		m.cur = 0
		m.offAt = now
		if m.expiry == 0 {
			endSession(m)
		}
	}
	connect := func(m *c11Mem, label int, clean bool) {
		if m.exists && m.cur == 0 && now-m.offAt > m.expiry*1000 {
			endSession(m)
		}
		if clean {
			endSession(m)
		}
		props := []*Sx{}
		exp := 0
		m.connSei = false
		if m.ver == 5 {
			if r.Chance(4, 5) {
				sei := uint64(Pick(r, []int{0, 1, 2, 2, 30, 100000, 100000, 4294967295}))
				props = append(props, K("sei", U(sei)))
				exp = sessExp
				if sei < uint64(sessExp) {
					exp = int(sei)
				}
				m.connSei = sei > 0
			}
		} else if !clean {
			exp = sessExp
		}
		m.exists, m.expiry, m.cur, m.ack, m.rel, m.recs = true, exp, label, 0, 0, 0
		add(L(A("connect"), I(label), I(m.ver), K("cid", S(m.cid)), K("clean", Bool(clean)), K("keepalive", I(0)), K("props", props...)))
	}
	has := func(m *c11Mem, f string) bool { _, ok := m.subs[f]; return ok }
	subscribe := func(m *c11Mem, sharedBias int) {
		m.pid++
		items := []*Sx{A("subscribe"), I(m.pid)}
		props := []*Sx{}
		if m.ver == 5 && r.Chance(3, 4) {
			m.subid++
			props = append(props, K("subid", I(m.subid)))
		}
		items = append(items, K("props", props...))
		used := map[string]bool{}
		for k := 0; k < Pick(r, []int{1, 1, 2, 2, 3}); k++ {
			f := Pick(r, c11Plain)
			shared := r.Intn(10) < sharedBias
			if shared {
				f = Pick(r, c11Shared)
			}
			if used[f] {
				continue
			}
			used[f] = true
			q := r.Intn(3)
			nl, rap, rh := false, false, 0
			if m.ver == 5 {
				nl, rap, rh = !shared && r.Chance(1, 4), r.Chance(1, 3), r.Intn(3)
			}
			if !has(m, f) {
				m.order = append(m.order, f)
			}
			m.subs[f] = c11Sub{qos: q}
			m.qhist[q] = true
			items = append(items, L(A("t"), S(f), I(q), Bool(nl), Bool(rap), I(rh)))
		}
		add(L(A("send"), I(m.cur), L(items...)))
	}
	unsubscribe := func(m *c11Mem) {
		m.pid++
		items := []*Sx{A("unsubscribe"), I(m.pid), K("props")}
		used := map[string]bool{}
		for k := 0; k < Pick(r, []int{1, 1, 1, 2}); k++ {
			var f string
			if len(m.order) > 0 && r.Chance(3, 4) {
				f = Pick(r, m.order)
			} else if r.Bool() {
				f = Pick(r, c11Shared)
			} else {
				f = Pick(r, c11Plain)
			}
			if used[f] {
				continue
			}
			used[f] = true
			if has(m, f) {
				delete(m.subs, f)
				for j, g := range m.order {
					if g == f {
						m.order = append(m.order[:j:j], m.order[j+1:]...)
						break
					}
				}
			}
			items = append(items, S(f))
		}
		add(L(A("send"), I(m.cur), L(items...)))
	}
	publish := func(s *c11Mem, topic string) {
		qos := Pick(r, pubQos)
		pid := 0
		if qos > 0 {
			s.pid++
			pid = s.pid
		}
		ctr++
		payload := "m" + strconv.Itoa(ctr)
		props := []*Sx{}
		if s.ver == 5 {
			if r.Chance(1, 6) {
				props = append(props, K("ctype", S("t")))
			}
			if r.Chance(1, 6) {
				props = append(props, K("pfmt", I(0)))
			}
			if r.Chance(1, 6) {
				props = append(props, K("user", S("k"), S("v")))
			}
		}
		add(L(A("send"), I(s.cur), L(A("publish"), Bool(false), I(qos), Bool(retainDen > 0 && r.Chance(1, retainDen)), S(topic), S(payload), I(pid), K("props", props...))))
		if qos == 2 && r.Chance(5, 6) {
			add(L(A("send"), I(s.cur), L(A("pubrel"), I(pid), I(0), K("props"))))
		}
	}
	// QoS values (>0) a copy forwarded to m can have
	style := func(m *c11Mem) int {
		poss := map[int]bool{}
		for g := range m.qhist {
			for _, p := range pubQos {
				if q := min(g, p); q > 0 {
					poss[q] = true
				}
			}
		}
		if len(poss) != 1 {
			return 0
		}
		for q := range poss {
			return q
		}
		return 0
	}
	acks := func(m *c11Mem) {
		switch style(m) {
		case 1:
			for k := 0; k < r.Range(1, 2); k++ {
				add(L(A("send"), I(m.cur), L(A("puback"), wireRx(m.ack), I(0), K("props"))))
				m.ack++
			}
		case 2:
			if m.rel < m.recs && r.Bool() {
				add(L(A("send"), I(m.cur), L(A("pubcomp"), wireRxRel(m.rel), I(0), K("props"))))
				m.rel++
			} else {
				add(L(A("send"), I(m.cur), L(A("pubrec"), wireRx(m.ack), I(0), K("props"))))
				m.ack++
				m.recs++
			}
		}
	}
	online := func() []*c11Mem {
		var l []*c11Mem
		for _, m := range mems {
			if m.cur != 0 {
				l = append(l, m)
			}
		}
		return l
	}
	offline := func() []*c11Mem {
		var l []*c11Mem
		for _, m := range mems {
			if m.cur == 0 {
				l = append(l, m)
			}
		}
		return l
	}

	add(L(A("connect"), I(9), I(pub.ver), K("cid", S("p")), K("clean", Bool(true)), K("keepalive", I(0)), K("props")))
	// retained messages first now and then, so that subscribes meet them
	nret := Pick(r, []int{0, 1, 2})
	if retainDen == 0 {
		nret = 0
	}
	for k := 0; k < nret; k++ {
		ctr++
		q := Pick(r, pubQos)
		pid := 0
		if q > 0 {
			pub.pid++
			pid = pub.pid
		}
		add(L(A("send"), I(9), L(A("publish"), Bool(false), I(q), Bool(true), S(Pick(r, topics)), S("m"+strconv.Itoa(ctr)), I(pid), K("props"))))
	}
	for _, m := range mems {
		connect(m, m.label, r.Chance(1, 2))
		subscribe(m, 8)
		if r.Chance(1, 3) {
			subscribe(m, 5)
		}
	}
	n := r.Range(8, 34)
	for k := 0; k < n; k++ {
		on := online()
		off := offline()
		x := r.Intn(100)
		switch {
		case len(on) == 0 || (x < 12 && len(off) > 0):
			if len(off) == 0 {
				continue
			}
			m := Pick(r, off)
			if r.Chance(1, 8) {
				m.ver = Pick(r, []int{5, 5, 4, 3})
			}
			connect(m, m.label, r.Chance(1, 3))
			if r.Chance(1, 3) {
				subscribe(m, 7)
			}
		case x < 24:
			subscribe(Pick(r, on), 7)
		case x < 33:
			unsubscribe(Pick(r, on))
		case x < 66:
			s := pub
			if r.Chance(1, 5) {
				s = Pick(r, on)
			}
			publish(s, Pick(r, topics))
			if r.Chance(1, 4) {
				publish(s, Pick(r, topics[:5]))
			}
		case x < 74:
			acks(Pick(r, on))
		case x < 80:
			// DISCONNECT then close
			m := Pick(r, on)
			props := []*Sx{}
			code := 0
			if m.ver == 5 {
				code = Pick(r, []int{0, 0, 4})
				if m.connSei && r.Chance(1, 2) {
					sei := Pick(r, []int{0, 0, 1, 30, 100000})
					props = append(props, K("sei", I(sei)))
					m.expiry = min(sei, sessExp)
				} else if !m.connSei && r.Chance(1, 4) {
					props = append(props, K("sei", I(0)))
				}
			}
			add(L(A("send"), I(m.cur), L(A("disconnect"), I(code), K("props", props...))))
			add(L(A("close"), I(m.cur)))
			gone(m)
		case x < 85:
			m := Pick(r, on)
			add(L(A("close"), I(m.cur)))
			gone(m)
		case x < 90:
			// take-over from the other label
			m := Pick(r, on)
			old := m.cur
			nl := m.label
			if old == m.label {
				nl = m.alt
			}
			gone(m)
			connect(m, nl, r.Chance(1, 2))
			add(L(A("close"), I(old)))
			if r.Chance(1, 4) {
				subscribe(m, 7)
			}
		case x < 97:
			if nadv < 2 {
				nadv++
				d := Pick(r, []int{300, 1300, 2300, 2300, 40300, 61300, 61300})
				// mostly long enough to end the session of an offline member
				for _, m := range mems {
					if m.exists && m.cur == 0 && m.expiry <= 60 && r.Chance(2, 3) {
						for _, d2 := range []int{1300, 2300, 40300, 61300} {
							if now+d2-m.offAt > m.expiry*1000 {
								d = d2
								break
							}
						}
						break
					}
				}
				now += d
				add(L(A("advance"), I(d)))
				add(L(A("expire_check")))
				for _, m := range mems {
					if m.exists && m.cur == 0 && now-m.offAt > m.expiry*1000 {
						endSession(m)
					}
				}
			}
		default:
			add(L(A("send"), I(Pick(r, on).cur), L(A("pingreq"))))
		}
	}
	// bring some of the offline members back, then a final round over the main topics
	for _, m := range offline() {
		if r.Chance(1, 2) {
			connect(m, m.label, r.Chance(1, 4))
		}
	}
	for _, t := range []string{"a", "a/b", "b", "$s/x"} {
		if t[0] == '$' && len(topics) == 7 {
			continue
		}
		if r.Chance(3, 4) {
			publish(pub, t)
		}
	}
	add(L(A("inspect")))
	return L(cfg, K("steps", steps...))
}

func init() { register(&Suite{Name: "w_c11", Gen: c11Gen, Run: wireRun, Par: 1}) }
