package main

import (
	"context"
	"errors"
	"fmt"
	"sort"
	"strings"

	"google.golang.org/grpc"
	"google.golang.org/grpc/credentials/insecure"
	"google.golang.org/grpc/metadata"
	"google.golang.org/protobuf/proto"

	"github.com/DrmagicE/gmqtt"
	"github.com/DrmagicE/gmqtt/persistence/subscription"
	"github.com/DrmagicE/gmqtt/persistence/subscription/mem"
	"github.com/DrmagicE/gmqtt/pkg/packets"
	"github.com/DrmagicE/gmqtt/plugin/federation"
	"github.com/DrmagicE/gmqtt/retained"
	rtrie "github.com/DrmagicE/gmqtt/retained/trie"
	"github.com/DrmagicE/gmqtt/server"
)

// Suite fedq (C16): the real eventQueue, peer.initStream, Federation.Hello, sessionMgr,
// Federation.EventStream / eventStreamHandler and the subscription hooks of two Federation
// values A (sender) and B (receiver), driven by a generated schedule through an in-memory
// stream double (no gRPC transport, no serf).
// Suite fedr (C17): sendMessage on a Federation with injected peers and subscription
// trees, and the receiver side applying message events.

// ---------------------------------------------------------------- common helpers

type fedPublisher struct{ msgs []*gmqtt.Message }

func (p *fedPublisher) Publish(m *gmqtt.Message) { p.msgs = append(p.msgs, m) }
func (p *fedPublisher) take() []*gmqtt.Message   { m := p.msgs; p.msgs = nil; return m }

type fedStubClient struct {
	server.Client
	opts *server.ClientOptions
}

func (c *fedStubClient) ClientOptions() *server.ClientOptions { return c.opts }

// message part of an event, in the harness' message form (what eventToMessage makes of it)
func sxEventMsg(m *federation.Message) *Sx { return sxMsg(federation.VerifEventToMessage(m)) }

// (s share filter) | (u topic) | (m msg)
func sxEvent(e *federation.Event) *Sx {
	if s := e.GetSubscribe(); s != nil {
		return L(A("s"), S(s.ShareName), S(s.TopicFilter))
	}
	if m := e.GetMessage(); m != nil {
		return L(A("m"), sxEventMsg(m))
	}
	if u := e.GetUnsubscribe(); u != nil {
		return L(A("u"), S(u.TopicName))
	}
	return L(A("nil"))
}

// compress an increasing id list into ranges: (a b) means a..b inclusive
func sxRanges(ids []uint64) *Sx {
	out := []*Sx{}
	for i := 0; i < len(ids); {
		j := i
		for j+1 < len(ids) && ids[j+1] == ids[j]+1 {
			j++
		}
		out = append(out, L(U(ids[i]), U(ids[j])))
		i = j + 1
	}
	return L(out...)
}

// what gRPC does to a message on the wire: marshal, unmarshal
func fedWire(e *federation.Event) (*federation.Event, error) {
	b, err := proto.Marshal(e)
	if err != nil {
		return nil, err
	}
	out := &federation.Event{}
	if err := proto.Unmarshal(b, out); err != nil {
		return nil, err
	}
	return out, nil
}

// ---------------------------------------------------------------- the stream double

var errFedCut = errors.New("verif: stream cut")

type fedRecvItem struct {
	ev  *federation.Event
	err error
}

// server side of the stream: handed to the real Federation.EventStream
type fedSrvStream struct {
	grpc.ServerStream
	ctx    context.Context
	in     chan fedRecvItem
	idle   chan struct{}
	sendOK bool
	acks   []uint64
}

func (s *fedSrvStream) Context() context.Context { return s.ctx }
func (s *fedSrvStream) Recv() (*federation.Event, error) {
	s.idle <- struct{}{}
	it := <-s.in
	return it.ev, it.err
}
func (s *fedSrvStream) Send(a *federation.Ack) error {
	if !s.sendOK {
		return errFedCut
	}
	s.acks = append(s.acks, a.EventId)
	return nil
}

type fedCliStream struct{ grpc.ClientStream }

func (s *fedCliStream) Send(*federation.Event) error   { return errors.New("verif: not used") }
func (s *fedCliStream) Recv() (*federation.Ack, error) { return nil, errors.New("verif: not used") }

// the FederationClient handed to the real peer.initStream
type fedFakeClient struct {
	srv      *federation.Federation
	mode     string
	reached  bool // the server processed the Hello
	gotResp  bool
	gotClean bool
	opened   bool
}

func (c *fedFakeClient) Hello(ctx context.Context, in *federation.ClientHello, opts ...grpc.CallOption) (*federation.ServerHello, error) {
	if c.mode == "lostreq" {
		return nil, errFedCut
	}
	md, _ := metadata.FromOutgoingContext(ctx)
	resp, err := c.srv.Hello(metadata.NewIncomingContext(context.Background(), md), in)
	if err != nil {
		return nil, err
	}
	c.reached = true
	if c.mode == "lostresp" {
		return nil, errFedCut
	}
	c.gotResp = true
	c.gotClean = resp.CleanStart
	return resp, nil
}

func (c *fedFakeClient) EventStream(ctx context.Context, opts ...grpc.CallOption) (grpc.BidiStreamingClient[federation.Event, federation.Ack], error) {
	if c.mode == "failopen" {
		return nil, errFedCut
	}
	c.opened = true
	return &fedCliStream{}, nil
}

type fedWireEv struct {
	epoch uint64
	id    uint64
	ev    *federation.Event
}

// ---------------------------------------------------------------- fedq

type fedqCtx struct {
	a, b     *federation.Federation
	pubB     *fedPublisher
	retB     retained.Store
	conn     *grpc.ClientConn
	up       bool
	c2s      []fedWireEv
	s2c      []uint64
	srv      *fedSrvStream
	srvDone  chan error
	epoch    uint64
	known    map[*federation.Event]bool
	applied  []*Sx
	lastSess string
}

const fedA, fedB = "A", "B"

func (c *fedqCtx) cut() {
	if !c.up {
		return
	}
	c.up = false
	c.c2s, c.s2c = nil, nil
	// client side: readLoop / sendEvents see the error
	c.a.VerifStreamFail(fedB, errFedCut)
	// server side: Recv fails
	c.endServer()
}

// make the server-side EventStream goroutine finish (if it has not already)
func (c *fedqCtx) endServer() {
	if c.srv == nil {
		return
	}
	select {
	case <-c.srvDone: // already returned (session closed or Send failed); unblock a Recv that may still wait
		select {
		case c.srv.in <- fedRecvItem{nil, errFedCut}:
		default:
			select {
			case <-c.srv.idle:
				c.srv.in <- fedRecvItem{nil, errFedCut}
			default:
			}
		}
	default:
		c.srv.in <- fedRecvItem{nil, errFedCut}
		<-c.srvDone
	}
	c.srv = nil
}

func (c *fedqCtx) openServer() bool {
	md := metadata.Pairs("node_name", fedA)
	s := &fedSrvStream{ctx: metadata.NewIncomingContext(context.Background(), md), in: make(chan fedRecvItem), idle: make(chan struct{}), sendOK: true}
	done := make(chan error, 1)
	go func() { done <- c.b.EventStream(s) }()
	select {
	case <-s.idle:
		c.srv, c.srvDone = s, done
		return true
	case <-done:
		return false
	}
}

func (c *fedqCtx) send() {
	if !c.up {
		return
	}
	evs := c.a.VerifFetch(fedB)
	for _, e := range evs {
		w, err := fedWire(e)
		if err != nil {
			c.cut()
			return
		}
		c.c2s = append(c.c2s, fedWireEv{c.epoch, e.Id, w})
	}
}

func (c *fedqCtx) deliver(ackOK bool) {
	if !c.up || len(c.c2s) == 0 {
		return
	}
	w := c.c2s[0]
	c.c2s = c.c2s[1:]
	_, _, seen, _ := c.b.VerifSession(fedA)
	dup := false
	for _, x := range seen {
		if x == w.id {
			dup = true
		}
	}
	c.srv.sendOK = ackOK
	c.srv.acks = nil
	c.srv.in <- fedRecvItem{w.ev, nil}
	select {
	case <-c.srv.idle: // iteration complete, nextEventID updated
		c.s2c = append(c.s2c, c.srv.acks...)
	case <-c.srvDone: // Send(ack) failed: the server side is gone
		c.srv = nil
		c.up = false
		c.c2s, c.s2c = nil, nil
		c.a.VerifStreamFail(fedB, errFedCut)
	}
	c.applied = append(c.applied, L(U(w.epoch), U(w.id), Bool(dup)))
}

func (c *fedqCtx) ackDeliver() {
	if !c.up || len(c.s2c) == 0 {
		return
	}
	id := c.s2c[0]
	c.s2c = c.s2c[1:]
	c.a.VerifAck(fedB, id)
}

func (c *fedqCtx) idle() bool {
	if !c.up || len(c.c2s) != 0 || len(c.s2c) != 0 {
		return false
	}
	st, ok := c.a.VerifPeerQueue(fedB)
	return ok && st.NextRead < 0
}

func (c *fedqCtx) drain() {
	st, ok := c.a.VerifPeerQueue(fedB)
	if !ok {
		return
	}
	rounds := len(st.Events) + 2
	for i := 0; i < rounds; i++ {
		if !c.up || c.idle() {
			return
		}
		c.send()
		for c.up && len(c.c2s) > 0 {
			c.deliver(true)
		}
		for c.up && len(c.s2c) > 0 {
			c.ackDeliver()
		}
	}
}

func (c *fedqCtx) reconnect(mode string) (reset bool) {
	c.cut()
	if _, ok := c.a.VerifPeerQueue(fedB); !ok {
		return false
	}
	cl := &fedFakeClient{srv: c.b, mode: mode}
	err := c.a.VerifInitStream(fedB, cl, c.conn)
	if err == nil && cl.opened {
		if c.openServer() {
			c.up = true
		} else {
			c.a.VerifStreamFail(fedB, errFedCut)
		}
	}
	return cl.gotResp && cl.gotClean
}

func fedSubOfStep(o *Sx) *gmqtt.Subscription {
	return &gmqtt.Subscription{ShareName: o.List[2].Str(), TopicFilter: o.List[3].Str()}
}

func sortedKeys(m map[string]uint64) []*Sx {
	ks := []string{}
	for k := range m {
		ks = append(ks, k)
	}
	sort.Strings(ks)
	out := []*Sx{}
	for _, k := range ks {
		out = append(out, S(k))
	}
	return out
}

func fedViewOf(db *mem.TrieDB, node string) []*Sx {
	ts := []string{}
	db.Iterate(func(clientID string, s *gmqtt.Subscription) bool {
		if s == nil {
			ts = append(ts, "?nil")
		} else {
			ts = append(ts, s.GetFullTopicName())
		}
		return true
	}, subscription.IterationOptions{Type: subscription.TypeAll, ClientID: node})
	sort.Strings(ts)
	out := []*Sx{}
	for _, t := range ts {
		out = append(out, S(t))
	}
	return out
}

func fedqRun(in *Sx) *Sx {
	pubB := &fedPublisher{}
	retA := rtrie.NewStore()
	for _, m := range in.Field("ret") {
		retA.AddOrReplace(msgOfSx(m))
	}
	a := federation.VerifNewFederation(fedA, mem.NewStore(), retA, &fedPublisher{})
	retB := rtrie.NewStore()
	b := federation.VerifNewFederation(fedB, mem.NewStore(), retB, pubB)
	conn, err := grpc.NewClient("passthrough:///verif", grpc.WithTransportCredentials(insecure.NewCredentials()))
	if err != nil {
		panic(err)
	}
	c := &fedqCtx{a: a, b: b, pubB: pubB, retB: retB, conn: conn, known: map[*federation.Event]bool{}}
	defer func() {
		c.cut()
		b.VerifNodeFail(fedA)
		conn.Close()
	}()
	// a second peer of node A that is never served: its queue sits at another position than B's, so an event object
	// that the hooks share between the peers' queues shows in B's queue under a foreign id
	if in.Has("shadow") {
		a.VerifNodeJoin("nodeC")
		for k := in.Field1("shadow").Int(); k > 0; k-- {
			a.VerifEmit("nodeC", &federation.Event{Event: &federation.Event_Message{Message: federation.VerifMessageToEvent(&gmqtt.Message{Topic: "shadow"})}})
		}
	}
	nop := func(context.Context, server.Client, *gmqtt.Subscription) {}
	nopU := func(context.Context, server.Client, string) {}
	nopT := func(context.Context, string, server.SessionTerminatedReason) {}
	onSub := a.OnSubscribedWrapper(nop)
	onUnsub := a.OnUnsubscribedWrapper(nopU)
	onTerm := a.OnSessionTerminatedWrapper(nopT)
	cli := func(id string) server.Client { return &fedStubClient{opts: &server.ClientOptions{ClientID: id}} }
	outs := []*Sx{}
	for _, o := range in.Field("steps") {
		reset := false
		c.applied = nil
		switch o.List[0].Atom {
		case "sub":
			onSub(context.Background(), cli(o.List[1].Str()), fedSubOfStep(o))
		case "unsub":
			onUnsub(context.Background(), cli(o.List[1].Str()), o.List[2].Str())
		case "term":
			onTerm(context.Background(), o.List[1].Str(), server.NormalTermination)
		case "msg":
			a.VerifEmit(fedB, &federation.Event{Event: &federation.Event_Message{Message: federation.VerifMessageToEvent(msgOfSx(o.List[1]))}})
		case "send":
			c.send()
		case "deliver":
			c.deliver(o.List[1].Bool())
		case "ackd":
			c.ackDeliver()
		case "cut":
			c.cut()
		case "hello":
			reset = c.reconnect(o.List[1].Atom)
		case "drain":
			c.drain()
		case "peerlost":
			hadPeer := false
			for _, n := range b.VerifPeerNames() {
				hadPeer = hadPeer || n == fedA
			}
			b.VerifNodeFail(fedA)
			if hadPeer {
				// the session is closed: the server side ends the stream
				if c.up {
					<-c.srvDone
					done := make(chan error, 1)
					done <- nil
					c.srvDone = done
				}
				c.cut()
			}
		case "peerjoin":
			b.VerifNodeJoin(fedA)
		case "droppeer":
			if _, ok := a.VerifPeerQueue(fedB); ok {
				c.cut()
				a.VerifNodeFail(fedB)
			}
		case "joinpeer":
			if _, ok := a.VerifPeerQueue(fedB); !ok {
				a.VerifNodeJoin(fedB)
				reset = true
			}
		default:
			panic("fedq step " + o.List[0].Atom)
		}
		if reset {
			c.epoch++
		}
		outs = append(outs, c.observe(reset))
	}
	return L(K("outs", outs...))
}

func (c *fedqCtx) observe(reset bool) *Sx {
	emit := []*Sx{}
	q := L(A("none"))
	if st, ok := c.a.VerifPeerQueue(fedB); ok {
		ids := []uint64{}
		for _, e := range st.Events {
			ids = append(ids, e.Id)
			if !c.known[e] {
				c.known[e] = true
				emit = append(emit, L(U(e.Id), sxEvent(e)))
			}
		}
		read := A("nil")
		if st.NextRead >= 0 {
			read = U(st.Events[st.NextRead].Id)
		}
		q = L(A("q"), sxRanges(ids), read, U(st.NextID), Bool(st.Closed), Bool(st.Dangling))
	}
	sess := L(A("none"))
	if id, next, seen, ok := c.b.VerifSession(fedA); ok {
		sess = L(A("sess"), Bool(id == c.a.VerifPeerSessionID(fedB)), U(next), sxRanges(seen))
	}
	pubs := []*Sx{}
	for _, m := range c.pubB.take() {
		pubs = append(pubs, sxMsg(m))
	}
	rets := []*Sx{}
	c.retB.Iterate(func(m *gmqtt.Message) bool { rets = append(rets, sxMsg(m)); return true })
	c2s := []uint64{}
	for _, w := range c.c2s {
		c2s = append(c2s, w.id)
	}
	bpeer := false
	for _, n := range c.b.VerifPeerNames() {
		bpeer = bpeer || n == fedA
	}
	return L(K("emit", emit...), K("reset", Bool(reset)), q, sess, K("bpeer", Bool(bpeer)),
		K("view", fedViewOf(c.b.VerifFedSubs(), fedA)...), K("local", sortedKeys(c.a.VerifLocalTopics())...),
		K("strm", Bool(c.up), sxRanges(c2s), sxRanges(c.s2c)), K("app", c.applied...), K("pubs", pubs...),
		K("ret", sortSx(rets)...), K("idle", Bool(c.idle())))
}

var _ = fmt.Sprint
var _ = strings.Join
var _ = packets.Qos0

// ---- generator

var fedLevels = []string{"a", "a", "b", "+", "", "$s"}

func fedGenFilter(r *Rng) string {
	n := r.Range(1, 3)
	ls := []string{}
	for i := 0; i < n; i++ {
		ls = append(ls, Pick(r, fedLevels))
	}
	if r.Chance(1, 4) {
		if r.Chance(1, 3) {
			ls = []string{"#"}
		} else {
			ls = append(ls, "#")
		}
	}
	return strings.Join(ls, "/")
}

func fedGenMsg(r *Rng, tag int, topic string, retained bool, badCorr bool) *gmqtt.Message {
	m := &gmqtt.Message{QoS: byte(r.Intn(3)), Retained: retained, Topic: topic, Payload: []byte(fmt.Sprintf("%d", tag))}
	if r.Chance(1, 4) {
		m.ContentType = Pick(r, []string{"", "t", "text/plain"})
		if r.Bool() {
			m.CorrelationData = []byte(Pick(r, []string{"k", "id-1", "\xc3\xa9"}))
		}
		m.MessageExpiry = uint32(Pick(r, []int{0, 1, 60}))
		m.PayloadFormat = byte(r.Intn(2))
		m.ResponseTopic = Pick(r, []string{"", "r", "resp/x"})
		for k := 0; k < r.Intn(3); k++ {
			m.UserProperties = append(m.UserProperties, packets.UserProperty{K: r.Bytes(r.Range(0, 3)), V: r.Bytes(r.Range(0, 3))})
		}
	}
	if badCorr {
		m.CorrelationData = Pick(r, [][]byte{{0xff}, {0xc3}, {0x61, 0x80}, {0xed, 0xa0, 0x80}, {0xf4, 0x90, 0x80, 0x80}})
	}
	return m
}

func fedqGen(r *Rng, i int) *Sx {
	clients := []string{"c1", "c2", "c3"}
	shares := []string{"", "", "", "g1", "g2"}
	pool := []string{}
	for k := 0; k < r.Range(2, 6); k++ {
		pool = append(pool, fedGenFilter(r))
	}
	bad := r.Chance(1, 25) // this case may carry correlation data that is not UTF-8
	tag := 0
	rets := []*Sx{}
	for k := 0; k < Pick(r, []int{0, 0, 1, 2}); k++ {
		tag++
		rets = append(rets, sxMsg(fedGenMsg(r, tag, fmt.Sprintf("r/%d", k), true, bad && r.Chance(1, 4))))
	}
	steps := []*Sx{}
	subbed := []string{}
	add := func(x *Sx) { steps = append(steps, x) }
	genSub := func() {
		c, g, f := Pick(r, clients), Pick(r, shares), Pick(r, pool)
		full := f
		if g != "" {
			full = "$share/" + g + "/" + f
		}
		subbed = append(subbed, full)
		add(L(A("sub"), S(c), S(g), S(f)))
	}
	genMsg := func() {
		tag++
		gm := fedGenMsg(r, tag, Pick(r, []string{"a", "a/b", "$s/x"}), r.Chance(1, 5), bad && r.Chance(1, 6))
		if gm.Retained && r.Chance(1, 4) { // clears the receiver's retained message of the topic
			gm.Payload = nil
		}
		add(L(A("msg"), sxMsg(gm)))
	}
	// prologue
	for k := 0; k < Pick(r, []int{0, 0, 1, 3}); k++ {
		genSub()
	}
	if r.Chance(9, 10) {
		add(L(A("peerjoin")))
		add(L(A("joinpeer")))
		if r.Chance(9, 10) {
			add(L(A("hello"), A("ok")))
		}
	}
	n := r.Range(5, 60)
	for k := 0; k < n; k++ {
		switch x := r.Intn(1000); {
		case x < 130:
			genSub()
		case x < 210:
			t := Pick(r, pool)
			if len(subbed) > 0 && r.Chance(4, 5) {
				t = Pick(r, subbed)
			} else if g := Pick(r, shares); g != "" {
				t = "$share/" + g + "/" + t
			}
			add(L(A("unsub"), S(Pick(r, clients)), S(t)))
		case x < 240:
			add(L(A("term"), S(Pick(r, clients))))
		case x < 380:
			genMsg()
		case x < 520:
			add(L(A("send")))
		case x < 680:
			add(L(A("deliver"), A("1")))
		case x < 700:
			add(L(A("deliver"), A("0")))
		case x < 830:
			add(L(A("ackd")))
		case x < 860:
			add(L(A("cut")))
		case x < 910:
			add(L(A("hello"), A("ok")))
		case x < 922:
			add(L(A("hello"), A("lostresp")))
		case x < 930:
			add(L(A("hello"), A("lostreq")))
		case x < 938:
			add(L(A("hello"), A("failopen")))
		case x < 953:
			add(L(A("peerlost")))
		case x < 970:
			add(L(A("peerjoin")))
		case x < 977:
			add(L(A("droppeer")))
		case x < 990:
			add(L(A("joinpeer")))
		case x < 997:
			add(L(A("drain")))
		default: // a burst that crosses the fetch batch / LRU size
			for j := 0; j < r.Range(95, 130); j++ {
				genMsg()
			}
		}
	}
	if r.Chance(19, 20) {
		add(L(A("peerjoin")))
		add(L(A("joinpeer")))
		add(L(A("hello"), A("ok")))
		add(L(A("drain")))
	}
	if r.Chance(1, 2) {
		// node A has a second peer whose queue is at another position (see fedqRun)
		return L(K("ret", rets...), K("steps", steps...), K("shadow", I(Pick(r, []int{1, 2, 5}))))
	}
	return L(K("ret", rets...), K("steps", steps...))
}

// ---------------------------------------------------------------- fedr

func fedQueueLens(f *federation.Federation) map[string]int {
	m := map[string]int{}
	for _, n := range f.VerifPeerNames() {
		st, _ := f.VerifPeerQueue(n)
		m[n] = len(st.Events)
	}
	return m
}

func sxIterOpts(o *subscription.IterationOptions) *Sx {
	if o == nil {
		return A("none")
	}
	mt := "none"
	switch o.MatchType {
	case subscription.MatchName:
		mt = "name"
	case subscription.MatchFilter:
		mt = "filter"
	}
	return L(A("q"), Bool(o.Type&subscription.TypeSYS != 0), Bool(o.Type&subscription.TypeShared != 0), Bool(o.Type&subscription.TypeNonShared != 0),
		S(o.ClientID), S(o.TopicName), A(mt))
}

func fedrRun(in *Sx) *Sx {
	node := in.Field1("node").Str()
	local := mem.NewStore()
	for _, n := range in.Field("nodes") {
		if n.List[0].Str() != node {
			continue
		}
		for _, x := range n.List[1:] {
			local.Subscribe(x.List[0].Str(), &gmqtt.Subscription{ShareName: x.List[1].Str(), TopicFilter: x.List[2].Str(), QoS: 1})
		}
	}
	pub := &fedPublisher{}
	ret := rtrie.NewStore()
	f := federation.VerifNewFederation(node, local, ret, pub)
	for _, p := range in.Field("peers") {
		f.VerifNodeJoin(p.Str())
	}
	for _, o := range in.Field("fed") {
		switch o.List[0].Atom {
		case "sub":
			f.VerifFedSubs().Subscribe(o.List[1].Str(), &gmqtt.Subscription{ShareName: o.List[2].Str(), TopicFilter: o.List[3].Str()})
		case "unsub":
			f.VerifFedSubs().Unsubscribe(o.List[1].Str(), o.List[2].Str())
		}
	}
	pubs := []*Sx{}
	for _, mx := range in.Field("pubs") {
		before := fedQueueLens(f)
		var drop bool
		var opts *subscription.IterationOptions
		msg := msgOfSx(mx.List[2])
		def := subscription.IterationOptions{Type: subscription.TypeAll, TopicName: msg.Topic, MatchType: subscription.MatchFilter}
		switch mx.List[1].Atom {
		case "direct":
			drop, opts = f.VerifSendMessage(msg)
		case "arrived": // through OnMsgArrivedWrapper, as publishHandler does
			req := &server.MsgArrivedRequest{Message: msg, IterationOptions: def}
			h := f.OnMsgArrivedWrapper(func(context.Context, server.Client, *server.MsgArrivedRequest) error { return nil })
			h(context.Background(), &fedStubClient{opts: &server.ClientOptions{ClientID: "pub"}}, req)
			drop = req.Message == nil
			if req.IterationOptions != def {
				o := req.IterationOptions
				opts = &o
			}
		case "will": // through OnWillPublishWrapper, as sendWillLocked does
			req := &server.WillMsgRequest{Message: msg, IterationOptions: def}
			h := f.OnWillPublishWrapper(func(context.Context, string, *server.WillMsgRequest) {})
			h(context.Background(), "pub", req)
			drop = req.Message == nil
			if req.IterationOptions != def {
				o := req.IterationOptions
				opts = &o
			}
		}
		sent := []*Sx{}
		idsOK := true
		for _, n := range f.VerifPeerNames() {
			st, _ := f.VerifPeerQueue(n)
			for _, e := range st.Events[before[n]:] {
				sent = append(sent, L(S(n), sxEvent(e)))
			}
			// every queue numbers its own events consecutively (the receiver drops an event whose id it has seen)
			for i := range st.Events {
				if i > 0 && st.Events[i].Id != st.Events[i-1].Id+1 {
					idsOK = false
				}
			}
			if k := len(st.Events); k > 0 && st.Events[k-1].Id+1 != st.NextID {
				idsOK = false
			}
		}
		pubs = append(pubs, L(K("sent", sent...), K("drop", Bool(drop)), K("opts", sxIterOpts(opts)), K("idsok", Bool(idsOK))))
	}
	// the receiving side: message events from n1 applied through eventStreamHandler
	f.VerifOpenSession("n1", "s")
	recv := []*Sx{}
	for i, mx := range in.Field("recv") {
		ev, err := fedWire(&federation.Event{Id: uint64(i), Event: &federation.Event_Message{Message: federation.VerifMessageToEvent(msgOfSx(mx))}})
		if err != nil {
			recv = append(recv, L(A("marshal_error")))
			continue
		}
		before := 0
		for _, v := range fedQueueLens(f) {
			before += v
		}
		ack := f.VerifHandleEvent("n1", ev)
		after := 0
		for _, v := range fedQueueLens(f) {
			after += v
		}
		ps := []*Sx{}
		for _, m := range pub.take() {
			ps = append(ps, sxMsg(m))
		}
		rs := []*Sx{}
		ret.Iterate(func(m *gmqtt.Message) bool { rs = append(rs, sxMsg(m)); return true })
		recv = append(recv, L(K("pubs", ps...), K("ret", sortSx(rs)...), K("fwd", I(after-before)), K("ack", Bool(ack != nil && ack.EventId == uint64(i)))))
	}
	return L(K("pubs", pubs...), K("recv", recv...))
}

func fedrGen(r *Rng, i int) *Sx {
	npeers := r.Range(1, 3)
	names := []string{"n0", "n1", "n2", "n3"}[:npeers+1]
	// the origin is usually n0; sometimes a name that sorts between the others
	origin := "n0"
	if r.Chance(1, 4) {
		origin = Pick(r, []string{"n1a", "n2a", "n9"})
		names[0] = origin
	}
	topics := []string{"a", "a/b", "b", "a/a", "$s/x"}
	pool := []string{}
	for k := 0; k < r.Range(2, 5); k++ {
		pool = append(pool, fedGenFilter(r))
	}
	hot := Pick(r, []string{"a", "a/#", "+", "#", "a/b"})
	noShared := r.Chance(3, 10) // plain routing only
	hotGroup := Pick(r, []string{"g1", "g2"})
	nodes := []*Sx{}
	fed := []*Sx{}
	for _, n := range names {
		subs := []*Sx{S(n)}
		seen := map[string]bool{}
		for k := 0; k < r.Range(0, 4); k++ {
			c := Pick(r, []string{"c1", "c2"})
			g := Pick(r, []string{"", "", "g1", "g2"})
			fl := Pick(r, pool)
			if r.Chance(1, 3) { // members of one group on several nodes, or plain subscribers of the hot filter
				fl = hot
				if r.Chance(2, 3) {
					g = hotGroup
				}
			}
			if noShared {
				g = ""
			}
			subs = append(subs, L(S(c), S(g), S(fl)))
			full := fl
			if g != "" {
				full = "$share/" + g + "/" + fl
			}
			if n != origin && !seen[full] {
				seen[full] = true
				fed = append(fed, L(A("sub"), S(n), S(g), S(fl)))
				if r.Chance(1, 8) { // churn: an extra entry that comes and goes
					x := fedGenFilter(r)
					if !seen[x] {
						fed = append(fed, L(A("sub"), S(n), S(""), S(x)), L(A("unsub"), S(n), S(x)))
					}
				}
			}
		}
		nodes = append(nodes, L(subs...))
	}
	peers := []*Sx{}
	for _, n := range names[1:] {
		peers = append(peers, S(n))
	}
	pubs := []*Sx{}
	tag := 0
	for k := 0; k < r.Range(1, 6); k++ {
		tag++
		m := fedGenMsg(r, tag, Pick(r, topics), r.Chance(1, 5), false)
		if r.Chance(1, 6) {
			m.Payload = nil
		}
		if r.Chance(1, 10) {
			m.Dup, m.PacketID, m.SubscriptionIdentifier = true, 7, []uint32{3}
		}
		pubs = append(pubs, L(A("p"), A(Pick(r, []string{"direct", "arrived", "arrived", "will"})), sxMsg(m)))
	}
	recv := []*Sx{}
	for k := 0; k < r.Range(0, 4); k++ {
		tag++
		m := fedGenMsg(r, tag, Pick(r, []string{"a", "a/b", "$s/x"}), r.Chance(3, 5), false)
		if r.Chance(1, 5) {
			m.Payload = nil
		}
		recv = append(recv, sxMsg(m))
	}
	return L(K("node", S(origin)), K("nodes", nodes...), K("peers", peers...), K("fed", fed...), K("pubs", pubs...), K("recv", recv...))
}

func init() {
	register(&Suite{Name: "fedq", Gen: fedqGen, Run: fedqRun})
	register(&Suite{Name: "fedr", Gen: fedrGen, Run: fedrRun})
}
