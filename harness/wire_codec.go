package main

// Independent minimal MQTT 3.1 / 3.1.1 / 5.0 codec for the wire-level runner.
//
// Written from the OASIS specifications (mqtt-v3.1.1-os, mqtt-v5.0-os). It deliberately does NOT
// use github.com/DrmagicE/gmqtt/pkg/packets, so that a defect of the broker's own codec is
// visible on the wire instead of cancelling out.
//
//   client -> server : wireEncode(ver, PKT)        s-expression  -> bytes (permissive: encodes what it is told)
//   server -> client : wireDecode(ver, bytes)      bytes -> s-expression     (strict: anything odd is (undecodable x..))
//
// The packet vocabulary is documented in WIRE.md.

import (
	"sort"
)

// ---------------------------------------------------------------- properties

const (
	wpByte = iota
	wpU16
	wpU32
	wpVar
	wpBin // binary data or UTF-8 string: 2 byte length + bytes
	wpPair
)

type wireProp struct {
	name string
	id   byte
	kind int
}

// MQTT 5.0 section 2.2.2.2, table 2-4.
var wireProps = []wireProp{
	{"pfmt", 0x01, wpByte},
	{"msgexpiry", 0x02, wpU32},
	{"ctype", 0x03, wpBin},
	{"resp", 0x08, wpBin},
	{"corr", 0x09, wpBin},
	{"subid", 0x0B, wpVar},
	{"sei", 0x11, wpU32},
	{"assigned", 0x12, wpBin},
	{"keepalive", 0x13, wpU16},
	{"authmethod", 0x15, wpBin},
	{"authdata", 0x16, wpBin},
	{"reqprob", 0x17, wpByte},
	{"willdelay", 0x18, wpU32},
	{"reqresp", 0x19, wpByte},
	{"respinfo", 0x1A, wpBin},
	{"serverref", 0x1C, wpBin},
	{"reason", 0x1F, wpBin},
	{"recvmax", 0x21, wpU16},
	{"aliasmax", 0x22, wpU16},
	{"alias", 0x23, wpU16},
	{"maxqos", 0x24, wpByte},
	{"retainavail", 0x25, wpByte},
	{"user", 0x26, wpPair},
	{"maxpkt", 0x27, wpU32},
	{"wildcard", 0x28, wpByte},
	{"subidavail", 0x29, wpByte},
	{"sharedavail", 0x2A, wpByte},
}

var wirePropByName = map[string]wireProp{}
var wirePropByID = map[byte]wireProp{}

func init() {
	for _, p := range wireProps {
		wirePropByName[p.name] = p
		wirePropByID[p.id] = p
	}
}

// ---------------------------------------------------------------- encoding helpers

func wireVarint(n uint64) []byte {
	var out []byte
	for {
		b := byte(n % 128)
		n /= 128
		if n > 0 {
			b |= 0x80
		}
		out = append(out, b)
		if n == 0 || len(out) == 8 {
			return out
		}
	}
}

func wireU16(n int) []byte    { return []byte{byte(n >> 8), byte(n)} }
func wireU32(n uint64) []byte { return []byte{byte(n >> 24), byte(n >> 16), byte(n >> 8), byte(n)} }
func wireBin(b []byte) []byte { return append(wireU16(len(b)), b...) }

// wireEncProps encodes the (props PROP...) values in the order given (length prefix included).
// Extra PROP form for negative tests: (rawprop xBYTES) is copied verbatim into the property block.
func wireEncProps(props []*Sx) []byte {
	var body []byte
	for _, p := range props {
		name := p.List[0].Atom
		if name == "rawprop" {
			body = append(body, p.List[1].Bytes()...)
			continue
		}
		d, ok := wirePropByName[name]
		if !ok {
			panic("wire: unknown property " + name)
		}
		body = append(body, d.id)
		switch d.kind {
		case wpByte:
			body = append(body, byte(p.List[1].Uint()))
		case wpU16:
			body = append(body, wireU16(int(p.List[1].Uint()))...)
		case wpU32:
			body = append(body, wireU32(p.List[1].Uint())...)
		case wpVar:
			body = append(body, wireVarint(p.List[1].Uint())...)
		case wpBin:
			body = append(body, wireBin(p.List[1].Bytes())...)
		case wpPair:
			body = append(body, wireBin(p.List[1].Bytes())...)
			body = append(body, wireBin(p.List[2].Bytes())...)
		}
	}
	return append(wireVarint(uint64(len(body))), body...)
}

func wireFixed(typ byte, flags byte, body []byte) []byte {
	out := []byte{typ<<4 | flags&0x0f}
	out = append(out, wireVarint(uint64(len(body)))...)
	return append(out, body...)
}

func wirePropsOf(x *Sx) []*Sx {
	if x == nil {
		return nil
	}
	return x.Field("props")
}

// wireEncodeConnect encodes the CONNECT described by a (connect C VER (cid x) (clean b) (keepalive n) ...) step.
// cid is passed separately because the runner may translate canonical auto ids.
func wireEncodeConnect(ver int, st *Sx, cid []byte) []byte {
	var body []byte
	if ver == 3 {
		body = append(body, wireBin([]byte("MQIsdp"))...)
	} else {
		body = append(body, wireBin([]byte("MQTT"))...)
	}
	body = append(body, byte(ver))
	var flags byte
	if st.Field1("clean").Bool() {
		flags |= 0x02
	}
	var will *Sx
	if st.Has("will") {
		will = L(st.Field("will")...)
		flags |= 0x04
		flags |= byte(will.Field1("qos").Int()&3) << 3
		if will.Field1("retain").Bool() {
			flags |= 0x20
		}
	}
	if st.Has("pass") {
		flags |= 0x40
	}
	if st.Has("user") {
		flags |= 0x80
	}
	if st.Has("connflags") { // negative tests: override the connect flags byte
		flags = byte(st.Field1("connflags").Int())
	}
	body = append(body, flags)
	body = append(body, wireU16(st.Field1("keepalive").Int())...)
	if ver == 5 {
		body = append(body, wireEncProps(st.Field("props"))...)
	}
	body = append(body, wireBin(cid)...)
	if will != nil {
		if ver == 5 {
			body = append(body, wireEncProps(will.Field("props"))...)
		}
		body = append(body, wireBin(will.Field1("topic").Bytes())...)
		body = append(body, wireBin(will.Field1("payload").Bytes())...)
	}
	if st.Has("user") {
		body = append(body, wireBin(st.Field1("user").Bytes())...)
	}
	if st.Has("pass") {
		body = append(body, wireBin(st.Field1("pass").Bytes())...)
	}
	return wireFixed(1, 0, body)
}

// wireEncode encodes one client -> server PKT for protocol level ver (3, 4 or 5).
func wireEncode(ver int, p *Sx) []byte {
	kind := p.List[0].Atom
	switch kind {
	case "raw":
		return p.List[1].Bytes()
	case "pingreq":
		return wireFixed(12, 0, nil)
	case "publish":
		// (publish DUP QOS RETAIN xTOPIC xPAYLOAD PID (props ...))
		dup, qos, retain := p.List[1].Bool(), p.List[2].Int(), p.List[3].Bool()
		var flags byte
		if dup {
			flags |= 8
		}
		flags |= byte(qos&3) << 1
		if retain {
			flags |= 1
		}
		body := wireBin(p.List[4].Bytes())
		if qos > 0 {
			body = append(body, wireU16(p.List[6].Int())...)
		}
		if ver == 5 {
			body = append(body, wireEncProps(wirePropsOf(p))...)
		}
		body = append(body, p.List[5].Bytes()...)
		return wireFixed(3, flags, body)
	case "puback", "pubrec", "pubrel", "pubcomp":
		// (puback PID CODE (props ...))
		typ := map[string]byte{"puback": 4, "pubrec": 5, "pubrel": 6, "pubcomp": 7}[kind]
		var flags byte
		if kind == "pubrel" {
			flags = 2
		}
		body := wireU16(p.List[1].Int())
		if ver == 5 {
			code := p.List[2].Int()
			props := wirePropsOf(p)
			if len(props) > 0 {
				body = append(body, byte(code))
				body = append(body, wireEncProps(props)...)
			} else if code != 0 {
				body = append(body, byte(code))
			}
		}
		return wireFixed(typ, flags, body)
	case "subscribe":
		// (subscribe PID (props ...) (t xFILTER QOS NL RAP RH) ...)
		body := wireU16(p.List[1].Int())
		if ver == 5 {
			body = append(body, wireEncProps(wirePropsOf(p))...)
		}
		for _, t := range p.List[2:] {
			if !t.IsL || t.List[0].Atom != "t" {
				continue
			}
			body = append(body, wireBin(t.List[1].Bytes())...)
			o := byte(t.List[2].Int() & 3)
			if t.List[3].Bool() {
				o |= 4
			}
			if t.List[4].Bool() {
				o |= 8
			}
			o |= byte(t.List[5].Int()&3) << 4
			body = append(body, o)
		}
		return wireFixed(8, 2, body)
	case "unsubscribe":
		// (unsubscribe PID (props ...) xFILTER ...)
		body := wireU16(p.List[1].Int())
		if ver == 5 {
			body = append(body, wireEncProps(wirePropsOf(p))...)
		}
		for _, t := range p.List[2:] {
			if t.IsL {
				continue
			}
			body = append(body, wireBin(t.Bytes())...)
		}
		return wireFixed(10, 2, body)
	case "disconnect", "auth":
		// (disconnect CODE (props ...))
		typ := byte(14)
		if kind == "auth" {
			typ = 15
		}
		var body []byte
		if ver == 5 {
			code := p.List[1].Int()
			props := wirePropsOf(p)
			if len(props) > 0 {
				body = append(body, byte(code))
				body = append(body, wireEncProps(props)...)
			} else if code != 0 {
				body = append(body, byte(code))
			}
		}
		return wireFixed(typ, 0, body)
	}
	panic("wire: cannot encode packet " + p.String())
}

// ---------------------------------------------------------------- decoding

type wireRd struct {
	b   []byte
	p   int
	bad bool
}

func (r *wireRd) need(n int) bool {
	if r.bad || r.p+n > len(r.b) {
		r.bad = true
		return false
	}
	return true
}
func (r *wireRd) u8() byte {
	if !r.need(1) {
		return 0
	}
	r.p++
	return r.b[r.p-1]
}
func (r *wireRd) u16() int {
	if !r.need(2) {
		return 0
	}
	r.p += 2
	return int(r.b[r.p-2])<<8 | int(r.b[r.p-1])
}
func (r *wireRd) u32() uint64 {
	if !r.need(4) {
		return 0
	}
	r.p += 4
	return uint64(r.b[r.p-4])<<24 | uint64(r.b[r.p-3])<<16 | uint64(r.b[r.p-2])<<8 | uint64(r.b[r.p-1])
}

// varint: MQTT 5.0 section 1.5.5; at most four bytes, minimal encoding required.
func (r *wireRd) varint() uint64 {
	var v uint64
	var mul uint64 = 1
	for i := 0; i < 4; i++ {
		b := r.u8()
		if r.bad {
			return 0
		}
		v += uint64(b&0x7f) * mul
		mul *= 128
		if b&0x80 == 0 {
			if i > 0 && b == 0 {
				r.bad = true // not minimal
			}
			return v
		}
	}
	r.bad = true
	return 0
}
func (r *wireRd) bin() []byte {
	n := r.u16()
	if !r.need(n) {
		return nil
	}
	r.p += n
	return r.b[r.p-n : r.p]
}
func (r *wireRd) rest() []byte {
	if r.bad {
		return nil
	}
	x := r.b[r.p:]
	r.p = len(r.b)
	return x
}
func (r *wireRd) atEnd() bool { return !r.bad && r.p == len(r.b) }

// props reads a property block and returns (props ...) sorted by property name (stable).
func (r *wireRd) props() *Sx {
	n := int(r.varint())
	if !r.need(n) {
		return K("props")
	}
	sub := &wireRd{b: r.b[r.p : r.p+n]}
	r.p += n
	var out []*Sx
	for !sub.bad && sub.p < len(sub.b) {
		id := sub.varint() // the identifier is a variable byte integer; every defined one fits a byte
		if sub.bad || id > 0xff {
			sub.bad = true
			break
		}
		d, ok := wirePropByID[byte(id)]
		if !ok {
			sub.bad = true
			break
		}
		switch d.kind {
		case wpByte:
			out = append(out, K(d.name, I(int(sub.u8()))))
		case wpU16:
			out = append(out, K(d.name, I(sub.u16())))
		case wpU32:
			out = append(out, K(d.name, U(sub.u32())))
		case wpVar:
			out = append(out, K(d.name, U(sub.varint())))
		case wpBin:
			out = append(out, K(d.name, B(sub.bin())))
		case wpPair:
			k := sub.bin()
			v := sub.bin()
			out = append(out, K(d.name, B(k), B(v)))
		}
	}
	if sub.bad {
		r.bad = true
	}
	sort.SliceStable(out, func(i, j int) bool { return out[i].List[0].Atom < out[j].List[0].Atom })
	return K("props", out...)
}

// Frame classification of the head of a byte stream.
const (
	wireFrameIncomplete = iota
	wireFrameOK
	wireFrameBad // remaining-length field is malformed: the stream cannot be re-synchronised
)

// wireFrame returns the total length of the first control packet in buf.
func wireFrame(buf []byte) (total int, st int) {
	if len(buf) < 2 {
		return 0, wireFrameIncomplete
	}
	var v, mul = 0, 1
	for i := 1; i <= 4; i++ {
		if i >= len(buf) {
			return 0, wireFrameIncomplete
		}
		b := buf[i]
		v += int(b&0x7f) * mul
		mul *= 128
		if b&0x80 == 0 {
			if 1+i+v > len(buf) {
				return 0, wireFrameIncomplete
			}
			return 1 + i + v, wireFrameOK
		}
	}
	return 0, wireFrameBad
}

func wireUndecodable(b []byte) *Sx { return K("undecodable", B(append([]byte{}, b...))) }

// wireDecode decodes exactly one complete control packet (as delimited by wireFrame) sent by the
// server to a client speaking protocol level ver.
func wireDecode(ver int, pkt []byte) *Sx {
	x := wireDecode1(ver, pkt)
	if x == nil {
		return wireUndecodable(pkt)
	}
	return x
}

func wireDecode1(ver int, pkt []byte) *Sx {
	hd := &wireRd{b: pkt}
	b0 := hd.u8()
	rl := hd.varint()
	if hd.bad || int(rl) != len(pkt)-hd.p {
		return nil
	}
	typ, flags := b0>>4, b0&0x0f
	r := &wireRd{b: pkt[hd.p:]}
	v5 := ver == 5
	switch typ {
	case 2: // CONNACK
		if flags != 0 {
			return nil
		}
		ack := r.u8()
		code := r.u8()
		props := K("props")
		if v5 {
			props = r.props()
		}
		if !r.atEnd() || ack > 1 {
			return nil
		}
		return L(A("connack"), I(int(ack)), I(int(code)), props)
	case 3: // PUBLISH
		dup, qos, retain := flags&8 != 0, int(flags>>1)&3, flags&1 != 0
		if qos == 3 {
			return nil
		}
		topic := r.bin()
		pid := 0
		if qos > 0 {
			pid = r.u16()
		}
		props := K("props")
		if v5 {
			props = r.props()
		}
		payload := r.rest()
		if r.bad {
			return nil
		}
		return L(A("publish"), Bool(dup), I(qos), Bool(retain), B(topic), B(payload), I(pid), props)
	case 4, 5, 6, 7: // PUBACK PUBREC PUBREL PUBCOMP
		want := byte(0)
		if typ == 6 {
			want = 2
		}
		if flags != want {
			return nil
		}
		pid := r.u16()
		code := 0
		props := K("props")
		if v5 {
			if !r.atEnd() {
				code = int(r.u8())
				if !r.atEnd() {
					props = r.props()
				}
			}
		}
		if !r.atEnd() {
			return nil
		}
		name := []string{"puback", "pubrec", "pubrel", "pubcomp"}[typ-4]
		return L(A(name), I(pid), I(code), props)
	case 9, 11: // SUBACK UNSUBACK
		if flags != 0 {
			return nil
		}
		pid := r.u16()
		props := K("props")
		if v5 {
			props = r.props()
		}
		var cs []*Sx
		for _, c := range r.rest() {
			cs = append(cs, I(int(c)))
		}
		if r.bad {
			return nil
		}
		if typ == 9 {
			if len(cs) == 0 {
				return nil // a SUBACK carries at least one return code
			}
			return L(A("suback"), I(pid), K("codes", cs...), props)
		}
		if !v5 && len(cs) != 0 {
			return nil // 3.1.1 UNSUBACK has no payload
		}
		return L(A("unsuback"), I(pid), K("codes", cs...), props)
	case 13: // PINGRESP
		if flags != 0 || !r.atEnd() {
			return nil
		}
		return L(A("pingresp"))
	case 14, 15: // DISCONNECT AUTH
		if flags != 0 {
			return nil
		}
		if typ == 15 && !v5 {
			return nil
		}
		code := 0
		props := K("props")
		if !r.atEnd() {
			if !v5 {
				return nil
			}
			code = int(r.u8())
			if !r.atEnd() {
				props = r.props()
			}
		}
		if !r.atEnd() {
			return nil
		}
		name := "disconnect"
		if typ == 15 {
			name = "auth"
		}
		return L(A(name), I(code), props)
	}
	return nil
}
