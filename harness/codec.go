package main

// Suites for property C06 (packet codec):
//   codec  : byte streams decoded by packets.Reader.ReadPacket under v3.1 / v3.1.1 / v5,
//            each accepted packet re-encoded (Pack), measured (TotalBytes) and decoded again
//   cenc   : structurally valid packet values built as pkg/packets structs, Pack + TotalBytes + decode
//   ctopic : ValidUTF8 / ValidTopicName / ValidTopicFilter / ValidV5Topic on byte strings
//   cmsg   : gmqtt.Message.TotalBytes and MessageToPublish
// Test inputs of the "valid" kind are produced by the encoder in this file (specEnc), which is
// written from the MQTT 3.1.1 / 5.0 specifications and does not use pkg/packets.

import (
	"bufio"
	"bytes"
	"fmt"
	"io"
	"runtime"
	"sync"

	"github.com/DrmagicE/gmqtt"
	"github.com/DrmagicE/gmqtt/pkg/codes"
	"github.com/DrmagicE/gmqtt/pkg/packets"
)

// TotalAlloc deltas are process-wide: every case of these suites runs under one lock.
var codecMu sync.Mutex

// ---------------------------------------------------------------- packets.* -> s-expression

func sxFH(fh *packets.FixHeader) *Sx {
	if fh == nil {
		return A("-")
	}
	return L(A("fh"), I(int(fh.PacketType)), I(int(fh.Flags)), I(fh.RemainLength))
}

func sxProps(p *packets.Properties) *Sx {
	if p == nil {
		return A("nil")
	}
	es := []*Sx{A("props")}
	pb := func(id int, v *byte) {
		if v != nil {
			es = append(es, L(I(id), A("b"), I(int(*v))))
		}
	}
	pw := func(id int, v *uint16) {
		if v != nil {
			es = append(es, L(I(id), A("w"), I(int(*v))))
		}
	}
	pd := func(id int, v *uint32) {
		if v != nil {
			es = append(es, L(I(id), A("d"), U(uint64(*v))))
		}
	}
	ps := func(id int, v []byte) {
		if v != nil {
			es = append(es, L(I(id), A("s"), B(v)))
		}
	}
	pb(1, p.PayloadFormat)
	pd(2, p.MessageExpiry)
	ps(3, p.ContentType)
	ps(8, p.ResponseTopic)
	ps(9, p.CorrelationData)
	if len(p.SubscriptionIdentifier) > 0 {
		e := []*Sx{I(11), A("v")}
		for _, v := range p.SubscriptionIdentifier {
			e = append(e, U(uint64(v)))
		}
		es = append(es, L(e...))
	}
	pd(17, p.SessionExpiryInterval)
	ps(18, p.AssignedClientID)
	pw(19, p.ServerKeepAlive)
	ps(21, p.AuthMethod)
	ps(22, p.AuthData)
	pb(23, p.RequestProblemInfo)
	pd(24, p.WillDelayInterval)
	pb(25, p.RequestResponseInfo)
	ps(26, p.ResponseInfo)
	ps(28, p.ServerReference)
	ps(31, p.ReasonString)
	pw(33, p.ReceiveMaximum)
	pw(34, p.TopicAliasMaximum)
	pw(35, p.TopicAlias)
	pb(36, p.MaximumQoS)
	pb(37, p.RetainAvailable)
	if len(p.User) > 0 {
		e := []*Sx{I(38), A("u")}
		for _, u := range p.User {
			e = append(e, L(B(u.K), B(u.V)))
		}
		es = append(es, L(e...))
	}
	pd(39, p.MaximumPacketSize)
	pb(40, p.WildcardSubAvailable)
	pb(41, p.SubIDAvailable)
	pb(42, p.SharedSubAvailable)
	return L(es...)
}

func sxPacket(pk packets.Packet) *Sx {
	switch p := pk.(type) {
	case *packets.Connect:
		return L(A("connect"), sxFH(p.FixHeader), I(int(p.Version)), I(int(p.ProtocolLevel)), Bool(p.UsernameFlag), B(p.ProtocolName),
			Bool(p.PasswordFlag), Bool(p.WillRetain), I(int(p.WillQos)), Bool(p.WillFlag), B(p.WillTopic), B(p.WillMsg),
			Bool(p.CleanStart), I(int(p.KeepAlive)), B(p.ClientID), B(p.Username), B(p.Password), sxProps(p.Properties), sxProps(p.WillProperties))
	case *packets.Connack:
		return L(A("connack"), sxFH(p.FixHeader), I(int(p.Version)), I(int(p.Code)), Bool(p.SessionPresent), sxProps(p.Properties))
	case *packets.Publish:
		return L(A("publish"), sxFH(p.FixHeader), I(int(p.Version)), Bool(p.Dup), I(int(p.Qos)), Bool(p.Retain), B(p.TopicName),
			I(int(p.PacketID)), B(p.Payload), sxProps(p.Properties))
	case *packets.Puback:
		return L(A("puback"), sxFH(p.FixHeader), I(int(p.Version)), I(int(p.PacketID)), I(int(p.Code)), sxProps(p.Properties))
	case *packets.Pubrec:
		return L(A("pubrec"), sxFH(p.FixHeader), I(int(p.Version)), I(int(p.PacketID)), I(int(p.Code)), sxProps(p.Properties))
	case *packets.Pubcomp:
		return L(A("pubcomp"), sxFH(p.FixHeader), I(int(p.Version)), I(int(p.PacketID)), I(int(p.Code)), sxProps(p.Properties))
	case *packets.Pubrel:
		return L(A("pubrel"), sxFH(p.FixHeader), I(int(p.PacketID)), I(int(p.Code)), sxProps(p.Properties))
	case *packets.Subscribe:
		ts := []*Sx{}
		for _, t := range p.Topics {
			ts = append(ts, L(S(t.Name), I(int(t.Qos)), I(int(t.RetainHandling)), Bool(t.NoLocal), Bool(t.RetainAsPublished)))
		}
		return L(A("subscribe"), sxFH(p.FixHeader), I(int(p.Version)), I(int(p.PacketID)), L(ts...), sxProps(p.Properties))
	case *packets.Suback:
		return L(A("suback"), sxFH(p.FixHeader), I(int(p.Version)), I(int(p.PacketID)), B(p.Payload), sxProps(p.Properties))
	case *packets.Unsubscribe:
		ts := []*Sx{}
		for _, t := range p.Topics {
			ts = append(ts, S(t))
		}
		return L(A("unsubscribe"), sxFH(p.FixHeader), I(int(p.Version)), I(int(p.PacketID)), L(ts...), sxProps(p.Properties))
	case *packets.Unsuback:
		return L(A("unsuback"), sxFH(p.FixHeader), I(int(p.Version)), I(int(p.PacketID)), B(p.Payload), sxProps(p.Properties))
	case *packets.Pingreq:
		return L(A("pingreq"), sxFH(p.FixHeader))
	case *packets.Pingresp:
		return L(A("pingresp"), sxFH(p.FixHeader))
	case *packets.Disconnect:
		return L(A("disconnect"), sxFH(p.FixHeader), I(int(p.Version)), I(int(p.Code)), sxProps(p.Properties))
	case *packets.Auth:
		return L(A("auth"), sxFH(p.FixHeader), I(int(p.Code)), sxProps(p.Properties))
	}
	return A("unknown")
}

// ---------------------------------------------------------------- s-expression -> packets.*

func propsOfSx(x *Sx) *packets.Properties {
	if !x.IsL {
		return nil
	}
	p := &packets.Properties{}
	for _, e := range x.List[1:] {
		id := e.List[0].Int()
		kind := e.List[1].Atom
		var b *byte
		var w *uint16
		var d *uint32
		var s []byte
		switch kind {
		case "b":
			v := byte(e.List[2].Int())
			b = &v
		case "w":
			v := uint16(e.List[2].Int())
			w = &v
		case "d":
			v := uint32(e.List[2].Uint())
			d = &v
		case "s":
			s = e.List[2].Bytes()
			if s == nil {
				s = []byte{}
			}
		}
		switch id {
		case 1:
			p.PayloadFormat = b
		case 2:
			p.MessageExpiry = d
		case 3:
			p.ContentType = s
		case 8:
			p.ResponseTopic = s
		case 9:
			p.CorrelationData = s
		case 11:
			for _, v := range e.List[2:] {
				p.SubscriptionIdentifier = append(p.SubscriptionIdentifier, uint32(v.Uint()))
			}
		case 17:
			p.SessionExpiryInterval = d
		case 18:
			p.AssignedClientID = s
		case 19:
			p.ServerKeepAlive = w
		case 21:
			p.AuthMethod = s
		case 22:
			p.AuthData = s
		case 23:
			p.RequestProblemInfo = b
		case 24:
			p.WillDelayInterval = d
		case 25:
			p.RequestResponseInfo = b
		case 26:
			p.ResponseInfo = s
		case 28:
			p.ServerReference = s
		case 31:
			p.ReasonString = s
		case 33:
			p.ReceiveMaximum = w
		case 34:
			p.TopicAliasMaximum = w
		case 35:
			p.TopicAlias = w
		case 36:
			p.MaximumQoS = b
		case 37:
			p.RetainAvailable = b
		case 38:
			for _, u := range e.List[2:] {
				p.User = append(p.User, packets.UserProperty{K: nz(u.List[0].Bytes()), V: nz(u.List[1].Bytes())})
			}
		case 39:
			p.MaximumPacketSize = d
		case 40:
			p.WildcardSubAvailable = b
		case 41:
			p.SubIDAvailable = b
		case 42:
			p.SharedSubAvailable = b
		}
	}
	return p
}

func nz(b []byte) []byte {
	if b == nil {
		return []byte{}
	}
	return b
}

func pktOfSx(x *Sx) packets.Packet {
	f := x.List
	by := func(i int) byte { return byte(f[i].Int()) }
	switch f[0].Atom {
	case "connect":
		return &packets.Connect{Version: by(2), ProtocolLevel: by(3), UsernameFlag: f[4].Bool(), ProtocolName: f[5].Bytes(),
			PasswordFlag: f[6].Bool(), WillRetain: f[7].Bool(), WillQos: by(8), WillFlag: f[9].Bool(), WillTopic: f[10].Bytes(),
			WillMsg: f[11].Bytes(), CleanStart: f[12].Bool(), KeepAlive: uint16(f[13].Int()), ClientID: f[14].Bytes(),
			Username: f[15].Bytes(), Password: f[16].Bytes(), Properties: propsOfSx(f[17]), WillProperties: propsOfSx(f[18])}
	case "connack":
		return &packets.Connack{Version: by(2), Code: by(3), SessionPresent: f[4].Bool(), Properties: propsOfSx(f[5])}
	case "publish":
		return &packets.Publish{Version: by(2), Dup: f[3].Bool(), Qos: by(4), Retain: f[5].Bool(), TopicName: f[6].Bytes(),
			PacketID: uint16(f[7].Int()), Payload: f[8].Bytes(), Properties: propsOfSx(f[9])}
	case "puback":
		return &packets.Puback{Version: by(2), PacketID: uint16(f[3].Int()), Code: by(4), Properties: propsOfSx(f[5])}
	case "pubrec":
		return &packets.Pubrec{Version: by(2), PacketID: uint16(f[3].Int()), Code: by(4), Properties: propsOfSx(f[5])}
	case "pubcomp":
		return &packets.Pubcomp{Version: by(2), PacketID: uint16(f[3].Int()), Code: by(4), Properties: propsOfSx(f[5])}
	case "pubrel":
		return &packets.Pubrel{PacketID: uint16(f[2].Int()), Code: by(3), Properties: propsOfSx(f[4])}
	case "subscribe":
		p := &packets.Subscribe{Version: by(2), PacketID: uint16(f[3].Int()), Properties: propsOfSx(f[5])}
		for _, t := range f[4].List {
			p.Topics = append(p.Topics, packets.Topic{Name: t.List[0].Str(), SubOptions: packets.SubOptions{Qos: byte(t.List[1].Int()),
				RetainHandling: byte(t.List[2].Int()), NoLocal: t.List[3].Bool(), RetainAsPublished: t.List[4].Bool()}})
		}
		return p
	case "suback":
		return &packets.Suback{Version: by(2), PacketID: uint16(f[3].Int()), Payload: f[4].Bytes(), Properties: propsOfSx(f[5])}
	case "unsubscribe":
		p := &packets.Unsubscribe{Version: by(2), PacketID: uint16(f[3].Int()), Properties: propsOfSx(f[5])}
		for _, t := range f[4].List {
			p.Topics = append(p.Topics, t.Str())
		}
		return p
	case "unsuback":
		return &packets.Unsuback{Version: by(2), PacketID: uint16(f[3].Int()), Payload: f[4].Bytes(), Properties: propsOfSx(f[5])}
	case "pingreq":
		return &packets.Pingreq{}
	case "pingresp":
		return &packets.Pingresp{}
	case "disconnect":
		return &packets.Disconnect{Version: by(2), Code: by(3), Properties: propsOfSx(f[4])}
	case "auth":
		return &packets.Auth{Code: by(2), Properties: propsOfSx(f[3])}
	}
	panic("pktOfSx: " + f[0].Atom)
}

// ---------------------------------------------------------------- running the decoder

func sxErr(err error) *Sx {
	if err == io.EOF {
		return L(A("err"), A("eof"))
	}
	if err == io.ErrUnexpectedEOF {
		return L(A("err"), A("ueof"))
	}
	if ce, ok := err.(*codes.Error); ok {
		return L(A("err"), A("code"), I(int(ce.Code)))
	}
	var id int
	if n, _ := fmt.Sscanf(err.Error(), "property %d presents more than once", &id); n == 1 {
		return L(A("err"), A("dup"), I(id))
	}
	return L(A("err"), A("other"), S(err.Error()))
}

type decStep struct {
	pkt      packets.Packet
	consumed int
	out      *Sx // set when the step is an error or a panic
}

// decodeStream reads up to max packets from b with one Reader, starting at version v.
func decodeStream(v byte, b []byte, max int) (steps []decStep) {
	br := bytes.NewReader(b)
	bufr := bufio.NewReaderSize(br, 2048)
	rd := packets.NewReader(bufr)
	rd.SetVersion(v)
	pos := 0
	for k := 0; k < max; k++ {
		var pk packets.Packet
		var err error
		panicked := false
		func() {
			defer func() {
				if e := recover(); e != nil {
					panicked = true
				}
			}()
			pk, err = rd.ReadPacket()
		}()
		if panicked {
			steps = append(steps, decStep{out: L(A("panic"))})
			return
		}
		if err != nil {
			steps = append(steps, decStep{out: sxErr(err)})
			return
		}
		np := len(b) - br.Len() - bufr.Buffered()
		steps = append(steps, decStep{pkt: pk, consumed: np - pos})
		pos = np
	}
	return
}

// Pack with a recover: (bytes, err, panicked)
func packGuard(pk packets.Packet) (out []byte, err error, panicked bool) {
	defer func() {
		if e := recover(); e != nil {
			panicked = true
		}
	}()
	var w bytes.Buffer
	err = pk.Pack(&w)
	out = w.Bytes()
	return
}

func sxDecOne(v byte, b []byte) *Sx {
	st := decodeStream(v, b, 1)
	if st[0].out != nil {
		return st[0].out
	}
	return L(A("ok"), sxPacket(st[0].pkt), I(st[0].consumed))
}

// (re (bytes xB tb2 DEC2) | (err E) | (panic))
func sxReenc(v byte, pk packets.Packet) *Sx {
	out, err, pan := packGuard(pk)
	if pan {
		return L(A("re"), L(A("panic")))
	}
	if err != nil {
		return L(A("re"), sxErr(err))
	}
	tb2 := packets.TotalBytes(pk)
	return L(A("re"), L(A("bytes"), B(out), U(uint64(tb2)), sxDecOne(v, out)))
}

func codecRun(in *Sx) *Sx {
	codecMu.Lock()
	defer codecMu.Unlock()
	v := byte(in.Field1("v").Int())
	b := in.Field1("b").Bytes()
	var m0, m1 runtime.MemStats
	runtime.ReadMemStats(&m0)
	steps := decodeStream(v, b, 4)
	runtime.ReadMemStats(&m1)
	alloc := m1.TotalAlloc - m0.TotalAlloc
	// TotalAlloc is process wide: the runtime's own goroutines can allocate meanwhile. Decoding is pure, so
	// when the figure looks large measure again (up to twice) and keep the smallest.
	for rep := 0; rep < 2 && alloc > uint64(64*len(b)+4096); rep++ {
		runtime.ReadMemStats(&m0)
		decodeStream(v, b, 4)
		runtime.ReadMemStats(&m1)
		if a := m1.TotalAlloc - m0.TotalAlloc; a < alloc {
			alloc = a
		}
	}
	outs := []*Sx{A("dec")}
	cur := v
	for _, s := range steps {
		if s.out != nil {
			outs = append(outs, s.out)
			break
		}
		psx := sxPacket(s.pkt) // before Pack replaces the FixHeader
		tb1 := packets.TotalBytes(s.pkt)
		outs = append(outs, L(A("ok"), psx, I(s.consumed), U(uint64(tb1)), sxReenc(cur, s.pkt)))
		if c, ok := s.pkt.(*packets.Connect); ok {
			cur = c.Version
		}
	}
	return L(L(outs...), K("alloc", U(alloc)))
}

func cencRun(in *Sx) *Sx {
	codecMu.Lock()
	defer codecMu.Unlock()
	v := byte(in.Field1("v").Int())
	pk := pktOfSx(in.Field1("pkt"))
	out, err, pan := packGuard(pk)
	if pan {
		return L(K("enc", L(A("panic"))))
	}
	if err != nil {
		return L(K("enc", sxErr(err)))
	}
	tb := packets.TotalBytes(pk)
	return L(K("enc", L(A("bytes"), B(out), U(uint64(tb)), sxDecOne(v, out))))
}

func boolGuard(f func() bool) (out *Sx) {
	defer func() {
		if e := recover(); e != nil {
			out = A("panic")
		}
	}()
	return Bool(f())
}

func ctopicRun(in *Sx) *Sx {
	codecMu.Lock()
	defer codecMu.Unlock()
	s := in.Field1("s").Bytes()
	return L(K("utf8", boolGuard(func() bool { return packets.ValidUTF8(s) })),
		K("name1", boolGuard(func() bool { return packets.ValidTopicName(true, s) })),
		K("name0", boolGuard(func() bool { return packets.ValidTopicName(false, s) })),
		K("filter1", boolGuard(func() bool { return packets.ValidTopicFilter(true, s) })),
		K("filter0", boolGuard(func() bool { return packets.ValidTopicFilter(false, s) })),
		K("v5", boolGuard(func() bool { return packets.ValidV5Topic(s) })))
}

func cmsgRun(in *Sx) (out *Sx) {
	codecMu.Lock()
	defer codecMu.Unlock()
	defer func() {
		if e := recover(); e != nil {
			out = L(K("panic"))
		}
	}()
	v := byte(in.Field1("v").Int())
	m := msgOfSx(in.Field1("m"))
	tb := m.TotalBytes(v)
	pub := gmqtt.MessageToPublish(m, v)
	psx := sxPacket(pub)
	bs, err, pan := packGuard(pub)
	var enc *Sx
	if pan {
		enc = L(A("panic"))
	} else if err != nil {
		enc = sxErr(err)
	} else {
		enc = L(A("bytes"), B(bs), U(uint64(packets.TotalBytes(pub))))
	}
	// and back: the message the broker would queue for this packet
	from := A("panic")
	func() {
		defer func() { recover() }()
		from = sxMsg(gmqtt.MessageFromPublish(pub))
	}()
	return L(K("tb", U(uint64(tb))), K("pub", psx), K("enc", enc), K("from", from))
}

// ---------------------------------------------------------------- the independent encoder (from the specifications)

// mutation of the encoding; kind "" = none
type cmut struct {
	r    *Rng
	kind string
	done bool
}

func (m *cmut) is(k string) bool { return m != nil && m.kind == k }
func (m *cmut) fire(k string, num, den int) bool {
	if m == nil || m.kind != k || m.done {
		return false
	}
	if m.r.Chance(num, den) {
		m.done = true
		return true
	}
	return false
}

func encVarint(n int) []byte {
	var o []byte
	for {
		d := byte(n % 128)
		n /= 128
		if n > 0 {
			o = append(o, d|0x80)
		} else {
			return append(o, d)
		}
	}
}

// a longer than necessary encoding of n, `total` bytes long
func encVarintPadded(n int, total int) []byte {
	o := encVarint(n)
	for len(o) < total {
		o[len(o)-1] |= 0x80
		o = append(o, 0)
	}
	return o
}

type cenc struct {
	m *cmut
	b []byte
}

func (e *cenc) u8(v int)  { e.b = append(e.b, byte(v)) }
func (e *cenc) u16(v int) { e.b = append(e.b, byte(v>>8), byte(v)) }
func (e *cenc) u32(v uint64) {
	e.b = append(e.b, byte(v>>24), byte(v>>16), byte(v>>8), byte(v))
}
func (e *cenc) bin(s []byte) {
	e.u16(len(s))
	e.b = append(e.b, s...)
}

var badUTF8 = [][]byte{{0xff}, {0xc0, 0x80}, {0xed, 0xa0, 0x80}, {0xf4, 0x90, 0x80, 0x80}, {0xe2, 0x82}, {0x80}, {0xc3}, {0xf5, 0x80, 0x80, 0x80}, {0xe0, 0x80, 0x80}}

// a UTF-8 string field, possibly corrupted
func (e *cenc) str(s []byte) {
	ins := func(x []byte) {
		pos := 0
		if len(s) > 0 {
			// insert at a rune boundary
			pos = e.m.r.Intn(len(s) + 1)
			for pos < len(s) && s[pos]&0xc0 == 0x80 {
				pos++
			}
		}
		t := append([]byte{}, s[:pos]...)
		t = append(t, x...)
		s = append(t, s[pos:]...)
	}
	switch {
	case e.m.fire("utf8_bad", 1, 2):
		ins(Pick(e.m.r, badUTF8))
	case e.m.fire("utf8_fffd", 1, 2):
		ins([]byte{0xef, 0xbf, 0xbd})
	case e.m.fire("utf8_ctl", 1, 2):
		ins(Pick(e.m.r, [][]byte{{0x01}, {0x1f}, {0x7f}, {0xc2, 0x80}, {0xc2, 0x9f}, {0x0a}}))
	case e.m.fire("utf8_nul", 1, 2):
		ins([]byte{0})
	case e.m.fire("str_len", 1, 3):
		// the two-byte length disagrees with the data
		e.u16(len(s) + e.m.r.Range(1, 3))
		e.b = append(e.b, s...)
		return
	}
	e.bin(s)
}

// specification table 2.2.2.2: property id -> (type, contexts); context 0 = will properties
type propSpec struct {
	ty  byte // b w d s(utf8) n(binary) v(varint) u(pair)
	ctx []int
}

var propTable = map[int]propSpec{
	1: {'b', []int{3, 0}}, 2: {'d', []int{3, 0}}, 3: {'s', []int{3, 0}}, 8: {'s', []int{3, 0}}, 9: {'n', []int{3, 0}},
	11: {'v', []int{3, 8}}, 17: {'d', []int{1, 2, 14}}, 18: {'s', []int{2}}, 19: {'w', []int{2}}, 21: {'s', []int{1, 2, 15}},
	22: {'n', []int{1, 2, 15}}, 23: {'b', []int{1}}, 24: {'d', []int{0}}, 25: {'b', []int{1}}, 26: {'s', []int{2}},
	28: {'s', []int{2, 14}}, 31: {'s', []int{2, 4, 5, 6, 7, 9, 11, 14, 15}}, 33: {'w', []int{1, 2}}, 34: {'w', []int{1, 2}},
	35: {'w', []int{3}}, 36: {'b', []int{2}}, 37: {'b', []int{2}},
	38: {'u', []int{0, 1, 2, 3, 4, 5, 6, 7, 8, 9, 10, 11, 14, 15}}, 39: {'d', []int{1, 2}}, 40: {'b', []int{2}}, 41: {'b', []int{2}}, 42: {'b', []int{2}},
}
var propIDs = []int{1, 2, 3, 8, 9, 11, 17, 18, 19, 21, 22, 23, 24, 25, 26, 28, 31, 33, 34, 35, 36, 37, 38, 39, 40, 41, 42}

type propItem struct {
	id   int
	user bool
	enc  []byte
}

// one encoded property per single value / subscription id / user pair
func (e *cenc) propItems(x *Sx) []propItem {
	var items []propItem
	if !x.IsL {
		return nil
	}
	for _, en := range x.List[1:] {
		id := en.List[0].Int()
		switch en.List[1].Atom {
		case "b":
			items = append(items, propItem{id, false, []byte{byte(id), byte(en.List[2].Int())}})
		case "w":
			v := en.List[2].Int()
			items = append(items, propItem{id, false, []byte{byte(id), byte(v >> 8), byte(v)}})
		case "d":
			v := en.List[2].Uint()
			items = append(items, propItem{id, false, []byte{byte(id), byte(v >> 24), byte(v >> 16), byte(v >> 8), byte(v)}})
		case "s":
			sub := &cenc{m: e.m}
			sub.u8(id)
			if propTable[id].ty == 'n' {
				sub.bin(en.List[2].Bytes())
			} else {
				sub.str(en.List[2].Bytes())
			}
			items = append(items, propItem{id, false, sub.b})
		case "v":
			for _, v := range en.List[2:] {
				items = append(items, propItem{id, false, append([]byte{byte(id)}, encVarint(int(v.Uint()))...)})
			}
		case "u":
			for _, u := range en.List[2:] {
				sub := &cenc{m: e.m}
				sub.u8(id)
				sub.str(u.List[0].Bytes())
				sub.str(u.List[1].Bytes())
				items = append(items, propItem{id, true, sub.b})
			}
		}
	}
	return items
}

// property length + properties.  ctx is the packet type (0 = will properties).
// order: shuffle the properties (any order is legal) keeping user properties and
// subscription identifiers in their relative order.
func (e *cenc) props(ctx int, x *Sx, shuffle *Rng) {
	items := e.propItems(x)
	if shuffle != nil && len(items) > 1 {
		perm := make([]propItem, len(items))
		copy(perm, items)
		for i := len(perm) - 1; i > 0; i-- {
			j := shuffle.Intn(i + 1)
			perm[i], perm[j] = perm[j], perm[i]
		}
		// restore the relative order of the multi-valued ones
		fix := func(sel func(propItem) bool) {
			var orig []propItem
			for _, it := range items {
				if sel(it) {
					orig = append(orig, it)
				}
			}
			k := 0
			for i := range perm {
				if sel(perm[i]) {
					perm[i] = orig[k]
					k++
				}
			}
		}
		fix(func(p propItem) bool { return p.user })
		fix(func(p propItem) bool { return p.id == 11 })
		items = perm
	}
	m := e.m
	if m != nil && !m.done {
		switch {
		case m.is("prop_dup") && len(items) > 0 && m.r.Chance(2, 3):
			m.done = true
			it := Pick(m.r, items)
			pos := m.r.Intn(len(items) + 1)
			items = append(items[:pos:pos], append([]propItem{it}, items[pos:]...)...)
		case m.is("prop_foreign") && m.r.Chance(2, 3):
			m.done = true
			// a property that belongs to another packet type
			var cands []int
			for _, id := range propIDs {
				ok := false
				for _, c := range propTable[id].ctx {
					if c == ctx {
						ok = true
					}
				}
				if !ok {
					cands = append(cands, id)
				}
			}
			if len(cands) > 0 {
				id := Pick(m.r, cands)
				items = append(items, propItem{id, false, encPropDefault(id)})
			}
		case m.is("prop_unknown") && m.r.Chance(2, 3):
			m.done = true
			id := Pick(m.r, []int{0, 4, 5, 10, 12, 16, 20, 27, 29, 32, 43, 127, 128, 255})
			items = append(items, propItem{id, false, []byte{byte(id), 0}})
		case m.is("prop_value") && len(items) > 0 && m.r.Chance(2, 3):
			m.done = true
			// out-of-range values: byte properties other than 0/1, zero where zero is forbidden
			k := m.r.Intn(len(items))
			it := items[k]
			switch propTable[it.id].ty {
			case 'b':
				it.enc = []byte{byte(it.id), byte(m.r.Range(2, 255))}
			case 'w', 'd', 'v':
				it.enc = append([]byte{byte(it.id)}, make([]byte, len(it.enc)-1)...)
			}
			items[k] = it
		case m.is("prop_trunc") && len(items) > 0 && m.r.Chance(2, 3):
			m.done = true
			k := m.r.Intn(len(items))
			it := items[k]
			it.enc = it.enc[:m.r.Range(1, len(it.enc)-1)]
			items[k] = it
		}
	}
	var body []byte
	for _, it := range items {
		body = append(body, it.enc...)
	}
	n := len(body)
	switch {
	case m.fire("prop_len_plus", 2, 3):
		n += m.r.Range(1, 3)
	case m.fire("prop_len_minus", 2, 3):
		if n > 0 {
			n -= m.r.Range(1, min(3, n))
		}
	case m.fire("prop_len_noncanon", 2, 3):
		e.b = append(e.b, encVarintPadded(n, len(encVarint(n))+m.r.Range(1, 2))...)
		e.b = append(e.b, body...)
		return
	}
	e.b = append(e.b, encVarint(n)...)
	e.b = append(e.b, body...)
}

func encPropDefault(id int) []byte {
	switch propTable[id].ty {
	case 'b':
		return []byte{byte(id), 1}
	case 'w':
		return []byte{byte(id), 0, 5}
	case 'd':
		return []byte{byte(id), 0, 0, 0, 7}
	case 's', 'n':
		return []byte{byte(id), 0, 1, 'z'}
	case 'v':
		return []byte{byte(id), 9}
	}
	return []byte{byte(id), 0, 1, 'k', 0, 1, 'v'}
}

func propsEmpty(x *Sx) bool { return x.IsL && len(x.List) == 1 }

// specEnc encodes a packet value; shuffle != nil randomises the property order.
func specEnc(x *Sx, m *cmut, shuffle *Rng) []byte {
	f := x.List
	e := &cenc{m: m}
	typ, flags := 0, 0
	b2i := func(i int, n int) int {
		if f[i].Bool() {
			return n
		}
		return 0
	}
	// reason code + properties with the short forms of the acknowledgement family
	ackTail := func(ctx int, code int, pr *Sx, zeroOmits bool) {
		if !pr.IsL {
			return
		}
		if propsEmpty(pr) {
			if zeroOmits && code == 0 {
				return
			}
			e.u8(code)
			return
		}
		e.u8(code)
		e.props(ctx, pr, shuffle)
	}
	switch f[0].Atom {
	case "connect":
		typ = 1
		level := f[3].Int()
		e.bin(f[5].Bytes())
		e.u8(level)
		cf := b2i(4, 128) | b2i(6, 64) | b2i(7, 32) | f[8].Int()<<3 | b2i(9, 4) | b2i(12, 2)
		if m.fire("connflags", 1, 1) {
			cf ^= 1 << m.r.Intn(8)
		}
		e.u8(cf)
		e.u16(f[13].Int())
		if level == 5 {
			e.props(1, f[17], shuffle)
		}
		e.str(f[14].Bytes())
		if f[9].Bool() {
			if level == 5 {
				e.props(0, f[18], shuffle)
			}
			e.str(f[10].Bytes())
			e.bin(f[11].Bytes())
		}
		if f[4].Bool() {
			e.str(f[15].Bytes())
		}
		if f[6].Bool() {
			e.bin(f[16].Bytes())
		}
	case "connack":
		typ = 2
		e.u8(b2i(4, 1))
		e.u8(f[3].Int())
		if f[2].Int() == 5 {
			e.props(2, f[5], shuffle)
		}
	case "publish":
		typ = 3
		qos := f[4].Int()
		flags = b2i(3, 8) | qos<<1 | b2i(5, 1)
		e.str(f[6].Bytes())
		if qos > 0 {
			e.u16(f[7].Int())
		}
		if f[2].Int() == 5 {
			e.props(3, f[9], shuffle)
		}
		e.b = append(e.b, f[8].Bytes()...)
	case "puback", "pubrec", "pubcomp":
		typ = map[string]int{"puback": 4, "pubrec": 5, "pubcomp": 7}[f[0].Atom]
		e.u16(f[3].Int())
		if f[2].Int() == 5 {
			ackTail(typ, f[4].Int(), f[5], false)
		}
	case "pubrel":
		typ, flags = 6, 2
		e.u16(f[2].Int())
		ackTail(6, f[3].Int(), f[4], false)
	case "subscribe":
		typ, flags = 8, 2
		e.u16(f[3].Int())
		v5 := f[2].Int() == 5
		if v5 {
			e.props(8, f[5], shuffle)
		}
		for _, t := range f[4].List {
			e.str(t.List[0].Bytes())
			o := t.List[1].Int()
			if v5 {
				o |= t.List[2].Int() << 4
				if t.List[3].Bool() {
					o |= 4
				}
				if t.List[4].Bool() {
					o |= 8
				}
			}
			if m.fire("subopts", 1, 2) {
				o ^= 1 << m.r.Intn(8)
			}
			e.u8(o)
		}
	case "suback":
		typ = 9
		e.u16(f[3].Int())
		if f[2].Int() == 5 {
			e.props(9, f[5], shuffle)
		}
		e.b = append(e.b, f[4].Bytes()...)
	case "unsubscribe":
		typ, flags = 10, 2
		e.u16(f[3].Int())
		if f[2].Int() == 5 {
			e.props(10, f[5], shuffle)
		}
		for _, t := range f[4].List {
			e.str(t.Bytes())
		}
	case "unsuback":
		typ = 11
		e.u16(f[3].Int())
		if f[2].Int() == 5 {
			e.props(11, f[5], shuffle)
			e.b = append(e.b, f[4].Bytes()...)
		}
	case "pingreq":
		typ = 12
	case "pingresp":
		typ = 13
	case "disconnect":
		typ = 14
		if f[2].Int() == 5 {
			ackTail(14, f[3].Int(), f[4], true)
		}
	case "auth":
		typ = 15
		ackTail(15, f[2].Int(), f[3], false)
	}
	body := e.b
	if m.fire("trailing", 1, 1) {
		body = append(body, m.r.Bytes(m.r.Range(1, 3))...)
	}
	rl := len(body)
	var vb []byte
	switch {
	case m.fire("rl_plus", 1, 1):
		vb = encVarint(rl + m.r.Range(1, 3))
	case m.fire("rl_minus", 1, 1):
		if rl > 0 {
			rl -= m.r.Range(1, min(3, rl))
		}
		vb = encVarint(rl)
	case m.fire("rl_huge", 1, 1):
		vb = encVarint(Pick(m.r, []int{200, 1000, 5000, 20000, 65535, 65536}))
	case m.fire("rl_max", 1, 1):
		vb = encVarint(268435455)
	case m.fire("varint_noncanon", 1, 1):
		k := len(encVarint(rl))
		if k < 4 {
			vb = encVarintPadded(rl, m.r.Range(k+1, 4))
		} else {
			vb = encVarint(rl)
		}
	case m.fire("varint_long", 1, 1):
		vb = encVarintPadded(rl, m.r.Range(5, 9))
	default:
		vb = encVarint(rl)
	}
	if m.fire("flags", 1, 1) {
		flags ^= 1 << m.r.Intn(4)
	}
	if m.fire("type0", 1, 1) {
		typ = 0
	}
	out := append([]byte{byte(typ<<4 | flags)}, vb...)
	return append(out, body...)
}

// ---------------------------------------------------------------- generators of packet values

var cgAlpha = []string{"a", "b", "c", "0", "x", "Z", " ", "-", "\u00e9", "\u20ac", "\U0001d11e", "\u00a0", "\uffff", "\u00fc"}

func cgStr(r *Rng) []byte {
	n := Pick(r, []int{0, 1, 1, 2, 3, 5, 8})
	var b []byte
	for i := 0; i < n; i++ {
		b = append(b, Pick(r, cgAlpha)...)
	}
	return b
}
func cgBin(r *Rng) []byte { return r.Bytes(Pick(r, []int{0, 1, 2, 4, 9})) }

var cgLevels = []string{"a", "b", "ab", "", "\u00e9", "$s", "0", "x y", "\u20ac"}

func cgTopicName(r *Rng) []byte {
	for {
		n := r.Range(1, 4)
		s := ""
		for i := 0; i < n; i++ {
			if i > 0 {
				s += "/"
			}
			s += Pick(r, cgLevels)
		}
		if s != "" {
			return []byte(s)
		}
	}
}
func cgFilter(r *Rng) []byte {
	for {
		n := r.Range(1, 4)
		s := ""
		for i := 0; i < n; i++ {
			if i > 0 {
				s += "/"
			}
			switch {
			case i == n-1 && r.Chance(1, 4):
				s += "#"
			case r.Chance(1, 4):
				s += "+"
			default:
				s += Pick(r, cgLevels)
			}
		}
		if s != "" {
			return []byte(s)
		}
	}
}
func cgV5Filter(r *Rng) []byte {
	if r.Chance(1, 4) {
		return []byte("$share/" + Pick(r, []string{"g", "grp", "\u00e9", "g1"}) + "/" + string(cgFilter(r)))
	}
	return cgFilter(r)
}

func cgPropValue(r *Rng, id int) *Sx {
	switch propTable[id].ty {
	case 'b':
		return L(I(id), A("b"), I(r.Intn(2)))
	case 'w':
		return L(I(id), A("w"), I(Pick(r, []int{1, 2, 10, 255, 256, 65535})))
	case 'd':
		return L(I(id), A("d"), U(uint64(Pick(r, []int{1, 60, 65536, 4294967295}))))
	case 's':
		if id == 8 {
			return L(I(id), A("s"), B(cgTopicName(r)))
		}
		return L(I(id), A("s"), B(cgStr(r)))
	case 'n':
		return L(I(id), A("s"), B(cgBin(r)))
	case 'v':
		return L(I(id), A("v"), U(uint64(Pick(r, []int{1, 127, 128, 16384, 268435455}))))
	}
	us := []*Sx{I(38), A("u")}
	for k := r.Range(1, 3); k > 0; k-- {
		us = append(us, L(B(cgStr(r)), B(cgStr(r))))
	}
	return L(us...)
}

// properties legal in context ctx (by the specification table); density in percent
func cgProps(r *Rng, ctx int, density int) *Sx {
	es := []*Sx{A("props")}
	has := map[int]bool{}
	for _, id := range propIDs {
		ok := false
		for _, c := range propTable[id].ctx {
			if c == ctx {
				ok = true
			}
		}
		if !ok || r.Intn(100) >= density {
			continue
		}
		if id == 11 && ctx == 3 && r.Chance(9, 10) {
			continue // PUBLISH with subscription identifiers: server to client only
		}
		if id == 22 && !has[21] {
			continue // authentication data needs an authentication method
		}
		has[id] = true
		es = append(es, cgPropValue(r, id))
	}
	return L(es...)
}

func cgDensity(r *Rng) int { return Pick(r, []int{0, 0, 15, 15, 40, 100}) }

func cgPid(r *Rng) int { return Pick(r, []int{1, 2, 255, 256, 4660, 65535}) }

func cgVP(r *Rng, v int, ctx int) *Sx {
	if v == 5 {
		return cgProps(r, ctx, cgDensity(r))
	}
	return A("nil")
}

// a well-formed packet value of packet type t for protocol version v
func cgPacket(r *Rng, v int, t int) *Sx {
	code := func() int { return Pick(r, []int{0, 0, 1, 16, 128, 135, 255}) }
	ackp := func(ctx int) (int, *Sx) {
		// None (two-byte form) / Some
		if v != 5 && ctx != 6 {
			return 0, A("nil")
		}
		if ctx == 6 && v != 5 {
			return 0, A("nil")
		}
		if r.Chance(1, 3) {
			return 0, A("nil")
		}
		return code(), cgProps(r, ctx, cgDensity(r))
	}
	switch t {
	case 1:
		level := v
		name := "MQTT"
		if level == 3 {
			name = "MQIsdp"
		}
		wflag := r.Chance(1, 2)
		wqos, wretain := 0, false
		wtopic, wmsg := []byte{}, []byte{}
		wprops := A("nil")
		if level == 5 {
			wprops = L(A("props"))
		}
		if wflag {
			wqos = r.Intn(3)
			wretain = r.Bool()
			wtopic = cgTopicName(r)
			wmsg = cgBin(r)
			if level == 5 {
				wprops = cgProps(r, 0, cgDensity(r))
			}
		}
		uflag := r.Bool()
		pflag := r.Bool()
		if level != 5 && !uflag {
			pflag = false
		}
		user, pass := []byte{}, []byte{}
		if uflag {
			user = cgStr(r)
		}
		if pflag {
			pass = cgBin(r)
		}
		clean := r.Bool()
		cid := cgStr(r)
		if level != 5 && len(cid) == 0 {
			clean = true
		}
		return L(A("connect"), A("-"), I(level), I(level), Bool(uflag), S(name), Bool(pflag), Bool(wretain), I(wqos), Bool(wflag),
			B(wtopic), B(wmsg), Bool(clean), I(Pick(r, []int{0, 60, 65535})), B(cid), B(user), B(pass), cgVP(r, level, 1), wprops)
	case 2:
		return L(A("connack"), A("-"), I(v), I(Pick(r, []int{0, 1, 2, 5, 128, 135})), Bool(r.Bool()), cgVP(r, v, 2))
	case 3:
		qos := r.Intn(3)
		dup := qos > 0 && r.Bool()
		pid := 0
		if qos > 0 {
			pid = cgPid(r)
		}
		topic := cgTopicName(r)
		pr := cgVP(r, v, 3)
		if v == 5 && r.Chance(1, 8) {
			// topic alias with an empty topic name
			topic = []byte{}
			es := []*Sx{A("props")}
			placed := false
			for _, e := range pr.List[1:] {
				id := e.List[0].Int()
				if id == 35 {
					continue
				}
				if id > 35 && !placed {
					es = append(es, L(I(35), A("w"), I(7)))
					placed = true
				}
				es = append(es, e)
			}
			if !placed {
				es = append(es, L(I(35), A("w"), I(7)))
			}
			pr = L(es...)
		}
		return L(A("publish"), A("-"), I(v), Bool(dup), I(qos), Bool(r.Bool()), B(topic), I(pid), B(r.Bytes(Pick(r, []int{0, 1, 3, 10, 200}))), pr)
	case 4, 5, 7:
		c, pr := ackp(t)
		return L(A(map[int]string{4: "puback", 5: "pubrec", 7: "pubcomp"}[t]), A("-"), I(v), I(cgPid(r)), I(c), pr)
	case 6:
		c, pr := ackp(6)
		return L(A("pubrel"), A("-"), I(cgPid(r)), I(c), pr)
	case 8:
		ts := []*Sx{}
		for k := r.Range(1, 4); k > 0; k-- {
			if v == 5 {
				f := cgV5Filter(r)
				nl := r.Bool()
				if bytes.HasPrefix(f, []byte("$share/")) {
					nl = false
				}
				ts = append(ts, L(B(f), I(r.Intn(3)), I(r.Intn(3)), Bool(nl), Bool(r.Bool())))
			} else {
				ts = append(ts, L(B(cgFilter(r)), I(r.Intn(3)), I(0), Bool(false), Bool(false)))
			}
		}
		return L(A("subscribe"), A("-"), I(v), I(cgPid(r)), L(ts...), cgVP(r, v, 8))
	case 9:
		n := r.Range(1, 4)
		pl := make([]byte, n)
		for i := range pl {
			pl[i] = byte(Pick(r, []int{0, 1, 2, 128, 135, 255}))
		}
		return L(A("suback"), A("-"), I(v), I(cgPid(r)), B(pl), cgVP(r, v, 9))
	case 10:
		ts := []*Sx{}
		for k := r.Range(1, 4); k > 0; k-- {
			if v == 5 {
				ts = append(ts, B(cgV5Filter(r)))
			} else {
				ts = append(ts, B(cgFilter(r)))
			}
		}
		return L(A("unsubscribe"), A("-"), I(v), I(cgPid(r)), L(ts...), cgVP(r, v, 10))
	case 11:
		pl := []byte{}
		if v == 5 {
			pl = make([]byte, r.Range(1, 4))
			for i := range pl {
				pl[i] = byte(Pick(r, []int{0, 17, 128, 135}))
			}
		}
		return L(A("unsuback"), A("-"), I(v), I(cgPid(r)), B(pl), cgVP(r, v, 11))
	case 12:
		return L(A("pingreq"), A("-"))
	case 13:
		return L(A("pingresp"), A("-"))
	case 14:
		c := 0
		if v == 5 {
			c = code()
		}
		return L(A("disconnect"), A("-"), I(v), I(c), cgVP(r, v, 14))
	case 15:
		if r.Chance(1, 4) {
			return L(A("auth"), A("-"), I(0), A("nil"))
		}
		return L(A("auth"), A("-"), I(Pick(r, []int{0, 24, 25})), cgProps(r, 15, cgDensity(r)))
	}
	panic("cgPacket")
}

func cgType(r *Rng, v int) int {
	t := r.Range(1, 15)
	if t == 15 && v != 5 {
		t = 3
	}
	return t
}

var cgMutKinds = []string{"trunc", "trunc", "rl_plus", "rl_minus", "rl_huge", "varint_noncanon", "varint_long", "prop_dup", "prop_foreign",
	"prop_unknown", "prop_value", "prop_trunc", "prop_len_plus", "prop_len_minus", "prop_len_noncanon", "utf8_bad", "utf8_fffd", "utf8_ctl",
	"utf8_nul", "str_len", "flags", "type0", "connflags", "subopts", "trailing", "byteflip", "byteflip", "insert", "delete", "version", "append"}

func codecGen(r *Rng, i int) *Sx {
	v := Pick(r, []int{3, 4, 5, 5})
	switch x := r.Intn(100); {
	case x < 30: // (a) valid packets, encoded by specEnc; sometimes a stream starting with CONNECT
		if r.Chance(1, 30) {
			// a stream of large PUBLISH packets (bodies beyond any small-buffer fast path): what was decoded from one
			// packet must still be there after the next ones have been decoded and re-encoded
			var all []byte
			all = append(all, specEnc(cgPacket(r, v, 1), nil, r)...)
			for k := r.Range(2, 3); k > 0; k-- {
				pk := cgPacket(r, v, 3)
				big := r.Bytes(Pick(r, []int{4090, 4097, 5000, 9000}))
				pk.List[8] = B(big)
				all = append(all, specEnc(pk, nil, r)...)
			}
			return L(K("v", I(Pick(r, []int{3, 4, 5}))), K("b", B(all)), K("src", A("stream")))
		}
		if r.Chance(1, 6) {
			var all []byte
			pk := cgPacket(r, v, 1)
			all = append(all, specEnc(pk, nil, r)...)
			for k := r.Range(1, 2); k > 0; k-- {
				all = append(all, specEnc(cgPacket(r, v, cgType(r, v)), nil, r)...)
			}
			return L(K("v", I(Pick(r, []int{3, 4, 5}))), K("b", B(all)), K("src", A("stream")))
		}
		pk := cgPacket(r, v, cgType(r, v))
		return L(K("v", I(v)), K("b", B(specEnc(pk, nil, r))), K("src", A("valid")), K("pkt", pk))
	case x < 85: // (b) mutations
		kind := Pick(r, cgMutKinds)
		t := cgType(r, v)
		switch kind {
		case "connflags":
			t = 1
		case "subopts":
			t = 8
		case "prop_dup", "prop_foreign", "prop_unknown", "prop_value", "prop_trunc", "prop_len_plus", "prop_len_minus", "prop_len_noncanon":
			v = 5
			t = Pick(r, []int{1, 2, 3, 4, 5, 6, 7, 8, 9, 10, 11, 14, 15})
		}
		pk := cgPacket(r, v, t)
		if len(kind) > 5 && kind[:5] == "prop_" {
			// make sure there are properties to work on
			for k := 0; k < 6; k++ {
				found := false
				for _, f := range pk.List {
					if f.IsL && len(f.List) > 1 && !f.List[0].IsL && f.List[0].Atom == "props" {
						found = true
					}
				}
				if found {
					break
				}
				pk = cgPacket(r, v, t)
			}
		}
		m := &cmut{r: r, kind: kind}
		b := specEnc(pk, m, nil)
		dv := v
		switch kind {
		case "trunc":
			if len(b) > 0 {
				b = b[:i%len(b)]
			}
		case "byteflip":
			if len(b) > 0 {
				k := r.Intn(len(b))
				b[k] ^= byte(1 << r.Intn(8))
			}
		case "insert":
			k := r.Intn(len(b) + 1)
			b = append(b[:k:k], append([]byte{byte(r.Next())}, b[k:]...)...)
		case "delete":
			if len(b) > 0 {
				k := r.Intn(len(b))
				b = append(b[:k:k], b[k+1:]...)
			}
		case "version":
			dv = Pick(r, []int{3, 4, 5})
		case "append":
			b = append(b, r.Bytes(r.Range(1, 4))...)
		}
		return L(K("v", I(dv)), K("b", B(b)), K("src", A(kind)))
	case x < 86: // dedicated: tiny inputs declaring the maximum remaining length
		pk := cgPacket(r, v, cgType(r, v))
		b := specEnc(pk, &cmut{r: r, kind: "rl_max"}, nil)
		if len(b) > 12 {
			b = b[:12]
		}
		return L(K("v", I(v)), K("b", B(b)), K("src", A("rl_max")))
	default: // (c) random bytes
		var b []byte
		switch r.Intn(3) {
		case 0:
			b = r.Bytes(r.Range(0, 12))
		case 1: // random type and flags, consistent small remaining length
			n := r.Range(0, 20)
			b = append([]byte{byte(r.Next())}, byte(n))
			b = append(b, r.Bytes(n)...)
		default: // plausible header, low-entropy body
			n := r.Range(0, 16)
			b = []byte{byte(r.Range(1, 15)<<4 | Pick(r, []int{0, 0, 2, 2, 1, 3, 6})), byte(n)}
			for k := 0; k < n; k++ {
				b = append(b, byte(Pick(r, []int{0, 0, 1, 2, 3, 4, 5, 'a', '/', '+', '#', 0x26, 0x0b, 0x21, 0x80, 0xff})))
			}
		}
		// keep declared lengths of random inputs below 64 KiB
		if len(b) >= 4 && b[1]&0x80 != 0 && b[2]&0x80 != 0 {
			b[3] &= 0x03
			if b[3] == 0 {
				b[2] &= 0x7f
			}
		}
		if len(b) == 3 && b[1]&0x80 != 0 && b[2]&0x80 != 0 {
			b[2] &= 0x7f
		}
		return L(K("v", I(v)), K("b", B(b)), K("src", A("random")))
	}
}

func cencGen(r *Rng, i int) *Sx {
	v := Pick(r, []int{3, 4, 5, 5})
	pk := cgPacket(r, v, cgType(r, v))
	return L(K("v", I(v)), K("pkt", pk))
}

var ctAlpha = [][]byte{{'a'}, {'b'}, {'/'}, {'+'}, {'#'}, {'$'}, {0xc3, 0xa9}, {0xef, 0xbf, 0xbd}, {0}, {0x1f}, {0x7f}, {0xc2, 0x80}, {0xff},
	{0xed, 0xa0, 0x80}, {0xe2, 0x82, 0xac}, {0xf0, 0x9d, 0x84, 0x9e}, {0xc0, 0xaf}, {0xe2, 0x82}, {'s'}, {0xef, 0xbf, 0xbf}, {0xf4, 0x90, 0x80, 0x80}}

func ctopicGen(r *Rng, i int) *Sx {
	var s []byte
	switch r.Intn(10) {
	case 0, 1, 2, 3: // over {a,/,+,#} : every short string eventually
		for k := r.Range(0, 5); k > 0; k-- {
			s = append(s, Pick(r, []byte("ab/+#$")))
		}
	case 4, 5: // shared-subscription shaped
		s = []byte("$share/")
		if r.Chance(1, 5) {
			s = s[:r.Range(1, 7)]
		}
		for k := r.Range(0, 6); k > 0; k-- {
			s = append(s, Pick(r, ctAlpha[:8])...)
		}
	case 6:
		s = cgV5Filter(r)
	case 7:
		s = r.Bytes(r.Range(0, 6))
	default:
		for k := r.Range(0, 5); k > 0; k-- {
			s = append(s, Pick(r, ctAlpha)...)
		}
	}
	return L(K("s", B(s)))
}

func cmsgGen(r *Rng, i int) *Sx {
	m := genMsg(r, string(cgTopicName(r)))
	m.PacketID = uint16(cgPid(r))
	m.Dup = r.Chance(1, 4)
	switch r.Intn(6) {
	case 0:
		m.Payload = make([]byte, Pick(r, []int{100, 120, 127, 128, 200, 16379, 16383, 16384, 20000}))
	case 1:
		m.SubscriptionIdentifier = []uint32{uint32(Pick(r, []int{1, 127, 128, 16383, 16384, 2097151, 2097152, 268435455}))}
		if r.Bool() {
			m.SubscriptionIdentifier = append(m.SubscriptionIdentifier, 5)
		}
	case 2:
		m.PayloadFormat = byte(Pick(r, []int{0, 1, 2}))
		m.ContentType = string(cgStr(r))
		m.ResponseTopic = string(cgTopicName(r))
		m.CorrelationData = cgBin(r)
		if len(m.CorrelationData) == 0 {
			m.CorrelationData = nil
		}
		m.MessageExpiry = uint32(Pick(r, []int{0, 1, 4294967295}))
		for k := r.Intn(4); k > 0; k-- {
			m.UserProperties = append(m.UserProperties, packets.UserProperty{K: nz(cgStr(r)), V: nz(cgStr(r))})
		}
	}
	return L(K("v", I(Pick(r, []int{3, 4, 5, 5}))), K("m", sxMsg(m)))
}

func init() {
	register(&Suite{Name: "codec", Gen: codecGen, Run: codecRun, Par: 1})
	register(&Suite{Name: "cenc", Gen: cencGen, Run: cencRun, Par: 1})
	register(&Suite{Name: "ctopic", Gen: ctopicGen, Run: ctopicRun, Par: 1})
	register(&Suite{Name: "cmsg", Gen: cmsgGen, Run: cmsgRun, Par: 1})
}
