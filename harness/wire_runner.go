package main

// Wire-level scenario runner: an in-process gmqtt broker on a loopback TCP listener, scripted
// clients speaking through the independent codec of wire_codec.go, a deterministic quiescence
// barrier after every step and canonical s-expression observables. Formats: see WIRE.md.

import (
	"context"
	"errors"
	"fmt"
	"net"
	"os"
	"reflect"
	"runtime"
	"sort"
	"strconv"
	"strings"
	"sync"
	"sync/atomic"
	"time"

	"github.com/DrmagicE/gmqtt"
	"github.com/DrmagicE/gmqtt/config"
	_ "github.com/DrmagicE/gmqtt/persistence"
	"github.com/DrmagicE/gmqtt/persistence/subscription"
	"github.com/DrmagicE/gmqtt/pkg/codes"
	"github.com/DrmagicE/gmqtt/pkg/packets"
	"github.com/DrmagicE/gmqtt/server"
	_ "github.com/DrmagicE/gmqtt/topicalias/fifo"
)

const (
	wireWatchdog  = 5 * time.Second
	wireMaxRounds = 64
	wireProcs     = 4
	wireSpin      = 300
)

var wireDebug = os.Getenv("WIRE_DEBUG") != ""

// ---------------------------------------------------------------- server side instrumentation

// wireSrvConn is the connection object handed to the broker by the listener. It is a passive
// byte counter around the real *net.TCPConn: it lets the barrier decide, without any timing
// assumption, whether the broker has consumed every byte the script wrote and whether the
// script's reader has seen every byte the broker wrote.
type wireSrvConn struct {
	net.Conn
	rd     atomic.Int64 // bytes the broker has read
	wr     atomic.Int64 // bytes the broker has written
	inRead atomic.Int32 // broker goroutines currently inside Read
	rdErr  atomic.Bool  // a Read returned an error (EOF, reset, deadline, closed)
	closed atomic.Bool  // the broker called Close
}

func (c *wireSrvConn) Read(p []byte) (int, error) {
	c.inRead.Add(1)
	n, err := c.Conn.Read(p)
	if n > 0 {
		c.rd.Add(int64(n))
	}
	if err != nil {
		c.rdErr.Store(true)
	}
	c.inRead.Add(-1)
	return n, err
}

func (c *wireSrvConn) Write(p []byte) (int, error) {
	n, err := c.Conn.Write(p)
	if n > 0 {
		c.wr.Add(int64(n))
	}
	return n, err
}

func (c *wireSrvConn) Close() error {
	c.closed.Store(true)
	return c.Conn.Close()
}

type wireListener struct {
	net.Listener
	mu    sync.Mutex
	conns map[string]*wireSrvConn // by remote address
}

func (l *wireListener) Accept() (net.Conn, error) {
	c, err := l.Listener.Accept()
	if err != nil {
		return nil, err
	}
	w := &wireSrvConn{Conn: c}
	l.mu.Lock()
	l.conns[c.RemoteAddr().String()] = w
	l.mu.Unlock()
	return w, nil
}

func (l *wireListener) lookup(addr string) *wireSrvConn {
	l.mu.Lock()
	defer l.mu.Unlock()
	return l.conns[addr]
}

// ---------------------------------------------------------------- goroutine dump analysis

var wireDumpBuf = make([]byte, 1<<18)

func wireDump() string {
	for {
		n := runtime.Stack(wireDumpBuf, true)
		if n < len(wireDumpBuf) {
			return string(wireDumpBuf[:n])
		}
		wireDumpBuf = make([]byte, 2*len(wireDumpBuf))
	}
}

const wireSrvPkg = "github.com/DrmagicE/gmqtt/server."

type wireGor struct {
	id, parent int
	state      string
	frames     []string // function lines, innermost first, arguments stripped
	created    string
	site       string // innermost frame inside package gmqtt/server
}

func (g *wireGor) has(sub string) bool {
	for _, f := range g.frames {
		if strings.Contains(f, sub) {
			return true
		}
	}
	return false
}

func wireParseDump(dump string) []*wireGor {
	var out []*wireGor
	for _, blk := range strings.Split(dump, "\n\n") {
		if !strings.Contains(blk, "gmqtt/server.") {
			continue // not running (and not created by) broker code
		}
		lines := strings.Split(strings.TrimSpace(blk), "\n")
		if len(lines) == 0 || !strings.HasPrefix(lines[0], "goroutine ") {
			continue
		}
		g := &wireGor{}
		hd := lines[0]
		if sp := strings.IndexByte(hd[10:], ' '); sp >= 0 {
			g.id, _ = strconv.Atoi(hd[10 : 10+sp])
		}
		if a, b := strings.IndexByte(hd, '['), strings.LastIndexByte(hd, ']'); a >= 0 && b > a {
			g.state = hd[a+1 : b]
			if c := strings.IndexByte(g.state, ','); c >= 0 {
				g.state = g.state[:c]
			}
		}
		for _, ln := range lines[1:] {
			if strings.HasPrefix(ln, "\t") {
				continue
			}
			if strings.HasPrefix(ln, "created by ") {
				g.created = ln
				if i := strings.LastIndex(ln, " in goroutine "); i >= 0 {
					g.parent, _ = strconv.Atoi(strings.TrimSpace(ln[i+14:]))
				}
				continue
			}
			// strip the argument list
			if i := strings.LastIndexByte(ln, '('); i > 0 {
				ln = ln[:i]
			}
			g.frames = append(g.frames, ln)
			if g.site == "" && strings.HasPrefix(ln, wireSrvPkg) {
				g.site = ln[len(wireSrvPkg):]
			}
		}
		out = append(out, g)
	}
	return out
}

// The exact goroutine header states of go1.26 the judgement relies on.
const (
	wsCond   = "sync.Cond.Wait"
	wsRecv   = "chan receive"
	wsSend   = "chan send"
	wsSelect = "select"
	wsIO     = "IO wait"
	wsWG     = "sync.WaitGroup.Wait"
	wsSema   = "semacquire"
)

type wireIdle struct {
	idle    bool
	why     string // first goroutine found busy
	busySig string // identity and state of every busy goroutine
	blocked bool   // every busy goroutine is blocked on a channel, lock or wait group (nothing runs)
	stuck   int    // readLoop goroutines blocked forever on client.in (no consumer left)
	brokers int    // goroutines belonging to broker code
	wills   int    // delayed-will timer goroutines (and helpers of a timed-out Stop): harmless left-overs
}

// wireJudge decides whether every goroutine running broker code is parked at an idle point.
func wireJudge(gs []*wireGor, ignore map[int]bool) wireIdle {
	res := wireIdle{idle: true, blocked: true}
	busy := func(g *wireGor, kind string) {
		if res.idle {
			res.idle = false
			res.why = fmt.Sprintf("goroutine %d (%s) state=%q site=%s", g.id, kind, g.state, g.site)
		}
		res.busySig += fmt.Sprintf("%d/%s/%s;", g.id, g.state, g.site)
		switch g.state {
		case wsRecv, wsSend, wsSelect, wsWG, wsSema, wsCond, "sync.Mutex.Lock", "sync.RWMutex.Lock", "sync.RWMutex.RLock", "chan receive (nil chan)", "chan send (nil chan)", "select (no cases)":
		default:
			res.blocked = false
		}
	}
	// consumers of client.in, by the serve goroutine that owns them
	consumer := map[int]bool{}
	for _, g := range gs {
		if g.has("server.(*client).readHandle") {
			consumer[g.parent] = true
		}
		if g.has("server.(*client).connectWithTimeOut") {
			consumer[g.id] = true
		}
	}
	for _, g := range gs {
		broker := strings.Contains(g.created, "gmqtt/server.(*client).") || strings.Contains(g.created, "gmqtt/server.(*server).")
		if !broker {
			broker = g.has("gmqtt/server.(*client).") || g.has("gmqtt/server.(*server).")
		}
		if !broker || ignore[g.id] {
			continue
		}
		res.brokers++
		switch {
		case g.has("server.(*client).pollMessageHandler"):
			if g.state != wsCond {
				busy(g, "pollMessageHandler")
			}
		case g.has("server.(*client).readHandle"):
			if !(g.state == wsRecv && g.site == "(*client).readHandle") {
				busy(g, "readHandle")
			}
		case g.has("server.(*client).writeLoop"):
			if !(g.state == wsSelect && g.site == "(*client).writeLoop") {
				busy(g, "writeLoop")
			}
		case g.has("server.(*client).readLoop"):
			if g.state == wsIO {
				break
			}
			if g.state == wsSend && g.site == "(*client).readLoop" && !consumer[g.parent] {
				res.stuck++ // nobody will ever receive from client.in again
				break
			}
			busy(g, "readLoop")
		case g.has("server.(*client).connectWithTimeOut"):
			if !(g.state == wsSelect && g.site == "(*client).connectWithTimeOut") {
				busy(g, "connectWithTimeOut")
			}
		case g.has("server.(*client).serve"):
			if !((g.state == wsWG || g.state == wsSema) && g.site == "(*client).serve") {
				busy(g, "serve")
			}
		case g.has("server.(*server).unregisterClient.func"):
			res.wills++
			if !(g.state == wsSelect && strings.HasPrefix(g.site, "(*server).unregisterClient.func")) {
				busy(g, "delayed will")
			}
		case g.has("server.(*server).serveTCP"):
			if g.state != wsIO {
				busy(g, "serveTCP")
			}
		case g.has("server.(*server).eventLoop"):
			if !(g.state == wsSelect && g.site == "(*server).eventLoop") {
				busy(g, "eventLoop")
			}
		case g.has("server.(*server).serveAPIServer"):
			if !(g.state == wsSelect && g.site == "(*server).serveAPIServer") {
				busy(g, "serveAPIServer")
			}
		case g.has("server.(*server).Stop.func"):
			// helper of a timed-out Stop waiting for a connection that never finishes (left over)
			res.wills++
			if g.state != wsRecv {
				busy(g, "Stop helper")
			}
		case g.has("server.(*server).Run"):
			if !((g.state == wsWG || g.state == wsSema) && g.site == "(*server).Run") {
				busy(g, "Run")
			}
		default:
			busy(g, "other")
		}
	}
	return res
}

// ---------------------------------------------------------------- client side sockets

type wireSock struct {
	id         int
	conn       net.Conn
	local      string
	ver        int
	srv        *wireSrvConn
	cid        string // client id sent in CONNECT (real, not canonical)
	emptyCid   bool   // CONNECT carried a zero length client id
	sentConn   bool
	closedByUs bool
	deaf       bool  // a barrier PINGREQ was consumed by the broker and never answered
	srvStuck   bool  // the broker's readLoop for this connection is blocked forever
	wrBytes    int64 // bytes written by the script (main goroutine only)

	mu        sync.Mutex
	rbuf      []byte
	rdBytes   int64
	eof       bool
	desync    bool
	pkts      []*Sx // packets of the current step
	sizes     []int // their sizes on the wire
	fifo      []byte
	connack   bool // a CONNACK has been seen
	connackOK bool
	nonPing   int         // packets delivered to pkts since the socket was opened
	rxPub     []int       // packet ids of received PUBLISH packets with QoS > 0
	rxRel     []int       // packet ids of received PUBREL packets
	bpid      map[int]int // broker chosen packet id -> ordinal of its first appearance on this socket
}

func (s *wireSock) notePid(pid int) {
	if s.bpid == nil {
		s.bpid = map[int]int{}
	}
	if _, ok := s.bpid[pid]; !ok {
		s.bpid[pid] = len(s.bpid) + 1
	}
}

func (s *wireSock) reader() {
	buf := make([]byte, 1<<16)
	for {
		n, err := s.conn.Read(buf)
		s.mu.Lock()
		if n > 0 {
			s.rbuf = append(s.rbuf, buf[:n]...)
			s.parse()
			s.rdBytes += int64(n)
		}
		if err != nil {
			s.eof = true
			s.mu.Unlock()
			return
		}
		s.mu.Unlock()
	}
}

// parse consumes complete packets from rbuf (mu held).
func (s *wireSock) parse() {
	for !s.desync {
		n, st := wireFrame(s.rbuf)
		if st == wireFrameIncomplete {
			return
		}
		if st == wireFrameBad {
			s.desync = true
			return
		}
		pkt := wireDecode(s.ver, s.rbuf[:n])
		s.rbuf = s.rbuf[n:]
		before := len(s.pkts)
		s.deliver(pkt)
		if len(s.pkts) > before {
			s.sizes = append(s.sizes, n)
		}
	}
}

func (s *wireSock) deliver(p *Sx) {
	switch p.List[0].Atom {
	case "pingresp":
		if len(s.fifo) > 0 {
			k := s.fifo[0]
			s.fifo = s.fifo[1:]
			if k == 'B' {
				return
			}
		}
	case "connack":
		if !s.connack {
			s.connack = true
			s.connackOK = p.List[2].Atom == "0"
		}
	case "publish":
		if p.List[2].Atom != "0" {
			s.rxPub = append(s.rxPub, p.List[6].Int())
			s.notePid(p.List[6].Int())
		}
	case "pubrel":
		s.rxRel = append(s.rxRel, p.List[1].Int())
		s.notePid(p.List[1].Int())
	}
	s.pkts = append(s.pkts, p)
	s.nonPing++
}

// flush moves bytes that can never be framed into one (undecodable ..) packet (end of step).
func (s *wireSock) flush(final bool) {
	s.mu.Lock()
	defer s.mu.Unlock()
	if len(s.rbuf) > 0 && (s.desync || final || s.eof) {
		s.pkts = append(s.pkts, wireUndecodable(s.rbuf))
		s.nonPing++
		s.rbuf = nil
	}
}

func (s *wireSock) write(b []byte, kind byte) {
	if s.closedByUs || len(b) == 0 {
		return
	}
	if kind != 0 {
		s.mu.Lock()
		s.fifo = append(s.fifo, kind)
		s.mu.Unlock()
	}
	_ = s.conn.SetWriteDeadline(time.Now().Add(2 * time.Second))
	n, _ := s.conn.Write(b)
	s.wrBytes += int64(n)
}

func (s *wireSock) isOpen() bool {
	if s.closedByUs {
		return false
	}
	s.mu.Lock()
	defer s.mu.Unlock()
	return !s.eof
}

// eligible: a CONNECT was sent, a successful CONNACK received, nobody closed the socket and
// the broker still answers.
func (s *wireSock) eligible() bool {
	if s.closedByUs || !s.sentConn || s.deaf || s.srvStuck {
		return false
	}
	s.mu.Lock()
	defer s.mu.Unlock()
	return s.connackOK && !s.eof && !s.desync
}

// ---------------------------------------------------------------- runner

type wireRunner struct {
	apiMsgs map[string]*gmqtt.Message // api_publish: message objects by content
	srv interface {
		server.Server
		server.VerifServer
		Run() error
	}
	ln    *wireListener
	addr  string
	socks map[int]*wireSock
	all   []*wireSock // every incarnation, in opening order
	ids   []int       // socket labels in first-use order

	mu         sync.Mutex // guards what the hooks touch
	autoReal   map[string]string
	autoCanon  map[string]string
	cids       map[string]bool // canonical client ids used by the scenario
	calls      []*Sx
	record     bool
	hooksCfg   *Sx
	lastWhy    string
	withSizes  bool // (opts (sizes 1)): print the wire size of every received packet
	canonPids  bool // (opts (canon_pids 1)): print broker chosen packet ids as first-appearance ordinals
	blockSig   string
	blockSince time.Time
	ignore     map[int]bool // broker goroutines leaked by earlier scenarios of this process
	hung       bool
}

func wireBoolField(c *Sx, k string, def bool) bool {
	if c.Has(k) {
		return c.Field1(k).Bool()
	}
	return def
}

func wireIntField(c *Sx, k string, def int) int {
	if c.Has(k) {
		return int(c.Field1(k).Uint())
	}
	return def
}

func wireConfig(in *Sx) config.Config {
	cfg := config.DefaultConfig()
	c := L(in.Field("cfg")...)
	m := &cfg.MQTT
	if c.Has("delivery") {
		m.DeliveryMode = c.Field1("delivery").Atom
	}
	m.MaxInflight = uint16(wireIntField(c, "max_inflight", int(m.MaxInflight)))
	m.MaxQueuedMsg = wireIntField(c, "max_queued", m.MaxQueuedMsg)
	m.QueueQos0Msg = wireBoolField(c, "queue_qos0", m.QueueQos0Msg)
	if c.Has("session_expiry") {
		m.SessionExpiry = time.Duration(c.Field1("session_expiry").Uint()) * time.Second
	}
	if c.Has("message_expiry") {
		m.MessageExpiry = time.Duration(c.Field1("message_expiry").Uint()) * time.Second
	}
	if c.Has("inflight_expiry") {
		m.InflightExpiry = time.Duration(c.Field1("inflight_expiry").Uint()) * time.Second
	}
	m.ReceiveMax = uint16(wireIntField(c, "recv_max", int(m.ReceiveMax)))
	m.TopicAliasMax = uint16(wireIntField(c, "alias_max", int(m.TopicAliasMax)))
	m.MaxPacketSize = uint32(wireIntField(c, "max_packet", int(m.MaxPacketSize)))
	m.MaximumQoS = uint8(wireIntField(c, "max_qos", int(m.MaximumQoS)))
	m.RetainAvailable = wireBoolField(c, "retain_avail", m.RetainAvailable)
	m.WildcardAvailable = wireBoolField(c, "wildcard", m.WildcardAvailable)
	m.SubscriptionIDAvailable = wireBoolField(c, "subid", m.SubscriptionIDAvailable)
	m.SharedSubAvailable = wireBoolField(c, "shared", m.SharedSubAvailable)
	m.MaxKeepAlive = uint16(wireIntField(c, "max_keepalive", int(m.MaxKeepAlive)))
	m.AllowZeroLenClientID = wireBoolField(c, "allow_zero_len", m.AllowZeroLenClientID)
	return cfg
}

var wireRunMu sync.Mutex // goroutine dumps are process global: one scenario at a time

// wireRun executes one scenario and returns its observable.
func wireRun(in *Sx) *Sx {
	wireRunMu.Lock()
	defer wireRunMu.Unlock()
	// A handful of processors is plenty for one broker and makes stop-the-world dumps cheaper.
	procs := wireProcs
	if v, err := strconv.Atoi(os.Getenv("WIRE_PROCS")); err == nil && v > 0 {
		procs = v
	}
	if n := runtime.GOMAXPROCS(0); n > procs {
		defer runtime.GOMAXPROCS(runtime.GOMAXPROCS(procs))
	}
	rn := &wireRunner{socks: map[int]*wireSock{}, autoReal: map[string]string{}, autoCanon: map[string]string{}, cids: map[string]bool{}}
	if in.Has("opts") {
		o := L(in.Field("opts")...)
		rn.canonPids = o.Has("canon_pids") && o.Field1("canon_pids").Bool()
		rn.withSizes = o.Has("sizes") && o.Field1("sizes").Bool()
	}
	if in.Has("hooks") {
		rn.hooksCfg = L(in.Field("hooks")...)
		rn.record = rn.hooksCfg.Has("record") && rn.hooksCfg.Field1("record").Bool()
	}
	// Goroutines that earlier scenarios of this process leaked (connections whose readLoop is
	// blocked for good, helpers of a timed-out Stop, sleeping delayed-will timers of a dead
	// server object) are excluded from every judgement of this scenario.
	rn.ignore = map[int]bool{}
	for _, g := range wireParseDump(wireDump()) {
		if g.has("gmqtt/server.(*client).") || g.has("gmqtt/server.(*server).") || strings.Contains(g.created, "gmqtt/server.(*") {
			rn.ignore[g.id] = true
		}
	}
	base, err := net.Listen("tcp", "127.0.0.1:0")
	if err != nil {
		return L(K("harness_error", S(err.Error())))
	}
	rn.ln = &wireListener{Listener: base, conns: map[string]*wireSrvConn{}}
	rn.addr = base.Addr().String()
	// no WithLogger: the broker's package-level zap logger is a no-op logger unless one is set
	rn.srv = server.New(server.WithTCPListener(rn.ln), server.WithConfig(wireConfig(in)), server.WithHook(rn.hooks()))
	runErr := make(chan error, 1)
	go func() { runErr <- rn.srv.Run() }()
	// the broker is up when its accept loop is parked
	if !rn.waitStarted(runErr) {
		return L(K("harness_error", S("broker did not start")))
	}

	var outs []*Sx
	aborted := false
	steps := in.Field("steps")
	// wall time of the scenario beyond its scripted (sleep ..) steps: the broker's clock is the real one (only stored
	// deadlines are shifted by (advance ..)), so a run that takes long because the machine is busy is less conclusive
	tAll := time.Now()
	var scripted time.Duration
	for si, st := range steps {
		if aborted {
			outs = append(outs, K("s", K("aborted")))
			continue
		}
		if st.List[0].Atom == "sleep" && len(st.List) > 1 {
			scripted += time.Duration(st.List[1].Int()) * time.Millisecond
		}
		t0 := time.Now()
		extra := rn.step(st)
		ok := rn.barrier()
		if wireDebug {
			fmt.Fprintf(os.Stderr, "STEP %v %s\n", time.Since(t0), st.List[0].Atom)
		}
		ents := rn.collect(si == len(steps)-1)
		for _, e := range extra {
			if e.List[0].Atom == "sent" {
				e.List[2] = rn.canonPkt(rn.socks[e.List[1].Int()], e.List[2], true)
			}
			ents = append(ents, e)
		}
		if st.List[0].Atom == "inspect" && ok {
			ents = append(ents, rn.inspect())
		}
		if !ok {
			ents = append(ents, K("hang"))
			aborted = true
			rn.hung = true
			if wireDebug {
				fmt.Fprintf(os.Stderr, "HANG at step %s: %s\n%s\n", st.String(), rn.lastWhy, wireDump())
			}
		}
		outs = append(outs, K("s", ents...))
	}
	if os.Getenv("WIRE_DEBUG") == "dump" {
		fmt.Fprintf(os.Stderr, "%s\n", wireDump())
	}
	excess := time.Since(tAll) - scripted
	if excess < 0 {
		excess = 0
	}
	t0 := time.Now()
	rn.shutdown()
	if wireDebug {
		fmt.Fprintf(os.Stderr, "SHUTDOWN %v polls=%d dumps=%d dumptime=%v\n", time.Since(t0), wireStatPolls, wireStatDumps, wireStatDumpTime)
	}
	return L(K("steps", outs...), K("excess_ms", I(int(excess/time.Millisecond))))
}

func (rn *wireRunner) waitStarted(runErr chan error) bool {
	deadline := time.Now().Add(wireWatchdog)
	for time.Now().Before(deadline) {
		select {
		case <-runErr:
			return false
		default:
		}
		for _, g := range wireParseDump(wireDump()) {
			if g.has("server.(*server).serveTCP") && g.state == wsIO {
				return true
			}
		}
		time.Sleep(100 * time.Microsecond)
	}
	return false
}

func (rn *wireRunner) shutdown() {
	for _, s := range rn.all {
		if !s.closedByUs {
			s.closedByUs = true
			_ = s.conn.Close()
		}
	}
	wait := 2 * time.Second
	for _, s := range rn.all {
		if s.srvStuck {
			wait = 150 * time.Millisecond
		}
	}
	if rn.hung {
		wait = 150 * time.Millisecond
	}
	ctx, cancel := context.WithTimeout(context.Background(), wait)
	_ = rn.srv.Stop(ctx)
	cancel()
	// wait until only parked left-overs remain: delayed-will timers, helpers of a timed-out
	// Stop and the (at most three) goroutines of a connection whose readLoop is blocked for good
	deadline := time.Now().Add(wait)
	for time.Now().Before(deadline) {
		j := wireJudge(wireParseDump(wireDump()), rn.ignore)
		if j.idle && j.brokers-j.wills <= 3*j.stuck {
			return
		}
		time.Sleep(200 * time.Microsecond)
	}
}

// ---------------------------------------------------------------- steps

func (rn *wireRunner) canon(real string) string {
	rn.mu.Lock()
	defer rn.mu.Unlock()
	if c, ok := rn.autoCanon[real]; ok {
		return c
	}
	return real
}

func (rn *wireRunner) real(canon string) string {
	rn.mu.Lock()
	defer rn.mu.Unlock()
	if r, ok := rn.autoReal[canon]; ok {
		return r
	}
	return canon
}

func (rn *wireRunner) open(id, ver int) *wireSock {
	if old := rn.socks[id]; old != nil && !old.closedByUs {
		old.closedByUs = true
		_ = old.conn.Close()
	}
	if _, seen := rn.socks[id]; !seen {
		rn.ids = append(rn.ids, id)
		sort.Ints(rn.ids)
	}
	c, err := net.DialTimeout("tcp", rn.addr, 2*time.Second)
	if err != nil {
		panic("wire: dial: " + err.Error())
	}
	s := &wireSock{id: id, conn: c, ver: ver, local: c.LocalAddr().String()}
	rn.socks[id] = s
	rn.mu.Lock()
	rn.all = append(rn.all, s)
	rn.mu.Unlock()
	go s.reader()
	return s
}

// resolvePid turns PID | (rx K) | (rxrel K) into a literal packet id.
func (s *wireSock) resolvePid(x *Sx) (int, bool) {
	if !x.IsL {
		return x.Int(), true
	}
	k := x.List[1].Int()
	s.mu.Lock()
	defer s.mu.Unlock()
	var l []int
	switch x.List[0].Atom {
	case "rx":
		l = s.rxPub
	case "rxrel":
		l = s.rxRel
	default:
		panic("wire: bad packet id " + x.String())
	}
	if k < 0 || k >= len(l) {
		return 0, false
	}
	return l[k], true
}

func (rn *wireRunner) sendConnect(s *wireSock, ver int, st *Sx) {
	canon := st.Field1("cid").Str()
	cid := rn.real(canon)
	rn.mu.Lock()
	if len(cid) != 0 {
		rn.cids[canon] = true
	}
	if !s.sentConn {
		// the first CONNECT fixes the protocol level and identity of the connection
		s.mu.Lock()
		s.ver = ver
		s.mu.Unlock()
		s.cid, s.emptyCid, s.sentConn = cid, len(cid) == 0, true
	}
	rn.mu.Unlock()
	s.write(wireEncodeConnect(ver, st, []byte(cid)), 0)
}

func (rn *wireRunner) step(st *Sx) (extra []*Sx) {
	switch st.List[0].Atom {
	case "connect":
		// a new TCP connection (an open socket with the same label is closed first)
		s := rn.open(st.List[1].Int(), st.List[2].Int())
		rn.waitAccepted(s)
		rn.sendConnect(s, st.List[2].Int(), st)
	case "open":
		ver := 4
		if len(st.List) > 2 {
			ver = st.List[2].Int()
		}
		s := rn.open(st.List[1].Int(), ver)
		rn.waitAccepted(s)
	case "send":
		s := rn.socks[st.List[1].Int()]
		if s == nil {
			return []*Sx{K("skipped")}
		}
		pkt := st.List[2]
		switch pkt.List[0].Atom {
		case "connect": // (send C (connect VER (cid x) ...)): CONNECT on the existing connection
			rn.sendConnect(s, pkt.List[1].Int(), pkt)
			return []*Sx{L(A("sent"), I(s.id), pkt)}
		case "puback", "pubrec", "pubrel", "pubcomp":
			if pkt.List[1].IsL {
				pid, ok := s.resolvePid(pkt.List[1])
				if !ok {
					return []*Sx{K("skipped")}
				}
				cp := &Sx{IsL: true, List: append([]*Sx{}, pkt.List...)}
				cp.List[1] = I(pid)
				pkt = cp
			}
		}
		var kind byte
		if pkt.List[0].Atom == "pingreq" || (pkt.List[0].Atom == "raw" && pkt.List[1].Atom == "xc000") {
			kind = 'S'
		}
		enc := wireEncode(s.ver, pkt)
		s.write(enc, kind)
		if rn.withSizes {
			extra = append(extra, L(A("sent"), I(s.id), pkt, I(len(enc))))
		} else {
			extra = append(extra, L(A("sent"), I(s.id), pkt))
		}
	case "close":
		if s := rn.socks[st.List[1].Int()]; s != nil && !s.closedByUs {
			s.closedByUs = true
			_ = s.conn.Close()
		}
	case "api_publish":
		// a caller of Publisher.Publish may publish one message object again and again (a periodic status message):
		// the same content in one scenario is the same object, which the broker must not have written to
		key := st.List[1].String()
		if rn.apiMsgs == nil {
			rn.apiMsgs = map[string]*gmqtt.Message{}
		}
		m := rn.apiMsgs[key]
		if m == nil {
			m = msgOfSx(st.List[1])
			rn.apiMsgs[key] = m
		}
		rn.srv.Publisher().Publish(m)
	case "terminate":
		rn.srv.ClientService().TerminateSession(rn.real(st.List[1].Str()))
	case "advance":
		rn.srv.VerifAdvance(time.Duration(st.List[1].Uint()) * time.Millisecond)
	case "expire_check":
		rn.srv.VerifExpireCheck()
	case "sleep":
		time.Sleep(time.Duration(st.List[1].Uint()) * time.Millisecond)
	case "inspect":
	default:
		panic("wire: unknown step " + st.String())
	}
	return extra
}

// waitAccepted waits until the broker has accepted the connection and parked the goroutines
// serving it (readLoop in the socket read, writeLoop and connectWithTimeOut in their selects).
// Sending the first bytes earlier would race with the start of those goroutines: the broker then
// may or may not deliver an error CONNACK, depending on whether writeLoop was already parked
// when close(client.close) happened.
func (rn *wireRunner) waitAccepted(s *wireSock) {
	if s.srv != nil {
		return
	}
	deadline := time.Now().Add(wireWatchdog)
	for i := 0; ; i++ {
		if k := rn.ln.lookup(s.local); k != nil {
			s.srv = k
			break
		}
		if time.Now().After(deadline) {
			return
		}
		if i < 50 {
			runtime.Gosched()
		} else {
			time.Sleep(50 * time.Microsecond)
		}
	}
	rn.waitQuiet(deadline)
}

// ---------------------------------------------------------------- quiescence barrier

type wireSnap struct {
	ok       bool // server->client direction drained and every socket accepted
	mismatch int  // sockets whose client->server bytes the broker has not consumed (or close not noticed)
	sig      uint64
	why      string
}

func (rn *wireRunner) snapshot() wireSnap {
	sn := wireSnap{ok: true, sig: 1469598103934665603}
	mix := func(v int64) { sn.sig = (sn.sig ^ uint64(v)) * 1099511628211 }
	b2i := func(b bool) int64 {
		if b {
			return 1
		}
		return 0
	}
	for _, s := range rn.all {
		k := s.srv
		if k == nil {
			sn.ok = false
			sn.why = fmt.Sprintf("socket %d not accepted", s.id)
			continue
		}
		s.mu.Lock()
		rdB, eof := s.rdBytes, s.eof
		s.mu.Unlock()
		kw, kr, kc, ke := k.wr.Load(), k.rd.Load(), k.closed.Load(), k.rdErr.Load()
		mix(rdB)
		mix(b2i(eof))
		mix(kw)
		mix(kr)
		mix(b2i(kc))
		mix(b2i(ke))
		mix(s.wrBytes)
		if !s.closedByUs {
			if (kw != rdB && !eof) || (kc && !eof) {
				sn.ok = false
				sn.why = fmt.Sprintf("socket %d: broker wrote %d, script read %d, closed=%v eof=%v", s.id, kw, rdB, kc, eof)
			}
		}
		if s.srvStuck {
			continue
		}
		alive := !kc && !ke
		if alive && (s.closedByUs || kr != s.wrBytes) {
			sn.mismatch++
			sn.why = fmt.Sprintf("socket %d: script wrote %d, broker read %d, closedByUs=%v", s.id, s.wrBytes, kr, s.closedByUs)
		}
	}
	return sn
}

// waitQuiet returns when (a) the broker has consumed everything the script wrote and noticed
// every close, (b) every goroutine of the broker is parked at an idle point, (c) the script's
// readers have decoded everything the broker wrote and seen every close by the broker.
var wireStatDumps, wireStatPolls int
var wireStatDumpTime time.Duration

func (rn *wireRunner) pingsAnswered() bool {
	for _, id := range rn.ids {
		s := rn.socks[id]
		if !s.eligible() {
			continue
		}
		s.mu.Lock()
		out := false
		for _, k := range s.fifo {
			if k == 'B' {
				out = true
			}
		}
		s.mu.Unlock()
		if out {
			return false
		}
	}
	return true
}

func (rn *wireRunner) waitQuiet(deadline time.Time) bool {
	start := time.Now()
	var nextDump time.Time
	for i := 0; ; i++ {
		wireStatPolls++
		a := rn.snapshot()
		// Goroutine dumps stop the world: take one only when the byte counters say that
		// nothing is in flight and every barrier ping is answered, or when that has not
		// happened for 2 ms (deaf or stuck connection, busy broker, deadlock).
		now := time.Now()
		if a.ok && ((a.mismatch == 0 && rn.pingsAnswered()) || (now.Sub(start) > 2*time.Millisecond && now.After(nextDump))) {
			type pre struct {
				s  *wireSock
				rd int64
			}
			var cand []pre
			for _, s := range rn.all {
				if k := s.srv; k != nil && !s.srvStuck && !k.closed.Load() && !k.rdErr.Load() && k.inRead.Load() == 0 {
					cand = append(cand, pre{s, k.rd.Load()})
				}
			}
			td := time.Now()
			j := wireJudge(wireParseDump(wireDump()), rn.ignore)
			wireStatDumps++
			wireStatDumpTime += time.Since(td)
			// back off while waiting for something slow (deadlock verdict, watchdog)
			if el := time.Since(start); el > 2*time.Millisecond {
				nextDump = time.Now().Add(min(el/10, 5*time.Millisecond))
			}
			if !j.idle && j.blocked {
				// nothing runs and nothing can wake the busy goroutines up except a timer:
				// declare a hang when this picture has not changed for 300 ms
				if j.busySig != rn.blockSig {
					rn.blockSig, rn.blockSince = j.busySig, time.Now()
				} else if time.Since(rn.blockSince) > 300*time.Millisecond {
					rn.lastWhy = "deadlock: " + j.why
					return false
				}
			} else {
				rn.blockSig = ""
			}
			if j.idle {
				if j.stuck > 0 && len(cand) <= j.stuck {
					for _, c := range cand {
						k := c.s.srv
						if !k.closed.Load() && !k.rdErr.Load() && k.inRead.Load() == 0 && k.rd.Load() == c.rd {
							c.s.srvStuck = true
						}
					}
				}
				b := rn.snapshot()
				if b.ok && b.mismatch == 0 && b.sig == a.sig {
					return true
				}
				rn.lastWhy = b.why
			} else {
				rn.lastWhy = j.why
			}
		} else {
			rn.lastWhy = a.why
		}
		if time.Now().After(deadline) {
			return false
		}
		if i < wireSpin {
			runtime.Gosched()
		} else {
			time.Sleep(50 * time.Microsecond)
		}
	}
}

func (rn *wireRunner) nonPingTotal() int {
	t := 0
	for _, s := range rn.all {
		s.mu.Lock()
		t += s.nonPing
		s.mu.Unlock()
	}
	return t
}

var wirePingreq = []byte{0xC0, 0x00}

// barrier: PINGREQ round, wait for quiescence, PINGREQ round, wait for quiescence; further
// rounds as long as a round still brought in packets.
func (rn *wireRunner) barrier() bool {
	deadline := time.Now().Add(wireWatchdog)
	for round := 1; round <= wireMaxRounds; round++ {
		before := rn.nonPingTotal()
		for _, id := range rn.ids {
			if s := rn.socks[id]; s.eligible() {
				s.write(wirePingreq, 'B')
			}
		}
		if !rn.waitQuiet(deadline) {
			return false
		}
		// a ping that the broker has consumed without answering: the connection is deaf
		for _, id := range rn.ids {
			s := rn.socks[id]
			if !s.eligible() {
				continue
			}
			s.mu.Lock()
			out := false
			for _, k := range s.fifo {
				if k == 'B' {
					out = true
				}
			}
			s.mu.Unlock()
			if out {
				s.deaf = true
			}
		}
		if round >= 2 && rn.nonPingTotal() == before {
			return true
		}
	}
	rn.lastWhy = "barrier rounds exhausted"
	return false
}

// collect builds the per-socket entries of a step and resets the per-step packet lists.
func (rn *wireRunner) collect(final bool) []*Sx {
	var ents []*Sx
	for _, id := range rn.ids {
		s := rn.socks[id]
		s.flush(final)
		s.mu.Lock()
		pk := s.pkts
		sz := s.sizes
		s.pkts = nil
		s.sizes = nil
		s.mu.Unlock()
		for i, p := range pk {
			pk[i] = rn.canonPkt(s, p, false)
		}
		if rn.withSizes {
			// (opts (sizes 1)): wire size of every packet (flushed undecodable bytes have no entry)
			xs := []*Sx{}
			for _, n := range sz {
				xs = append(xs, I(n))
			}
			ents = append(ents, L(I(id), K("pkts", pk...), K("open", Bool(s.isOpen())), K("sizes", xs...)))
		} else {
			ents = append(ents, L(I(id), K("pkts", pk...), K("open", Bool(s.isOpen()))))
		}
	}
	return ents
}

// canonPkt replaces broker generated client ids (Assigned Client Identifier) by auto<N> and,
// with (opts (canon_pids 1)), broker chosen packet ids by the ordinal of their first appearance
// on the socket (received PUBLISH/PUBREL; sent PUBACK/PUBREC/PUBCOMP).
func (rn *wireRunner) canonPkt(s *wireSock, p *Sx, sent bool) *Sx {
	kind := p.List[0].Atom
	if kind == "connack" && !sent {
		props := p.List[3]
		for i, q := range props.List {
			if q.IsL && q.List[0].Atom == "assigned" {
				props.List[i] = K("assigned", S(rn.canon(q.List[1].Str())))
			}
		}
		return p
	}
	if !rn.canonPids {
		return p
	}
	at := -1
	switch {
	case !sent && kind == "publish" && p.List[2].Atom != "0":
		at = 6
	case !sent && kind == "pubrel":
		at = 1
	case sent && (kind == "puback" || kind == "pubrec" || kind == "pubcomp"):
		at = 1
	}
	if at < 0 {
		return p
	}
	s.mu.Lock()
	ord, ok := s.bpid[p.List[at].Int()]
	s.mu.Unlock()
	if !ok {
		return p
	}
	cp := &Sx{IsL: true, List: append([]*Sx{}, p.List...)}
	cp.List[at] = I(ord)
	return cp
}

// ---------------------------------------------------------------- hooks

func wireCodeErr(code int) error {
	if code == 0 {
		return nil
	}
	return codes.NewError(byte(code))
}

func (rn *wireRunner) log(name string, args ...*Sx) {
	if !rn.record {
		return
	}
	rn.mu.Lock()
	rn.calls = append(rn.calls, K(name, args...))
	rn.mu.Unlock()
}

func wireErrSx(err error) *Sx {
	if err == nil {
		return A("nil")
	}
	if ce, ok := err.(*codes.Error); ok {
		return K("code", I(int(ce.Code)))
	}
	return K("err")
}

func (rn *wireRunner) cidSx(real string) *Sx { return S(rn.canon(real)) }

func wireRewrite(m *gmqtt.Message, act *Sx) {
	m.Topic = act.List[1].Str()
	m.Payload = act.List[2].Bytes()
	// the last argument packs QoS and RETAIN (Model/Broker.v rw_qos, rw_retain): qos = q mod 4; q / 4 = 0 leaves the
	// RETAIN flag alone, 1 clears it, 2 sets it
	q := act.List[3].Int()
	m.QoS = byte(q % 4)
	switch q / 4 {
	case 1:
		m.Retained = false
	case 2:
		m.Retained = true
	}
}

func (rn *wireRunner) hooks() server.Hooks {
	hc := rn.hooksCfg
	if hc == nil {
		hc = L()
	}
	var h server.Hooks
	all := rn.record

	// internal: learn broker generated client ids
	h.OnConnected = func(ctx context.Context, c server.Client) {
		cid := c.ClientOptions().ClientID
		remote := c.Connection().RemoteAddr().String()
		rn.mu.Lock()
		for _, s := range rn.all {
			if s.local == remote && s.emptyCid {
				if _, known := rn.autoCanon[cid]; !known {
					name := "auto" + strconv.Itoa(len(rn.autoCanon)+1)
					rn.autoCanon[cid] = name
					rn.autoReal[name] = cid
					rn.cids[name] = true
				}
			}
		}
		rn.mu.Unlock()
		rn.log("on_connected", rn.cidSx(cid))
	}

	if hc.Has("basic_auth") || all {
		rules := hc.Field("basic_auth")
		h.OnBasicAuth = func(ctx context.Context, c server.Client, req *server.ConnectRequest) error {
			rn.log("on_basic_auth", rn.cidSx(string(req.Connect.ClientID)), B(req.Connect.Username), B(req.Connect.Password))
			def := 0
			for _, r := range rules {
				if !r.List[0].IsL && r.List[0].Atom == "default" {
					def = r.List[1].Int()
					continue
				}
				if string(r.List[0].Bytes()) == string(req.Connect.Username) && string(r.List[1].Bytes()) == string(req.Connect.Password) {
					return wireCodeErr(r.List[2].Int())
				}
			}
			return wireCodeErr(def)
		}
	}
	if hc.Has("subscribe") || all {
		rules := hc.Field("subscribe")
		h.OnSubscribe = func(ctx context.Context, c server.Client, req *server.SubscribeRequest) error {
			cid := c.ClientOptions().ClientID
			ts := []*Sx{rn.cidSx(cid)}
			for _, t := range req.Subscribe.Topics {
				ts = append(ts, L(A("t"), S(t.Name), I(int(t.Qos))))
			}
			rn.log("on_subscribe", ts...)
			var ret error
			for _, r := range rules {
				if !r.List[0].IsL && r.List[0].Atom == "all" {
					if a := r.List[1]; a.List[0].Atom == "reject" {
						ret = wireCodeErr(a.List[1].Int())
					}
					continue
				}
				if rn.real(r.List[0].Str()) != cid {
					continue
				}
				f, a := r.List[1].Str(), r.List[2]
				switch a.List[0].Atom {
				case "reject":
					req.Reject(f, wireCodeErr(a.List[1].Int()))
				case "qos":
					// a hook may edit the subscription in place (GrantQoS) or put an edited copy into the request:
					// both are the hook's verdict (alternated by the length of the filter, the model sees no difference)
					if e := req.Subscriptions[f]; e != nil && e.Sub != nil && len(f)%2 == 1 {
						cp := *e.Sub
						cp.QoS = byte(a.List[1].Int())
						e.Sub = &cp
					} else {
						req.GrantQoS(f, byte(a.List[1].Int()))
					}
				}
			}
			return ret
		}
	}
	if hc.Has("msg_arrived") || all {
		rules := hc.Field("msg_arrived")
		h.OnMsgArrived = func(ctx context.Context, c server.Client, req *server.MsgArrivedRequest) error {
			rn.log("on_msg_arrived", rn.cidSx(c.ClientOptions().ClientID), sxMsg(req.Message))
			for _, r := range rules {
				if req.Message == nil || r.List[0].Str() != req.Message.Topic {
					continue
				}
				a := r.List[1]
				switch a.List[0].Atom {
				case "reject":
					return wireCodeErr(a.List[1].Int())
				case "drop":
					req.Drop()
				case "rewrite":
					wireRewrite(req.Message, a)
					req.IterationOptions.TopicName = req.Message.Topic
				}
				break
			}
			return nil
		}
	}
	if hc.Has("will_publish") || all {
		rules := hc.Field("will_publish")
		h.OnWillPublish = func(ctx context.Context, cid string, req *server.WillMsgRequest) {
			rn.log("on_will_publish", rn.cidSx(cid), sxMsg(req.Message))
			for _, r := range rules {
				if rn.real(r.List[0].Str()) != cid {
					continue
				}
				a := r.List[1]
				switch a.List[0].Atom {
				case "drop":
					req.Drop()
				case "rewrite":
					wireRewrite(req.Message, a) // in place: the broker keeps using its own pointer
				}
				break
			}
		}
	}
	if !all {
		return h
	}
	// record mode: every remaining hook kind is installed with the behaviour of an absent hook
	h.OnAccept = func(ctx context.Context, conn net.Conn) bool { rn.log("on_accept"); return true }
	h.OnStop = func(ctx context.Context) { rn.log("on_stop") }
	h.OnSubscribed = func(ctx context.Context, c server.Client, sub *gmqtt.Subscription) {
		rn.log("on_subscribed", rn.cidSx(c.ClientOptions().ClientID), sxSub(sub))
	}
	h.OnUnsubscribe = func(ctx context.Context, c server.Client, req *server.UnsubscribeRequest) error {
		ts := []*Sx{rn.cidSx(c.ClientOptions().ClientID)}
		for _, t := range req.Unsubscribe.Topics {
			ts = append(ts, S(t))
		}
		rn.log("on_unsubscribe", ts...)
		return nil
	}
	h.OnUnsubscribed = func(ctx context.Context, c server.Client, topic string) {
		rn.log("on_unsubscribed", rn.cidSx(c.ClientOptions().ClientID), S(topic))
	}
	h.OnEnhancedAuth = func(ctx context.Context, c server.Client, req *server.ConnectRequest) (*server.EnhancedAuthResponse, error) {
		var method, data []byte
		if req.Connect.Properties != nil {
			method, data = req.Connect.Properties.AuthMethod, req.Connect.Properties.AuthData
		}
		rn.log("on_enhanced_auth", rn.cidSx(string(req.Connect.ClientID)), B(method), B(data))
		return nil, errors.New("OnEnhancedAuth hook is nil")
	}
	h.OnReAuth = func(ctx context.Context, c server.Client, auth *packets.Auth) (*server.AuthResponse, error) {
		rn.log("on_reauth", rn.cidSx(c.ClientOptions().ClientID), I(int(auth.Code)))
		return nil, codes.ErrProtocol
	}
	h.OnSessionCreated = func(ctx context.Context, c server.Client) {
		rn.log("on_session_created", rn.cidSx(c.ClientOptions().ClientID))
	}
	h.OnSessionResumed = func(ctx context.Context, c server.Client) {
		rn.log("on_session_resumed", rn.cidSx(c.ClientOptions().ClientID))
	}
	h.OnSessionTerminated = func(ctx context.Context, cid string, reason server.SessionTerminatedReason) {
		rn.log("on_session_terminated", rn.cidSx(cid), I(int(reason)))
	}
	h.OnDelivered = func(ctx context.Context, c server.Client, m *gmqtt.Message) {
		rn.log("on_delivered", rn.cidSx(c.ClientOptions().ClientID), sxMsg(m))
	}
	h.OnClosed = func(ctx context.Context, c server.Client, err error) {
		rn.log("on_closed", rn.cidSx(c.ClientOptions().ClientID), wireErrSx(err))
	}
	h.OnMsgDropped = func(ctx context.Context, cid string, m *gmqtt.Message, err error) {
		e := A("nil")
		if err != nil {
			e = S(err.Error())
		}
		rn.log("on_msg_dropped", rn.cidSx(cid), sxMsg(m), e)
	}
	h.OnWillPublished = func(ctx context.Context, cid string, m *gmqtt.Message) {
		rn.log("on_will_published", rn.cidSx(cid), sxMsg(m))
	}
	return h
}

// ---------------------------------------------------------------- inspect

func wireFlatten(prefix string, v reflect.Value, out *[][2]string) {
	switch v.Kind() {
	case reflect.Struct:
		for i := 0; i < v.NumField(); i++ {
			name := v.Type().Field(i).Name
			if prefix != "" {
				name = prefix + "." + name
			}
			wireFlatten(name, v.Field(i), out)
		}
	case reflect.Uint, reflect.Uint8, reflect.Uint16, reflect.Uint32, reflect.Uint64:
		*out = append(*out, [2]string{prefix, strconv.FormatUint(v.Uint(), 10)})
	case reflect.Int, reflect.Int8, reflect.Int16, reflect.Int32, reflect.Int64:
		*out = append(*out, [2]string{prefix, strconv.FormatInt(v.Int(), 10)})
	case reflect.Float32, reflect.Float64:
		*out = append(*out, [2]string{prefix, strconv.FormatFloat(v.Float(), 'g', -1, 64)})
	}
}

// wireStats prints every numeric field of a statistics struct as (Path.To.Field value), in
// declaration order. The PINGREQ/PINGRESP counters are dropped and subtracted from the Total of
// their block, so that the barrier's own pings are not observable.
func wireStats(v interface{}) []*Sx {
	var fl [][2]string
	wireFlatten("", reflect.ValueOf(v), &fl)
	ping := map[string]uint64{}
	for _, f := range fl {
		if strings.HasSuffix(f[0], ".Pingreq") || strings.HasSuffix(f[0], ".Pingresp") {
			n, _ := strconv.ParseUint(f[1], 10, 64)
			ping[f[0][:strings.LastIndexByte(f[0], '.')]] += n
		}
	}
	var out []*Sx
	for _, f := range fl {
		if strings.HasSuffix(f[0], ".Pingreq") || strings.HasSuffix(f[0], ".Pingresp") {
			continue
		}
		val := f[1]
		if strings.HasSuffix(f[0], ".Total") {
			if p, ok := ping[f[0][:len(f[0])-6]]; ok {
				n, _ := strconv.ParseUint(val, 10, 64)
				val = strconv.FormatUint(n-p, 10)
			}
		}
		out = append(out, L(A(f[0]), A(val)))
	}
	return out
}

func (rn *wireRunner) cidList(key string, ids []string) *Sx {
	var l []*Sx
	for _, c := range ids {
		l = append(l, rn.cidSx(c))
	}
	return K(key, sortSx(l)...)
}

func (rn *wireRunner) inspect() *Sx {
	srv := rn.srv
	var subs []*Sx
	srv.SubscriptionService().Iterate(func(cid string, s *gmqtt.Subscription) bool {
		subs = append(subs, L(rn.cidSx(cid), sxSub(s)))
		return true
	}, subscription.IterationOptions{Type: subscription.TypeAll})
	var ret []*Sx
	srv.RetainedService().Iterate(func(m *gmqtt.Message) bool {
		ret = append(ret, sxMsg(m))
		return true
	})
	var sess []*Sx
	_ = srv.ClientService().IterateSession(func(s *gmqtt.Session) bool {
		sess = append(sess, L(rn.cidSx(s.ClientID), U(uint64(s.ExpiryInterval)), Bool(s.Will != nil)))
		return true
	})
	rn.mu.Lock()
	var cids []string
	for c := range rn.cids {
		cids = append(cids, c)
	}
	calls := append([]*Sx{}, rn.calls...)
	rn.mu.Unlock()
	sort.Strings(cids)
	var cst []*Sx
	for _, c := range cids {
		st, ok := srv.StatsManager().GetClientStats(rn.real(c))
		if !ok {
			cst = append(cst, L(S(c), A("none")))
		} else {
			cst = append(cst, L(append([]*Sx{S(c)}, wireStats(st)...)...))
		}
	}
	out := []*Sx{
		K("subs", sortSx(subs)...),
		K("retained", sortSx(ret)...),
		rn.cidList("online", srv.VerifOnline()),
		rn.cidList("offline", srv.VerifOffline()),
		rn.cidList("wills", srv.VerifPendingWills()),
		K("sessions", sortSx(sess)...),
		K("gstats", wireStats(srv.StatsManager().GetGlobalStats())...),
		K("cstats", cst...),
	}
	if rn.record {
		out = append(out, K("calls", calls...))
	}
	return K("inspect", out...)
}

func init() {
	register(&Suite{Name: "wire", Gen: wireGen, Run: wireRun, Par: 1})
}
