package main

import (
	"sort"
	"strings"

	"github.com/DrmagicE/gmqtt"
	"github.com/DrmagicE/gmqtt/persistence/subscription"
	"github.com/DrmagicE/gmqtt/persistence/subscription/mem"
	"github.com/DrmagicE/gmqtt/pkg/packets"
)

// Suite sub: histories on the real subscription.Store (mem.NewStore()), then lookups.
// Suite tm: packets.TopicMatch.

func sxSub(s *gmqtt.Subscription) *Sx {
	if s == nil {
		return A("nil")
	}
	return L(A("s"), S(s.ShareName), S(s.TopicFilter), U(uint64(s.ID)), I(int(s.QoS)), Bool(s.NoLocal), Bool(s.RetainAsPublished), I(int(s.RetainHandling)))
}

func subOfSx(x *Sx) *gmqtt.Subscription {
	return &gmqtt.Subscription{ShareName: x.List[1].Str(), TopicFilter: x.List[2].Str(), ID: uint32(x.List[3].Uint()),
		QoS: byte(x.List[4].Int()), NoLocal: x.List[5].Bool(), RetainAsPublished: x.List[6].Bool(), RetainHandling: byte(x.List[7].Int())}
}

func sortSx(l []*Sx) []*Sx {
	sort.Slice(l, func(i, j int) bool { return l[i].String() < l[j].String() })
	return l
}

func subQuery(store subscription.Store, q *Sx) (out *Sx) {
	defer func() {
		if e := recover(); e != nil {
			out = L(A("panic"))
		}
	}()
	var ty subscription.IterationType
	if q.List[1].Bool() {
		ty |= subscription.TypeSYS
	}
	if q.List[2].Bool() {
		ty |= subscription.TypeShared
	}
	if q.List[3].Bool() {
		ty |= subscription.TypeNonShared
	}
	var mt subscription.MatchType
	switch q.List[6].Atom {
	case "name":
		mt = subscription.MatchName
	case "filter":
		mt = subscription.MatchFilter
	}
	ents := []*Sx{}
	store.Iterate(func(clientID string, s *gmqtt.Subscription) bool {
		ents = append(ents, L(S(clientID), sxSub(s)))
		return true
	}, subscription.IterationOptions{Type: ty, ClientID: q.List[4].Str(), TopicName: q.List[5].Str(), MatchType: mt})
	return L(append([]*Sx{A("r")}, sortSx(ents)...)...)
}

func subRunOn(store subscription.Store, in *Sx) *Sx {
	alreadys := []*Sx{}
	clients := map[string]bool{}
	for _, o := range in.Field("ops") {
		switch o.List[0].Atom {
		case "sub":
			c := o.List[1].Str()
			clients[c] = true
			rs, err := store.Subscribe(c, subOfSx(o.List[2]))
			if err != nil {
				alreadys = append(alreadys, A("err"))
			} else {
				alreadys = append(alreadys, Bool(rs[0].AlreadyExisted))
			}
		case "unsub":
			clients[o.List[1].Str()] = true
			ts := []string{}
			for _, t := range o.List[2:] { // one Unsubscribe call carrying one or several topic filters
				ts = append(ts, t.Str())
			}
			store.Unsubscribe(o.List[1].Str(), ts...)
		case "subm": // one Subscribe call carrying several subscriptions
			c := o.List[1].Str()
			clients[c] = true
			subs := []*gmqtt.Subscription{}
			for _, x := range o.List[2:] {
				subs = append(subs, subOfSx(x))
			}
			rs, err := store.Subscribe(c, subs...)
			for i := range subs {
				if err != nil {
					alreadys = append(alreadys, A("err"))
				} else {
					alreadys = append(alreadys, Bool(rs[i].AlreadyExisted))
				}
			}
		case "unsuball":
			clients[o.List[1].Str()] = true
			store.UnsubscribeAll(o.List[1].Str())
		}
	}
	res := []*Sx{}
	for _, q := range in.Field("queries") {
		res = append(res, subQuery(store, q))
	}
	g := store.GetStats()
	cs := []*Sx{}
	ids := []string{}
	for c := range clients {
		ids = append(ids, c)
	}
	sort.Strings(ids)
	for _, c := range ids {
		st, err := store.GetClientStats(c)
		if err != nil {
			cs = append(cs, L(S(c), A("none")))
		} else {
			cs = append(cs, L(S(c), U(st.SubscriptionsTotal), U(st.SubscriptionsCurrent)))
		}
	}
	return L(K("already", alreadys...), K("results", res...), K("gstats", U(g.SubscriptionsTotal), U(g.SubscriptionsCurrent)), K("cstats", cs...))
}

func subRun(in *Sx) *Sx { return subRunOn(mem.NewStore(), in) }

var subLevels = []string{"a", "a", "b", "", "+", "+", "$s", "ab"}
var subTopicLevels = []string{"a", "a", "b", "", "$s", "ab"}

func genFilter(r *Rng) string {
	n := r.Range(1, 3)
	ls := []string{}
	for i := 0; i < n; i++ {
		ls = append(ls, Pick(r, subLevels))
	}
	if r.Chance(1, 3) {
		if r.Chance(1, 4) {
			ls = []string{"#"}
		} else {
			ls = append(ls, "#")
		}
	}
	if r.Chance(1, 30) { // near-legal
		ls[0] = Pick(r, []string{"+a", "a#", "#", "$+"})
	}
	return strings.Join(ls, "/")
}

func genTopic(r *Rng) string {
	n := r.Range(1, 4)
	ls := []string{}
	for i := 0; i < n; i++ {
		ls = append(ls, Pick(r, subTopicLevels))
	}
	return strings.Join(ls, "/")
}

func subGen(r *Rng, i int) *Sx {
	clients := []string{"c1", "c2", "c3"}
	shares := []string{"", "", "", "g1", "g2"}
	pool := []string{}
	for k := 0; k < r.Range(2, 8); k++ {
		pool = append(pool, genFilter(r))
	}
	nops := r.Range(0, 30)
	ops := []*Sx{}
	for k := 0; k < nops; k++ {
		c := Pick(r, clients)
		switch x := r.Intn(10); {
		case x < 1:
			m := []*Sx{A("subm"), S(c)}
			for j := 0; j < r.Range(2, 3); j++ {
				m = append(m, sxSub(&gmqtt.Subscription{ShareName: Pick(r, shares), TopicFilter: Pick(r, pool), ID: uint32(r.Intn(3)), QoS: byte(r.Intn(3)),
					NoLocal: r.Bool(), RetainAsPublished: r.Bool(), RetainHandling: byte(r.Intn(3))}))
			}
			ops = append(ops, L(m...))
		case x < 6:
			s := &gmqtt.Subscription{ShareName: Pick(r, shares), TopicFilter: Pick(r, pool), ID: uint32(r.Intn(3)), QoS: byte(r.Intn(3)),
				NoLocal: r.Bool(), RetainAsPublished: r.Bool(), RetainHandling: byte(r.Intn(3))}
			ops = append(ops, L(A("sub"), S(c), sxSub(s)))
		case x < 9:
			t := Pick(r, pool)
			if sh := Pick(r, shares); sh != "" {
				t = "$share/" + sh + "/" + t
			}
			if r.Chance(1, 40) {
				t = "$share/" + Pick(r, []string{"g1", "", "g2/"})
			}
			u := []*Sx{A("unsub"), S(c), S(t)}
			for r.Chance(1, 4) { // several filters in one call, of different kinds
				t2 := Pick(r, pool)
				if sh := Pick(r, shares); sh != "" {
					t2 = "$share/" + sh + "/" + t2
				}
				u = append(u, S(t2))
			}
			ops = append(ops, L(u...))
		default:
			ops = append(ops, L(A("unsuball"), S(c)))
		}
	}
	qs := []*Sx{}
	q := func(sys, sh, ns bool, c, t, mt string) { qs = append(qs, L(A("q"), Bool(sys), Bool(sh), Bool(ns), S(c), S(t), A(mt))) }
	for k := 0; k < 6; k++ {
		t := genTopic(r)
		q(true, false, true, "", t, "filter")
		if r.Bool() {
			q(false, true, false, "", t, "filter")
		}
		if r.Chance(1, 3) {
			q(true, true, true, Pick(r, clients), t, "filter")
		}
	}
	for k := 0; k < 4; k++ {
		f := Pick(r, pool)
		q(true, false, true, "", f, "name")
		if r.Bool() {
			q(true, false, true, Pick(r, clients), f, "name")
		}
		sh := Pick(r, []string{"g1", "g2"})
		q(false, true, false, "", "$share/"+sh+"/"+f, "name")
		if r.Chance(1, 3) {
			q(true, true, true, Pick(r, clients), "$share/"+sh+"/"+f, "name")
		}
	}
	for _, c := range clients {
		q(true, false, true, c, "", "none")
		q(false, true, false, c, "", "none")
	}
	q(true, true, true, "", "", "none")
	return L(K("ops", ops...), K("queries", qs...))
}

// ---- TopicMatch ----

var tmAlphabet = []byte{'a', 'b', '/', '+', '#', '$'}

func tmRun(in *Sx) *Sx {
	return L(K("r", Bool(packets.TopicMatch(in.Field1("t").Bytes(), in.Field1("f").Bytes()))))
}

func tmString(i, maxLen int) ([]byte, int) {
	// i-th string over the alphabet in length-lexicographic order; returns remaining index
	for l := 0; l <= maxLen; l++ {
		cnt := 1
		for k := 0; k < l; k++ {
			cnt *= len(tmAlphabet)
		}
		if i < cnt {
			b := make([]byte, l)
			for k := 0; k < l; k++ {
				b[k] = tmAlphabet[i%len(tmAlphabet)]
				i /= len(tmAlphabet)
			}
			return b, 0
		}
		i -= cnt
	}
	return nil, i
}

func tmGen(r *Rng, i int) *Sx {
	const perLen3 = 1 + 6 + 36 + 216
	if i < perLen3*perLen3 { // exhaustive over all pairs of strings up to length 3
		t, _ := tmString(i%perLen3, 3)
		f, _ := tmString(i/perLen3, 3)
		return L(K("t", B(t)), K("f", B(f)))
	}
	var t, f string
	if r.Chance(3, 4) {
		t = genTopic(r)
		f = genFilter(r)
		if r.Chance(1, 2) { // derive the filter from the topic so that matches are common
			ls := strings.Split(t, "/")
			for k := range ls {
				if r.Chance(1, 3) {
					ls[k] = "+"
				}
			}
			if r.Chance(1, 3) {
				ls = append(ls[:r.Intn(len(ls))+1], "#")
			}
			f = strings.Join(ls, "/")
		}
	} else {
		bt := make([]byte, r.Range(0, 7))
		for k := range bt {
			bt[k] = Pick(r, tmAlphabet)
		}
		bf := make([]byte, r.Range(0, 7))
		for k := range bf {
			bf[k] = Pick(r, tmAlphabet)
		}
		t, f = string(bt), string(bf)
	}
	return L(K("t", S(t)), K("f", S(f)))
}

func init() {
	register(&Suite{Name: "sub", Gen: subGen, Run: subRun})
	register(&Suite{Name: "subsh", Gen: subGen, Run: subRun})
	register(&Suite{Name: "tm", Gen: tmGen, Run: tmRun})
}
