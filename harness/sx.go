package main

import (
	"encoding/hex"
	"fmt"
	"strconv"
	"strings"
)

// Sx is a minimal s-expression: an atom or a list.
type Sx struct {
	Atom string
	List []*Sx
	IsL  bool
}

func A(s string) *Sx          { return &Sx{Atom: s} }
func I(i int) *Sx             { return &Sx{Atom: strconv.Itoa(i)} }
func U(i uint64) *Sx          { return &Sx{Atom: strconv.FormatUint(i, 10)} }
func B(b []byte) *Sx          { return &Sx{Atom: "x" + hex.EncodeToString(b)} }
func S(s string) *Sx          { return B([]byte(s)) }
func L(items ...*Sx) *Sx      { return &Sx{List: items, IsL: true} }
func K(k string, v ...*Sx) *Sx { return &Sx{List: append([]*Sx{A(k)}, v...), IsL: true} }
func Bool(b bool) *Sx {
	if b {
		return A("1")
	}
	return A("0")
}

func (s *Sx) String() string {
	var b strings.Builder
	s.write(&b)
	return b.String()
}

func (s *Sx) write(b *strings.Builder) {
	if !s.IsL {
		b.WriteString(s.Atom)
		return
	}
	b.WriteByte('(')
	for i, x := range s.List {
		if i > 0 {
			b.WriteByte(' ')
		}
		x.write(b)
	}
	b.WriteByte(')')
}

func ParseSx(s string) (*Sx, error) {
	pos := 0
	var item func() (*Sx, error)
	skip := func() {
		for pos < len(s) && (s[pos] == ' ' || s[pos] == '\t' || s[pos] == '\n' || s[pos] == '\r') {
			pos++
		}
	}
	item = func() (*Sx, error) {
		skip()
		if pos >= len(s) {
			return nil, fmt.Errorf("eof")
		}
		if s[pos] == '(' {
			pos++
			l := &Sx{IsL: true}
			for {
				skip()
				if pos >= len(s) {
					return nil, fmt.Errorf("unclosed")
				}
				if s[pos] == ')' {
					pos++
					return l, nil
				}
				x, err := item()
				if err != nil {
					return nil, err
				}
				l.List = append(l.List, x)
			}
		}
		if s[pos] == ')' {
			return nil, fmt.Errorf("unexpected )")
		}
		st := pos
		for pos < len(s) && !strings.ContainsRune(" \t\n\r()", rune(s[pos])) {
			pos++
		}
		return &Sx{Atom: s[st:pos]}, nil
	}
	r, err := item()
	if err != nil {
		return nil, err
	}
	skip()
	if pos != len(s) {
		return nil, fmt.Errorf("trailing input")
	}
	return r, nil
}

// Field returns the values of (key v...) inside a list.
func (s *Sx) Field(k string) []*Sx {
	for _, x := range s.List {
		if x.IsL && len(x.List) > 0 && !x.List[0].IsL && x.List[0].Atom == k {
			return x.List[1:]
		}
	}
	return nil
}
func (s *Sx) Has(k string) bool {
	for _, x := range s.List {
		if x.IsL && len(x.List) > 0 && !x.List[0].IsL && x.List[0].Atom == k {
			return true
		}
	}
	return false
}
func (s *Sx) Field1(k string) *Sx {
	f := s.Field(k)
	if len(f) != 1 {
		panic("field1 " + k + " in " + s.String())
	}
	return f[0]
}
func (s *Sx) Int() int {
	i, err := strconv.Atoi(s.Atom)
	if err != nil {
		panic("int atom: " + s.Atom)
	}
	return i
}
func (s *Sx) Uint() uint64 {
	i, err := strconv.ParseUint(s.Atom, 10, 64)
	if err != nil {
		panic("uint atom: " + s.Atom)
	}
	return i
}
func (s *Sx) Bytes() []byte {
	if len(s.Atom) == 0 || s.Atom[0] != 'x' {
		panic("bytes atom: " + s.Atom)
	}
	b, err := hex.DecodeString(s.Atom[1:])
	if err != nil {
		panic(err)
	}
	return b
}
func (s *Sx) Str() string { return string(s.Bytes()) }
func (s *Sx) Bool() bool  { return s.Atom != "0" }
