package main

// Suite w_c08: scenario family for property C08 (the will message is published exactly when,
// and only when, it should be).  Oracle: ocaml/o_c08.ml.
//
// THE FAMILY
//   * 1-3 OBSERVER connections (labels 1..3, client ids o1..o3, MQTT 3.1 / 3.1.1 / 5) connect first,
//     never carry a will, never disconnect, keepalive 0.  They SUBSCRIBE / UNSUBSCRIBE (all option
//     bits, subscription identifiers, wildcards, $-topics, share groups for v5) at arbitrary points
//     of the scenario and are the only receivers of anything.
//   * 2-3 WILL-CLIENT labels (4..6) connect, end and reconnect under the client ids c1/c2 (so that
//     take-overs and session resumption happen).  Every CONNECT draws: version 3/4/5, clean flag,
//     will yes/no with QoS 0-2, retain, unique payload w<N>, topic out of {a, b, a/b, $s/x}; for v5
//     will properties (payload format, content type, response topic, correlation data, user
//     properties, message expiry) and a Will Delay Interval out of {absent, 0, 1, 100}; a Session
//     Expiry Interval out of {absent, 0, 1, 100, 2^32-1}; the configured session expiry is 7200, 100
//     or 1 (caps the v5 interval, is the expiry of a v3 session with clean=0).
//     Will clients never subscribe and never publish anything that is forwarded.
//   * a connection ends by: socket close; DISCONNECT (v3/v4), DISCONNECT 0x00 / 0x04 (v5), with or
//     without a Session Expiry Interval, followed by a close at once or later; a protocol error
//     (PUBLISH to a topic name with a wildcard; v5 also topic alias 0; v3/v4 also an AUTH packet); keep-alive timeout
//     (keepalive 1, killed by a (sleep 1800)); take-over by a CONNECT of the same client id on
//     another label; TerminateSession (on-line and off-line sessions).
//   * time: only real time, (sleep 400) and (sleep 1300) ((sleep 1800) while a keepalive-1 connection lives).  Every 1 s timer (pending will with
//     effective delay 1 s, session with 1 s expiry) sees a total sleep of 0 or 400 ms (certainly
//     not fired) or >= 1300 ms (certainly fired) at every later step - never two (sleep 400).
//     A keepalive-1 connection never has a 1 s will delay or a 1 s session expiry (its death
//     happens inside a sleep).  An interval of 100 s never passes.
//   * optionally an OnWillPublish hook (drop / rewrite topic, payload, QoS) for c1 and/or c2.
//   * both delivery modes; queue_qos0 on/off; message_expiry 7200 or 0 (no cap).
//
// DELIBERATELY EXCLUDED (the expectation would not be exactly computable from the statement):
// subscribers that are off-line when the will fires (queueing, expiry in queues), will clients
// with subscriptions of their own (NoLocal / self delivery into a stored session), (advance) and
// (expire_check) (delayed-will timers are real timers, virtual time would separate the session
// expiry from the will timer), wills with an empty payload (retained clear), message expiry on a
// RETAINED will (the replay would carry the remaining lifetime), message expiry above the
// configured cap, broker limits that drop messages (max_inflight, packet size, receive maximum,
// topic aliases), a rejected CONNECT, malformed packets, server-side Close (no step for it),
// zero-length client ids, effective delays other than 0 / 1 / 100 s.

import "fmt"

type c08Sock struct {
	label   int
	cid     string
	ver     int
	open    bool // the script's socket is open (must be closed before the label is reused)
	live    bool // CONNECT accepted, connection presumably still attached to the session
	disc    bool // a DISCONNECT was sent
	ka      int
	nextPid int
	oneSec  bool // the end of this connection may start a 1 s timer (will delay or session expiry of 1 s)
	e       int  // effective session expiry of the CONNECT
	wdelay  int  // will delay interval of the CONNECT's will (0: none)
}

var c08Topics = []string{"a", "a", "b", "a/b", "$s/x"}
var c08Filters = []string{"a", "b", "a/b", "#", "+", "a/#", "a/+", "+/b", "+/+", "$s/#", "$s/x", "$s/+"}
var c08Shared = []string{"$share/g/a", "$share/g/#", "$share/h/a", "$share/g/+"}

func c08Gen(r *Rng, i int) *Sx {
	cfgSE := Pick(r, []int{7200, 7200, 100, 1})
	cfg := K("cfg",
		K("delivery", A(Pick(r, []string{"onlyonce", "overlap"}))),
		K("max_inflight", I(100)), K("max_queued", I(1000)),
		K("queue_qos0", Bool(!r.Chance(1, 4))),
		K("session_expiry", I(cfgSE)),
		K("message_expiry", I(Pick(r, []int{7200, 7200, 0}))),
		K("recv_max", I(100)), K("alias_max", I(10)),
		K("max_packet", I(268435456)), K("max_qos", I(2)),
		K("retain_avail", Bool(true)), K("wildcard", Bool(true)), K("subid", Bool(true)), K("shared", Bool(true)),
		K("max_keepalive", I(300)), K("allow_zero_len", Bool(true)), K("inflight_expiry", I(30)))

	steps := []*Sx{}
	add := func(x *Sx) { steps = append(steps, x) }

	// ---- 1 s timers (elapsed nominal sleep in ms)
	timers := []int{}
	startTimer := func() { timers = append(timers, 0) }
	canSleep400 := func() bool {
		for _, e := range timers {
			if e != 0 && e < 1300 {
				return false
			}
		}
		return true
	}

	// ---- observers
	nobs := r.Range(1, 3)
	obs := []*c08Sock{}
	for k := 1; k <= nobs; k++ {
		obs = append(obs, &c08Sock{label: k, cid: fmt.Sprintf("o%d", k), ver: Pick(r, []int{3, 4, 5, 5, 5}), nextPid: 1})
	}
	subscribe := func(s *c08Sock, onWillTopic bool) {
		items := []*Sx{A("subscribe"), I(s.nextPid)}
		s.nextPid++
		props := []*Sx{}
		if s.ver == 5 && r.Chance(1, 3) {
			props = append(props, K("subid", I(r.Range(1, 3))))
		}
		items = append(items, K("props", props...))
		seen := map[string]bool{}
		for k := 0; k < r.Range(1, 2); k++ {
			f := Pick(r, c08Filters)
			if onWillTopic {
				f = Pick(r, c08Topics)
			}
			if s.ver == 5 && r.Chance(1, 6) {
				f = Pick(r, c08Shared)
			}
			if seen[f] { // the same filter twice in one SUBSCRIBE: which options govern the replay is not the statement's business
				continue
			}
			seen[f] = true
			nl, rap, rh := false, false, 0
			if s.ver == 5 {
				nl, rap, rh = r.Chance(1, 4), r.Chance(1, 2), Pick(r, []int{0, 0, 1, 2})
				if len(f) > 7 && f[:7] == "$share/" {
					nl = false // NoLocal on a shared subscription is a protocol error
				}
			}
			items = append(items, L(A("t"), S(f), I(Pick(r, []int{0, 1, 2, 2})), Bool(nl), Bool(rap), I(rh)))
		}
		add(L(A("send"), I(s.label), L(items...)))
	}
	for _, s := range obs {
		add(L(A("connect"), I(s.label), I(s.ver), K("cid", S(s.cid)), K("clean", Bool(r.Bool())), K("keepalive", I(0)), K("props")))
		for k := 0; k < r.Range(0, 2); k++ {
			subscribe(s, false)
		}
	}
	if r.Chance(3, 4) { // make sure somebody listens
		subscribe(obs[0], r.Bool())
	}

	// ---- will clients
	nw := r.Range(2, 3)
	socks := []*c08Sock{}
	for k := 0; k < nw; k++ {
		socks = append(socks, &c08Sock{label: 4 + k})
	}
	cids := []string{"c1", "c2"}
	if r.Chance(1, 3) {
		cids = []string{"c1"}
	}
	nwill := 0
	// a keep-alive timeout and a 1 s timer (will delay or session expiry of 1 s) never meet in one scenario: both
	// would fire inside the same (sleep 1800) and the order of their effects is decided by the real clock
	anyKA, anyOneSec := false, cfgSE == 1 // a configured session expiry of 1 s makes every stored session a 1 s timer
	// client id -> delay of a will that may be pending for it
	maybePending := map[string]int{}
	nextCid := 3
	ended := func(s *c08Sock) { // the connection attached to s dies now
		if s.oneSec {
			startTimer()
		}
		if s.wdelay > 0 {
			maybePending[s.cid] = s.wdelay
		}
		s.live = false
	}
	endLive := func(cid string) { // the connection attached to cid (if any) dies
		for _, o := range socks {
			if o.live && o.cid == cid {
				ended(o)
			}
		}
	}
	connect := func(s *c08Sock) {
		if s.open {
			add(L(A("close"), I(s.label)))
			s.open, s.live = false, false
		}
		s.cid = Pick(r, cids)
		delete(maybePending, s.cid) // the CONNECT cancels or releases it
		s.ver = Pick(r, []int{3, 4, 4, 5, 5, 5, 5, 5})
		clean := r.Chance(1, 2)
		sei, delay := -1, -1
		if s.ver == 5 {
			sei = Pick(r, []int{-1, 0, 1, 100, 100, 100, 4294967295})
			if sei == 1 && anyKA {
				sei = 100
			}
		}
		e := 0 // effective session expiry
		if s.ver == 5 {
			if sei > 0 {
				e = min(sei, cfgSE)
			}
		} else if !clean {
			e = cfgSE
		}
		items := []*Sx{A("connect"), I(s.label), I(s.ver), K("cid", S(s.cid)), K("clean", Bool(clean))}
		var will *Sx
		if r.Chance(6, 7) {
			nwill++
			retain := r.Chance(1, 3)
			wp := []*Sx{}
			if s.ver == 5 {
				if r.Chance(1, 5) {
					wp = append(wp, K("pfmt", I(1)))
				}
				if r.Chance(1, 5) {
					wp = append(wp, K("ctype", S(Pick(r, []string{"t", "text/plain"}))))
				}
				if r.Chance(1, 5) {
					wp = append(wp, K("resp", S(Pick(r, []string{"r", "a/b"}))))
				}
				if r.Chance(1, 5) {
					wp = append(wp, K("corr", S(Pick(r, []string{"c", "corr"}))))
				}
				for r.Chance(1, 5) {
					wp = append(wp, K("user", S(Pick(r, []string{"k", "key"})), S(Pick(r, []string{"v", "", "w"}))))
				}
				if !retain && r.Chance(1, 4) {
					wp = append(wp, K("msgexpiry", I(Pick(r, []int{60, 100, 7000}))))
				}
				if r.Chance(2, 3) {
					delay = Pick(r, []int{0, 1, 1, 1, 100, 100})
					if delay == 1 && anyKA {
						delay = 100
					}
					wp = append(wp, K("willdelay", I(delay)))
				}
			}
			will = K("will", K("topic", S(Pick(r, c08Topics))), K("payload", S(fmt.Sprintf("w%d", nwill))), K("qos", I(r.Intn(3))),
				K("retain", Bool(retain)), K("props", wp...))
		}
		ka := 0
		if delay == 1 || e == 1 {
			anyOneSec = true
		}
		if r.Chance(1, 20) && !anyOneSec {
			ka = 1
			anyKA = true
		}
		items = append(items, K("keepalive", I(ka)))
		if will != nil {
			items = append(items, will)
		}
		props := []*Sx{}
		if sei >= 0 {
			props = append(props, K("sei", I(sei)))
		}
		items = append(items, K("props", props...))
		endLive(s.cid) // take-over
		add(L(items...))
		s.open, s.live, s.disc, s.ka, s.nextPid = true, true, false, ka, 1
		s.oneSec, s.e, s.wdelay = delay == 1 || e == 1, e, 0
		if will != nil && delay > 0 {
			s.wdelay = delay
		}
	}
	connect(socks[0])

	sleep := func(short bool) {
		if short && canSleep400() {
			add(L(A("sleep"), I(400)))
			for j := range timers {
				timers[j] += 400
			}
			return
		}
		// a keepalive-1 connection is dropped after 1 s by the broker (keepAlive/2+keepAlive in integer arithmetic) where
		// 1.5 s are due: sleep long enough for both readings
		d := 1300
		for _, s := range socks {
			if s.live && s.ka == 1 {
				d = 1800
				s.live = false // keep-alive timeout
				if s.wdelay > 0 {
					maybePending[s.cid] = s.wdelay
				}
			}
		}
		add(L(A("sleep"), I(d)))
		for j := range timers {
			timers[j] += d
		}
		for c, wd := range maybePending {
			if wd == 1 {
				delete(maybePending, c)
			}
		}
	}
	// after the end of a connection whose will is delayed by 1 s: often let (part of) the delay pass
	afterEnd := func(s *c08Sock) {
		if s.wdelay == 1 && r.Chance(1, 2) {
			sleep(r.Chance(1, 3))
		}
	}

	n := r.Range(5, 22)
	for k := 0; k < n; k++ {
		x := r.Intn(100)
		switch {
		case x < 28:
			// connect a will client (fresh label preferred)
			var free []*c08Sock
			for _, s := range socks {
				if !s.live {
					free = append(free, s)
				}
			}
			if len(free) == 0 {
				continue
			}
			connect(Pick(r, free))
		case x < 58:
			var cand []*c08Sock
			for _, s := range socks {
				if s.open {
					cand = append(cand, s)
				}
			}
			if len(cand) == 0 {
				continue
			}
			s := Pick(r, cand)
			if !s.live || s.disc {
				add(L(A("close"), I(s.label)))
				s.open = false
				wasLive := s.live
				ended(s)
				if wasLive {
					afterEnd(s)
				}
				continue
			}
			switch y := r.Intn(100); {
			case y < 30:
				add(L(A("close"), I(s.label)))
				s.open = false
				ended(s)
				afterEnd(s)
			case y < 70:
				code := 0
				props := []*Sx{}
				if s.ver == 5 {
					code = Pick(r, []int{0, 4, 4})
					if r.Chance(1, 2) && s.ka == 0 && s.e > 0 {
						// (a non-zero Session Expiry Interval in DISCONNECT is a protocol error when the CONNECT one was 0)
						v := Pick(r, []int{0, 1, 1, 100, 100})
						if v == 1 && anyKA {
							v = 100
						}
						props = append(props, K("sei", I(v)))
						if v == 1 {
							s.oneSec = true
							anyOneSec = true
						}
					}
				}
				add(L(A("send"), I(s.label), L(A("disconnect"), I(code), K("props", props...))))
				s.disc = true
				if r.Chance(3, 4) {
					add(L(A("close"), I(s.label)))
					s.open = false
					ended(s)
					afterEnd(s)
				}
			case y < 88:
				// protocol errors: v5 topic alias 0 (DISCONNECT 0x94); PUBLISH to a topic name with a wildcard; v3/v4 an AUTH
				// packet (the broker then leaves the TCP connection open until the peer closes it)
				switch {
				case s.ver == 5 && s.e == 0 && s.ka == 0 && r.Chance(3, 4):
					// a DISCONNECT that is itself a protocol error: a non-zero Session Expiry Interval after a CONNECT with 0 /
					// none (MQTT 5 3.14.2.2.2: not a valid DISCONNECT, so the will is due)
					add(L(A("send"), I(s.label), L(A("disconnect"), I(Pick(r, []int{0, 0, 4})), K("props", K("sei", I(100))))))
				case s.ver == 5 && r.Chance(5, 6):
					add(L(A("send"), I(s.label), L(A("publish"), Bool(false), I(0), Bool(false), S("a"), S("m"), I(0), K("props", K("alias", I(0))))))
				case s.ver != 5 && r.Chance(4, 5):
					add(L(A("send"), I(s.label), L(A("auth"), I(0), K("props"))))
				default:
					add(L(A("send"), I(s.label), L(A("publish"), Bool(false), I(0), Bool(false), S("a/+"), S("m"), I(0), K("props"))))
				}
				ended(s)
				if r.Bool() {
					add(L(A("close"), I(s.label)))
					s.open = false
				}
			default:
				add(L(A("terminate"), S(s.cid)))
				ended(s)
			}
		case x < 72:
			sleep(r.Chance(1, 2))
		case x < 86:
			subscribe(Pick(r, obs), r.Chance(1, 3))
		case x < 90:
			s := Pick(r, obs)
			add(L(A("send"), I(s.label), L(A("unsubscribe"), I(s.nextPid), K("props"), S(Pick(r, append(c08Filters, c08Shared...))))))
			s.nextPid++
		case x < 96:
			ci := r.Intn(len(cids))
			cid := cids[ci]
			add(L(A("terminate"), S(cid)))
			online := false
			for _, s := range socks {
				if s.live && s.cid == cid {
					ended(s)
					online = true
				}
			}
			if !online && maybePending[cid] > 0 {
				// TerminateSession of an off-line session with a pending will: the broker leaves that will to its timer and
				// keeps it addressable by later CONNECTs of the client id (known deviation); the id is not used again so
				// that the deviation stays the plain "published late" one
				cids[ci] = fmt.Sprintf("c%d", nextCid)
				nextCid++
			}
			delete(maybePending, cid)
		default:
			var cand []*c08Sock
			for _, s := range socks {
				if s.live && !s.disc {
					cand = append(cand, s)
				}
			}
			if len(cand) > 0 {
				add(L(A("send"), I(Pick(r, cand).label), L(A("pingreq"))))
			}
		}
	}
	if r.Chance(2, 3) {
		d := 1300
		for _, s := range socks {
			if s.live && s.ka == 1 {
				d = 1800
			}
		}
		add(L(A("sleep"), I(d)))
	}
	if r.Chance(1, 2) {
		subscribe(Pick(r, obs), true)
	}
	add(L(A("inspect")))

	top := []*Sx{cfg}
	if r.Chance(1, 8) {
		rules := []*Sx{}
		for _, c := range cids {
			if r.Chance(2, 3) {
				act := L(A("drop"))
				switch r.Intn(3) {
				case 0:
					act = L(A("rewrite"), S(Pick(r, c08Topics)), S("r"+c), I(r.Intn(3)))
				case 1:
					act = L(A("accept"))
				}
				rules = append(rules, L(S(c), act))
			}
		}
		top = append(top, K("hooks", K("will_publish", rules...)))
	}
	top = append(top, K("steps", steps...))
	return L(top...)
}

func init() { register(&Suite{Name: "w_c08", Gen: c08Gen, Run: wireRun, Par: 1}) }
