package main

// Suite w_c07 - scenario family for property C07, SUBSCRIBE-time replay of retained messages and the
// RETAIN flag of live forwarding (the retained store itself is verified by suite `ret`). The oracle
// is ocaml/o_c07.ml.
//
// THE FAMILY
//   * 2-4 clients c1..c4 (labels 1..4, alternate labels 6..9 for take-overs; MQTT 3.1 / 3.1.1 / 5),
//     every one of them may publish and subscribe; optionally a client w (label 5) that carries a will
//     (RETAIN mostly set) and never subscribes: its connection is closed without DISCONNECT at some
//     point, which publishes the will.
//   * retained publishes and clears (RETAIN=1, empty payload) at QoS 0/1/2 (never above the broker's
//     Maximum QoS, which is 2, 1 or 0) over topics that are prefixes of each other, have empty levels
//     or start with '$'; non-retained publishes in between. Every non-empty payload is unique in the
//     scenario, so every PUBLISH a client receives is attributable. QoS 2 packet ids are never reused
//     (a retransmission would not be "accepted"); PUBREL follows at once or later or never.
//   * SUBSCRIBE packets with 1-3 entries over every filter shape (exact, +, #, parent match a/#,
//     empty levels, $-filters, filters that match nothing), QoS 0..2, and for v5 every combination of
//     No Local, Retain As Published, Retain Handling 0/1/2, sometimes a Subscription Identifier;
//     shared subscriptions ($share/g/..) for v5 AND for 3.x clients (gmqtt honours them for both);
//     re-subscription of a filter the client already has (often with other options), the same filter twice
//     in one SUBSCRIBE (rare), UNSUBSCRIBE followed by SUBSCRIBE, and re-subscription after a reconnect
//     with a resumed session (close / DISCONNECT+close / take-over, Clean 0) or with a new one (Clean 1,
//     Session Expiry 0, or session expired by a clock advance + expiry check).
//   * the in-flight window is 100 and every queue is large: nothing ever waits, so that replays arrive in
//     the step of the SUBSCRIBE and live copies in the step of the PUBLISH. Receivers acknowledge at
//     random (best effort (rx K)) or not at all.
//   * a client that goes offline with a session that could survive comes back at once (only clock
//     steps in between), or stays away, or comes back later with Clean 1: nothing is ever queued for an
//     offline session that is resumed afterwards (that belongs to other properties).
//
// DELIBERATELY EXCLUDED: hooks, api_publish / terminate, topic aliases, Receive Maximum / Maximum Packet
// Size / Topic Alias Maximum of clients, small windows and queues, Message Expiry below 100000 s (the
// retained store has no notion of it), retain_available / wildcard / shared switched off, will delay,
// take-over or DISCONNECT-with-will of the will client, malformed packets, keep-alive (0 everywhere).
// Advances are 300 ms mod 1 s, at most 6 per scenario.

import (
	"strconv"
	"strings"
)

var c7Topics = []string{"a", "a", "b", "a/b", "a/b", "a/b/c", "a/", "/a", "b/a", "c/d", "$s/x", "$s/x", "$s/x/y", "$t"}
var c7Filters = []string{"a", "b", "a/b", "+", "a/+", "#", "#", "a/#", "a/#", "+/b", "+/+", "b/#", "a/b/#", "a/+/c", "+/a", "/+", "/#",
	"$s/#", "$s/+", "$s/x", "+/x", "$s/+/y", "$t", "a/b/c", "c/+", "+/+/+", "a/b/c/#", "z/#", "+/+/#", "$s/x/#"}
var c7Shared = []string{"$share/g/a", "$share/g/#", "$share/g/a/+", "$share/h/a", "$share/g/$s/#", "$share/g/+", "$share/h/a/#"}

type c7Sub struct {
	qos    int
	shared bool
}

type c7Client struct {
	label, alt int
	ver        int
	cid        string
	open       bool
	away       bool // offline for good (may come back with Clean 1)
	persistent bool // the current session could survive a disconnect
	subs       map[string]c7Sub
	order      []string
	past       []string
	nextPid    int
	q2         []int // own QoS 2 ids without PUBREL
	rx         int
	guess      []int
}

type c7Ret struct {
	payload string
	qos     int
}

func c7Match(filter, topic string) bool {
	if strings.HasPrefix(topic, "$") && (strings.HasPrefix(filter, "+") || strings.HasPrefix(filter, "#")) {
		return false
	}
	f := strings.Split(filter, "/")
	t := strings.Split(topic, "/")
	for i, x := range f {
		if x == "#" {
			return true
		}
		if i >= len(t) {
			return false
		}
		if x != "+" && x != t[i] {
			return false
		}
	}
	return len(f) == len(t)
}

func c7PubProps(r *Rng) []*Sx {
	var ps []*Sx
	if r.Chance(1, 6) {
		ps = append(ps, K("msgexpiry", I(100000)))
	}
	if r.Chance(1, 6) {
		ps = append(ps, K("pfmt", I(r.Intn(2))))
	}
	if r.Chance(1, 6) {
		ps = append(ps, K("ctype", S(Pick(r, []string{"t", "text/plain"}))))
	}
	if r.Chance(1, 6) {
		ps = append(ps, K("resp", S(Pick(r, []string{"r", "a/b"}))))
	}
	if r.Chance(1, 6) {
		ps = append(ps, K("corr", S(Pick(r, []string{"c", "corr"}))))
	}
	for r.Chance(1, 6) {
		ps = append(ps, K("user", S(Pick(r, []string{"k", "key"})), S(Pick(r, []string{"v", "", "w"}))))
	}
	return ps
}

func c7Gen(r *Rng, i int) *Sx {
	overlap := r.Bool()
	delivery := "onlyonce"
	if overlap {
		delivery = "overlap"
	}
	sessExp := Pick(r, []int{7200, 7200, 60, 2})
	maxQos := Pick(r, []int{2, 2, 2, 2, 1, 0})
	cfg := K("cfg",
		K("delivery", A(delivery)),
		K("max_inflight", I(100)), K("max_queued", I(1000)),
		K("queue_qos0", Bool(!r.Chance(1, 4))),
		K("session_expiry", I(sessExp)),
		K("message_expiry", I(Pick(r, []int{7200, 7200, 0}))),
		K("recv_max", I(100)), K("alias_max", I(10)),
		K("max_packet", I(268435456)), K("max_qos", I(maxQos)),
		K("retain_avail", Bool(true)), K("wildcard", Bool(true)), K("subid", Bool(true)), K("shared", Bool(true)),
		K("max_keepalive", I(300)), K("allow_zero_len", Bool(true)), K("inflight_expiry", I(30)))

	steps := []*Sx{}
	add := func(x *Sx) { steps = append(steps, x) }
	nadv, ctr := 0, 0
	willTopic, willPayload, willQos, willRetain := "", "", 0, false
	retained := map[string]c7Ret{}
	retOrder := []string{}

	ncl := r.Range(2, 4)
	var clients []*c7Client
	for k := 1; k <= ncl; k++ {
		clients = append(clients, &c7Client{label: k, alt: k + 5, ver: Pick(r, []int{3, 4, 4, 5, 5, 5}), cid: "c" + strconv.Itoa(k), subs: map[string]c7Sub{}, nextPid: 1})
	}
	var willc *c7Client
	if r.Chance(1, 4) {
		willc = &c7Client{label: 5, ver: Pick(r, []int{3, 4, 5, 5}), cid: "w", subs: map[string]c7Sub{}, nextPid: 1}
	}

	newPayload := func() string {
		ctr++
		p := "m" + strconv.Itoa(ctr)
		if r.Chance(1, 10) {
			p += strings.Repeat("z", r.Range(1, 30))
		}
		return p
	}

	setRetained := func(topic, payload string, qos int) {
		if payload == "" {
			delete(retained, topic)
			return
		}
		if _, ok := retained[topic]; !ok {
			retOrder = append(retOrder, topic)
		}
		retained[topic] = c7Ret{payload: payload, qos: qos}
	}

	connect := func(c *c7Client, label int, clean bool) {
		props := []*Sx{}
		persistent := false
		if c.ver == 5 {
			if r.Chance(3, 4) {
				sei := uint64(Pick(r, []int{0, 1, 30, 100000, 100000, 4294967295}))
				props = append(props, K("sei", U(sei)))
				persistent = sei > 0
			}
		} else {
			persistent = !clean
		}
		items := []*Sx{A("connect"), I(label), I(c.ver), K("cid", S(c.cid)), K("clean", Bool(clean)), K("keepalive", I(0))}
		if c == willc {
			wp := []*Sx{}
			if c.ver == 5 && r.Bool() {
				wp = c7PubProps(r)
			}
			willTopic, willPayload, willQos, willRetain = Pick(r, c7Topics), newPayload(), r.Intn(maxQos+1), !r.Chance(1, 4)
			items = append(items, K("will", K("topic", S(willTopic)), K("payload", S(willPayload)), K("qos", I(willQos)),
				K("retain", Bool(willRetain)), K("props", wp...)))
		}
		items = append(items, K("props", props...))
		add(L(items...))
		if clean || !(c.persistent || c.open) {
			// what the generator believes; the oracle follows Session Present
			c.past = append(c.past, c.order...)
			c.subs, c.order = map[string]c7Sub{}, nil
		}
		c.open, c.away, c.persistent, c.rx, c.guess = true, false, persistent, 0, nil
	}

	// presumed QoS>0 receptions of a client (only to script acknowledgements that mostly make sense)
	presume := func(c *c7Client, q int) {
		if q > 0 {
			c.guess = append(c.guess, q)
		}
	}

	subscribe := func(c *c7Client) {
		items := []*Sx{A("subscribe"), I(c.nextPid)}
		c.nextPid++
		props := []*Sx{}
		if c.ver == 5 && r.Chance(1, 4) {
			props = append(props, K("subid", I(r.Range(1, 3))))
		}
		items = append(items, K("props", props...))
		n := Pick(r, []int{1, 1, 1, 2, 2, 3})
		var prev string
		for k := 0; k < n; k++ {
			var f string
			deliberate := false
			switch x := r.Intn(100); {
			case k > 0 && x < 5:
				f, deliberate = prev, true // the same filter twice in one packet
			case x < 30 && len(c.past) > 0:
				f = Pick(r, c.past) // a filter the client had and lost (UNSUBSCRIBE or a new session)
			case x < 35 && len(c.order) > 0:
				f = Pick(r, c.order) // re-subscription
			case x < 50:
				f = Pick(r, c7Shared)
			case x < 75 && len(retOrder) > 0:
				// aim at a topic that is or was retained
				t := Pick(r, retOrder)
				lv := strings.Split(t, "/")
				switch r.Intn(4) {
				case 0:
					f = t
				case 1:
					lv[r.Intn(len(lv))] = "+"
					f = strings.Join(lv, "/")
				case 2:
					f = strings.Join(append(append([]string{}, lv[:r.Intn(len(lv))]...), "#"), "/")
				default:
					f = t + "/#"
				}
				if strings.HasPrefix(f, "+") && strings.HasPrefix(t, "$") && r.Bool() {
					f = t
				}
			default:
				f = Pick(r, c7Filters)
			}
			if !deliberate && k > 0 {
				// only the deliberate case above repeats a filter inside one packet
				for _, it := range items[3:] {
					if it.List[1].Str() == f {
						f = Pick(r, c7Filters)
						break
					}
				}
			}
			prev = f
			shared := strings.HasPrefix(f, "$share/")
			q := r.Intn(3)
			nl, rap, rh := false, false, 0
			if c.ver == 5 {
				nl, rap, rh = r.Chance(1, 4) && !shared, r.Bool(), r.Intn(3)
			}
			_, existed := c.subs[f]
			if c.ver == 5 && !shared && r.Bool() {
				for _, pf := range c.past {
					if pf == f {
						rh = 1 // is it new again?
					}
				}
				if existed {
					rh = 1
				}
			}
			if !existed {
				c.order = append(c.order, f)
			}
			gq := min(q, maxQos)
			c.subs[f] = c7Sub{qos: gq, shared: shared}
			if !shared && (c.ver != 5 || rh == 0 || (rh == 1 && !existed)) {
				for _, t := range retOrder {
					if m, ok := retained[t]; ok && c7Match(f, t) {
						presume(c, min(m.qos, gq))
					}
				}
			}
			items = append(items, L(A("t"), S(f), I(q), Bool(nl), Bool(rap), I(rh)))
		}
		add(L(A("send"), I(c.label), L(items...)))
	}

	unsubscribe := func(c *c7Client) {
		if len(c.order) == 0 {
			return
		}
		k := r.Intn(len(c.order))
		f := c.order[k]
		c.order = append(c.order[:k:k], c.order[k+1:]...)
		delete(c.subs, f)
		c.past = append(c.past, f)
		add(L(A("send"), I(c.label), L(A("unsubscribe"), I(c.nextPid), K("props"), S(f))))
		c.nextPid++
	}

	forwarded := func(topic string, qos int) {
		for _, c := range clients {
			if !c.open {
				continue
			}
			n, best := 0, 0
			for _, f := range c.order {
				sb := c.subs[f]
				if !sb.shared && c7Match(f, topic) {
					n++
					best = max(best, sb.qos)
					if overlap {
						presume(c, min(qos, sb.qos))
					}
				}
			}
			if !overlap && n > 0 {
				presume(c, min(qos, best))
			}
		}
	}

	publish := func(c *c7Client, retain bool) {
		qos := r.Intn(maxQos + 1)
		topic := Pick(r, c7Topics)
		payload := newPayload()
		if retain {
			if len(retOrder) > 0 && r.Chance(1, 3) {
				topic = Pick(r, retOrder) // replace or clear something that is or was there
			}
			if _, ok := retained[topic]; (ok && r.Chance(1, 3)) || r.Chance(1, 12) {
				payload = ""
			}
		} else if r.Chance(1, 10) {
			payload = ""
		}
		pid := 0
		if qos > 0 {
			pid = c.nextPid
			c.nextPid++
		}
		props := []*Sx{}
		if c.ver == 5 && r.Chance(1, 2) {
			props = c7PubProps(r)
		}
		add(L(A("send"), I(c.label), L(A("publish"), Bool(false), I(qos), Bool(retain), S(topic), S(payload), I(pid), K("props", props...))))
		if qos == 2 {
			if r.Chance(2, 3) {
				add(L(A("send"), I(c.label), L(A("pubrel"), I(pid), I(0), K("props"))))
			} else {
				c.q2 = append(c.q2, pid)
			}
		}
		if retain {
			setRetained(topic, payload, qos)
		}
		forwarded(topic, qos)
	}

	advance := func(choices []int) {
		if nadv >= 6 {
			return
		}
		nadv++
		add(L(A("advance"), I(Pick(r, choices))))
		if r.Chance(2, 3) {
			add(L(A("expire_check")))
		}
	}

	// go offline and (unless away) come back at once
	cycle := func(c *c7Client) {
		if c.ver == 5 && r.Chance(1, 3) {
			props := []*Sx{}
			if c.persistent && r.Chance(1, 3) {
				e := Pick(r, []int{0, 1, 50})
				props = append(props, K("sei", I(e)))
				c.persistent = e > 0
			}
			add(L(A("send"), I(c.label), L(A("disconnect"), I(0), K("props", props...))))
		} else if c.ver != 5 && r.Chance(1, 3) {
			add(L(A("send"), I(c.label), L(A("disconnect"), I(0), K("props"))))
		}
		add(L(A("close"), I(c.label)))
		c.open = false
		if r.Chance(1, 5) {
			c.away = true
			return
		}
		if r.Chance(1, 3) {
			advance([]int{300, 1300, 2300, 2300, 61300})
		}
		if r.Chance(1, 5) {
			c.ver = Pick(r, []int{3, 4, 5})
		}
		connect(c, c.label, r.Chance(1, 3))
	}

	takeover := func(c *c7Client) {
		old := c.label
		c.label, c.alt = c.alt, c.label
		if r.Chance(1, 5) {
			c.ver = Pick(r, []int{3, 4, 5})
		}
		connect(c, c.label, r.Chance(1, 4))
		add(L(A("close"), I(old))) // the broker has closed it; keeps the runner's label reusable
	}

	ack := func(c *c7Client) {
		if len(c.guess) == 0 {
			return
		}
		switch c.guess[0] {
		case 1:
			add(L(A("send"), I(c.label), L(A("puback"), wireRx(c.rx), I(0), K("props"))))
		default:
			add(L(A("send"), I(c.label), L(A("pubrec"), wireRx(c.rx), I(0), K("props"))))
		}
		c.rx++
		c.guess = c.guess[1:]
	}

	for _, c := range clients {
		connect(c, c.label, r.Bool())
	}
	if willc != nil {
		connect(willc, willc.label, r.Bool())
	}
	// some retained messages first (3 of 4 scenarios), so that subscriptions find something
	if r.Chance(3, 4) {
		for k := r.Range(1, 4); k > 0; k-- {
			publish(Pick(r, clients), true)
		}
	}

	nops := r.Range(8, 30)
	for k := 0; k < nops; k++ {
		c := Pick(r, clients)
		if !c.open {
			if c.away && r.Chance(1, 2) {
				connect(c, c.label, true)
			}
			continue
		}
		switch x := r.Intn(100); {
		case x < 34:
			subscribe(c)
		case x < 54:
			publish(c, true)
		case x < 61:
			publish(c, false)
		case x < 68:
			unsubscribe(c)
		case x < 76:
			cycle(c)
		case x < 79:
			takeover(c)
		case x < 87:
			ack(c)
		case x < 90:
			if len(c.q2) > 0 {
				add(L(A("send"), I(c.label), L(A("pubrel"), I(c.q2[0]), I(0), K("props"))))
				c.q2 = c.q2[1:]
			}
		case x < 93:
			advance([]int{300, 1300, 2300})
		case x < 95:
			add(L(A("send"), I(c.label), L(A("pingreq"))))
		default:
			if willc != nil && willc.open {
				if r.Chance(1, 3) {
					publish(willc, r.Bool())
				} else {
					add(L(A("close"), I(willc.label)))
					willc.open = false
					// the will is published: a retained will enters the store
					if willRetain {
						setRetained(willTopic, willPayload, willQos)
					}
					forwarded(willTopic, willQos)
				}
			} else {
				subscribe(c)
			}
		}
	}
	add(L(A("inspect")))
	return L(cfg, K("steps", steps...))
}

func init() { register(&Suite{Name: "w_c07", Gen: c7Gen, Run: wireRun, Par: 1}) }
