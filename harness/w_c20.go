package main

// Suite w_c20: scenario family for property C20 (statistics are conserved: the counters and
// gauges of server/stats.go equal what actually happened). Oracle: /verif/ocaml/o_c20.ml,
// Coq: theories/Model/Stats.v, Oracle/C20O.v, Proofs/StatsP.v, Props/C20.v.
//
// THE FAMILY
//   * up to three client ids c1..c3 (MQTT 3.1 / 3.1.1 / 5), each with two socket labels (the second
//     one is used for take-overs); CONNECT with clean 0/1, v5 Session Expiry Interval absent / 0 / 1 /
//     30 / 100000 / 2^32-1, Receive Maximum absent / 1 / 2 / 5, Topic Alias Maximum, Maximum Packet
//     Size absent / 40 / 60 / 100000, optionally user name and password (CONNECT sizes vary);
//   * every packet type a well-behaved client can send: SUBSCRIBE (plain filters, 1-2 per packet,
//     every option bit, subscription identifiers), UNSUBSCRIBE, PUBLISH QoS 0/1/2 (never retained, no
//     inbound topic alias; v5 properties incl. Message Expiry 1 / 60 / 100000; payloads m1, m2, ...
//     pairwise distinct, sometimes 45 bytes long so that a 40/60 byte Maximum Packet Size drops
//     them), PUBREL for own QoS 2 publishes (normally in the next step, sometimes late or never),
//     PUBACK / PUBREC / PUBCOMP with symbolic ids (rx K) (v5: also error reason codes and reason
//     strings), PINGREQ, DISCONNECT (v5: reason 0 / 4, Session Expiry Interval), AUTH (v5, rarely: the
//     broker has no enhanced authentication and ends the connection); API publishes;
//   * connections end by DISCONNECT + close, by plain close, by take-over (second label), by
//     TerminateSession; sessions are resumed (clean=0) or replaced (clean=1), expire (session_expiry
//     7200 / 60 / 2, advances of 300 ms mod 1 s, at most 6, expire_check);
//   * every drop kind: queue full (max_queued = max_inflight+5 for max_inflight 1/2/3 - a session
//     whose window has room is therefore never full), expired (message expiry 1 s / message_expiry
//     60 s crossed by advances), in-flight expired (inflight_expiry 30 s crossed by the 40 s / 61 s
//     advances, on a full queue), exceeds Maximum Packet Size; QoS 0 for offline sessions queued or
//     not (queue_qos0); both delivery modes;
//   * an (inspect) follows EVERY step (every step ends quiescent): the hook log of record mode tells
//     the oracle in which step sessions were created / resumed / terminated, connections closed and
//     messages dropped; `(opts (sizes 1))` gives the size of every packet.
// DELIBERATELY EXCLUDED: retained messages and wills (messages that enter queues without a PUBLISH
// packet being received would need a retained store / will model to predict the queue of an offline
// or blocked session), shared subscriptions (random member), inbound topic aliases, hooks that change
// behaviour, malformed packets and failed CONNECTs (no client id to account them to), keepalive (0
// everywhere), traffic between a DISCONNECT and the close of its socket, PINGREQ/PINGRESP counters
// (the runner removes them because of its barrier pings).  recv_max is 100 or 2: with 2 a v5 client
// that leaves QoS 2 publishes unreleased runs out of quota and is disconnected with 0x93.

import "strings"

type c20Cli struct {
	cid     string
	labels  [2]int
	cur     int
	ver     int
	online  bool
	nextPid int // never reset: a QoS 2 id that was not released must not be reused in a resumed session
	rx      int // QoS>0 publishes presumably received on the current socket (only guides generation)
	acked   int
	rec     []int // rx indices answered with PUBREC, awaiting our PUBCOMP
	sentQ2  []int // own QoS 2 publishes not yet released
}

var c20Topics = []string{"a", "a", "b", "a/b", "a/a", "b/a"}
var c20Filters = []string{"a", "b", "a/b", "+", "a/+", "#", "a/#", "+/b", "+/+", "b/#"}

func c20PubProps(r *Rng) []*Sx {
	var ps []*Sx
	if r.Chance(1, 4) {
		ps = append(ps, K("msgexpiry", I(Pick(r, []int{1, 1, 60, 100000}))))
	}
	if r.Chance(1, 6) {
		ps = append(ps, K("pfmt", I(r.Intn(2))))
	}
	if r.Chance(1, 6) {
		ps = append(ps, K("ctype", S(Pick(r, []string{"t", "text/plain"}))))
	}
	if r.Chance(1, 6) {
		ps = append(ps, K("resp", S(Pick(r, []string{"r", "a/b"}))))
	}
	if r.Chance(1, 6) {
		ps = append(ps, K("corr", S(Pick(r, []string{"c", "corr"}))))
	}
	for r.Chance(1, 6) {
		ps = append(ps, K("user", S(Pick(r, []string{"k", "key"})), S(Pick(r, []string{"v", "", "w"}))))
	}
	return ps
}

func c20Gen(r *Rng, i int) *Sx {
	maxInflight := Pick(r, []int{100, 100, 1, 2, 3})
	maxQueued := 1000
	if maxInflight < 100 && r.Chance(2, 3) {
		maxQueued = maxInflight + 5
	}
	recvMax := Pick(r, []int{100, 100, 100, 2})
	relW := 5 // of 6 QoS 2 publishes are released at once
	if recvMax == 2 {
		relW = 3
	}
	cfg := K("cfg",
		K("delivery", A(Pick(r, []string{"onlyonce", "overlap"}))),
		K("max_inflight", I(maxInflight)), K("max_queued", I(maxQueued)),
		K("queue_qos0", Bool(!r.Chance(1, 4))),
		K("session_expiry", I(Pick(r, []int{7200, 7200, 60, 2}))),
		K("message_expiry", I(Pick(r, []int{7200, 7200, 60, 0}))),
		K("recv_max", I(recvMax)),
		K("alias_max", I(Pick(r, []int{10, 10, 0}))),
		K("max_packet", I(268435456)), K("max_qos", I(2)),
		K("retain_avail", Bool(true)), K("wildcard", Bool(true)), K("subid", Bool(true)), K("shared", Bool(true)),
		K("max_keepalive", I(300)), K("allow_zero_len", Bool(true)), K("inflight_expiry", I(30)))

	var steps []*Sx
	add := func(x *Sx) { steps = append(steps, x, L(A("inspect"))) }

	ncli := r.Range(2, 3)
	var clis []*c20Cli
	for k := 1; k <= ncli; k++ {
		clis = append(clis, &c20Cli{cid: "c" + I(k).Atom, labels: [2]int{k, k + 3}, ver: Pick(r, []int{4, 5, 5, 3}), nextPid: 1})
	}
	nmsg := 0
	// temperament of the scenario
	ackW := Pick(r, []int{4, 10, 20, 35, 60})    // how eagerly subscribers acknowledge
	cutW := Pick(r, []int{4, 8, 14})     // how often connections end
	offPub := Pick(r, []int{30, 55, 80}) // weight of publishing while some session is offline

	connect := func(c *c20Cli, clean bool) {
		items := []*Sx{A("connect"), I(c.labels[c.cur]), I(c.ver), K("cid", S(c.cid)), K("clean", Bool(clean)), K("keepalive", I(0))}
		if r.Chance(1, 8) {
			items = append(items, K("user", S(Pick(r, []string{"u", "user1"}))))
			if r.Bool() {
				items = append(items, K("pass", S(Pick(r, []string{"", "secret"}))))
			}
		}
		props := []*Sx{}
		if c.ver == 5 {
			if r.Chance(3, 4) {
				props = append(props, K("sei", U(uint64(Pick(r, []int{0, 1, 30, 100000, 100000, 4294967295})))))
			}
			if r.Chance(1, 3) {
				props = append(props, K("recvmax", I(Pick(r, []int{1, 2, 5}))))
			}
			if r.Chance(1, 4) {
				props = append(props, K("aliasmax", I(Pick(r, []int{1, 2, 10}))))
			}
			if r.Chance(1, 5) {
				props = append(props, K("maxpkt", I(Pick(r, []int{40, 60, 100000}))))
			}
			if r.Chance(1, 10) {
				props = append(props, K("user", S("k"), S("v")))
			}
		}
		items = append(items, K("props", props...))
		add(L(items...))
		c.online, c.rx, c.acked, c.rec, c.sentQ2 = true, 0, 0, nil, nil
	}
	subscribe := func(c *c20Cli) {
		items := []*Sx{A("subscribe"), I(c.nextPid)}
		c.nextPid++
		props := []*Sx{}
		if c.ver == 5 && r.Chance(1, 3) {
			props = append(props, K("subid", I(r.Range(1, 3))))
		}
		items = append(items, K("props", props...))
		for k := 0; k < r.Range(1, 2); k++ {
			nl, rap, rh := false, false, 0
			if c.ver == 5 {
				nl, rap, rh = r.Chance(1, 4), r.Chance(1, 3), r.Intn(3)
			}
			items = append(items, L(A("t"), S(Pick(r, c20Filters)), I(r.Intn(3)), Bool(nl), Bool(rap), I(rh)))
		}
		add(L(A("send"), I(c.labels[c.cur]), L(items...)))
	}
	payload := func() string {
		nmsg++
		p := "m" + I(nmsg).Atom
		if r.Chance(1, 6) {
			p += strings.Repeat("x", 45-len(p))
		}
		return p
	}
	publish := func(c *c20Cli) {
		qos := Pick(r, []int{0, 1, 1, 2, 2})
		pid := 0
		if qos > 0 {
			pid = c.nextPid
			c.nextPid++
		}
		props := []*Sx{}
		if c.ver == 5 {
			props = c20PubProps(r)
		}
		add(L(A("send"), I(c.labels[c.cur]), L(A("publish"), Bool(false), I(qos), Bool(false), S(Pick(r, c20Topics)), S(payload()), I(pid), K("props", props...))))
		if qos == 2 {
			if r.Chance(relW, 6) {
				add(L(A("send"), I(c.labels[c.cur]), L(A("pubrel"), I(pid), I(0), K("props"))))
			} else {
				c.sentQ2 = append(c.sentQ2, pid)
			}
		}
		for _, o := range clis {
			if o.online {
				o.rx++
			}
		}
	}
	apiPublish := func() {
		ctype, exp := "", 0
		ups := []*Sx{}
		if r.Chance(1, 4) {
			ctype = "t"
		}
		if r.Chance(1, 4) {
			ups = append(ups, L(S("k"), S("v")))
		}
		if r.Chance(1, 4) {
			exp = Pick(r, []int{1, 60})
		}
		add(L(A("api_publish"), L(A("m"), Bool(false), I(r.Intn(3)), Bool(false), S(Pick(r, c20Topics)), S(payload()), I(0),
			S(ctype), B(nil), U(uint64(exp)), I(0), S(""), L(), L(ups...))))
		for _, o := range clis {
			if o.online {
				o.rx++
			}
		}
	}
	ack := func(c *c20Cli) bool {
		label := c.labels[c.cur]
		code := 0
		props := []*Sx{}
		if c.ver == 5 && r.Chance(1, 6) {
			code = Pick(r, []int{16, 128, 131, 145, 151})
		}
		if c.ver == 5 && r.Chance(1, 10) {
			props = append(props, K("reason", S("why")))
		}
		if len(c.rec) > 0 && r.Bool() {
			k := c.rec[0]
			c.rec = c.rec[1:]
			if code != 0 {
				code = 146
			}
			add(L(A("send"), I(label), L(A("pubcomp"), wireRx(k), I(code), K("props", props...))))
			return true
		}
		if c.acked >= c.rx {
			return false
		}
		k := c.acked
		if r.Chance(1, 5) && c.acked+1 < c.rx {
			k = c.acked + 1 // out of order; the skipped one is never acknowledged
			c.acked++
		}
		c.acked++
		switch r.Intn(4) {
		case 0, 1:
			add(L(A("send"), I(label), L(A("puback"), wireRx(k), I(code), K("props", props...))))
		case 2:
			add(L(A("send"), I(label), L(A("pubrec"), wireRx(k), I(code), K("props", props...))))
			if !(c.ver == 5 && code >= 128) {
				c.rec = append(c.rec, k)
			}
		default:
			add(L(A("send"), I(label), L(A("pubcomp"), wireRx(k), I(code), K("props", props...))))
		}
		return true
	}
	cut := func(c *c20Cli) {
		label := c.labels[c.cur]
		if r.Chance(1, 3) {
			code := 0
			props := []*Sx{}
			if c.ver == 5 {
				code = Pick(r, []int{0, 0, 4})
				if r.Chance(1, 3) {
					props = append(props, K("sei", I(Pick(r, []int{0, 1, 100}))))
				}
			}
			add(L(A("send"), I(label), L(A("disconnect"), I(code), K("props", props...))))
		}
		add(L(A("close"), I(label)))
		c.online = false
	}
	reconnect := func(c *c20Cli, takeover bool) {
		old := c.labels[c.cur]
		if takeover {
			c.cur = 1 - c.cur
		}
		if r.Chance(1, 6) {
			c.ver = Pick(r, []int{3, 4, 5, 5})
		}
		clean := r.Chance(1, 4)
		connect(c, clean)
		if !clean && nmsg > 0 {
			c.rx = r.Range(0, 4) // retransmissions and queued messages presumably arrive (a wrong guess gives a (skipped) ack)
		}
		if takeover {
			add(L(A("close"), I(old))) // the broker has closed it already; keeps the label bookkeeping explicit
		}
	}
	nadv := 0
	advance := func() {
		if nadv < 6 {
			nadv++
			add(L(A("advance"), I(Pick(r, []int{300, 1300, 2300, 40300, 61300, 3000300}))))
		}
		if r.Bool() {
			add(L(A("expire_check")))
		}
	}

	// opening: everybody connects, most subscribe
	for _, c := range clis {
		connect(c, r.Bool())
		if r.Chance(4, 5) {
			subscribe(c)
		}
	}
	n := r.Range(5, 28)
	for k := 0; k < n && nmsg < 40; k++ {
		c := Pick(r, clis)
		x := r.Intn(100)
		if !c.online {
			switch {
			case x < 30 || (nadv > 0 && x < 45):
				reconnect(c, false)
			case x < 30+offPub/2:
				var on []*c20Cli
				for _, o := range clis {
					if o.online {
						on = append(on, o)
					}
				}
				if len(on) > 0 && r.Chance(3, 4) {
					publish(Pick(r, on))
				} else {
					apiPublish()
				}
			case x < 88:
				advance()
			case x < 93:
				add(L(A("terminate"), S(c.cid)))
			default:
				apiPublish()
			}
			continue
		}
		switch {
		case x < ackW:
			if !ack(c) {
				publish(c)
			}
		case x < ackW+cutW:
			if r.Chance(1, 4) {
				reconnect(c, true)
			} else {
				cut(c)
				if r.Chance(1, 3) {
					reconnect(c, false)
				}
			}
		case x < ackW+cutW+10:
			subscribe(c)
		case x < ackW+cutW+13:
			add(L(A("send"), I(c.labels[c.cur]), L(A("unsubscribe"), I(c.nextPid), K("props"), S(Pick(r, c20Filters)))))
			c.nextPid++
		case x < ackW+cutW+17:
			if len(c.sentQ2) > 0 {
				add(L(A("send"), I(c.labels[c.cur]), L(A("pubrel"), I(c.sentQ2[0]), I(0), K("props"))))
				c.sentQ2 = c.sentQ2[1:]
			} else {
				advance()
			}
		case x < ackW+cutW+20:
			add(L(A("send"), I(c.labels[c.cur]), L(A("pingreq"))))
		case x < ackW+cutW+22:
			add(L(A("terminate"), S(c.cid)))
			c.online = false
			add(L(A("close"), I(c.labels[c.cur])))
		case x < ackW+cutW+23:
			if c.ver == 5 {
				add(L(A("send"), I(c.labels[c.cur]), L(A("auth"), I(Pick(r, []int{0, 24, 25})), K("props", K("authmethod", S("m"))))))
				add(L(A("close"), I(c.labels[c.cur])))
				c.online = false
			}
		case x < ackW+cutW+27:
			apiPublish()
		default:
			publish(c)
		}
	}
	// closing: resume some sessions and acknowledge a little, so that queues drain
	for _, c := range clis {
		if r.Chance(1, 2) {
			if c.online {
				cut(c)
			}
			for k := 0; k < r.Range(0, 3); k++ {
				apiPublish() // queued for the offline session: read in one batch at the resume
			}
			reconnect(c, false)
			for k := 0; k < r.Range(0, 6); k++ {
				ack(c)
			}
		}
	}
	return L(cfg, K("opts", K("sizes", I(1))), K("hooks", K("record", I(1))), K("steps", steps...))
}

func init() { register(&Suite{Name: "w_c20", Gen: c20Gen, Run: wireRun, Par: 1}) }
