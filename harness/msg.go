package main

import (
	"github.com/DrmagicE/gmqtt"
	"github.com/DrmagicE/gmqtt/pkg/packets"
)

// (m dup qos retained topic payload pid ctype corr expiry pfmt resp (subids..) (uprops (k v)..))
func sxMsg(m *gmqtt.Message) *Sx {
	if m == nil {
		return A("nil")
	}
	ids := []*Sx{}
	for _, v := range m.SubscriptionIdentifier {
		ids = append(ids, U(uint64(v)))
	}
	ups := []*Sx{}
	for _, u := range m.UserProperties {
		ups = append(ups, L(B(u.K), B(u.V)))
	}
	return L(A("m"), Bool(m.Dup), I(int(m.QoS)), Bool(m.Retained), S(m.Topic), B(m.Payload), I(int(m.PacketID)),
		S(m.ContentType), B(m.CorrelationData), U(uint64(m.MessageExpiry)), I(int(m.PayloadFormat)), S(m.ResponseTopic), L(ids...), L(ups...))
}

func msgOfSx(x *Sx) *gmqtt.Message {
	m := &gmqtt.Message{Dup: x.List[1].Bool(), QoS: byte(x.List[2].Int()), Retained: x.List[3].Bool(), Topic: x.List[4].Str(),
		Payload: x.List[5].Bytes(), PacketID: packets.PacketID(x.List[6].Int()), ContentType: x.List[7].Str(), CorrelationData: x.List[8].Bytes(),
		MessageExpiry: uint32(x.List[9].Uint()), PayloadFormat: byte(x.List[10].Int()), ResponseTopic: x.List[11].Str()}
	if len(m.CorrelationData) == 0 {
		m.CorrelationData = nil
	}
	for _, v := range x.List[12].List {
		m.SubscriptionIdentifier = append(m.SubscriptionIdentifier, uint32(v.Uint()))
	}
	for _, u := range x.List[13].List {
		m.UserProperties = append(m.UserProperties, packets.UserProperty{K: u.List[0].Bytes(), V: u.List[1].Bytes()})
	}
	return m
}

func genMsg(r *Rng, topic string) *gmqtt.Message {
	m := &gmqtt.Message{QoS: byte(r.Intn(3)), Retained: r.Bool(), Topic: topic, Payload: r.Bytes(r.Range(0, 6))}
	if r.Chance(1, 3) {
		m.ContentType = Pick(r, []string{"", "t", "text/plain"})
		if r.Bool() {
			m.CorrelationData = r.Bytes(r.Range(1, 4))
		}
		m.MessageExpiry = uint32(Pick(r, []int{0, 1, 60, 100000}))
		m.PayloadFormat = byte(r.Intn(2))
		m.ResponseTopic = Pick(r, []string{"", "r", "resp/x"})
		for k := 0; k < r.Intn(3); k++ {
			m.UserProperties = append(m.UserProperties, packets.UserProperty{K: r.Bytes(r.Range(0, 3)), V: r.Bytes(r.Range(0, 3))})
		}
	}
	return m
}
