package main

// Suite penc (C09): the byte encodings the redis persistence backend stores.
//
//	input : ((kind elem) (v (pe xAT8 xEXP8|none (pub MSG)|(rel PID))) (raws xBYTES...))
//	        ((kind sub)  (v SUB) (raws xBYTES...))
//	output: ((enc xBYTES) (dec RES) (raws RES...))     RES = (ok VALUE) | (err) | (panic)
//
// `enc` is queue.Elem.Encode / EncodeSubscription of the value, `dec` what the package's own decoder
// makes of those bytes, `raws` what it makes of the given byte strings (mutations of encodings and
// raw bytes).  Times travel as the 8 bytes of uint64(t.Unix()) so that every uint64 can be expressed.

import (
	"encoding/binary"
	"time"

	"github.com/DrmagicE/gmqtt"
	"github.com/DrmagicE/gmqtt/persistence/queue"
	rsubscription "github.com/DrmagicE/gmqtt/persistence/subscription/redis"
	"github.com/DrmagicE/gmqtt/pkg/packets"
)

func be8(v uint64) []byte {
	b := make([]byte, 8)
	binary.BigEndian.PutUint64(b, v)
	return b
}

func pencTimeSx(t time.Time, zeroIsNone bool) *Sx {
	if zeroIsNone && t.IsZero() {
		return A("none")
	}
	return B(be8(uint64(t.Unix())))
}

func pencTimeOf(x *Sx) time.Time {
	if !x.IsL && x.Atom == "none" {
		return time.Time{}
	}
	return time.Unix(int64(binary.BigEndian.Uint64(x.Bytes())), 0)
}

func pencElemSx(e *queue.Elem) *Sx {
	var body *Sx
	switch m := e.MessageWithID.(type) {
	case *queue.Publish:
		body = L(A("pub"), sxMsg(m.Message))
	case *queue.Pubrel:
		body = L(A("rel"), I(int(m.PacketID)))
	default:
		body = L(A("nil"))
	}
	return L(A("pe"), pencTimeSx(e.At, false), pencTimeSx(e.Expiry, true), body)
}

func pencElemOf(x *Sx) *queue.Elem {
	e := &queue.Elem{At: pencTimeOf(x.List[1]), Expiry: pencTimeOf(x.List[2])}
	b := x.List[3]
	switch b.List[0].Atom {
	case "pub":
		e.MessageWithID = &queue.Publish{Message: msgOfSx(b.List[1])}
	case "rel":
		e.MessageWithID = &queue.Pubrel{PacketID: packets.PacketID(b.List[1].Int())}
	}
	return e
}

func pencDecElem(b []byte) (out *Sx) {
	defer func() {
		if r := recover(); r != nil {
			out = L(A("panic"))
		}
	}()
	e := &queue.Elem{}
	if err := e.Decode(b); err != nil {
		return L(A("err"))
	}
	return L(A("ok"), pencElemSx(e))
}

func pencDecSub(b []byte) (out *Sx) {
	defer func() {
		if r := recover(); r != nil {
			out = L(A("panic"))
		}
	}()
	s, err := rsubscription.DecodeSubscription(b)
	if err != nil {
		return L(A("err"))
	}
	return L(A("ok"), sxSub(s))
}

func pencRun(in *Sx) *Sx {
	kind := in.Field1("kind").Atom
	var enc []byte
	var dec func([]byte) *Sx
	switch kind {
	case "elem":
		enc = pencElemOf(in.Field1("v")).Encode()
		dec = pencDecElem
	case "sub":
		enc = rsubscription.EncodeSubscription(subOfSx(in.Field1("v")))
		dec = pencDecSub
	default:
		panic("penc kind " + kind)
	}
	var raws []*Sx
	for _, r := range in.Field("raws") {
		raws = append(raws, dec(r.Bytes()))
	}
	return L(K("enc", B(enc)), K("dec", dec(enc)), K("raws", raws...))
}

func pencStr(r *Rng) string {
	switch r.Intn(12) {
	case 0:
		return ""
	case 1:
		return string(make([]byte, Pick(r, []int{255, 256, 65534, 65535})))
	default:
		return string(r.Bytes(r.Range(1, 6)))
	}
}

func pencMsg(r *Rng) *gmqtt.Message {
	m := &gmqtt.Message{Dup: r.Chance(1, 4), QoS: byte(Pick(r, []int{0, 1, 1, 2, 2, 3, 255})), Retained: r.Bool(),
		Topic: pencStr(r), Payload: r.Bytes(r.Range(0, 8)), PacketID: uint16(Pick(r, []int{0, 1, 2, 255, 256, 65535}))}
	if r.Chance(1, 12) {
		// around the 2-byte length limit: the payload is the only field that can be longer than 65535 bytes
		m.Payload = make([]byte, Pick(r, []int{65534, 65535, 65536, 65537, 70000, 131071, 131072, 200000}))
		for i := range m.Payload {
			m.Payload[i] = byte(i*7 + 3)
		}
	}
	if r.Chance(2, 3) {
		m.ContentType = pencStr(r)
		if r.Bool() {
			m.CorrelationData = []byte(pencStr(r))
			if len(m.CorrelationData) == 0 {
				m.CorrelationData = nil
			}
		}
		m.MessageExpiry = uint32(Pick(r, []int{0, 0, 1, 60, 65536, 4294967295}))
		m.PayloadFormat = byte(Pick(r, []int{0, 1, 1, 2, 255}))
		m.ResponseTopic = pencStr(r)
		for k := r.Intn(4); k > 0; k-- {
			m.SubscriptionIdentifier = append(m.SubscriptionIdentifier, uint32(Pick(r, []int{0, 1, 127, 128, 16383, 16384, 2097151, 2097152, 268435455})))
		}
		for k := r.Intn(4); k > 0; k-- {
			m.UserProperties = append(m.UserProperties, packets.UserProperty{K: []byte(pencStr(r)), V: []byte(pencStr(r))})
		}
	}
	return m
}

// mutations of an encoding + raw byte strings
func pencRaws(r *Rng, enc []byte) []*Sx {
	var raws []*Sx
	add := func(b []byte) { raws = append(raws, B(b)) }
	if len(enc) > 300 {
		// long encodings: only cheap mutations near the ends
		add(enc[:len(enc)-1-r.Intn(3)])
		c := append([]byte{}, enc...)
		c[r.Intn(40)] ^= byte(1 << r.Intn(8))
		add(c)
		return raws
	}
	for k := r.Range(2, 6); k > 0; k-- {
		c := append([]byte{}, enc...)
		switch r.Intn(7) {
		case 0, 1: // truncate
			if len(c) > 0 {
				c = c[:r.Intn(len(c))]
			}
		case 2: // flip a bit
			if len(c) > 0 {
				c[r.Intn(len(c))] ^= byte(1 << r.Intn(8))
			}
		case 3: // set a byte
			if len(c) > 0 {
				c[r.Intn(len(c))] = byte(Pick(r, []int{0, 1, 2, 3, 8, 9, 11, 38, 255}))
			}
		case 4: // append
			c = append(c, r.Bytes(r.Range(1, 4))...)
		case 5: // insert / delete
			if len(c) > 0 {
				i := r.Intn(len(c))
				if r.Bool() {
					c = append(c[:i], c[i+1:]...)
				} else {
					c = append(c[:i], append([]byte{byte(r.Next())}, c[i:]...)...)
				}
			}
		case 6: // raw
			c = r.Bytes(r.Range(0, 40))
		}
		add(c)
	}
	return raws
}

func pencGen(r *Rng, i int) *Sx {
	if r.Chance(1, 4) {
		s := &gmqtt.Subscription{ShareName: pencStr(r), TopicFilter: pencStr(r), ID: uint32(Pick(r, []int{0, 1, 128, 268435455, 4294967295})),
			QoS: byte(Pick(r, []int{0, 1, 2, 3, 255})), NoLocal: r.Bool(), RetainAsPublished: r.Bool(), RetainHandling: byte(Pick(r, []int{0, 1, 2, 3, 255}))}
		return L(K("kind", A("sub")), K("v", sxSub(s)), K("raws", pencRaws(r, rsubscription.EncodeSubscription(s))...))
	}
	e := &queue.Elem{At: time.Unix(int64(Pick(r, []int{0, 1, 1790000000, 4294967295, 4294967296, 1 << 40})), 0)}
	if r.Chance(1, 2) {
		e.Expiry = time.Unix(int64(Pick(r, []int{0, 1, 1790007200, 4294967296})), 0)
	}
	if r.Chance(1, 6) {
		e.MessageWithID = &queue.Pubrel{PacketID: uint16(Pick(r, []int{0, 1, 255, 256, 65535}))}
	} else {
		e.MessageWithID = &queue.Publish{Message: pencMsg(r)}
	}
	return L(K("kind", A("elem")), K("v", pencElemSx(e)), K("raws", pencRaws(r, e.Encode())...))
}

func init() { register(&Suite{Name: "penc", Gen: pencGen, Run: pencRun}) }
