package main

// Suite w_c03: scenario family for property C03 (outbound QoS1/2: at-least-once across
// reconnects, unique packet ids, bounded window). Oracle: /verif/ocaml/o_c03.ml.
//
// THE FAMILY
//   * one or two subscriber sessions (client ids "s1", "s2"; MQTT 3.1 / 3.1.1 / 5) whose session
//     persists (v3/v4: clean=0; v5: Session Expiry Interval >= 7200 s), each with one or two plain
//     subscriptions (possibly overlapping: both delivery modes matter) of QoS 0/1/2, all option
//     bits (RAP, RH, subscription identifier; NoLocal is set only where it cannot matter);
//   * one publisher connection (client id "p", any version) and the API publisher: messages with
//     pairwise distinct payloads m1, m2, ..., QoS 0/1/2, never retained, never expiring; a QoS 2
//     publish of "p" is released (PUBREL) in the very next step (or, rarely, never);
//   * the subscriber acknowledges with symbolic ids (rx K)/(rxrel K): promptly, late, out of
//     order, never, PUBREC without PUBCOMP, v5 error reason codes on PUBACK/PUBREC/PUBCOMP; the
//     kind of acknowledgement is the right one for the message (PUBACK for QoS 1, PUBREC then
//     PUBCOMP for QoS 2) according to a simulation of the broker the generator runs (when the
//     simulation is wrong the runner reports (skipped) or the oracle sees a wrong-kind ack and
//     declares the case outside its family);
//   * the connection is cut at any point: plain close, DISCONNECT immediately followed by close,
//     or a take-over by a new connection of the same client id on the session's other label; it
//     is resumed with clean=0 (rarely clean=1: the session must then start empty), possibly with
//     another protocol version, and for v5 with a fresh Receive Maximum (absent, 1, 2, 3, 5,
//     65535); max_inflight is 1, 2, 3, 5, 100 or 65535; one scenario in 50 is a burst of up to 260
//     messages with few acknowledgements (more than 100 in flight);
//   * time passes (advance 300 ms mod 1 s, at most 6, in total < 400 s; expire_check) but nothing
//     ever expires: session_expiry 7200, message_expiry 7200 or 0 (none), max_queued 1000 (the
//     queue is never full, hence inflight_expiry - 30 s, crossed by the 40 s and 61 s advances -
//     must not have any effect).
// DELIBERATELY EXCLUDED: retained messages, wills, shared subscriptions, topic aliases, message
// expiry, packet size limits, full queues (C10), session expiry (C05), hooks, terminate, duplicate
// or wrong-kind acknowledgements, malformed packets, keepalive (0 everywhere), traffic between a
// DISCONNECT and the close of its socket (the broker keeps such a socket attached).

type c03Entry struct {
	qos    int
	rel    bool // PUBREC processed
	rx     int  // index among the QoS>0 PUBLISH packets received on the current socket, -1: not (re)sent on it
	rxrel  int  // index among the PUBREL packets received on the current socket, -1: none
	locked bool // the broker's limiter has the id marked
	amb    bool // one of several copies with different QoS: their order on the wire is not predictable, never acknowledged
}

type c03Pend struct {
	qos int
	amb bool
}

type c03Sub struct {
	filter string
	qos    int
}

type c03Sess struct {
	cid      string
	ver      int
	labels   [2]int
	cur      int // index into labels of the current/last socket
	online   bool
	persist  bool // the session outlives the current connection
	everConn bool
	subs     []c03Sub
	limit    int
	used     int
	pending  []c03Pend // messages not yet sent
	inflight []*c03Entry
	nrx      int
	nrel     int
	nextPid  int
	rmPolicy int // 0: the same Receive Maximum on every v5 CONNECT, 1: never smaller than before, 2: any
	lastRM   int // 0: absent
}

var c03Filters = []string{"t/a", "t/+", "t/#", "#", "u", "+/a", "t/b"}
var c03Topics = []string{"t/a", "t/a", "t/b", "u", "t/a/x", "v"}

func c03Match(filter, topic string) bool {
	f := c03Split(filter)
	t := c03Split(topic)
	for i, x := range f {
		if x == "#" {
			return true
		}
		if i >= len(t) {
			return false
		}
		if x != "+" && x != t[i] {
			return false
		}
	}
	return len(f) == len(t)
}

func c03Split(s string) []string {
	var out []string
	cur := ""
	for i := 0; i < len(s); i++ {
		if s[i] == '/' {
			out = append(out, cur)
			cur = ""
		} else {
			cur += string(s[i])
		}
	}
	return append(out, cur)
}

func (s *c03Sess) flush() {
	for s.online && s.used < s.limit && len(s.pending) > 0 {
		q := s.pending[0]
		s.pending = s.pending[1:]
		s.inflight = append(s.inflight, &c03Entry{qos: q.qos, amb: q.amb, rx: s.nrx, rxrel: -1, locked: true})
		s.nrx++
		s.used++
	}
}

func (s *c03Sess) remove(e *c03Entry) {
	for i, x := range s.inflight {
		if x == e {
			s.inflight = append(s.inflight[:i:i], s.inflight[i+1:]...)
			break
		}
	}
	if e.locked {
		s.used--
	}
	s.flush()
}

func c03Gen(r *Rng, i int) *Sx {
	maxInflight := Pick(r, []int{1, 2, 3, 5, 100, 100, 65535})
	onlyonce := r.Bool()
	delivery := "overlap"
	if onlyonce {
		delivery = "onlyonce"
	}
	cfg := K("cfg",
		K("delivery", A(delivery)),
		K("max_inflight", I(maxInflight)), K("max_queued", I(1000)),
		K("queue_qos0", Bool(!r.Chance(1, 4))),
		K("session_expiry", I(7200)),
		K("message_expiry", I(Pick(r, []int{7200, 7200, 0}))),
		K("recv_max", I(100)), K("alias_max", I(10)),
		K("max_packet", I(268435456)), K("max_qos", I(2)),
		K("retain_avail", Bool(true)), K("wildcard", Bool(true)), K("subid", Bool(true)), K("shared", Bool(true)),
		K("max_keepalive", I(300)), K("allow_zero_len", Bool(true)), K("inflight_expiry", I(30)))

	var steps []*Sx
	add := func(x *Sx) { steps = append(steps, x) }
	// burst: more than 100 messages in flight (the broker polls ids and replays in batches of at most 100)
	burst := r.Chance(1, 20) && maxInflight >= 100

	sess := []*c03Sess{{cid: "s1", labels: [2]int{1, 2}}}
	if r.Chance(1, 3) {
		sess = append(sess, &c03Sess{cid: "s2", labels: [2]int{4, 5}})
	}
	for _, s := range sess {
		s.ver = Pick(r, []int{4, 5, 5, 5, 3})
		s.nextPid = 1
		s.rmPolicy = Pick(r, []int{0, 1, 2, 2})
		s.lastRM = -1
	}
	pubVer := Pick(r, []int{4, 5, 5, 3})
	pubPid := 0
	nmsg := 0

	connect := func(s *c03Sess, clean bool) {
		props := []*Sx{}
		s.limit = maxInflight
		if s.ver == 5 {
			props = append(props, K("sei", U(uint64(Pick(r, []int{7200, 100000, 4294967295})))))
			rm := 0
			if r.Chance(3, 4) {
				rm = Pick(r, []int{1, 1, 2, 2, 3, 5, 65535})
			}
			if s.lastRM >= 0 {
				switch s.rmPolicy {
				case 0:
					rm = s.lastRM
				case 1:
					if s.lastRM == 0 || (rm != 0 && rm < s.lastRM) {
						rm = s.lastRM
					}
				}
			}
			s.lastRM = rm
			if rm > 0 {
				props = append(props, K("recvmax", I(rm)))
				if rm < s.limit {
					s.limit = rm
				}
			}
		}
		add(L(A("connect"), I(s.labels[s.cur]), I(s.ver), K("cid", S(s.cid)), K("clean", Bool(clean)), K("keepalive", I(0)), K("props", props...)))
		if clean || !s.everConn || !s.persist {
			s.subs, s.pending, s.inflight = nil, nil, nil
		}
		s.everConn = true
		s.persist = s.ver == 5 || !clean // v3/v4 clean sessions end with their connection
		s.online, s.nrx, s.nrel, s.used, s.nextPid = true, 0, 0, 0, 1
		for _, e := range s.inflight {
			e.rx, e.rxrel, e.locked = -1, -1, true // the broker marks the ids of retransmitted PUBLISH and PUBREL entries as in use
			s.used++
			if e.rel {
				e.rxrel = s.nrel
				s.nrel++
			} else {
				e.rx = s.nrx
				s.nrx++
			}
		}
		s.flush()
	}
	subscribe := func(s *c03Sess) {
		items := []*Sx{A("subscribe"), I(s.nextPid)}
		s.nextPid++
		props := []*Sx{}
		if s.ver == 5 && r.Chance(1, 3) {
			props = append(props, K("subid", I(r.Range(1, 3))))
		}
		items = append(items, K("props", props...))
		for k := 0; k < Pick(r, []int{1, 1, 2}); k++ {
			f := Pick(r, c03Filters)
			q := Pick(r, []int{0, 1, 1, 2, 2, 2})
			if burst && len(s.subs) == 0 {
				f, q = "#", Pick(r, []int{1, 2})
			}
			nl, rap, rh := false, false, 0
			if s.ver == 5 {
				nl, rap, rh = r.Chance(1, 4), r.Chance(1, 3), r.Intn(3) // the subscribers never publish: NoLocal cannot matter
			}
			items = append(items, L(A("t"), S(f), I(q), Bool(nl), Bool(rap), I(rh)))
			found := false
			for j := range s.subs {
				if s.subs[j].filter == f {
					s.subs[j].qos = q
					found = true
				}
			}
			if !found {
				s.subs = append(s.subs, c03Sub{f, q})
			}
		}
		add(L(A("send"), I(s.labels[s.cur]), L(items...)))
	}
	deliver := func(topic string, qos int) {
		for _, s := range sess {
			if !s.everConn {
				continue
			}
			best := -1
			var copies []int
			for _, sb := range s.subs {
				if !c03Match(sb.filter, topic) {
					continue
				}
				q := min(qos, sb.qos)
				if onlyonce {
					best = max(best, q)
				} else if q > 0 {
					copies = append(copies, q)
				}
			}
			if onlyonce && best > 0 {
				copies = append(copies, best)
			}
			amb := false
			for _, q := range copies {
				amb = amb || q != copies[0]
			}
			for _, q := range copies {
				s.pending = append(s.pending, c03Pend{q, amb})
			}
			s.flush()
		}
	}
	publish := func() {
		nmsg++
		topic := Pick(r, c03Topics)
		qos := Pick(r, []int{0, 1, 1, 2, 2})
		payload := "m" + c03Itoa(nmsg)
		if r.Chance(1, 6) || (burst && r.Bool()) {
			m := &gmqttMsgLite{qos: qos, topic: topic, payload: payload}
			add(L(A("api_publish"), m.sx(r)))
		} else {
			pid := 0
			if qos > 0 {
				pubPid++
				pid = pubPid
			}
			props := []*Sx{}
			if pubVer == 5 {
				props = c03PubProps(r)
			}
			add(L(A("send"), I(3), L(A("publish"), Bool(false), I(qos), Bool(false), S(topic), S(payload), I(pid), K("props", props...))))
			if qos == 2 && !r.Chance(1, 12) {
				add(L(A("send"), I(3), L(A("pubrel"), I(pid), I(0), K("props"))))
			}
		}
		deliver(topic, qos)
	}
	ack := func(s *c03Sess) bool {
		var cand []*c03Entry
		for _, e := range s.inflight {
			if (e.rx >= 0 || e.rxrel >= 0) && !e.amb {
				cand = append(cand, e)
			}
		}
		if len(cand) == 0 {
			return false
		}
		var e *c03Entry
		switch r.Intn(4) {
		case 0, 1:
			e = cand[0]
		case 2:
			e = Pick(r, cand)
		default:
			e = cand[len(cand)-1]
		}
		label := s.labels[s.cur]
		code := 0
		props := []*Sx{}
		bad := s.ver == 5 && r.Chance(1, 6)
		if s.ver == 5 && r.Chance(1, 10) {
			props = append(props, K("reason", S("why")))
		}
		switch {
		case e.qos == 1:
			if bad {
				code = Pick(r, []int{16, 128, 131, 135, 145, 151})
			}
			add(L(A("send"), I(label), L(A("puback"), wireRx(e.rx), I(code), K("props", props...))))
			s.remove(e)
		case !e.rel:
			if bad {
				code = Pick(r, []int{16, 128, 131, 145, 153})
			}
			add(L(A("send"), I(label), L(A("pubrec"), wireRx(e.rx), I(code), K("props", props...))))
			if s.ver == 5 && code >= 128 {
				s.remove(e)
			} else {
				e.rel = true
				e.rxrel = s.nrel
				s.nrel++
			}
		default:
			if bad {
				code = 146
			}
			id := wireRxRel(e.rxrel)
			if e.rx >= 0 && r.Bool() {
				id = wireRx(e.rx)
			}
			add(L(A("send"), I(label), L(A("pubcomp"), id, I(code), K("props", props...))))
			s.remove(e)
		}
		return true
	}
	cut := func(s *c03Sess) {
		label := s.labels[s.cur]
		if r.Chance(1, 3) {
			code := 0
			add(L(A("send"), I(label), L(A("disconnect"), I(code), K("props"))))
		}
		add(L(A("close"), I(label)))
		s.online = false
		if !s.persist {
			s.subs, s.pending, s.inflight = nil, nil, nil
		}
	}
	reconnect := func(s *c03Sess, takeover bool) {
		old := s.labels[s.cur]
		if takeover {
			s.cur = 1 - s.cur
		}
		if r.Chance(1, 8) {
			s.ver = Pick(r, []int{3, 4, 5, 5})
		}
		clean := r.Chance(1, 14)
		connect(s, clean)
		if takeover {
			add(L(A("close"), I(old))) // the broker has closed it already; keeps the label bookkeeping explicit
		}
		if clean || len(s.subs) == 0 {
			subscribe(s)
		}
	}

	// opening: subscribers connect (v3/v4 need clean=0 for a persistent session) and subscribe, the publisher connects
	for _, s := range sess {
		connect(s, s.ver == 5 && r.Bool())
		subscribe(s)
		if r.Chance(1, 4) {
			subscribe(s)
		}
	}
	add(L(A("connect"), I(3), I(pubVer), K("cid", S("p")), K("clean", Bool(true)), K("keepalive", I(0)), K("props")))

	n := r.Range(8, 45)
	nadv := 0
	// per scenario temperament: how eagerly the subscribers acknowledge, how often the connection is cut
	ackW := Pick(r, []int{5, 15, 30, 45})
	cutW := Pick(r, []int{4, 8, 14})
	maxMsg := 40
	if burst {
		n, maxMsg, ackW, cutW = r.Range(200, 330), 260, 3, 1
	}
	for k := 0; k < n && nmsg < maxMsg; k++ {
		s := Pick(r, sess)
		x := r.Intn(100)
		if !s.online {
			switch {
			case x < 45:
				reconnect(s, false)
			case x < 85:
				publish()
			default:
				if nadv < 6 {
					nadv++
					add(L(A("advance"), I(Pick(r, []int{300, 1300, 2300, 40300, 61300}))))
					if r.Bool() {
						add(L(A("expire_check")))
					}
				}
			}
			continue
		}
		switch {
		case x < ackW:
			if !ack(s) {
				publish()
			}
		case x < ackW+cutW:
			if r.Chance(1, 4) {
				reconnect(s, true) // take-over: the old socket is still open
			} else {
				cut(s)
				if r.Chance(1, 2) {
					reconnect(s, false)
				}
			}
		case x < ackW+cutW+4:
			subscribe(s)
		case x < ackW+cutW+7:
			if nadv < 6 {
				nadv++
				add(L(A("advance"), I(Pick(r, []int{300, 1300, 2300, 40300, 61300}))))
				if r.Bool() {
					add(L(A("expire_check")))
				}
			}
		case x < ackW+cutW+8:
			add(L(A("send"), I(s.labels[s.cur]), L(A("pingreq"))))
		default:
			publish()
		}
	}
	// closing: make sure every session is resumed once more and gets a chance to drain
	for _, s := range sess {
		if r.Chance(2, 3) {
			if s.online {
				cut(s)
			}
			reconnect(s, false)
			for k := 0; k < r.Range(0, 4); k++ {
				ack(s)
			}
		}
	}
	return L(cfg, K("steps", steps...))
}

func c03Itoa(i int) string { return I(i).Atom }

func c03PubProps(r *Rng) []*Sx {
	var ps []*Sx
	if r.Chance(1, 6) {
		ps = append(ps, K("pfmt", I(r.Intn(2))))
	}
	if r.Chance(1, 6) {
		ps = append(ps, K("ctype", S(Pick(r, []string{"t", "text/plain"}))))
	}
	if r.Chance(1, 6) {
		ps = append(ps, K("resp", S(Pick(r, []string{"r", "a/b"}))))
	}
	if r.Chance(1, 6) {
		ps = append(ps, K("corr", S(Pick(r, []string{"c", "corr"}))))
	}
	for r.Chance(1, 6) {
		ps = append(ps, K("user", S(Pick(r, []string{"k", "key"})), S(Pick(r, []string{"v", "", "w"}))))
	}
	return ps
}

// gmqttMsgLite: an API message in the (m ...) form of msg.go without importing the broker types here
type gmqttMsgLite struct {
	qos            int
	topic, payload string
}

func (m *gmqttMsgLite) sx(r *Rng) *Sx {
	ctype := ""
	ups := []*Sx{}
	if r.Chance(1, 4) {
		ctype = "t"
	}
	if r.Chance(1, 4) {
		ups = append(ups, L(S("k"), S("v")))
	}
	return L(A("m"), Bool(false), I(m.qos), Bool(false), S(m.topic), S(m.payload), I(0),
		S(ctype), B(nil), U(0), I(0), S(""), L(), L(ups...))
}

func init() { register(&Suite{Name: "w_c03", Gen: c03Gen, Run: wireRun, Par: 1}) }
