package main

// Suite w_c04 - scenario family for property C04 (inbound QoS 2 is exactly-once; every QoS>0
// packet gets its matching ack). The oracle is ocaml/o_c04.ml.
//
// THE FAMILY
//   * 1-2 "subscriber" clients s1,s2 (labels 1,2; MQTT 3.1 / 3.1.1 / 5). They connect first, subscribe
//     (1-2 SUBSCRIBE packets, 1-2 non-shared filters each, every option bit for v5) and then stay
//     connected for the whole scenario: they never close, disconnect, reconnect or get taken over.
//     Now and then they subscribe to a further filter or unsubscribe. They may publish themselves
//     (so an ack and a forwarded PUBLISH can meet on one socket; No Local is honoured by the oracle).
//   * 1-2 "publisher" clients p1,p2 (labels 3,4; alternate labels 5,6 for take-overs). They never
//     subscribe. They send
//       - new QoS 0/1/2 PUBLISHes (QoS 2 dominating) with packet ids from {1,2,3,7,255,256,65535}:
//         fresh ids, ids of completed QoS 2 flows (reuse), DUP set on a first transmission now and then,
//       - retransmissions of a QoS 2 PUBLISH whose PUBREL has not been sent (same id, same content, DUP
//         mostly set, 1-3 times, other ids interleaved), and rarely a PUBLISH with an outstanding id but
//         ANOTHER payload/topic (MQTT-4.3.3: still a retransmission - it must not be forwarded),
//       - PUBREL for an outstanding id (any order), a repeated PUBREL, PUBREL for an id never used,
//       - close / DISCONNECT(+Session Expiry for v5)+close / take-over from a second connection, then
//         optionally a clock advance (+ expiry check), then CONNECT again with Clean Start 0 or 1 (and
//         occasionally another protocol version), followed by retransmissions of what was outstanding
//         before (delivered again iff the broker did not resume the session: CONNACK Session Present).
//   * every application message has a unique payload, so that every forwarded PUBLISH is attributable.
//   * two window modes: A (3/4) max_inflight 100, nothing ever waits in a queue: the oracle demands the
//     copies in the very step of the PUBLISH; subscribers acknowledge at random or not at all.
//     B (1/4) max_inflight 1..3, every subscriber has ONE granted QoS for all its filters (so the
//     QoS of the K-th forwarded message is known), acknowledgements are scripted lazily but completely
//     ((rx K)/(rxrel K)), no clock advance, no RETAIN (a retained replay for a later SUBSCRIBE would wait in
//     the queue and be indistinguishable from a second forward): the oracle demands the exact totals at the end and never
//     more than expected on the way.
//   * v5 publishers stay within the broker's Receive Maximum (100, 2 or 3) when counting DISTINCT packet
//     ids that are not yet PUBACKed/PUBCOMPed (a retransmission is not a further message).
//
// DELIBERATELY EXCLUDED: shared subscriptions, hooks, wills, topic aliases, $-topics, QoS 1/0 PUBLISHes
// with an id of an outstanding QoS 2 flow, subscribers that go offline, max_qos < 2, small
// Maximum Packet Size, client Receive Maximum on subscribers, api_publish/terminate, keep-alive,
// malformed packets. keepalive 0 everywhere; advances are 300 ms mod 1 s and at most 6 per scenario.

import (
	"strconv"
	"strings"
)

type c4Msg struct {
	pid     int
	qos     int
	retain  bool
	topic   string
	payload string
	props   []*Sx
}

type c4Sub struct {
	qos int
	nl  bool
}

type c4Sess struct {
	exists bool
	online bool
	expiry int // seconds, as fixed by the last CONNECT / DISCONNECT
	offAt  int // ms
	out    []*c4Msg
	lost   []*c4Msg // outstanding when the session was discarded
	done   []int
}

type c4Sock struct {
	label, alt int
	ver        int
	cid        string
	isSub      bool
	open       bool
	subs       map[string]c4Sub
	order      []string // filters in subscription order (deterministic iteration)
	uq         int      // the one QoS of all subscriptions (-1: free)
	rx, rel    int
	pend       [][]*Sx // mode B: scripted acknowledgements not yet emitted, one group per forwarded copy
	guess      []int   // mode A: presumed QoS of forwarded QoS>0 copies not yet acknowledged
	subPid     int
}

var c4Topics = []string{"a", "a", "b", "a/b", "a/a", "b/a", "c"}
var c4Filters = []string{"a", "b", "a/b", "+", "a/+", "#", "a/#", "+/b", "+/+", "b/#"}
var c4Pids = []int{1, 2, 3, 7, 255, 256, 65535}

func c4Match(filter, topic string) bool {
	f := strings.Split(filter, "/")
	t := strings.Split(topic, "/")
	for i, x := range f {
		if x == "#" {
			return true
		}
		if i >= len(t) {
			return false
		}
		if x != "+" && x != t[i] {
			return false
		}
	}
	return len(f) == len(t)
}

func c4Gen(r *Rng, i int) *Sx {
	modeB := r.Chance(1, 4)
	overlap := r.Bool()
	maxInflight := 100
	if modeB {
		maxInflight = Pick(r, []int{1, 2, 3})
	}
	sessExp := Pick(r, []int{7200, 7200, 60, 2})
	recvMax := Pick(r, []int{100, 100, 100, 2, 3})
	delivery := "onlyonce"
	if overlap {
		delivery = "overlap"
	}
	cfg := K("cfg",
		K("delivery", A(delivery)),
		K("max_inflight", I(maxInflight)), K("max_queued", I(1000)),
		K("queue_qos0", Bool(!r.Chance(1, 4))),
		K("session_expiry", I(sessExp)),
		K("message_expiry", I(Pick(r, []int{7200, 7200, 60, 0}))),
		K("recv_max", I(recvMax)),
		K("alias_max", I(10)),
		K("max_packet", I(268435456)), K("max_qos", I(2)),
		K("retain_avail", Bool(true)), K("wildcard", Bool(true)), K("subid", Bool(true)), K("shared", Bool(true)),
		K("max_keepalive", I(300)), K("allow_zero_len", Bool(true)), K("inflight_expiry", I(30)))

	steps := []*Sx{}
	add := func(x *Sx) { steps = append(steps, x) }
	now, nadv, ctr := 0, 0, 0
	sess := map[string]*c4Sess{}
	var socks, subs []*c4Sock

	nsub := r.Range(1, 2)
	for k := 1; k <= nsub; k++ {
		s := &c4Sock{label: k, ver: Pick(r, []int{3, 4, 5, 5}), cid: "s" + strconv.Itoa(k), isSub: true, subs: map[string]c4Sub{}, uq: -1, subPid: 5000}
		if modeB || r.Chance(1, 2) {
			s.uq = r.Intn(3)
		}
		socks = append(socks, s)
		subs = append(subs, s)
	}
	npub := r.Range(1, 2)
	for k := 1; k <= npub; k++ {
		socks = append(socks, &c4Sock{label: 2 + k, alt: 4 + k, ver: Pick(r, []int{3, 4, 5, 5}), cid: "p" + strconv.Itoa(k), subPid: 5000})
	}
	for _, s := range socks {
		sess[s.cid] = &c4Sess{}
	}

	connect := func(s *c4Sock, label int, clean bool) {
		ss := sess[s.cid]
		resumed := ss.exists && !clean && (ss.online || now-ss.offAt < ss.expiry*1000)
		if !resumed {
			ss.lost = append(ss.lost, ss.out...)
			ss.out = nil
		}
		props := []*Sx{}
		exp := 0
		if s.ver == 5 {
			if r.Chance(3, 4) {
				sei := uint64(Pick(r, []int{0, 1, 30, 100000, 100000, 4294967295}))
				props = append(props, K("sei", U(sei)))
				exp = sessExp
				if sei < uint64(sessExp) {
					exp = int(sei)
				}
			}
		} else if !clean {
			exp = sessExp
		}
		ss.exists, ss.online, ss.expiry = true, true, exp
		s.open, s.rx, s.rel = true, 0, 0
		add(L(A("connect"), I(label), I(s.ver), K("cid", S(s.cid)), K("clean", Bool(clean)), K("keepalive", I(0)), K("props", props...)))
	}

	subscribe := func(s *c4Sock) {
		items := []*Sx{A("subscribe"), I(s.subPid)}
		s.subPid++
		props := []*Sx{}
		if s.ver == 5 && r.Chance(1, 4) {
			props = append(props, K("subid", I(r.Range(1, 3))))
		}
		items = append(items, K("props", props...))
		for k := 0; k < r.Range(1, 2); k++ {
			f := Pick(r, c4Filters)
			q := s.uq
			if q < 0 {
				q = r.Intn(3)
			}
			nl, rap, rh := false, false, 0
			if s.ver == 5 {
				nl, rap, rh = r.Chance(1, 4), r.Chance(1, 3), r.Intn(3)
			}
			if _, ok := s.subs[f]; !ok {
				s.order = append(s.order, f)
			}
			s.subs[f] = c4Sub{qos: q, nl: nl}
			items = append(items, L(A("t"), S(f), I(q), Bool(nl), Bool(rap), I(rh)))
		}
		add(L(A("send"), I(s.label), L(items...)))
	}

	unsubscribe := func(s *c4Sock) {
		if len(s.order) == 0 {
			return
		}
		k := r.Intn(len(s.order))
		f := s.order[k]
		s.order = append(s.order[:k:k], s.order[k+1:]...)
		delete(s.subs, f)
		add(L(A("send"), I(s.label), L(A("unsubscribe"), I(s.subPid), K("props"), S(f))))
		s.subPid++
	}

	// the acknowledgements of subscriber s that were scripted for copies it should have by now
	flush := func(s *c4Sock, n int) {
		for n > 0 && len(s.pend) > 0 {
			for _, x := range s.pend[0] {
				add(x)
			}
			s.pend = s.pend[1:]
			n--
		}
	}

	// what the property lets us expect for a message that is forwarded
	forwarded := func(from *c4Sock, m *c4Msg) {
		for _, s := range subs {
			n, best := 0, 0
			for _, f := range s.order {
				sb := s.subs[f]
				if c4Match(f, m.topic) && !(sb.nl && s.cid == from.cid) {
					n++
					if sb.qos > best {
						best = sb.qos
					}
				}
			}
			if !overlap && n > 1 {
				n = 1
			}
			for k := 0; k < n; k++ {
				dq := min(m.qos, best)
				if s.uq >= 0 {
					dq = min(m.qos, s.uq)
				}
				if modeB {
					switch dq {
					case 1:
						s.pend = append(s.pend, []*Sx{L(A("send"), I(s.label), L(A("puback"), wireRx(s.rx), I(0), K("props")))})
						s.rx++
					case 2:
						s.pend = append(s.pend, []*Sx{L(A("send"), I(s.label), L(A("pubrec"), wireRx(s.rx), I(0), K("props"))),
							L(A("send"), I(s.label), L(A("pubcomp"), wireRxRel(s.rel), I(0), K("props")))})
						s.rx++
						s.rel++
					}
				} else if dq > 0 {
					s.guess = append(s.guess, dq)
				}
			}
			if modeB && r.Chance(1, 2) {
				flush(s, r.Range(1, 3))
			}
		}
	}

	pubSx := func(s *c4Sock, m *c4Msg, dup bool) *Sx {
		props := []*Sx{}
		if s.ver == 5 {
			props = m.props
		}
		return L(A("send"), I(s.label), L(A("publish"), Bool(dup), I(m.qos), Bool(m.retain), S(m.topic), S(m.payload), I(m.pid), K("props", props...)))
	}

	outstanding := func(ss *c4Sess, pid int) bool {
		for _, m := range ss.out {
			if m.pid == pid {
				return true
			}
		}
		return false
	}

	newPayload := func(prefix string) string {
		ctr++
		p := prefix + strconv.Itoa(ctr)
		if r.Chance(1, 8) {
			p += strings.Repeat("z", r.Range(1, 40))
		}
		return p
	}

	publish := func(s *c4Sock) {
		ss := sess[s.cid]
		qos := Pick(r, []int{2, 2, 2, 2, 1, 1, 0})
		if qos > 0 && s.ver == 5 && len(ss.out) >= recvMax {
			qos = 0 // one more unacknowledged id would exceed the broker's Receive Maximum
		}
		pid := 0
		if qos > 0 {
			var free, reuse []int
			for _, p := range c4Pids {
				if !outstanding(ss, p) {
					free = append(free, p)
				}
			}
			for _, p := range ss.done {
				if !outstanding(ss, p) {
					reuse = append(reuse, p)
				}
			}
			if len(free) == 0 {
				qos = 0
			} else if len(reuse) > 0 && r.Chance(1, 2) {
				pid = Pick(r, reuse)
			} else {
				pid = Pick(r, free)
			}
		}
		m := &c4Msg{pid: pid, qos: qos, retain: !modeB && r.Chance(1, 8), topic: Pick(r, c4Topics), payload: newPayload("m")}
		if r.Chance(1, 2) {
			m.props = wvPubProps(r)
		}
		add(pubSx(s, m, qos > 0 && r.Chance(1, 8)))
		if qos == 2 {
			ss.out = append(ss.out, m)
		}
		forwarded(s, m)
	}

	retransmit := func(s *c4Sock, m *c4Msg) {
		x := m
		if r.Chance(1, 8) {
			// same packet id, other content: by MQTT-4.3.3 still a retransmission
			c := *m
			c.payload = newPayload("x")
			if r.Bool() {
				c.topic = Pick(r, c4Topics)
			}
			x = &c
		}
		add(pubSx(s, x, r.Chance(3, 4)))
	}

	pubrelSx := func(s *c4Sock, pid int) *Sx {
		props := []*Sx{}
		if s.ver == 5 && r.Chance(1, 8) {
			props = append(props, K("reason", S("r")))
		}
		return L(A("send"), I(s.label), L(A("pubrel"), I(pid), I(0), K("props", props...)))
	}

	release := func(s *c4Sock) {
		ss := sess[s.cid]
		if len(ss.out) == 0 {
			return
		}
		k := r.Intn(len(ss.out))
		m := ss.out[k]
		ss.out = append(ss.out[:k:k], ss.out[k+1:]...)
		ss.done = append(ss.done, m.pid)
		add(pubrelSx(s, m.pid))
		if r.Chance(1, 6) {
			add(pubrelSx(s, m.pid))
		}
	}

	advance := func(choices []int) {
		if modeB || nadv >= 6 {
			return
		}
		nadv++
		ms := Pick(r, choices)
		now += ms
		add(L(A("advance"), I(ms)))
		if r.Bool() {
			add(L(A("expire_check")))
		}
	}

	offline := func(s *c4Sock) {
		ss := sess[s.cid]
		if r.Chance(1, 3) {
			code, props := 0, []*Sx{}
			if s.ver == 5 && ss.expiry != 0 && r.Chance(1, 3) {
				e := Pick(r, []int{0, 1, 50})
				props = append(props, K("sei", I(e)))
				ss.expiry = e
			}
			add(L(A("send"), I(s.label), L(A("disconnect"), I(code), K("props", props...))))
		}
		add(L(A("close"), I(s.label)))
		s.open = false
		ss.online, ss.offAt = false, now
		if ss.expiry == 0 {
			ss.exists = false
		}
		if r.Chance(1, 3) {
			advance([]int{300, 1300, 2300, 61300})
		}
	}

	online := func(s *c4Sock, takeover bool) {
		ss := sess[s.cid]
		if r.Chance(1, 5) {
			s.ver = Pick(r, []int{3, 4, 5})
		}
		if takeover {
			old := s.label
			s.label, s.alt = s.alt, s.label
			connect(s, s.label, r.Chance(1, 4))
			add(L(A("close"), I(old))) // the broker has closed it; keeps the runner's label reusable
		} else {
			connect(s, s.label, r.Chance(1, 4))
		}
		// retransmit what was outstanding before
		for k := r.Intn(3); k > 0; k-- {
			switch {
			case len(ss.out) > 0:
				retransmit(s, Pick(r, ss.out))
			case len(ss.lost) > 0 && !(s.ver == 5 && len(ss.out) >= recvMax):
				// the old session is gone: to the broker this is a new message
				j := r.Intn(len(ss.lost))
				m := ss.lost[j]
				ss.lost = append(ss.lost[:j:j], ss.lost[j+1:]...)
				add(pubSx(s, m, true))
				ss.out = append(ss.out, m)
				forwarded(s, m)
			}
		}
	}

	for _, s := range subs {
		connect(s, s.label, r.Bool())
		for k := r.Range(1, 2); k > 0; k-- {
			subscribe(s)
		}
	}
	for _, s := range socks {
		if !s.isSub {
			connect(s, s.label, r.Chance(1, 3))
		}
	}

	nops := r.Range(8, 36)
	if modeB {
		nops = r.Range(8, 24)
	}
	for k := 0; k < nops; k++ {
		s := Pick(r, socks)
		if s.isSub && r.Chance(1, 2) {
			s = Pick(r, socks) // publishers act more often
		}
		ss := sess[s.cid]
		if !s.open {
			if r.Chance(3, 4) {
				online(s, false)
			}
			continue
		}
		switch x := r.Intn(100); {
		case x < 28:
			publish(s)
		case x < 50:
			if len(ss.out) > 0 {
				m := Pick(r, ss.out)
				for j := Pick(r, []int{1, 1, 2, 3}); j > 0; j-- {
					retransmit(s, m)
				}
			} else {
				publish(s)
			}
		case x < 66:
			release(s)
		case x < 70:
			pid := Pick(r, []int{9, 65534})
			if len(ss.done) > 0 && r.Bool() {
				pid = Pick(r, ss.done)
			}
			if !outstanding(ss, pid) {
				x := pubrelSx(s, pid)
				if s.ver == 5 && r.Chance(1, 4) {
					x.List[2].List[2] = I(146) // Packet Identifier not found: the 3 byte form (4 bytes + properties)
				}
				add(x)
			}
		case x < 84:
			if s.isSub {
				if r.Chance(2, 3) {
					subscribe(s)
				} else {
					unsubscribe(s)
				}
			} else if r.Chance(1, 4) {
				online(s, true)
			} else {
				offline(s)
			}
		case x < 89:
			advance([]int{300, 1300, 2300, 40300})
		case x < 92:
			add(L(A("send"), I(s.label), L(A("pingreq"))))
		default:
			t := Pick(r, subs)
			if modeB {
				flush(t, r.Range(1, 3))
			} else if len(t.guess) > 0 && r.Chance(2, 3) {
				// window mode A: acknowledgements are optional and only best effort
				switch t.guess[0] {
				case 1:
					add(L(A("send"), I(t.label), L(A("puback"), wireRx(t.rx), I(0), K("props"))))
				default:
					add(L(A("send"), I(t.label), L(A("pubrec"), wireRx(t.rx), I(0), K("props"))))
					if r.Chance(2, 3) {
						add(L(A("send"), I(t.label), L(A("pubcomp"), wireRxRel(t.rel), I(0), K("props"))))
						t.rel++
					}
				}
				t.rx++
				t.guess = t.guess[1:]
			}
		}
	}
	// leave nothing outstanding half of the time, complete every scripted acknowledgement
	if r.Bool() {
		for _, s := range socks {
			for s.open && len(sess[s.cid].out) > 0 {
				release(s)
			}
		}
	}
	for _, s := range subs {
		flush(s, len(s.pend))
	}
	add(L(A("inspect")))
	return L(cfg, K("steps", steps...))
}

func init() { register(&Suite{Name: "w_c04", Gen: c4Gen, Run: wireRun, Par: 1}) }
