package main

// Suite c18w (C18, wire level): the same MQTT byte stream is sent to one in-process broker once over TCP in a
// single write and once over its WebSocket listener, cut into binary messages at generated offsets (also empty
// messages, one byte per message, everything in one message).  By the theorem of C18 the broker reads the
// concatenation of the payloads, so what it answers must be what it answers over TCP.
//
//	input : ((v 4|5) (maxpkt N) (npub K) (payload L) (cuts OFFSET...))
//	output: ((tcp OBS) (ws OBS))   OBS = ((acks (TYPE ID)...) (pubs N) (end pingresp|closed|timeout))

import (
	"bufio"
	"context"
	"fmt"
	"io"
	"net"
	"net/http"
	"sort"
	"time"

	"github.com/gorilla/websocket"

	"github.com/DrmagicE/gmqtt/config"
	"github.com/DrmagicE/gmqtt/pkg/packets"
	"github.com/DrmagicE/gmqtt/server"
)

func c18wStream(v byte, npub, plen int) []byte {
	var buf []byte
	w := &c18wBuf{}
	pw := packets.NewWriter(w)
	name := "MQTT"
	if v == packets.Version31 {
		name = "MQIsdp"
	}
	conn := &packets.Connect{Version: v, ProtocolLevel: v, ProtocolName: []byte(name), CleanStart: true, KeepAlive: 0, ClientID: []byte("c18w")}
	if v == packets.Version5 {
		conn.Properties = &packets.Properties{}
	}
	_ = pw.WriteAndFlush(conn)
	sub := &packets.Subscribe{Version: v, PacketID: 100, Topics: []packets.Topic{{Name: "c18w/t", SubOptions: packets.SubOptions{Qos: 1}}}}
	if v == packets.Version5 {
		sub.Properties = &packets.Properties{}
	}
	_ = pw.WriteAndFlush(sub)
	for i := 1; i <= npub; i++ {
		p := &packets.Publish{Version: v, Qos: 1, PacketID: packets.PacketID(i), TopicName: []byte("c18w/t"), Payload: make([]byte, plen)}
		for j := range p.Payload {
			p.Payload[j] = byte(i + j)
		}
		if v == packets.Version5 {
			p.Properties = &packets.Properties{}
		}
		_ = pw.WriteAndFlush(p)
	}
	_ = pw.WriteAndFlush(&packets.Pingreq{})
	buf = w.b
	return buf
}

// the SUBSCRIBE and the PINGREQ of a stream (what follows the CONNECT when there is no PUBLISH)
func c18wTail(v byte) []byte {
	w := &c18wBuf{}
	pw := packets.NewWriter(w)
	sub := &packets.Subscribe{Version: v, PacketID: 100, Topics: []packets.Topic{{Name: "c18w/t", SubOptions: packets.SubOptions{Qos: 1}}}}
	if v == packets.Version5 {
		sub.Properties = &packets.Properties{}
	}
	_ = pw.WriteAndFlush(sub)
	_ = pw.WriteAndFlush(&packets.Pingreq{})
	return w.b
}

type c18wBuf struct{ b []byte }

func (w *c18wBuf) Write(p []byte) (int, error) { w.b = append(w.b, p...); return len(p), nil }

// reads the broker's answers until PINGRESP, close or timeout; forwarded PUBLISH packets are acknowledged
func c18wCollect(r io.Reader, ack func([]byte), deadline func(time.Time), want int) *Sx {
	br := bufio.NewReader(r)
	acks := []*Sx{}
	pubs := 0
	end := "timeout"
	extended := false
	for {
		h, err := br.ReadByte()
		if err != nil {
			if end == "pingresp" {
				break // the quiet period after PINGRESP is over (or the broker closed): done
			}
			if ne, ok := err.(net.Error); ok && ne.Timeout() {
				end = "timeout"
			} else {
				end = "closed"
			}
			break
		}
		rl, mult := 0, 1
		bad := false
		for {
			d, err := br.ReadByte()
			if err != nil {
				bad = true
				break
			}
			rl += int(d&127) * mult
			mult *= 128
			if d&128 == 0 {
				break
			}
		}
		if bad {
			end = "closed"
			break
		}
		body := make([]byte, rl)
		if _, err := io.ReadFull(br, body); err != nil {
			end = "closed"
			break
		}
		typ := h >> 4
		switch typ {
		case packets.PUBLISH:
			pubs++
			// QoS 1: topic length(2) topic pid(2)
			if (h>>1)&3 > 0 && len(body) >= 4 {
				tl := int(body[0])<<8 | int(body[1])
				if len(body) >= 2+tl+2 {
					ack([]byte{packets.PUBACK << 4, 2, body[2+tl], body[3+tl]})
				}
			}
		case packets.CONNACK:
			code := 0
			if len(body) >= 2 {
				code = int(body[1])
			}
			acks = append(acks, L(A("connack"), I(code)))
		case packets.SUBACK, packets.PUBACK:
			id := 0
			if len(body) >= 2 {
				id = int(body[0])<<8 | int(body[1])
			}
			acks = append(acks, L(A(map[byte]string{packets.SUBACK: "suback", packets.PUBACK: "puback"}[typ]), I(id)))
		case packets.PINGRESP:
			acks = append(acks, L(A("pingresp"), I(0)))
			end = "pingresp"
		case packets.DISCONNECT:
			code := 0
			if len(body) >= 1 {
				code = int(body[0])
			}
			acks = append(acks, L(A("disconnect"), I(code)))
		default:
			acks = append(acks, L(A(fmt.Sprintf("type%d", typ)), I(0)))
		}
		if end == "pingresp" {
			// forwarded PUBLISH packets may still be on their way: all `want` of them are due; read on until they are
			// there, for at most 2 s more (then one more quiet 100 ms for packets that are not due)
			if pubs >= want {
				deadline(time.Now().Add(100 * time.Millisecond))
			} else if !extended {
				extended = true
				deadline(time.Now().Add(2 * time.Second))
			}
		}
	}
	return L(K("acks", acks...), K("pubs", I(pubs)), K("end", A(end)))
}

func c18wFreeAddr() string {
	l, err := net.Listen("tcp", "127.0.0.1:0")
	if err != nil {
		panic(err)
	}
	a := l.Addr().String()
	l.Close()
	return a
}

// the WebSocket listener gets a port that was free a moment ago: when another process took it in between, or the
// machine is too busy for the listeners to come up in time, the case is run again (a harness condition, not a verdict)
func c18wRun(in *Sx) *Sx {
	var out *Sx
	for attempt := 0; attempt < 4; attempt++ {
		out = c18wRunOnce(in)
		if !out.Has("harness_error") {
			return out
		}
		time.Sleep(time.Duration(50*(attempt+1)) * time.Millisecond)
	}
	return out
}

func c18wRunOnce(in *Sx) *Sx {
	v := byte(in.Field1("v").Int())
	stream := c18wStream(v, in.Field1("npub").Int(), in.Field1("payload").Int())
	cfg := config.DefaultConfig()
	cfg.API = config.API{}
	cfg.Listeners = nil
	cfg.MQTT.MaxPacketSize = uint32(in.Field1("maxpkt").Uint())
	ln, err := net.Listen("tcp", "127.0.0.1:0")
	if err != nil {
		panic(err)
	}
	wsAddr := c18wFreeAddr()
	ws := &server.WsServer{Server: &http.Server{Addr: wsAddr}, Path: "/ws"}
	srv := server.New(server.WithTCPListener(ln), server.WithWebsocketServer(ws), server.WithConfig(cfg))
	go srv.Run()
	defer func() {
		ctx, cancel := context.WithTimeout(context.Background(), 5*time.Second)
		srv.Stop(ctx)
		cancel()
	}()
	// ---- TCP: everything in one write
	var tcpObs *Sx
	{
		var c net.Conn
		for i := 0; i < 200; i++ {
			c, err = net.Dial("tcp", ln.Addr().String())
			if err == nil {
				break
			}
			time.Sleep(5 * time.Millisecond)
		}
		if err != nil {
			return L(K("harness_error", S("tcp dial: "+err.Error())))
		}
		c.SetDeadline(time.Now().Add(4 * time.Second))
		c.Write(stream)
		tcpObs = c18wCollect(c, func(b []byte) { c.Write(b) }, func(t time.Time) { c.SetReadDeadline(t) }, in.Field1("npub").Int())
		c.Close()
	}
	// wait until the broker has forgotten the TCP client (same client id, Clean Start: a take-over would also do)
	for i := 0; i < 400 && srv.ClientService().GetClient("c18w") != nil; i++ {
		time.Sleep(5 * time.Millisecond)
	}
	// ---- WebSocket: the same bytes, cut at the given offsets
	var wsObs *Sx
	{
		var c *websocket.Conn
		for i := 0; i < 400; i++ {
			c, _, err = websocket.DefaultDialer.Dial("ws://"+wsAddr+"/ws", nil)
			if err == nil {
				break
			}
			time.Sleep(5 * time.Millisecond)
		}
		if err != nil {
			return L(K("harness_error", S("ws dial: "+err.Error())))
		}
		c.SetReadDeadline(time.Now().Add(4 * time.Second))
		cuts := []int{}
		for _, x := range in.Field("cuts") {
			o := x.Int()
			if o > len(stream) {
				o = len(stream)
			}
			cuts = append(cuts, o)
		}
		sort.Ints(cuts)
		prev := 0
		for _, o := range append(cuts, len(stream)) {
			if err := c.WriteMessage(websocket.BinaryMessage, stream[prev:o]); err != nil {
				break
			}
			if prev == 0 && in.Has("pause") {
				time.Sleep(100 * time.Millisecond)
			}
			prev = o
		}
		pr, pw := io.Pipe()
		go func() {
			for {
				t, b, err := c.ReadMessage()
				if err != nil {
					pw.CloseWithError(err)
					return
				}
				if t == websocket.BinaryMessage {
					pw.Write(b)
				}
			}
		}()
		wsObs = c18wCollect(pr, func(b []byte) { c.WriteMessage(websocket.BinaryMessage, b) }, func(t time.Time) { c.SetReadDeadline(t) }, in.Field1("npub").Int())
		c.Close()
		pr.Close()
	}
	return L(K("tcp", tcpObs), K("ws", wsObs))
}

func c18wGen(r *Rng, i int) *Sx {
	v := Pick(r, []int{4, 4, 5, 5, 3})
	npub := r.Range(1, 12)
	plen := Pick(r, []int{0, 1, 10, 50, 200, 1000, 1500})
	// a configured maximum that single packets respect but packed messages exceed, or the default
	maxpkt := Pick(r, []uint64{268435456, 268435456, 2048, 4096, 65536})
	if uint64(plen+40) > maxpkt {
		maxpkt = 268435456
	}
	mode := r.Intn(6)
	if maxpkt < 1000000 && r.Chance(2, 3) {
		// a stream that is longer than the configured maximum packet size while every packet is within it,
		// sent in few large messages
		plen = Pick(r, []int{200, 1000, 1500})
		npub = r.Range(6, 12)
		mode = Pick(r, []int{0, 6, 6, 3})
	}
	total := len(c18wStream(byte(v), npub, plen))
	cuts := []*Sx{}
	switch mode {
	case 6: // the CONNECT alone, a pause (the broker has answered it), then everything else in one message
		cuts = append(cuts, I(len(c18wStream(byte(v), 0, 0))-len(c18wTail(byte(v)))))
		return L(K("v", I(v)), K("maxpkt", U(maxpkt)), K("npub", I(npub)), K("payload", I(plen)), K("cuts", cuts...), K("pause", I(1)))
	case 0: // everything in one message
	case 1: // one byte per message (short streams only)
		if total <= 400 {
			for o := 1; o < total; o++ {
				cuts = append(cuts, I(o))
			}
		}
	case 2: // 1024-byte messages
		for o := 1024; o < total; o += 1024 {
			cuts = append(cuts, I(o))
		}
	default:
		for k := r.Range(1, 8); k > 0; k-- {
			o := r.Intn(total + 1)
			cuts = append(cuts, I(o))
			if r.Chance(1, 6) {
				cuts = append(cuts, I(o)) // an empty binary message
			}
		}
	}
	return L(K("v", I(v)), K("maxpkt", U(maxpkt)), K("npub", I(npub)), K("payload", I(plen)), K("cuts", cuts...))
}

func init() { register(&Suite{Name: "c18w", Gen: c18wGen, Run: c18wRun, Par: 4}) }
