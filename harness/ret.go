package main

import (
	"github.com/DrmagicE/gmqtt"
	"github.com/DrmagicE/gmqtt/retained/trie"
)

// Suite ret: histories on the real retained.Store (trie.NewStore()), then lookups.

func retRun(in *Sx) *Sx {
	st := trie.NewStore()
	for _, o := range in.Field("ops") {
		switch o.List[0].Atom {
		case "add":
			st.AddOrReplace(msgOfSx(o.List[1]))
		case "remove":
			st.Remove(o.List[1].Str())
		case "clear":
			st.ClearAll()
		}
	}
	res := []*Sx{}
	for _, q := range in.Field("queries") {
		switch q.List[0].Atom {
		case "matched":
			ms := []*Sx{}
			got := st.GetMatchedMessages(q.List[1].Str())
			for _, m := range got {
				ms = append(ms, sxMsg(m))
			}
			// callers own what they get (subscribeHandler rewrites QoS/flags of the returned
			// messages): scribbling on it must not change what the store keeps
			for _, m := range got {
				m.QoS = 0
				m.Retained = !m.Retained
				m.Dup = true
				m.PacketID = 77
				if len(m.Payload) > 0 {
					m.Payload[0] ^= 0xff
				}
			}
			res = append(res, L(sortSx(ms)...))
		case "get":
			m := st.GetRetainedMessage(q.List[1].Str())
			if m == nil {
				res = append(res, L())
			} else {
				res = append(res, L(sxMsg(m)))
				m.QoS = 0
				m.Topic = "scribbled"
				if len(m.Payload) > 0 {
					m.Payload[0] ^= 0xff
				}
			}
		case "all":
			ms := []*Sx{}
			st.Iterate(func(m *gmqtt.Message) bool { ms = append(ms, sxMsg(m)); return true })
			res = append(res, L(sortSx(ms)...))
		}
	}
	return L(K("results", res...))
}

func retGen(r *Rng, i int) *Sx {
	pool := []string{}
	for k := 0; k < r.Range(2, 8); k++ {
		pool = append(pool, genTopic(r))
	}
	ops := []*Sx{}
	for k := 0; k < r.Range(0, 25); k++ {
		t := Pick(r, pool)
		switch x := r.Intn(20); {
		case x < 12:
			ops = append(ops, L(A("add"), sxMsg(genMsg(r, t))))
		case x < 19:
			ops = append(ops, L(A("remove"), S(t)))
		default:
			ops = append(ops, L(A("clear")))
		}
	}
	qs := []*Sx{}
	for k := 0; k < 8; k++ {
		qs = append(qs, L(A("matched"), S(genFilter(r))))
	}
	for _, f := range []string{"#", "+", "+/#", "$s/#", "+/+"} {
		if r.Bool() {
			qs = append(qs, L(A("matched"), S(f)))
		}
	}
	for k := 0; k < 4; k++ {
		qs = append(qs, L(A("get"), S(Pick(r, pool))))
	}
	qs = append(qs, L(A("all")))
	return L(K("ops", ops...), K("queries", qs...))
}

func init() { register(&Suite{Name: "ret", Gen: retGen, Run: retRun}) }
