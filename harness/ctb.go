package main

// Suite ctb (C06, C20): packets.TotalBytes - the size the statistics book for a packet - for every packet type and
// Remaining Length values at and around every boundary of the variable byte integer (no packet body is needed:
// the function reads the fixed header only).
//
//	input : ((t TYPE) (rl N))      output: ((tb N))

import (
	"github.com/DrmagicE/gmqtt/pkg/packets"
)

func ctbRun(in *Sx) *Sx {
	t := byte(in.Field1("t").Int())
	h := &packets.FixHeader{PacketType: t, RemainLength: int(in.Field1("rl").Uint())}
	var p packets.Packet
	switch t {
	case packets.CONNECT:
		p = &packets.Connect{FixHeader: h}
	case packets.CONNACK:
		p = &packets.Connack{FixHeader: h}
	case packets.PUBLISH:
		p = &packets.Publish{FixHeader: h}
	case packets.PUBACK:
		p = &packets.Puback{FixHeader: h}
	case packets.PUBREC:
		p = &packets.Pubrec{FixHeader: h}
	case packets.PUBREL:
		p = &packets.Pubrel{FixHeader: h}
	case packets.PUBCOMP:
		p = &packets.Pubcomp{FixHeader: h}
	case packets.SUBSCRIBE:
		p = &packets.Subscribe{FixHeader: h}
	case packets.SUBACK:
		p = &packets.Suback{FixHeader: h}
	case packets.UNSUBSCRIBE:
		p = &packets.Unsubscribe{FixHeader: h}
	case packets.UNSUBACK:
		p = &packets.Unsuback{FixHeader: h}
	case packets.PINGREQ:
		p = &packets.Pingreq{FixHeader: h}
	case packets.PINGRESP:
		p = &packets.Pingresp{FixHeader: h}
	case packets.DISCONNECT:
		p = &packets.Disconnect{FixHeader: h}
	default:
		p = &packets.Auth{FixHeader: h}
	}
	return L(K("tb", U(uint64(packets.TotalBytes(p)))))
}

var ctbLens = []uint64{0, 1, 2, 126, 127, 128, 129, 16382, 16383, 16384, 16385, 2097150, 2097151, 2097152, 2097153, 268435454, 268435455}

func ctbGen(r *Rng, i int) *Sx {
	// every (type, boundary value) pair in turn, then random lengths
	n := 15 * len(ctbLens)
	if i < n {
		return L(K("t", I(1+i%15)), K("rl", U(ctbLens[i/15])))
	}
	return L(K("t", I(r.Range(1, 15))), K("rl", U(uint64(r.Intn(268435456)))))
}

func init() { register(&Suite{Name: "ctb", Gen: ctbGen, Run: ctbRun}) }
