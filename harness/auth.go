package main

import (
	"bytes"
	"context"
	"crypto/md5"
	"crypto/sha256"
	"encoding/hex"
	"fmt"
	"io"
	"net"
	"os"
	"path/filepath"
	"sort"
	"strings"
	"sync"
	"time"

	"go.uber.org/zap"
	"golang.org/x/crypto/bcrypt"
	"gopkg.in/yaml.v2"

	"github.com/DrmagicE/gmqtt"
	"github.com/DrmagicE/gmqtt/config"
	_ "github.com/DrmagicE/gmqtt/persistence"
	"github.com/DrmagicE/gmqtt/persistence/subscription"
	"github.com/DrmagicE/gmqtt/pkg/codes"
	"github.com/DrmagicE/gmqtt/pkg/packets"
	"github.com/DrmagicE/gmqtt/plugin/auth"
	"github.com/DrmagicE/gmqtt/server"
	_ "github.com/DrmagicE/gmqtt/topicalias/fifo"
)

// Suites auth (the plugin at component level) and authwire (an in-process broker with the
// plugin loaded, raw MQTT over TCP) for property C19.
//
// Both change or depend on the working directory of the process (saveFileHandler writes
// relative to it), and auth replaces the package-level registerAPI: one case at a time.
var authMu sync.Mutex

const authWork = "/verif/.work/auth_cases"

// ---------------------------------------------------------------- shared helpers

func authDigest(alg string, p string) string {
	switch alg {
	case "md5":
		s := md5.Sum([]byte(p))
		return hex.EncodeToString(s[:])
	case "sha256":
		s := sha256.Sum256([]byte(p))
		return hex.EncodeToString(s[:])
	}
	return p
}

// bcrypt hashes (cost 4) of a few pool passwords, computed once: generation must be
// deterministic, bcrypt.GenerateFromPassword draws a random salt.
var authBcryptKnown = map[string]string{
	"p":                     "$2a$04$Z88VU2A.W25uUOwYghLr/uxKb6G7qgPPpGzcmO.9iSQ3L9otjmZwW",
	"pw1":                   "$2a$04$TQBpptj7EWZ508L0W1Q8u.6CKAR6pBEwmMUenCbf5pqDi4sBRnrO6",
	"":                      "$2a$04$P/f.xoNFXq19ZJTKYBQHdO81QZHSuMGKOpx8WqpDwLDS5rLzhmbJq",
	strings.Repeat("a", 72): "$2a$04$sQ5XINPifTl22iJ9QCFKl.QokG9v01bBpTux/aVBRfM0FAUzrUmg.",
	"P":                     "$2a$04$GqyOQExbsqYffJCUqIM/A.Y4X3m3C8WaQAPsibf0uAXKYxua0YUuy",
	"pass word":             "$2a$04$ZLsGJuTQEEFgOsFzX7.3vedGREysy4tq7BUiNuREw.7M28XFJx24C",
}

func authStored(alg, p string) (string, bool) {
	if alg == "bcrypt" {
		h, ok := authBcryptKnown[p]
		return h, ok
	}
	return authDigest(alg, p), true
}

// the (hash, password) -> verify table the model's bverify is instantiated with
type authBV struct {
	seen map[string]bool
	rows []*Sx
}

func (t *authBV) add(h, p string) {
	k := h + "\x00|" + p
	if t.seen == nil {
		t.seen = map[string]bool{}
	}
	if t.seen[k] {
		return
	}
	t.seen[k] = true
	t.rows = append(t.rows, L(S(h), S(p), Bool(bcrypt.CompareHashAndPassword([]byte(h), []byte(p)) == nil)))
}

type authFakeClient struct{ v packets.Version }

func (c *authFakeClient) ClientOptions() *server.ClientOptions { return &server.ClientOptions{} }
func (c *authFakeClient) SessionInfo() *gmqtt.Session          { return nil }
func (c *authFakeClient) Version() packets.Version             { return c.v }
func (c *authFakeClient) ConnectedAt() time.Time               { return time.Time{} }
func (c *authFakeClient) Connection() net.Conn                 { return nil }
func (c *authFakeClient) Close()                               {}
func (c *authFakeClient) Disconnect(*packets.Disconnect)       {}

func authOpt(x *Sx) ([]byte, bool) {
	if !x.IsL && x.Atom == "none" {
		return nil, false
	}
	return x.Bytes(), true
}

// (ver cid uflag pflag user pass am ad)
func authConnectOf(x *Sx) (*packets.Connect, packets.Version) {
	v := packets.Version(x.List[0].Int())
	c := &packets.Connect{Version: v, ProtocolLevel: v, ClientID: x.List[1].Bytes(), CleanStart: true,
		UsernameFlag: x.List[2].Bool(), PasswordFlag: x.List[3].Bool()}
	if c.UsernameFlag {
		c.Username = x.List[4].Bytes()
	}
	if c.PasswordFlag {
		c.Password = x.List[5].Bytes()
	}
	if v == 5 {
		c.Properties = &packets.Properties{}
		if am, ok := authOpt(x.List[6]); ok {
			c.Properties.AuthMethod = am
		}
		if ad, ok := authOpt(x.List[7]); ok {
			c.Properties.AuthData = ad
		}
	}
	return c, v
}

func authAccountsSx(head string, acts []*auth.Account) *Sx {
	xs := []*Sx{A(head)}
	for _, a := range acts {
		xs = append(xs, L(S(a.Username), S(a.Password)))
	}
	return L(xs...)
}

func authAll(a *auth.Auth) []*auth.Account {
	l, _ := a.List(context.Background(), &auth.ListAccountsRequest{Page: 1, PageSize: 1 << 30})
	return l.Accounts
}

func authErrCode(err error) *Sx {
	if err == nil {
		return L(A("auth"), A("ok"))
	}
	if e, ok := err.(*codes.Error); ok {
		return L(A("auth"), A("err"), I(int(e.Code)))
	}
	return L(A("auth"), A("err"), I(int(codes.UnspecifiedError)))
}

// ---------------------------------------------------------------- suite auth: run

func authRun(in *Sx) *Sx {
	authMu.Lock()
	defer authMu.Unlock()
	orig, err := os.Getwd()
	if err != nil {
		orig = "/"
	}
	defer os.Chdir(orig)
	os.MkdirAll(authWork, 0755)
	base, err := os.MkdirTemp(authWork, "c")
	if err != nil {
		return L(K("harness_error", S(err.Error())))
	}
	defer os.RemoveAll(base)
	// directory 0 = ConfigDir, 1 = another working directory, 2 = directory of an absolute PasswordFile
	dirs := []string{filepath.Join(base, "cfg"), filepath.Join(base, "wd"), filepath.Join(base, "abs")}
	for _, d := range dirs {
		os.Mkdir(d, 0755)
	}
	restore := auth.VerifStubAPI()
	defer restore()

	alg := in.Field1("alg").Atom
	name := in.Field1("pf").Str()
	form := in.Field1("pfform").Atom
	cfg := auth.Config{Hash: alg}
	loadPath := filepath.Join(dirs[0], name)
	switch form {
	case "rel":
		cfg.PasswordFile = name
	case "dotrel":
		cfg.PasswordFile = "./" + name
	case "abs":
		cfg.PasswordFile = filepath.Join(dirs[2], name)
		loadPath = cfg.PasswordFile
	}
	if err := cfg.Validate(); err != nil {
		return L(K("harness_error", S(err.Error())))
	}
	if in.Has("init") {
		acts := []*auth.Account{}
		for _, x := range in.Field("init") {
			acts = append(acts, &auth.Account{Username: x.List[0].Str(), Password: x.List[1].Str()})
		}
		b, err := yaml.Marshal(acts)
		if err != nil {
			return L(K("harness_error", S(err.Error())))
		}
		if err := os.WriteFile(loadPath, b, 0644); err != nil {
			return L(K("harness_error", S(err.Error())))
		}
	}
	chdir := func(d int, alive bool) {
		if alive {
			os.Chdir(dirs[d])
			return
		}
		dead, _ := os.MkdirTemp(base, "dead")
		os.Chdir(dead)
		os.Remove(dead)
	}
	chdir(in.Field1("cwd").Int(), true)
	ctx := context.Background()
	a := auth.VerifNew(cfg, dirs[0])
	if err := a.Load(nil); err != nil {
		return L(K("start", A("loaderr")))
	}
	bv := &authBV{}
	stored := func(u string) (string, bool) {
		if u == "" {
			return "", false
		}
		r, err := a.Get(ctx, &auth.GetAccountRequest{Username: u})
		if err != nil {
			return "", false
		}
		return r.Account.Password, true
	}
	cwdNow, cwdAlive := in.Field1("cwd").Int(), true
	outs := []*Sx{}
	for _, o := range in.Field("ops") {
		var res *Sx
		switch o.List[0].Atom {
		case "update":
			u, p := o.List[1].Str(), o.List[2].Str()
			_, err := a.Update(ctx, &auth.UpdateAccountRequest{Username: u, Password: p})
			switch {
			case err != nil && u == "":
				res = L(A("invalid"))
			case err != nil:
				res = L(A("err"))
			default:
				h, _ := stored(u)
				if alg == "bcrypt" {
					bv.add(h, p)
				}
				res = L(A("ok"), S(h))
			}
		case "delete":
			u := o.List[1].Str()
			_, err := a.Delete(ctx, &auth.DeleteAccountRequest{Username: u})
			switch {
			case err != nil && u == "":
				res = L(A("invalid"))
			case err != nil:
				res = L(A("err"))
			default:
				res = L(A("ok"))
			}
		case "get":
			u := o.List[1].Str()
			r, err := a.Get(ctx, &auth.GetAccountRequest{Username: u})
			switch {
			case err != nil && u == "":
				res = L(A("invalid"))
			case err != nil:
				res = L(A("notfound"))
			default:
				res = L(A("account"), S(r.Account.Password))
			}
		case "list":
			r, _ := a.List(ctx, &auth.ListAccountsRequest{Page: uint32(o.List[1].Uint()), PageSize: uint32(o.List[2].Uint())})
			xs := []*Sx{A("list"), U(uint64(r.TotalCount))}
			for _, ac := range r.Accounts {
				xs = append(xs, L(S(ac.Username), S(ac.Password)))
			}
			res = L(xs...)
		case "chdir":
			cwdNow, cwdAlive = o.List[1].Int(), o.List[2].Bool()
			chdir(cwdNow, cwdAlive)
			res = L(A("ok"))
		case "break":
			// the directory holding the password file goes away (renamed) / comes back
			dir := filepath.Dir(loadPath)
			if o.List[1].Bool() {
				os.Rename(dir, dir+".off")
			} else {
				os.Rename(dir+".off", dir)
			}
			res = L(A("ok"))
		case "validate":
			u, p := o.List[1].Str(), o.List[2].Str()
			if h, ok := stored(u); ok && alg == "bcrypt" {
				bv.add(h, p)
			}
			ok, err := a.VerifValidate(u, p)
			if err != nil {
				res = L(A("verr"))
			} else {
				res = L(A("bool"), Bool(ok))
			}
		case "auth":
			conn, v := authConnectOf(o.List[3])
			if h, ok := stored(string(conn.Username)); ok && alg == "bcrypt" {
				bv.add(h, string(conn.Password))
			}
			var preErr error
			if o.List[1].IsL {
				preErr = &codes.Error{Code: codes.Code(o.List[1].List[1].Int())}
			}
			hook := a.HookWrapper().OnBasicAuthWrapper(func(context.Context, server.Client, *server.ConnectRequest) error { return preErr })
			_ = v
			err := hook(ctx, &authFakeClient{v: packets.Version(o.List[2].Int())}, &server.ConnectRequest{Connect: conn})
			res = authErrCode(err)
		case "reload":
			// a restarted broker: a fresh instance, started from another working directory
			chdir(o.List[1].Int(), true)
			b := auth.VerifNew(cfg, dirs[0])
			if err := b.Load(nil); err != nil {
				res = L(A("loaderr"))
			} else {
				res = authAccountsSx("loaded", authAll(b))
			}
			chdir(cwdNow, cwdAlive)
		case "file":
			raw, err := os.ReadFile(loadPath)
			if err != nil {
				res = L(A("nofile"))
				break
			}
			var acts []*auth.Account
			if err := yaml.Unmarshal(raw, &acts); err != nil {
				res = L(A("badfile"))
			} else {
				res = authAccountsSx("file", acts)
			}
		default:
			panic("auth op " + o.List[0].Atom)
		}
		outs = append(outs, res)
	}
	os.Chdir(orig)
	return L(K("start", A("ok")), K("outs", outs...), K("bv", bv.rows...))
}

// ---------------------------------------------------------------- suite auth: generator

var authLong = strings.Repeat("a", 65535)

func authNear(r *Rng, s string) string {
	switch r.Intn(8) {
	case 0:
		return s + "x"
	case 1:
		return s + " "
	case 2:
		if len(s) > 0 {
			return s[:len(s)-1]
		}
		return "x"
	case 3:
		if len(s) > 0 {
			b := []byte(s)
			k := r.Intn(len(b))
			if b[k] >= 'a' && b[k] <= 'z' {
				b[k] -= 32
			} else if b[k] >= 'A' && b[k] <= 'Z' {
				b[k] += 32
			} else {
				b[k] ^= 1
			}
			return string(b)
		}
		return " "
	case 4:
		return s + "\x00"
	case 5:
		return " " + s
	case 6:
		return strings.ToUpper(s)
	}
	return ""
}

type authGenState struct {
	r     *Rng
	alg   string
	users []string
	pws   []string
	tab   map[string]string // user -> clear password last set (approximate: guides generation only)
	order []string
	used  map[string]bool // passwords that occur (for the digest table)
}

func (g *authGenState) pw(p string) string { g.used[p] = true; return p }

func (g *authGenState) pickUser() string {
	r := g.r
	if len(g.order) > 0 && r.Chance(7, 10) {
		u := Pick(r, g.order)
		if r.Chance(1, 6) {
			return authNear(r, u)
		}
		return u
	}
	if r.Chance(1, 8) {
		return ""
	}
	return Pick(r, g.users)
}

func (g *authGenState) pickCred() (string, string) {
	r := g.r
	u := g.pickUser()
	p, known := g.tab[u]
	if !known {
		p = Pick(r, g.pws)
	}
	switch x := r.Intn(100); {
	case x < 50:
	case x < 82:
		p = authNear(r, p)
	case x < 87:
		if h, ok := authStored(g.alg, p); ok { // the stored value itself sent as the password
			p = h
			if r.Bool() {
				p = strings.ToUpper(p)
			}
		}
	case x < 92:
		p = ""
	default:
		p = Pick(r, g.pws)
	}
	return u, g.pw(p)
}

func authConnSx(ver int, cid string, uf, pf bool, u, p string, am, ad *Sx) *Sx {
	return L(I(ver), S(cid), Bool(uf), Bool(pf), S(u), S(p), am, ad)
}

func authGen(r *Rng, i int) *Sx {
	alg := []string{"plain", "md5", "sha256", "bcrypt"}[i%4]
	g := &authGenState{r: r, alg: alg, tab: map[string]string{}, used: map[string]bool{}}
	baseUsers := []string{"u", "v", "admin", "U", "u ", "uu", "~", "a: b", "\xc3\xa9", "null", "123", "u\nv"}
	basePws := []string{"", "p", "P", "p ", "pp", "pw1", "pass word", "123", "~", "p\x00", "\xc3\xa9", "a: b\n", strings.Repeat("a", 72), strings.Repeat("a", 72) + "b", strings.Repeat("a", 73)}
	for k := 0; k < r.Range(2, 4); k++ {
		g.users = append(g.users, Pick(r, baseUsers))
	}
	for k := 0; k < r.Range(2, 4); k++ {
		g.pws = append(g.pws, Pick(r, basePws))
	}
	// maximal strings are expensive on both sides (131 kB of hex per occurrence): 1 case in 40
	if r.Chance(1, 80) {
		g.users = append(g.users, authLong)
	}
	if r.Chance(1, 80) {
		g.pws = append(g.pws, authLong)
	}
	form := Pick(r, []string{"rel", "rel", "dotrel", "abs", "abs"})
	cwd := 0
	if r.Chance(2, 5) {
		cwd = 1
	}
	fields := []*Sx{K("alg", A(alg)), K("pf", S(Pick(r, []string{"pw.yml", "gmqtt_password.yml"}))), K("pfform", A(form)), K("cwd", I(cwd))}
	if alg != "bcrypt" && r.Chance(1, 12) {
		// a password file with more accounts than any page of the account API lists (20): every rewrite of the file
		// must keep all of them
		rows := []*Sx{}
		for k := 0; k < r.Range(21, 26); k++ {
			u := fmt.Sprintf("n%02d", k)
			g.users = append(g.users, u)
			p := Pick(r, []string{"p", "pw1", "P"})
			h, _ := authStored(alg, p)
			g.tab[u] = p
			g.order = append(g.order, u)
			rows = append(rows, L(S(u), S(h)))
		}
		fields = append(fields, K("init", rows...))
	} else if r.Chance(1, 2) {
		rows := []*Sx{}
		malformed := r.Chance(1, 14)
		seen := map[string]bool{}
		for k := 0; k < r.Range(0, 3); k++ {
			u := Pick(r, g.users)
			if seen[u] && !malformed {
				continue
			}
			seen[u] = true
			p := Pick(r, []string{"p", "pw1", "", "P", "pass word", strings.Repeat("a", 72)})
			h, _ := authStored(alg, p)
			if r.Chance(1, 10) {
				h = Pick(r, []string{"garbage", "", strings.ToUpper(h), h + "0"})
			} else {
				g.tab[u] = p
			}
			if !authContains(g.order, u) {
				g.order = append(g.order, u)
			}
			rows = append(rows, L(S(u), S(h)))
		}
		if malformed {
			if r.Bool() || len(rows) == 0 {
				rows = append(rows, L(S(""), S("x")))
			} else {
				rows = append(rows, rows[0])
			}
		}
		fields = append(fields, K("init", rows...))
	}
	ops := []*Sx{}
	broken := false
	for k := 0; k < r.Range(8, 30); k++ {
		switch x := r.Intn(100); {
		case x < 28:
			u := g.pickUser()
			p := g.pw(Pick(r, g.pws))
			ops = append(ops, L(A("update"), S(u), S(p)))
			if u != "" && !broken && !(alg == "bcrypt" && len(p) > 72) {
				if _, ok := g.tab[u]; !ok {
					g.order = append(g.order, u)
				}
				g.tab[u] = p
			}
		case x < 38:
			u := g.pickUser()
			ops = append(ops, L(A("delete"), S(u)))
			if _, ok := g.tab[u]; ok && !broken {
				delete(g.tab, u)
				for j, o := range g.order {
					if o == u {
						g.order = append(g.order[:j:j], g.order[j+1:]...)
						break
					}
				}
			}
		case x < 50:
			u, p := g.pickCred()
			ops = append(ops, L(A("validate"), S(u), S(p)))
		case x < 68:
			u, p := g.pickCred()
			ver := Pick(r, []int{3, 4, 4, 5, 5})
			cver := ver
			if r.Chance(1, 40) {
				cver = Pick(r, []int{0, 2, 6, 255})
			}
			uf, pf := r.Chance(4, 5), r.Chance(4, 5)
			am, ad := A("none"), A("none")
			if ver == 5 && r.Chance(1, 5) {
				am = S(Pick(r, []string{"", "SCRAM-SHA-1", "x"}))
				if r.Bool() {
					ad = S(Pick(r, []string{"", "data", p}))
				}
			}
			pre := A("ok")
			if r.Chance(3, 20) {
				pre = L(A("err"), I(Pick(r, []int{4, 5, 0x80, 0x87, 0x8c})))
			}
			ops = append(ops, L(A("auth"), pre, I(cver), authConnSx(ver, "c", uf, pf, u, p, am, ad)))
		case x < 76:
			switch y := r.Intn(10); {
			case y < 2: // a deleted working directory: nothing may depend on it
				ops = append(ops, L(A("chdir"), I(3), Bool(false)))
			case y < 5: // saves fail while the directory of the password file is away
				broken = !broken
				ops = append(ops, L(A("break"), Bool(broken)))
			default:
				ops = append(ops, L(A("chdir"), I(r.Intn(2)), Bool(true)))
			}
		case x < 82:
			ops = append(ops, L(A("list"), I(Pick(r, []int{0, 1, 1, 2, 3})), I(Pick(r, []int{0, 1, 2, 3, 100}))))
		case x < 87:
			ops = append(ops, L(A("get"), S(g.pickUser())))
		case x < 94:
			ops = append(ops, L(A("reload"), I(r.Intn(2))))
		default:
			ops = append(ops, L(A("file")))
		}
	}
	// epilogue: with the password file's directory back, an account is set and used (right password,
	// near miss); then what is persisted and what a restart loads
	eu := Pick(r, g.users)
	if eu == "" {
		eu = "u"
	}
	ep := Pick(r, g.pws)
	if alg == "bcrypt" && len(ep) > 72 {
		ep = "pw1"
	}
	g.pw(ep)
	ops = append(ops, L(A("break"), Bool(false)), L(A("chdir"), I(r.Intn(2)), Bool(true)), L(A("update"), S(eu), S(ep)), L(A("validate"), S(eu), S(ep)),
		L(A("validate"), S(eu), S(g.pw(authNear(r, ep)))),
		L(A("auth"), A("ok"), I(4), authConnSx(4, "c", true, true, eu, ep, A("none"), A("none"))))
	ops = append(ops, L(A("list"), I(1), I(1000)), L(A("file")), L(A("reload"), I(1)))
	fields = append(fields, K("ops", ops...))
	fields = append(fields, authHashField(alg, g.used))
	return L(fields...)
}

func authContains(xs []string, s string) bool {
	for _, x := range xs {
		if x == s {
			return true
		}
	}
	return false
}

// the digests the model's H is checked against (md5 / sha256 of every password of the case)
func authHashField(alg string, used map[string]bool) *Sx {
	rows := []*Sx{}
	if alg == "md5" || alg == "sha256" {
		ps := []string{}
		for p := range used {
			ps = append(ps, p)
		}
		sort.Strings(ps)
		for _, p := range ps {
			rows = append(rows, L(S(p), S(authDigest(alg, p))))
		}
	}
	return K("hash", rows...)
}

// ---------------------------------------------------------------- suite authwire

// a minimal MQTT encoder written from the OASIS text (not pkg/packets)
func awVarint(n int) []byte {
	var b []byte
	for {
		d := byte(n % 128)
		n /= 128
		if n > 0 {
			d |= 128
		}
		b = append(b, d)
		if n == 0 {
			return b
		}
	}
}
func awStr(s []byte) []byte { return append([]byte{byte(len(s) >> 8), byte(len(s))}, s...) }
func awPkt(first byte, body []byte) []byte {
	return append(append([]byte{first}, awVarint(len(body))...), body...)
}

// (level cid uflag pflag user pass am ad)
func awConnect(x *Sx) []byte {
	level := x.List[0].Int()
	var body []byte
	if level == 3 {
		body = append(body, awStr([]byte("MQIsdp"))...)
	} else {
		body = append(body, awStr([]byte("MQTT"))...)
	}
	flags := byte(2) // clean session / clean start
	if x.List[2].Bool() {
		flags |= 0x80
	}
	if x.List[3].Bool() {
		flags |= 0x40
	}
	body = append(body, byte(level), flags, 0, 0) // keep alive 0
	if level == 5 {
		var props []byte
		if am, ok := authOpt(x.List[6]); ok {
			props = append(append(props, 0x15), awStr(am)...)
		}
		if ad, ok := authOpt(x.List[7]); ok {
			props = append(append(props, 0x16), awStr(ad)...)
		}
		body = append(append(body, awVarint(len(props))...), props...)
	}
	body = append(body, awStr(x.List[1].Bytes())...)
	if x.List[2].Bool() {
		body = append(body, awStr(x.List[4].Bytes())...)
	}
	if x.List[3].Bool() {
		body = append(body, awStr(x.List[5].Bytes())...)
	}
	return awPkt(0x10, body)
}

// every packet type a client or a server can send, in v3.1.1 and in v5 layout
func awStrayPackets() [][]byte {
	t := awStr([]byte("stray/t"))
	f := awStr([]byte("#"))
	return [][]byte{
		awPkt(0x31, append(append([]byte{}, t...), []byte("retained-by-nobody")...)),                     // PUBLISH qos0 retain
		awPkt(0x33, append(append(append([]byte{}, t...), 0, 1), []byte("q1")...)),                       // PUBLISH qos1 retain
		awPkt(0x34, append(append(append([]byte{}, t...), 0, 2), []byte("q2")...)),                       // PUBLISH qos2
		awPkt(0x31, append(append(append([]byte{}, t...), 0), []byte("v5-retained")...)),                 // PUBLISH qos0 retain, v5 layout
		awPkt(0x82, append(append([]byte{0, 3}, f...), 1)),                                               // SUBSCRIBE #
		awPkt(0x82, append(append([]byte{0, 3, 0}, f...), 1)),                                            // SUBSCRIBE # (v5)
		awPkt(0xa2, append([]byte{0, 4}, f...)),                                                          // UNSUBSCRIBE
		awPkt(0x40, []byte{0, 1}), awPkt(0x50, []byte{0, 1}), awPkt(0x62, []byte{0, 1}), awPkt(0x70, []byte{0, 1}), // PUBACK PUBREC PUBREL PUBCOMP
		awPkt(0xc0, nil), awPkt(0xe0, nil), awPkt(0xe0, []byte{0}),                                       // PINGREQ DISCONNECT
		awPkt(0xf0, nil), awPkt(0xf0, []byte{0x18, 0}),                                                   // AUTH
		awPkt(0x20, []byte{0, 0}), awPkt(0x90, []byte{0, 3, 0}), awPkt(0xb0, []byte{0, 4}), awPkt(0xd0, nil), // CONNACK SUBACK UNSUBACK PINGRESP
		awPkt(0x00, nil), // reserved type 0
	}
}

type awSock struct {
	c   net.Conn
	buf []byte
}

// next packet from the server: (type, body) or ok=false on EOF / timeout
func (s *awSock) next(d time.Duration) (byte, []byte, string) {
	deadline := time.Now().Add(d)
	for {
		if len(s.buf) >= 2 {
			n, mult, i := 0, 1, 1
			for ; i < len(s.buf) && i <= 4; i++ {
				n += int(s.buf[i]&127) * mult
				mult *= 128
				if s.buf[i]&128 == 0 {
					if len(s.buf) >= i+1+n {
						typ, body := s.buf[0], s.buf[i+1:i+1+n]
						s.buf = s.buf[i+1+n:]
						return typ, body, ""
					}
					break
				}
			}
		}
		s.c.SetReadDeadline(deadline)
		tmp := make([]byte, 4096)
		k, err := s.c.Read(tmp)
		s.buf = append(s.buf, tmp[:k]...)
		if err != nil && k == 0 {
			if err == io.EOF {
				return 0, nil, "eof"
			}
			if ne, ok := err.(net.Error); ok && ne.Timeout() {
				return 0, nil, "timeout"
			}
			return 0, nil, "reset"
		}
	}
}

func awInspect(srv server.Server) *Sx {
	var sess, clients []string
	srv.ClientService().IterateSession(func(s *gmqtt.Session) bool { sess = append(sess, s.ClientID); return true })
	srv.ClientService().IterateClient(func(c server.Client) bool { clients = append(clients, c.ClientOptions().ClientID); return true })
	var subs []string
	srv.SubscriptionService().Iterate(func(cid string, sub *gmqtt.Subscription) bool {
		subs = append(subs, cid+"|"+sub.GetFullTopicName())
		return true
	}, subscription.IterationOptions{Type: subscription.TypeAll})
	var ret []string
	srv.RetainedService().Iterate(func(m *gmqtt.Message) bool { ret = append(ret, m.Topic); return true })
	sort.Strings(sess)
	sort.Strings(clients)
	sort.Strings(subs)
	sort.Strings(ret)
	strs := func(k string, xs []string) *Sx {
		l := []*Sx{}
		for _, x := range xs {
			l = append(l, S(x))
		}
		return K(k, l...)
	}
	_, anon := srv.StatsManager().GetClientStats("")
	return L(strs("sessions", sess), strs("clients", clients), strs("subs", subs), strs("retained", ret), K("stats_anon", Bool(anon)))
}

func awRun(in *Sx) *Sx {
	authMu.Lock()
	defer authMu.Unlock()
	orig, err := os.Getwd()
	if err != nil {
		orig = "/"
	}
	defer os.Chdir(orig)
	os.MkdirAll(authWork, 0755)
	base, err := os.MkdirTemp(authWork, "w")
	if err != nil {
		return L(K("harness_error", S(err.Error())))
	}
	defer os.RemoveAll(base)
	os.Chdir(base)
	alg := in.Field1("alg").Atom
	ctx := context.Background()
	acfg := auth.Config{Hash: alg, PasswordFile: filepath.Join(base, "pw.yml")}

	// the accounts are created through the account API of a first plugin instance ...
	restore := auth.VerifStubAPI()
	first := auth.VerifNew(acfg, base)
	if err := first.Load(nil); err != nil {
		restore()
		return L(K("harness_error", S(err.Error())))
	}
	bv := &authBV{}
	setup := []*Sx{}
	for _, x := range in.Field("accounts") {
		u, p := x.List[0].Str(), x.List[1].Str()
		if _, err := first.Update(ctx, &auth.UpdateAccountRequest{Username: u, Password: p}); err != nil {
			setup = append(setup, L(A("err")))
			continue
		}
		r, _ := first.Get(ctx, &auth.GetAccountRequest{Username: u})
		if alg == "bcrypt" {
			bv.add(r.Account.Password, p)
		}
		setup = append(setup, L(A("ok"), S(r.Account.Password)))
	}
	restore()

	// ... and the broker is a restart: its plugin instance loads the password file
	cfg := config.DefaultConfig()
	cfg.ConfigDir = base
	cfg.MQTT.AllowZeroLenClientID = in.Field1("allow_zero").Bool()
	cfg.Plugins = map[string]config.Configuration{auth.Name: &acfg}
	plg, err := auth.New(cfg)
	if err != nil {
		return L(K("harness_error", S(err.Error())))
	}
	a := plg.(*auth.Auth)
	ln, err := net.Listen("tcp", "127.0.0.1:0")
	if err != nil {
		return L(K("harness_error", S(err.Error())))
	}
	srv := server.New(server.WithTCPListener(ln), server.WithConfig(cfg), server.WithPlugin(a), server.WithLogger(zap.NewNop()))
	if err := srv.Init(); err != nil {
		ln.Close()
		return L(K("harness_error", S("init: "+err.Error())))
	}
	runErr := make(chan error, 1)
	go func() { runErr <- srv.Run() }()
	defer func() {
		sctx, cancel := context.WithTimeout(context.Background(), 5*time.Second)
		srv.Stop(sctx)
		cancel()
	}()
	addr := ln.Addr().String()
	dial := func() (*awSock, error) {
		c, err := net.DialTimeout("tcp", addr, 2*time.Second)
		if err != nil {
			return nil, err
		}
		return &awSock{c: c}, nil
	}
	var open []*awSock
	defer func() {
		for _, s := range open {
			s.c.Close()
		}
	}()
	stored := func(u string) (string, bool) {
		if u == "" {
			return "", false
		}
		r, err := a.Get(ctx, &auth.GetAccountRequest{Username: u})
		if err != nil {
			return "", false
		}
		return r.Account.Password, true
	}

	// the observer: an authenticated v3.1.1 client subscribed to "#"
	obs, err := dial()
	if err != nil {
		return L(K("harness_error", S(err.Error())))
	}
	open = append(open, obs)
	ob := in.Field1("observer")
	if h, ok := stored(ob.List[0].Str()); ok && alg == "bcrypt" {
		bv.add(h, ob.List[1].Str())
	}
	obs.c.Write(awConnect(authConnSx(4, "observer", true, true, ob.List[0].Str(), ob.List[1].Str(), A("none"), A("none"))))
	if typ, body, e := obs.next(3 * time.Second); e != "" || typ != 0x20 || len(body) < 2 || body[1] != 0 {
		return L(K("harness_error", S(fmt.Sprintf("observer connect: %x %x %s", typ, body, e))))
	}
	obs.c.Write(awPkt(0x82, append(append([]byte{0, 9}, awStr([]byte("#"))...), 0)))
	if typ, _, e := obs.next(3 * time.Second); e != "" || typ != 0x90 {
		return L(K("harness_error", S("observer subscribe")))
	}
	// the topics of everything the observer receives up to and including the topic [until]
	// (its queue is FIFO: whatever was routed to it earlier arrives earlier)
	observed := func(until string) []*Sx {
		got := []*Sx{}
		for {
			typ, body, e := obs.next(3 * time.Second)
			if e != "" {
				return append(got, A(e))
			}
			if typ&0xf0 == 0x30 && len(body) >= 2 {
				n := int(body[0])<<8 | int(body[1])
				if len(body) >= 2+n {
					t := string(body[2 : 2+n])
					got = append(got, S(t))
					if t == until {
						return got
					}
					continue
				}
			}
			got = append(got, B([]byte{typ}))
		}
	}

	outs := []*Sx{}
	for _, st := range in.Field("steps") {
		switch st.List[0].Atom {
		case "api":
			u := st.List[2].Str()
			var err error
			if st.List[1].Atom == "update" {
				_, err = a.Update(ctx, &auth.UpdateAccountRequest{Username: u, Password: st.List[3].Str()})
				if err == nil {
					h, _ := stored(u)
					if alg == "bcrypt" {
						bv.add(h, st.List[3].Str())
					}
					outs = append(outs, L(A("ok"), S(h)))
					continue
				}
			} else {
				_, err = a.Delete(ctx, &auth.DeleteAccountRequest{Username: u})
			}
			if err != nil {
				outs = append(outs, L(A("err")))
			} else {
				outs = append(outs, L(A("ok")))
			}
		case "sock":
			s, err := dial()
			if err != nil {
				outs = append(outs, L(A("dialerr")))
				continue
			}
			cx := st.Field1("conn")
			if cx.List[2].Bool() && alg == "bcrypt" {
				p := ""
				if cx.List[3].Bool() {
					p = cx.List[5].Str()
				}
				if h, ok := stored(cx.List[4].Str()); ok {
					bv.add(h, p)
				}
			}
			var w bytes.Buffer
			for _, p := range st.Field("pre") {
				w.Write(p.Bytes())
			}
			w.Write(awConnect(cx))
			for _, p := range st.Field("post") {
				w.Write(p.Bytes())
			}
			s.c.Write(w.Bytes())
			typ, body, e := s.next(3 * time.Second)
			var first *Sx
			accepted := false
			switch {
			case e != "":
				first = L(A("none"), A(e))
			case typ == 0x20 && len(body) >= 2:
				first = L(A("connack"), I(int(body[1])))
				accepted = body[1] == 0
			default:
				first = L(A("packet"), B([]byte{typ}))
			}
			if accepted {
				open = append(open, s)
				outs = append(outs, L(A("sock"), first, A("open")))
				continue
			}
			// a refused connection: keep sending, then see whether the server closes it
			end := "open"
			if e == "" || e == "timeout" {
				for _, p := range st.Field("late") {
					s.c.Write(p.Bytes())
				}
				for {
					_, _, e2 := s.next(40 * time.Millisecond)
					if e2 == "timeout" {
						break
					}
					if e2 != "" {
						end = e2
						break
					}
				}
			} else {
				end = e
			}
			s.c.Close()
			outs = append(outs, L(A("sock"), first, A(end)))
		}
	}
	insp := awInspect(srv)

	// an authenticated client publishes: the observer must receive exactly that (non-vacuity of
	// "the observer saw nothing from the strangers"), and only now a retained message exists
	seen := []*Sx{A("publisher_refused")}
	fin := []*Sx{}
	pb := in.Field1("publisher")
	if h, ok := stored(pb.List[0].Str()); ok && alg == "bcrypt" {
		bv.add(h, pb.List[1].Str())
	}
	if p, err := dial(); err == nil {
		open = append(open, p)
		p.c.Write(awConnect(authConnSx(4, "publisher", true, true, pb.List[0].Str(), pb.List[1].Str(), A("none"), A("none"))))
		typ, body, e := p.next(3 * time.Second)
		if e == "" && typ == 0x20 && len(body) >= 2 && body[1] == 0 {
			p.c.Write(awPkt(0x31, append(awStr([]byte("ok/t")), []byte("hello")...)))
			seen = observed("ok/t")
			var ret []*Sx
			srv.RetainedService().Iterate(func(m *gmqtt.Message) bool { ret = append(ret, S(m.Topic)); return true })
			fin = append(fin, K("retained", ret...))
		}
	}
	return L(K("setup", setup...), K("outs", outs...), K("observer_got", seen...), K("inspect", insp.List...), K("final", fin...), K("bv", bv.rows...))
}

func awGen(r *Rng, i int) *Sx {
	alg := []string{"plain", "md5", "sha256", "bcrypt"}[i%4]
	used := map[string]bool{}
	pw := func(p string) string { used[p] = true; return p }
	users := []string{"alice", "bob", "Alice", "al", "\xc3\xa9ve"}
	pws := []string{"secret", "Secret", "secret ", "", "s3", "pass word", strings.Repeat("a", 72)}
	tab := map[string]string{"obs": pw("obspw")}
	accounts := []*Sx{L(S("obs"), S("obspw"))}
	for k := 0; k < r.Range(1, 3); k++ {
		u, p := Pick(r, users), pw(Pick(r, pws))
		tab[u] = p
		accounts = append(accounts, L(S(u), S(p)))
	}
	if r.Chance(1, 30) {
		tab[authLong] = pw(authLong[:60000])
		accounts = append(accounts, L(S(authLong), S(authLong[:60000])))
	}
	names := func() []string {
		ns := []string{}
		for u := range tab {
			if u != "obs" {
				ns = append(ns, u)
			}
		}
		sort.Strings(ns)
		return ns
	}
	stray := awStrayPackets()
	someStray := func(lo, hi int) []*Sx {
		xs := []*Sx{}
		for k := 0; k < r.Range(lo, hi); k++ {
			xs = append(xs, B(Pick(r, stray)))
		}
		return xs
	}
	allow0 := r.Chance(1, 2)
	steps := []*Sx{}
	nsock := 0
	for k := 0; k < r.Range(4, 10); k++ {
		if r.Chance(1, 6) {
			if ns := names(); len(ns) > 0 && r.Chance(1, 3) {
				u := Pick(r, ns)
				delete(tab, u)
				steps = append(steps, L(A("api"), A("delete"), S(u)))
			} else {
				u, p := Pick(r, users), pw(Pick(r, pws))
				if alg == "bcrypt" && len(p) > 72 {
					p = pw("s3")
				}
				tab[u] = p
				steps = append(steps, L(A("api"), A("update"), S(u), S(p)))
			}
			continue
		}
		// credentials: right, near miss, unknown user, deleted user
		u := Pick(r, users)
		if ns := names(); len(ns) > 0 && r.Chance(3, 4) {
			u = Pick(r, ns)
		}
		p, known := tab[u]
		if !known {
			p = Pick(r, pws)
		}
		switch x := r.Intn(10); {
		case x < 5:
		case x < 8:
			p = authNear(r, p)
		case x < 9:
			u = authNear(r, u)
			if !awValidUTF8(u) {
				u = "zz"
			}
		default:
			if h, ok := authStored(alg, p); ok {
				p = h
			}
		}
		if !awValidUTF8(p) || strings.Contains(p, "\x00") { // the decoder refuses such CONNECTs (C06)
			p = "nope"
		}
		pw(p)
		level := Pick(r, []int{3, 4, 4, 5, 5})
		if r.Chance(1, 25) {
			level = Pick(r, []int{0, 2, 6})
		}
		uf, pf := r.Chance(5, 6), r.Chance(5, 6)
		am, ad := A("none"), A("none")
		if level == 5 && r.Chance(1, 5) {
			am = S(Pick(r, []string{"", "SCRAM-SHA-1", "x"}))
			if r.Bool() {
				ad = S("data")
			}
		}
		cid := fmt.Sprintf("c%d", nsock)
		if !allow0 && r.Chance(1, 12) {
			cid = ""
		}
		nsock++
		sock := []*Sx{A("sock"), K("conn", authConnSx(level, cid, uf, pf, u, p, am, ad))}
		_, userKnown := tab[u]
		switch x := r.Intn(10); {
		case x < 3:
			sock = append(sock, K("pre", someStray(1, 3)...))
		case x < 5 && (!userKnown || !uf):
			// packets already in the socket buffer when the CONNECT is refused (only for a user name
			// that is certainly no account: after an accepted CONNECT they would be legitimate)
			sock = append(sock, K("post", someStray(1, 4)...), K("late", someStray(0, 3)...))
		case x < 8:
			sock = append(sock, K("late", someStray(1, 3)...))
		}
		steps = append(steps, L(sock...))
	}
	return L(K("alg", A(alg)), K("allow_zero", Bool(allow0)), K("accounts", accounts...), K("observer", L(S("obs"), S("obspw"))),
		K("publisher", L(S("obs"), S("obspw"))), K("steps", steps...), authHashField(alg, used))
}

func awValidUTF8(s string) bool { return packets.ValidUTF8([]byte(s)) }

func init() {
	register(&Suite{Name: "auth", Gen: authGen, Run: authRun, Par: 1})
	register(&Suite{Name: "authwire", Gen: awGen, Run: awRun, Par: 1})
}
